import TonicModel.Basic.HMapLite
import TonicModel.Basic.Base64
/-
Model of `tonic/src/service/interceptor.rs` (`InterceptedService::call`, `ResponseFuture`,
`ResponseBody`), of the `tonic::Request` ⇄ `http::Request` conversions it goes through
(`request.rs`: `from_http`, `into_parts`, `from_parts`, `into_http` with `SanitizeHeaders`), of
`MetadataMap::{into_headers, into_sanitized_headers}` and of `Status::into_http` / `add_header`
(`status.rs`).  It follows the code branch by branch; the `unwrap` in `Status::into_http` is the
explicit outcome `panic`.

The interceptor is an arbitrary (stateful — it is `FnMut`) function on `(metadata, extensions)`;
the wrapped service is an arbitrary stateful function on `http::Request`.  The body type is a
parameter: the model can only move it.
-/
namespace Interceptor
open HMapLite HttpLite

/-! ### metadata/map.rs -/

/-- `MetadataMap::GRPC_RESERVED_HEADERS` -/
def reservedHeaders : List Bytes :=
  [str "te", str "user-agent", str "content-type", str "grpc-message", str "grpc-message-type",
   str "grpc-status"]

/-- `MetadataMap::from_headers` / `into_headers` are the identity on the header map. -/
def metadataFromHeaders (h : Hdrs) : Hdrs := h
def metadataIntoHeaders (m : Hdrs) : Hdrs := m

/-- `MetadataMap::into_sanitized_headers`: remove each reserved name. -/
def intoSanitizedHeaders (m : Hdrs) : Hdrs := removeAll reservedHeaders m

/-! ### request.rs -/

/-- `tonic::Request<T>` -/
structure TRequest (β : Type) where
  metadata : Hdrs
  message : β
  extensions : Ext

inductive SanitizeHeaders | yes | no

/-- `Request::from_http` (= `into_parts` + `from_http_parts`): headers become the metadata,
extensions are kept, method / URI / version are dropped. -/
def fromHttp {β} (r : Request β) : TRequest β :=
  { metadata := metadataFromHeaders r.headers, message := r.body, extensions := r.ext }

def intoParts {β} (t : TRequest β) : Hdrs × Ext × β := (t.metadata, t.extensions, t.message)

def fromParts {β} (md : Hdrs) (ext : Ext) (msg : β) : TRequest β :=
  { metadata := md, message := msg, extensions := ext }

/-- `Request::into_http(uri, method, version, sanitize)` -/
def intoHttp {β} (t : TRequest β) (uri method : Bytes) (version : Nat) (s : SanitizeHeaders) :
    Request β :=
  { method := method, version := version, uri := uri,
    headers := (match s with
      | .yes => intoSanitizedHeaders t.metadata
      | .no => metadataIntoHeaders t.metadata),
    ext := t.extensions, body := t.message }

/-! ### status.rs: `add_header`, `into_http` -/

/-- `Code::from_i32` followed by `as i32`: unknown integers become `Unknown` (2). -/
def codeFromI32 (n : Nat) : Nat := if n ≤ 16 then n else 2

/-- `Code::to_header_value`, arm by arm. -/
def codeHeaderValue : Nat → Bytes
  | 0 => str "0" | 1 => str "1" | 2 => str "2" | 3 => str "3" | 4 => str "4"
  | 5 => str "5" | 6 => str "6" | 7 => str "7" | 8 => str "8" | 9 => str "9"
  | 10 => str "10" | 11 => str "11" | 12 => str "12" | 13 => str "13" | 14 => str "14"
  | 15 => str "15" | 16 => str "16"
  | _ => str "2"

/-- `ENCODING_SET` (CONTROLS + space `"` `#` `%` `<` `>` backquote `?` `{` `}`) as used by
`percent_encode`: non-ASCII bytes are always encoded. -/
def inEncodeSet (b : UInt8) : Bool :=
  let v := b.toNat
  v < 32 || v == 127 || 128 ≤ v ||
  v == 32 || v == 34 || v == 35 || v == 37 || v == 60 || v == 62 || v == 96 || v == 63 ||
  v == 123 || v == 125

def hexUpper (n : Nat) : UInt8 := if n < 10 then UInt8.ofNat (48 + n) else UInt8.ofNat (55 + n)

def percentEncode : Bytes → Bytes
  | [] => []
  | b :: bs =>
    if inEncodeSet b then 37 :: hexUpper (b.toNat / 16) :: hexUpper (b.toNat % 16) :: percentEncode bs
    else b :: percentEncode bs

/-- `HeaderValue::from_maybe_shared` accepts exactly these bytes. -/
def validValueByte (b : UInt8) : Bool := (32 ≤ b.toNat && b.toNat != 127) || b.toNat == 9

def nameGrpcStatus : Bytes := str "grpc-status"
def nameGrpcMessage : Bytes := str "grpc-message"
def nameGrpcDetails : Bytes := str "grpc-status-details-bin"
def nameContentType : Bytes := str "content-type"
def grpcContentType : Bytes := str "application/grpc"

/-- the custom metadata a status contributes to a header map: reserved names removed, and (fix
`fix-C12-status-details-metadata`) the name of the `details` field as well, as the doc comment
of `Status::metadata` promises. -/
def statusMetadataHeaders (st : GStatus) : Hdrs :=
  remove nameGrpcDetails (intoSanitizedHeaders st.metadata)

/-- the same *before* the fix (the code as found): `grpc-status-details-bin` in the metadata
survives when `details` is empty. -/
def statusMetadataHeadersAsFound (st : GStatus) : Hdrs := intoSanitizedHeaders st.metadata

/-- `Status::add_header`, parameterised by the metadata contribution; `none` = `Err(..)`. -/
def addHeaderWith (mdHeaders : Hdrs) (st : GStatus) (h : Hdrs) : Option Hdrs :=
  let h := extend h mdHeaders
  let h := insert nameGrpcStatus (codeHeaderValue st.code, false) h
  let h? : Option Hdrs :=
    if st.message.isEmpty then some h
    else
      let w := percentEncode st.message
      if w.all validValueByte then some (insert nameGrpcMessage (w, false) h) else none
  match h? with
  | none => none
  | some h =>
    if st.details.isEmpty then some h
    else
      let d := B64.encode false st.details
      if d.all validValueByte then some (insert nameGrpcDetails (d, false) h) else none

def addHeader (st : GStatus) (h : Hdrs) : Option Hdrs := addHeaderWith (statusMetadataHeaders st) st h
def addHeaderAsFound (st : GStatus) (h : Hdrs) : Option Hdrs :=
  addHeaderWith (statusMetadataHeadersAsFound st) st h

/-- `http::Response::new`: 200, HTTP/1.1, no headers, no extensions.  Versions are numbered
9, 10, 11, 2, 3. -/
def responseNew {ρ} (b : ρ) : Response ρ := { status := 200, version := 11, headers := [], ext := [], body := b }

/-- `Status::into_http::<B>()`; `none` = the `unwrap` panicked. -/
def statusIntoHttpWith (add : GStatus → Hdrs → Option Hdrs) {ρ} (dflt : ρ) (st : GStatus) : Option (Response ρ) :=
  let r := responseNew dflt
  let h := insert nameContentType (grpcContentType, false) r.headers
  match add st h with
  | some h => some { r with headers := h }
  | none => none

def statusIntoHttp {ρ} (dflt : ρ) (st : GStatus) : Option (Response ρ) := statusIntoHttpWith addHeader dflt st

/-! ### service/interceptor.rs -/

/-- `ResponseBody<B>` -/
inductive RespBody (ρ : Type) | empty | wrap (b : ρ)
deriving Repr

/-- What a caller of `InterceptedService` gets from the response future. -/
inductive Outcome (ρ ε : Type)
  | response (r : Response (RespBody ρ))
  | error (e : ε)
  | panic
deriving Repr

/-- An interceptor: `FnMut(Request<()>) -> Result<Request<()>, Status>` with state `σ`. -/
abbrev Icpt (σ : Type) := σ → Hdrs × Ext → σ × Except GStatus (Hdrs × Ext)

/-- The wrapped service: stateful, may fail with its own error type. -/
abbrev Inner (ι β ρ ε : Type) := ι → Request β → ι × Except ε (Response ρ)

structure CallResult (σ ι β ρ ε : Type) where
  icpt : σ
  inner : ι
  /-- the request handed to `inner.call`, `none` iff the wrapped service was not invoked -/
  innerSaw : Option (Request β)
  out : Outcome ρ ε

/-- `ResponseFuture::poll` for `Kind::Status`, parameterised by `Status::add_header`. -/
def rejectOutcomeWith (add : GStatus → Hdrs → Option Hdrs) {ρ ε} (st : GStatus) : Outcome ρ ε :=
  match statusIntoHttpWith add () st with
  | some r => .response { status := r.status, version := r.version, headers := r.headers, ext := r.ext, body := RespBody.empty }
  | none => .panic

/-- `InterceptedService::call` + `ResponseFuture::poll`, parameterised by `Status::add_header`
(so that the code as found and the repaired code are both instances). -/
def callWith (add : GStatus → Hdrs → Option Hdrs) {σ ι β ρ ε}
    (f : Icpt σ) (inner : Inner ι β ρ ε) (s : σ) (i : ι) (req : Request β) : CallResult σ ι β ρ ε :=
  let uri := req.uri
  let method := req.method
  let version := req.version
  let treq := fromHttp req
  let (metadata, extensions, msg) := intoParts treq
  match f s ((fromParts metadata extensions ()).metadata, (fromParts metadata extensions ()).extensions) with
  | (s', .ok (md', ext')) =>
    let (metadata, extensions, _) := intoParts (fromParts md' ext' ())
    let treq := fromParts metadata extensions msg
    let hreq := intoHttp treq uri method version .no
    match inner i hreq with
    | (i', .ok res) =>
      { icpt := s', inner := i', innerSaw := some hreq,
        out := .response { status := res.status, version := res.version, headers := res.headers,
                           ext := res.ext, body := RespBody.wrap res.body } }
    | (i', .error e) => { icpt := s', inner := i', innerSaw := some hreq, out := .error e }
  | (s', .error status) =>
    { icpt := s', inner := i, innerSaw := none, out := rejectOutcomeWith add status }

/-- `Service::poll_ready` outcomes -/
inductive Poll (ε : Type) | ready | pending | err (e : ε)
deriving Repr, DecidableEq

/-- `InterceptedService::poll_ready` is the wrapped service's (back-pressure and readiness
errors pass through; the interceptor is not consulted). -/
def pollReady {ι ε} (innerReady : ι → Poll ε) (i : ι) : Poll ε := innerReady i

/-- the code with `fix-C12-status-details-metadata` applied (what the harness runs against) -/
def call {σ ι β ρ ε} (f : Icpt σ) (inner : Inner ι β ρ ε) (s : σ) (i : ι) (req : Request β) :
    CallResult σ ι β ρ ε := callWith addHeader f inner s i req

/-- the code as found -/
def callAsFound {σ ι β ρ ε} (f : Icpt σ) (inner : Inner ι β ρ ε) (s : σ) (i : ι) (req : Request β) :
    CallResult σ ι β ρ ε := callWith addHeaderAsFound f inner s i req

/-- A sequence of calls on one `InterceptedService` value: states are threaded; per call we keep
what the wrapped service saw (or `none`) and the outcome. -/
def runCalls {σ ι β ρ ε} (f : Icpt σ) (inner : Inner ι β ρ ε) :
    σ → ι → List (Request β) → σ × ι × List (Option (Request β) × Outcome ρ ε)
  | s, i, [] => (s, i, [])
  | s, i, r :: rs =>
    let c := call f inner s i r
    let (s', i', rest) := runCalls f inner c.icpt c.inner rs
    (s', i', (c.innerSaw, c.out) :: rest)

/-! ### scripted interceptors (what the harness drives; one constructor per API call used) -/

inductive Op
  /-- raw `HeaderMap::insert` on `into_headers()` (any name, reserved included) -/
  | hins (n : Bytes) (v : HVal)
  | happ (n : Bytes) (v : HVal)
  | hrem (n : Bytes)
  /-- `MetadataMap::insert` / `append` / `remove` (ASCII keys) -/
  | mins (n : Bytes) (v : Bytes)
  | mapp (n : Bytes) (v : Bytes)
  | mrem (n : Bytes)
  /-- `MetadataMap::insert_bin` / `append_bin` / `remove_bin`: the value is unpadded base64 -/
  | bins (n : Bytes) (raw : Bytes)
  | bapp (n : Bytes) (raw : Bytes)
  | brem (n : Bytes)
  /-- `MetadataMap::clear` -/
  | clear
  /-- insert header `n` := decimal count of calls this interceptor has seen before (its state) -/
  | cnt (n : Bytes)
  /-- `Extensions::insert::<T_id>` / `remove::<T_id>` / `clear` -/
  | xset (id : Nat) (v : Bytes)
  | xrm (id : Nat)
  | xclear
deriving Repr

def Op.apply (count : Nat) : Op → Hdrs × Ext → Hdrs × Ext
  | .hins n v, (h, x) => (insert (normName n) v h, x)
  | .happ n v, (h, x) => (append (normName n) v h, x)
  | .hrem n, (h, x) => (remove (normName n) h, x)
  | .mins n v, (h, x) => (insert (normName n) (v, false) h, x)
  | .mapp n v, (h, x) => (append (normName n) (v, false) h, x)
  | .mrem n, (h, x) => (remove (normName n) h, x)
  | .bins n raw, (h, x) => (insert (normName n) (B64.encode false raw, false) h, x)
  | .bapp n raw, (h, x) => (append (normName n) (B64.encode false raw, false) h, x)
  | .brem n, (h, x) => (remove (normName n) h, x)
  | .clear, (_, x) => ([], x)
  | .cnt n, (h, x) => (insert (normName n) (decimal count, false) h, x)
  | .xset id v, (h, x) => (h, Ext.set id v x)
  | .xrm id, (h, x) => (h, Ext.unset id x)
  | .xclear, (h, _) => (h, [])

/-- syntactic: does the operation name header `k` (or wipe everything)?  "What the interceptor
changes" in the property's sense. -/
def Op.mentions (k : Bytes) : Op → Bool
  | .hins n _ | .happ n _ | .hrem n | .mins n _ | .mapp n _ | .mrem n
  | .bins n _ | .bapp n _ | .brem n | .cnt n => normName n == k
  | .clear => true
  | .xset _ _ | .xrm _ | .xclear => false

def applyOps (count : Nat) (ops : List Op) (mx : Hdrs × Ext) : Hdrs × Ext :=
  ops.foldl (fun acc op => op.apply count acc) mx

/-- a script: operations, then accept or reject with a status -/
structure Script where
  ops : List Op
  reject : Option GStatus
deriving Repr

/-- The scripted interceptor: its state is the number of calls seen; call `c` runs script
`c mod n`. -/
def scripted (scripts : List Script) : Icpt Nat := fun c mx =>
  match scripts[c % scripts.length]? with
  | none => (c + 1, .ok mx)
  | some sc =>
    let r := applyOps c sc.ops mx
    match sc.reject with
    | none => (c + 1, .ok r)
    | some st => (c + 1, .error st)

/-- an interceptor that also records what it was given and what it answered (the harness's
closure does the same) -/
def logged {σ} (f : Icpt σ) : Icpt (σ × List ((Hdrs × Ext) × Except GStatus (Hdrs × Ext))) :=
  fun (s, log) mx =>
    let (s', r) := f s mx
    ((s', log ++ [(mx, r)]), r)

/-! ### `ResponseBody<B>`: `poll_frame` / `is_end_stream` / `size_hint` delegate or are empty -/

def RespBody.isEndStream {ρ} (innerEos : ρ → Bool) : RespBody ρ → Bool
  | .empty => true
  | .wrap b => innerEos b

/-- exact size hints only (`lower = upper`) -/
def RespBody.sizeHint {ρ} (innerSize : ρ → Nat) : RespBody ρ → Nat
  | .empty => 0
  | .wrap b => innerSize b

def RespBody.frames {ρ} (innerFrames : ρ → Body) : RespBody ρ → Body
  | .empty => { chunks := [], trailers := none }
  | .wrap b => innerFrames b

/-! ### client side: `client/grpc.rs` (`GrpcConfig::prepare_request`, `Grpc::create_response`) and
`Status::from_header_map` — the path a generated client with `with_interceptor` takes:
`prepare_request` (sanitising) → `InterceptedService` (not sanitising) → transport, and back. -/

/-- `prepare_request` with no compression configured.  The origin is given as its
`scheme://authority` prefix, the *path* of its path-and-query (`""` when absent) and whether it
has a query (the origin's query is dropped; since fix "an origin whose path is / adds no prefix …"
only the PATH decides whether there is a prefix: `""` and `"/"` contribute nothing). -/
def prepareRequest {β} (originPrefix originPath : Bytes) (_originHasQuery : Bool) (path : Bytes)
    (t : TRequest β) : Request β :=
  let pnq := if originPath.isEmpty || originPath == str "/" then path
             else originPath ++ path
  let r := intoHttp t (originPrefix ++ pnq) (str "POST") 2 .yes
  let h := insert (str "te") (str "trailers", false) r.headers
  let h := insert nameContentType (grpcContentType, false) h
  { r with headers := h }

/-- The path join of `prepare_request` AS FOUND at the pinned commit: the code compared the whole
path-and-query with `"/"`, so `/?q` counted as a base path and yielded `//…`. -/
def pathJoinAsFound (originPath : Bytes) (originHasQuery : Bool) (path : Bytes) : Bytes :=
  if originPath.isEmpty || (originPath == str "/" && !originHasQuery) then path else originPath ++ path

/-- `Code::from_bytes` (then `as i32`), arm by arm -/
def codeFromBytes (b : Bytes) : Nat :=
  if b == str "0" then 0 else if b == str "1" then 1 else if b == str "2" then 2
  else if b == str "3" then 3 else if b == str "4" then 4 else if b == str "5" then 5
  else if b == str "6" then 6 else if b == str "7" then 7 else if b == str "8" then 8
  else if b == str "9" then 9 else if b == str "10" then 10 else if b == str "11" then 11
  else if b == str "12" then 12 else if b == str "13" then 13 else if b == str "14" then 14
  else if b == str "15" then 15 else if b == str "16" then 16 else 2

def hexDigitVal (c : UInt8) : Option Nat :=
  let v := c.toNat
  if 48 ≤ v ∧ v ≤ 57 then some (v - 48)
  else if 65 ≤ v ∧ v ≤ 70 then some (v - 55)
  else if 97 ≤ v ∧ v ≤ 102 then some (v - 87)
  else none

def byteOfNibbles (x y : Nat) : UInt8 := UInt8.ofNat (x * 16 + y)

/-- `percent_encoding::percent_decode`: `%XX` with two hex digits is decoded, any other byte
(a lone `%` included) is kept. -/
def percentDecodeLenient : Bytes → Bytes
  | [] => []
  | c :: rest =>
    if c = 37 then
      match rest with
      | a :: b :: rest' =>
        match hexDigitVal a, hexDigitVal b with
        | some x, some y => byteOfNibbles x y :: percentDecodeLenient rest'
        | _, _ => c :: percentDecodeLenient (a :: b :: rest')
      | [a] => [c, a]
      | [] => [c]
    else c :: percentDecodeLenient rest

inductive FromHeaderMap
  | absent
  /-- the `expect` on the details base64 (as found) / the error-status branch (with C04's fix):
  not modelled further -/
  | badDetails
  /-- the message is not UTF-8: the text of the replacement status is not modelled -/
  | badMessage
  | status (st : GStatus)
deriving Repr

/-- the `grpc-message` part of `from_header_map`: first value, percent-decoded, must be UTF-8 -/
def messageFromHeaders (utf8 : Bytes → Bool) (h : Hdrs) : Option Bytes :=
  match (getAll nameGrpcMessage h).head? with
  | some v => if utf8 (percentDecodeLenient v.1) then some (percentDecodeLenient v.1) else none
  | none => some []

/-- the `grpc-status-details-bin` part: first value, base64 (`STANDARD` engine, padding optional) -/
def detailsFromHeaders (h : Hdrs) : Option Bytes :=
  match (getAll nameGrpcDetails h).head? with
  | some v => B64.decode v.1
  | none => some []

/-- `Status::from_header_map`; `utf8` stands for `str::from_utf8(..).is_ok()`. -/
def statusFromHeaderMap (utf8 : Bytes → Bool) (h : Hdrs) : FromHeaderMap :=
  match (getAll nameGrpcStatus h).head? with
  | none => .absent
  | some cv =>
    let other := remove nameGrpcDetails (remove nameGrpcMessage (remove nameGrpcStatus h))
    match detailsFromHeaders h, messageFromHeaders utf8 h with
    | none, _ => .badDetails
    | some _, none => .badMessage
    | some d, some m =>
      .status { code := codeFromBytes cv.1, message := m, details := d, metadata := metadataFromHeaders other }

/-- What `Grpc::server_streaming` returns (before the stream is polled). -/
inductive ClientResult
  /-- `Ok(Response)`: metadata and extensions of the response -/
  | ok (md : Hdrs) (ext : Ext)
  | err (st : GStatus)
  /-- the transport service failed (`Status::from_error_generic`): not modelled further -/
  | transport
  | panic
  /-- outside the modelled fragment (compressed response, no `grpc-status` in the headers, …) -/
  | unmodelled
deriving Repr, DecidableEq

/-- `Grpc::create_response` for a response whose headers carry the status (trailers-only), no
compression enabled on the client. -/
def createResponse (utf8 : Bytes → Bool) (headers : Hdrs) (ext : Ext) : ClientResult :=
  match (getAll (str "grpc-encoding") headers).head? with
  | some v => if v.1 == str "identity" then go else .unmodelled
  | none => go
where
  go : ClientResult :=
    match statusFromHeaderMap utf8 headers with
    | .absent => .unmodelled
    | .badDetails => .unmodelled
    | .badMessage => .unmodelled
    | .status st => if st.code != 0 then .err st else .ok (metadataFromHeaders headers) ext

/-- One client call through `Grpc<InterceptedService<T, F>>::server_streaming`. -/
def clientCall {σ ι β ρ ε} (utf8 : Bytes → Bool) (f : Icpt σ) (inner : Inner ι β ρ ε) (s : σ) (i : ι)
    (originPrefix originPath : Bytes) (originHasQuery : Bool) (path : Bytes) (t : TRequest β) :
    CallResult σ ι β ρ ε × ClientResult :=
  let c := call f inner s i (prepareRequest originPrefix originPath originHasQuery path t)
  (c, match c.out with
      | .response r => createResponse utf8 r.headers r.ext
      | .error _ => .transport
      | .panic => .panic)

/-! ### server side: `service/router.rs` — `Routes::add_service(InterceptedService<S, F>)`.
`NamedService for InterceptedService<S, I>` has `NAME = S::NAME`, the route is
`/{NAME}/{*rest}` (axum/matchit: the catch-all does not match the empty string), anything else
goes to the `unimplemented` fallback. -/

def routeMatches (name path : Bytes) : Bool :=
  ((47 :: name) ++ [47]).isPrefixOf path && ((47 :: name) ++ [47]).length < path.length

/-- the `unimplemented` fallback: `Status::unimplemented("").into_http()` with an empty body; axum's
top-level route future adds `content-length: 0` for the exactly-empty body. -/
def unimplementedResponse : Option (Response Unit) :=
  (statusIntoHttp () { code := 12, message := [], details := [], metadata := [] }).map
    (fun r => { r with headers := insert (str "content-length") (str "0", false) r.headers })

inductive Routed (σ ι β ρ ε : Type)
  /-- the path names the intercepted service: exactly a `call` on it -/
  | service (c : CallResult σ ι β ρ ε)
  /-- the path names another registered service: neither interceptor nor wrapped service run -/
  | other
  /-- no route: the fallback answers; neither interceptor nor wrapped service run -/
  | fallback (r : Option (Response Unit))

/-- `Routes::call` for a router holding the intercepted service under `name` and some other
service under `otherName` (distinct names). -/
def routesCall {σ ι β ρ ε} (name otherName : Bytes) (f : Icpt σ) (inner : Inner ι β ρ ε) (s : σ) (i : ι)
    (path : Bytes) (req : Request β) : Routed σ ι β ρ ε :=
  if routeMatches name path then .service (call f inner s i req)
  else if routeMatches otherName path then .other
  else .fallback unimplementedResponse

end Interceptor

/-! ### appended by the C12 dimension audit: `ResponseFuture` as a value that is polled later,
non-exact hints of the wrapped body -/
namespace Interceptor
open HMapLite HttpLite

/-- `ResponseBody::size_hint` as `(lower, upper)` for arbitrary hints of the wrapped body -/
def RespBody.sizeHintRange {ρ} (innerHint : ρ → Nat × Option Nat) : RespBody ρ → Nat × Option Nat
  | .empty => (0, some 0)
  | .wrap b => innerHint b

/-- `ResponseFuture<F>`: `Kind::Future(F)` — the wrapped service's future, which the model knows by
the number of polls it stays `Pending` and its eventual result — or `Kind::Status(Option<Status>)`. -/
inductive RespFuture (ρ ε : Type)
  | future (pendingPolls : Nat) (res : Except ε (Response ρ))
  | status (st : Option GStatus)

/-- what `Kind::Future` maps a ready result to: `map_ok(|res| res.map(ResponseBody::wrap))` -/
def wrapResult {ρ ε} : Except ε (Response ρ) → Outcome ρ ε
  | .ok res => .response { status := res.status, version := res.version, headers := res.headers,
                           ext := res.ext, body := RespBody.wrap res.body }
  | .error e => .error e

/-- One `ResponseFuture::poll`; `none` = `Poll::Pending`.  `Pending` is only ever the wrapped
future's (it is polled with the caller's `cx`, so the wake-up is the wrapped future's too); the
status arm is ready at once and `take()`s the status — a second poll hits the `unwrap`. -/
def RespFuture.pollWith (add : GStatus → Hdrs → Option Hdrs) {ρ ε} :
    RespFuture ρ ε → RespFuture ρ ε × Option (Outcome ρ ε)
  | .future (n + 1) res => (.future n res, none)
  | .future 0 res => (.future 0 res, some (wrapResult res))
  | .status (some st) => (.status none, some (rejectOutcomeWith add st))
  | .status none => (.status none, some .panic)

/-- poll until ready (at most `fuel` polls): the outcome and the number of `Pending`s seen -/
def RespFuture.resolveWith (add : GStatus → Hdrs → Option Hdrs) {ρ ε} :
    Nat → RespFuture ρ ε → Option (Outcome ρ ε × Nat)
  | 0, _ => none
  | fuel + 1, fut =>
    match fut.pollWith add with
    | (_, some o) => some (o, 0)
    | (fut', none) => (RespFuture.resolveWith add fuel fut').map (fun r => (r.1, r.2 + 1))

/-- the value a (not yet polled) future stands for -/
def RespFuture.outcomeWith (add : GStatus → Hdrs → Option Hdrs) {ρ ε} : RespFuture ρ ε → Outcome ρ ε
  | .future _ res => wrapResult res
  | .status (some st) => rejectOutcomeWith add st
  | .status none => .panic

def RespFuture.pendingPolls {ρ ε} : RespFuture ρ ε → Nat
  | .future n _ => n
  | .status _ => 0

/-- A wrapped service whose futures complete later: state, request ↦ new state, number of polls
the returned future stays `Pending`, its result. -/
abbrev InnerD (ι β ρ ε : Type) := ι → Request β → ι × Nat × Except ε (Response ρ)

/-- the same service with futures that are ready at once -/
def InnerD.now {ι β ρ ε} (inner : InnerD ι β ρ ε) : Inner ι β ρ ε :=
  fun i r => ((inner i r).1, (inner i r).2.2)

structure CallFut (σ ι β ρ ε : Type) where
  icpt : σ
  inner : ι
  innerSaw : Option (Request β)
  fut : RespFuture ρ ε

/-- `InterceptedService::call` alone: everything that happens before the returned future is polled
(the interceptor runs, the wrapped service is called or not); the future is returned as a value. -/
def callFut {σ ι β ρ ε}
    (f : Icpt σ) (inner : InnerD ι β ρ ε) (s : σ) (i : ι) (req : Request β) : CallFut σ ι β ρ ε :=
  let uri := req.uri
  let method := req.method
  let version := req.version
  let treq := fromHttp req
  let (metadata, extensions, msg) := intoParts treq
  match f s ((fromParts metadata extensions ()).metadata, (fromParts metadata extensions ()).extensions) with
  | (s', .ok (md', ext')) =>
    let (metadata, extensions, _) := intoParts (fromParts md' ext' ())
    let treq := fromParts metadata extensions msg
    let hreq := intoHttp treq uri method version .no
    { icpt := s', inner := (inner i hreq).1, innerSaw := some hreq,
      fut := .future (inner i hreq).2.1 (inner i hreq).2.2 }
  | (s', .error status) =>
    { icpt := s', inner := i, innerSaw := none, fut := .status (some status) }

/-- All calls of a sequence are MADE first; the futures are kept (to be polled later, in any order). -/
def runCallsFut {σ ι β ρ ε} (f : Icpt σ) (inner : InnerD ι β ρ ε) :
    σ → ι → List (Request β) → σ × ι × List (Option (Request β) × RespFuture ρ ε)
  | s, i, [] => (s, i, [])
  | s, i, r :: rs =>
    let c := callFut f inner s i r
    let (s', i', rest) := runCallsFut f inner c.icpt c.inner rs
    (s', i', (c.innerSaw, c.fut) :: rest)

end Interceptor

/-! ### appended after Lean review round 4 (lr5-5): kept futures polled by an explicit schedule -/
namespace Interceptor
open HMapLite HttpLite

/-- Futures that were kept (all calls made first) and are polled later by a SCHEDULE: `sched` lists,
poll by poll, which kept future (by index) is polled next — any interleaving, any number of polls
of each, including polls of a future that has already completed.  `ResponseFuture::poll(self:
Pin<&mut Self>, cx)` has the future alone in hand (no service, no sibling future), so a poll
replaces that future by its successor and leaves the others as they are; every `Ready` is logged
with the index of the future that produced it.  An index that names no kept future is skipped. -/
def pollSchedule (add : GStatus → Hdrs → Option Hdrs) {ρ ε} :
    List (RespFuture ρ ε) → List Nat → List (Nat × Outcome ρ ε)
  | _, [] => []
  | futs, k :: ks =>
    match futs[k]? with
    | none => pollSchedule add futs ks
    | some fut =>
      (match (fut.pollWith add).2 with
       | some o => [(k, o)]
       | none => []) ++ pollSchedule add (futs.set k (fut.pollWith add).1) ks

/-- What the owner of kept future `k` gets: the first `Ready` that future produced (a future is not
polled again by a well-behaved owner once it was `Ready`; later log entries are what a misuse sees). -/
def firstReady {ρ ε} (k : Nat) (log : List (Nat × Outcome ρ ε)) : Option (Outcome ρ ε) :=
  (log.find? (fun e => e.1 == k)).map (·.2)

end Interceptor
