import TonicModel.Basic.Bytes
import TonicModel.Basic.Base64
import TonicModel.Basic.TrailerMap
/-
Model of the grpc-web *server* layer, following tonic-web/src/service.rs and the
server-side paths of tonic-web/src/call.rs branch by branch:

* `RequestKind::new`, `is_grpc_web`, `Encoding::from_content_type/from_accept`, the four
  arms of `GrpcWebService::call`  → `classify`
* `coerce_request` (header rewriting)                           → `coerceHeaders`
* `GrpcWebCall::poll_decode` + `decode_chunk` (request body)     → `reqRun`
* `GrpcWebCall::poll_encode`, `make_trailers_frame`, `encode_trailers` (response body) → `respRun`
* `coerce_response` / `Encoding::to_content_type`                → `toContentType`

A body is the list of events the inner `http_body::Body` will produce (the end of the list is
`Ready(None)`); `pending` is an explicit event.  The consumer polls until the first `None` or
the first error, which is what the run functions return (`eos` / `err` is always last).
-/
namespace WebServer
open TMap (Pair str)

inductive Enc where
  | base64
  | none
  deriving DecidableEq, Repr

inductive BodyEv where
  | data (b : Bytes)
  | trailers (h : List Pair)   -- pairs in the order they were appended to the HeaderMap
  | err
  | pending
  deriving DecidableEq, Repr

inductive Out where
  | data (b : Bytes)
  | trailers (h : List Pair)   -- in HeaderMap iteration order
  | err
  | eos
  deriving DecidableEq, Repr

/-! ### content types (call.rs `content_types`, tonic `GRPC_CONTENT_TYPE`) -/

def GRPC_WEB : Bytes := str "application/grpc-web"
def GRPC_WEB_PROTO : Bytes := str "application/grpc-web+proto"
def GRPC_WEB_TEXT : Bytes := str "application/grpc-web-text"
def GRPC_WEB_TEXT_PROTO : Bytes := str "application/grpc-web-text+proto"
def GRPC_CONTENT_TYPE : Bytes := str "application/grpc"

/-- `is_grpc_web`: first `content-type` value is exactly one of the four. -/
def isGrpcWeb (ct : Option Bytes) : Bool :=
  match ct with
  | some v => v == GRPC_WEB || v == GRPC_WEB_PROTO || v == GRPC_WEB_TEXT || v == GRPC_WEB_TEXT_PROTO
  | none => false

/-- `Encoding::from_header`. -/
def encFromHeader (v : Option Bytes) : Enc :=
  match v with
  | some x => if x == GRPC_WEB_TEXT_PROTO || x == GRPC_WEB_TEXT then .base64 else .none
  | none => .none

/-- `Encoding::to_content_type`. -/
def toContentType : Enc → Bytes
  | .base64 => GRPC_WEB_TEXT_PROTO
  | .none => GRPC_WEB_PROTO

inductive Action where
  | web (encoding accept : Enc)
  | status (code : Nat)
  | pass
  deriving DecidableEq, Repr

/-- `RequestKind::new` followed by the `match` in `GrpcWebService::call`. -/
def classify (method : Bytes) (isH2 : Bool) (ct accept : Option Bytes) : Action :=
  if isGrpcWeb ct then
    if method == str "POST" then .web (encFromHeader ct) (encFromHeader accept)
    else .status 405
  else if isH2 then .pass
  else .status 400

/-! ### response body: `poll_encode` -/

/-- `encode_trailers`: `name:value\r\n` per entry, in `HeaderMap::iter` order. -/
def encodeTrailers (h : List Pair) : Bytes :=
  (TMap.group h).flatMap (fun p => p.1 ++ [58] ++ p.2 ++ [13, 10])

/-- `make_trailers_frame` (the `assert!(len <= u32::MAX)` is a hypothesis of the theorems). -/
def makeTrailersFrame (h : List Pair) : Bytes :=
  let block := encodeTrailers h
  128 :: u32be block.length ++ block

def wrap (enc : Enc) (b : Bytes) : Bytes :=
  match enc with
  | .base64 => B64.encode true b
  | .none => b

/-- One output frame per inner frame; a trailers frame becomes a data frame. -/
def respRun (enc : Enc) : List BodyEv → List Out
  | [] => [.eos]
  | .data b :: r => .data (wrap enc b) :: respRun enc r
  | .trailers h :: r => .data (wrap enc (makeTrailersFrame h)) :: respRun enc r
  | .err :: _ => [.err]
  | .pending :: r => respRun enc r

/-! ### request body: `poll_decode` / `decode_chunk` -/

/-- `max_decodable`. -/
def maxDecodable (buf : Bytes) : Nat := buf.length / 4 * 4

/-- Text mode.  `buf` is the undecoded remainder (always < 4 bytes when the inner body is
polled).  Each arriving chunk is appended; as soon as ≥ 4 bytes are buffered the largest
multiple-of-4 prefix is decoded in one call of the base64 engine and returned as a data frame.
At the end of the inner body leftovers are an error. -/
def reqText (buf : Bytes) : List BodyEv → List Out
  | [] => if buf.isEmpty then [.eos] else [.err]
  | .data b :: r =>
    let buf' := buf ++ b
    if buf'.length < 4 then reqText buf' r
    else
      match B64.decode (buf'.take (maxDecodable buf')) with
      | none => [.err]
      | some d => .data d :: reqText (buf'.drop (maxDecodable buf')) r
  | .trailers _ :: _ => [.err]
  | .err :: _ => [.err]
  | .pending :: r => reqText buf r

/-- Binary mode: frames pass through (`map_data` copies, errors become INTERNAL). -/
def reqBin : List BodyEv → List Out
  | [] => [.eos]
  | .data b :: r => .data b :: reqBin r
  | .trailers h :: r => .trailers (TMap.group h) :: reqBin r
  | .err :: _ => [.err]
  | .pending :: r => reqBin r

def reqRun (enc : Enc) (evs : List BodyEv) : List Out :=
  match enc with
  | .base64 => reqText [] evs
  | .none => reqBin evs

/-! ### observations -/

/-- a body event that carries something (`pending` is only a scheduling artefact). -/
def notPending : BodyEv → Bool
  | .pending => false
  | _ => true

/-- all data bytes of a body, concatenated. -/
def flat : List BodyEv → Bytes
  | [] => []
  | .data b :: r => b ++ flat r
  | _ :: r => flat r

/-- concatenated data bytes of an output sequence. -/
def dataOf : List Out → Bytes
  | [] => []
  | .data b :: r => b ++ dataOf r
  | _ :: r => dataOf r

def endsClean (o : List Out) : Bool := o.getLast? == some .eos
def endsErr (o : List Out) : Bool := o.getLast? == some .err

end WebServer
