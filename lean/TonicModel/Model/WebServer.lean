import TonicModel.Basic.Bytes
import TonicModel.Basic.Base64
import TonicModel.Basic.TrailerMap
/-
Model of the grpc-web *server* layer, following tonic-web/src/service.rs and the
server-side paths of tonic-web/src/call.rs branch by branch:

* `RequestKind::new`, `is_grpc_web`, `Encoding::from_content_type/from_accept`, the four
  arms of `GrpcWebService::call`  → `classify`
* `coerce_request` (header rewriting)                           → `coerceRequest`
* `GrpcWebCall::poll_decode` + `decode_chunk` (request body)     → `reqRun`
* `GrpcWebCall::poll_encode`, `make_trailers_frame`, `encode_trailers` (response body) → `respRun`
* `coerce_response` / `Encoding::to_content_type`                → `coerceResponse` / `toContentType`
* `GrpcWebService::call` + `ResponseFuture::poll` as a whole     → `serve` / `respond`

A body is the list of events the inner `http_body::Body` will produce (the end of the list is
`Ready(None)`); `pending` is an explicit event.  The consumer polls until the first `None` or
the first error, which is what the run functions return (`eos` / `err` is always last).
-/
namespace WebServer
open TMap (Pair str)

inductive Enc where
  | base64
  | none
  deriving DecidableEq, Repr

inductive BodyEv where
  | data (b : Bytes)
  | trailers (h : List Pair)   -- pairs in the order they were appended to the HeaderMap
  | err
  | pending
  deriving DecidableEq, Repr

inductive Out where
  | data (b : Bytes)
  | trailers (h : List Pair)   -- in HeaderMap iteration order
  | err
  | eos
  deriving DecidableEq, Repr

/-! ### content types (call.rs `content_types`, tonic `GRPC_CONTENT_TYPE`) -/

def GRPC_WEB : Bytes := str "application/grpc-web"
def GRPC_WEB_PROTO : Bytes := str "application/grpc-web+proto"
def GRPC_WEB_TEXT : Bytes := str "application/grpc-web-text"
def GRPC_WEB_TEXT_PROTO : Bytes := str "application/grpc-web-text+proto"
def GRPC_CONTENT_TYPE : Bytes := str "application/grpc"

/-- `is_grpc_web`: first `content-type` value is exactly one of the four. -/
def isGrpcWeb (ct : Option Bytes) : Bool :=
  match ct with
  | some v => v == GRPC_WEB || v == GRPC_WEB_PROTO || v == GRPC_WEB_TEXT || v == GRPC_WEB_TEXT_PROTO
  | none => false

/-- `Encoding::from_header`. -/
def encFromHeader (v : Option Bytes) : Enc :=
  match v with
  | some x => if x == GRPC_WEB_TEXT_PROTO || x == GRPC_WEB_TEXT then .base64 else .none
  | none => .none

/-- `Encoding::to_content_type`. -/
def toContentType : Enc → Bytes
  | .base64 => GRPC_WEB_TEXT_PROTO
  | .none => GRPC_WEB_PROTO

inductive Action where
  | web (encoding accept : Enc)
  | status (code : Nat)
  | pass
  deriving DecidableEq, Repr

/-- `RequestKind::new` followed by the `match` in `GrpcWebService::call`. -/
def classify (method : Bytes) (isH2 : Bool) (ct accept : Option Bytes) : Action :=
  if isGrpcWeb ct then
    if method == str "POST" then .web (encFromHeader ct) (encFromHeader accept)
    else .status 405
  else if isH2 then .pass
  else .status 400

/-! ### response body: `poll_encode` -/

/-- `encode_trailers`: `name:value\r\n` per entry, in `HeaderMap::iter` order. -/
def encodeTrailers (h : List Pair) : Bytes :=
  (TMap.group h).flatMap (fun p => p.1 ++ [58] ++ p.2 ++ [13, 10])

/-- `make_trailers_frame` (the `assert!(len <= u32::MAX)` is a hypothesis of the theorems). -/
def makeTrailersFrame (h : List Pair) : Bytes :=
  let block := encodeTrailers h
  128 :: u32be block.length ++ block

def wrap (enc : Enc) (b : Bytes) : Bytes :=
  match enc with
  | .base64 => B64.encode true b
  | .none => b

/-- One output frame per inner frame; a trailers frame becomes a data frame. -/
def respRun (enc : Enc) : List BodyEv → List Out
  | [] => [.eos]
  | .data b :: r => .data (wrap enc b) :: respRun enc r
  | .trailers h :: r => .data (wrap enc (makeTrailersFrame h)) :: respRun enc r
  | .err :: _ => [.err]
  | .pending :: r => respRun enc r

/-! ### request body: `poll_decode` / `decode_chunk` -/

/-- `max_decodable`. -/
def maxDecodable (buf : Bytes) : Nat := buf.length / 4 * 4

/-- Text mode.  `buf` is the undecoded remainder (always < 4 bytes when the inner body is
polled).  Each arriving chunk is appended; as soon as ≥ 4 bytes are buffered the largest
multiple-of-4 prefix is decoded in one call of the base64 engine and returned as a data frame.
At the end of the inner body leftovers are an error. -/
def reqText (buf : Bytes) : List BodyEv → List Out
  | [] => if buf.isEmpty then [.eos] else [.err]
  | .data b :: r =>
    let buf' := buf ++ b
    if buf'.length < 4 then reqText buf' r
    else
      match B64.decode (buf'.take (maxDecodable buf')) with
      | none => [.err]
      | some d => .data d :: reqText (buf'.drop (maxDecodable buf')) r
  | .trailers _ :: _ => [.err]
  | .err :: _ => [.err]
  | .pending :: r => reqText buf r

/-- Binary mode: frames pass through (`map_data` copies, errors become INTERNAL). -/
def reqBin : List BodyEv → List Out
  | [] => [.eos]
  | .data b :: r => .data b :: reqBin r
  | .trailers h :: r => .trailers (TMap.group h) :: reqBin r
  | .err :: _ => [.err]
  | .pending :: r => reqBin r

def reqRun (enc : Enc) (evs : List BodyEv) : List Out :=
  match enc with
  | .base64 => reqText [] evs
  | .none => reqBin evs

/-! ### header maps, `coerce_request`, `coerce_response` (service.rs)

A header map is the list of its entries in the order they were appended (`TMap`); all that is
ever observed of it is `get_all` per name (`TMap.getAll`). -/

/-- `HeaderMap::get`: the first value stored under the name. -/
def hget (k : Bytes) (h : List Pair) : Option Bytes := (TMap.getAll k h).head?

/-- `HeaderMap::remove`: all values of the name go. -/
def hremove (k : Bytes) (h : List Pair) : List Pair := h.filter (fun p => !(p.1 == k))

/-- `HeaderMap::insert`: the name keeps exactly this value. -/
def hinsert (k v : Bytes) (h : List Pair) : List Pair := hremove k h ++ [(k, v)]

def CONTENT_TYPE : Bytes := str "content-type"
def CONTENT_LENGTH : Bytes := str "content-length"
def TE : Bytes := str "te"
def ACCEPT : Bytes := str "accept"
def ACCEPT_ENCODING : Bytes := str "accept-encoding"
def TRAILERS : Bytes := str "trailers"
def IDENTITY_DEFLATE_GZIP : Bytes := str "identity,deflate,gzip"

/-- `coerce_request`, the header part: `content-length` removed, then `content-type`, `te` and
`accept-encoding` inserted, in this order. -/
def coerceRequest (h : List Pair) : List Pair :=
  hinsert ACCEPT_ENCODING IDENTITY_DEFLATE_GZIP
    (hinsert TE TRAILERS
      (hinsert CONTENT_TYPE GRPC_CONTENT_TYPE
        (hremove CONTENT_LENGTH h)))

/-- `coerce_response`, the header part: `content-type` of the accepted form inserted; nothing
else is touched (the layer adds no CORS / grpc-web specific header of its own). -/
def coerceResponse (accept : Enc) (h : List Pair) : List Pair :=
  hinsert CONTENT_TYPE (toContentType accept) h

/-! ### `GrpcWebService::call` and `ResponseFuture::poll` as a whole -/

inductive Ver where
  | h09 | h10 | h11 | h2 | h3
  deriving DecidableEq, Repr

/-- `http::request::Parts` as far as anything can observe them: method, version, uri, the
header map and whether the caller's marker is still in the `Extensions`. -/
structure Parts where
  method : Bytes
  version : Ver
  uri : Bytes
  headers : List Pair
  ext : Bool
  deriving DecidableEq, Repr

/-- `Body::new(b)` around a body (the pass-through arm, and `tonic::body::Body` in general):
every frame is handed on as it is. -/
abbrev passRun : List BodyEv → List Out := reqBin

/-- What `call` does with a request. -/
inductive Served where
  /-- answered at once; the inner service is not called -/
  | immediate (status : Nat)
  /-- the inner service is called with these parts; draining the request body it gets `body`;
  `accept = some a`: its response is translated to form `a`, `none`: handed back as it is -/
  | inner (p : Parts) (body : List Out) (accept : Option Enc)
  deriving DecidableEq, Repr

def actionOf (p : Parts) : Action :=
  classify p.method (p.version == Ver.h2) (hget CONTENT_TYPE p.headers) (hget ACCEPT p.headers)

/-- `GrpcWebService::call`: `RequestKind::new` on (headers, method, version), then the four arms. -/
def serve (p : Parts) (body : List BodyEv) : Served :=
  match actionOf p with
  | .web e a => .inner { p with headers := coerceRequest p.headers } (reqRun e body) (some a)
  | .status c => .immediate c
  | .pass => .inner p (passRun body) none

structure Resp where
  status : Nat
  headers : List Pair
  body : List Out
  deriving DecidableEq, Repr

/-- The response the caller of the layer gets, given what the inner service would answer
(status, headers, body events) if it is called: `ResponseFuture::poll`. -/
def respond (p : Parts) (reqBody : List BodyEv) (innerStatus : Nat) (innerHeaders : List Pair)
    (innerBody : List BodyEv) : Resp :=
  match serve p reqBody with
  | .immediate c => { status := c, headers := [], body := [.eos] }
  | .inner _ _ (some a) =>
    { status := innerStatus, headers := coerceResponse a innerHeaders, body := respRun a innerBody }
  | .inner _ _ none => { status := innerStatus, headers := innerHeaders, body := passRun innerBody }

/-! ### observations -/

/-- a body event that carries something (`pending` is only a scheduling artefact). -/
def notPending : BodyEv → Bool
  | .pending => false
  | _ => true

/-- all data bytes of a body, concatenated. -/
def flat : List BodyEv → Bytes
  | [] => []
  | .data b :: r => b ++ flat r
  | _ :: r => flat r

/-- concatenated data bytes of an output sequence. -/
def dataOf : List Out → Bytes
  | [] => []
  | .data b :: r => b ++ dataOf r
  | _ :: r => dataOf r

def endsClean (o : List Out) : Bool := o.getLast? == some .eos
def endsErr (o : List Out) : Bool := o.getLast? == some .err

end WebServer
