import TonicModel.Model.WebClient
import TonicModel.Model.Status
/-
What the CALLER of a gRPC method sees when `tonic::client::Grpc` runs over the grpc-web client
layer: composition of the client-layer model (`WebClient.Fixed`) with the status codec model
(`Status.inferGrpcStatus` / `fromHeaderMap`), following

* `tonic/src/codec/decode.rs` — `Streaming`: data frames are cut into messages, a trailers frame
  is stored, at the end of the body `response()` asks `infer_grpc_status(trailers, 200)`; an
  error of the body is handed to the caller as it is;
* `tonic/src/client/grpc.rs` — `server_streaming` (the stream itself) and `client_streaming`
  (`unary`): first message, then the rest of the stream is drained for the trailers
  ("Missing response message." when a successful stream carried none).

The HTTP response is 200 without headers (what a grpc-web server sends next to an in-body
trailers frame); message frames are uncompressed (flag 0).
-/
namespace WebCaller
open WebServer (Out dataOf)

/-- payloads of the complete uncompressed frames at the front of the delivered bytes (fuel:
one per frame) -/
def messagesAux : Nat → Bytes → List Bytes
  | 0, _ => []
  | f + 1, b =>
    match WebClient.hdr5 b with
    | some (h, n, rest) =>
      if h = 0 ∧ ¬ rest.length < n then rest.take n :: messagesAux f (rest.drop n) else []
    | none => []

def messages (b : Bytes) : List Bytes := messagesAux (b.length + 1) b

/-- the trailers frame the layer handed out (the repaired loop hands out at most one) -/
def trailersOf : List Out → Option HMap
  | [] => none
  | .trailers t :: _ => some t
  | _ :: r => trailersOf r

inductive End where
  /-- the stream ended without a failing status; the trailers stay retrievable -/
  | ok (trailers : Option HMap)
  /-- the stream ended with the status read from the trailers -/
  | status (st : Status.St)
  /-- the layer itself reported an error (an INTERNAL status of tonic-web's own making) -/
  | layer
  | panic
  deriving DecidableEq, Repr

/-- How the stream ends for the caller, given the frames the client layer produced. -/
def endOf (outs : List Out) : End :=
  if outs.getLast? == some Out.err then .layer
  else
    match Status.inferGrpcStatus .fixed (trailersOf outs) 200 with
    | .done => .ok (trailersOf outs)
    | .noStatus => .ok (trailersOf outs)
    | .err st => .status st
    | .panic => .panic

/-- `server_streaming`: the messages, then the end. -/
structure Streamed where
  msgs : List Bytes
  fin : End
  deriving DecidableEq, Repr

def streaming (outs : List Out) : Streamed :=
  { msgs := messages (dataOf outs), fin := endOf outs }

inductive Unary where
  | ok (msg : Bytes) (metadata : HMap)   -- `Response`: the message, metadata = the trailers
  | status (st : Status.St)
  | layer
  | missing                             -- INTERNAL "Missing response message."
  | panic
  deriving DecidableEq, Repr

/-- `unary` (= `client_streaming`): an error anywhere in the stream is the result; otherwise the
first message with the trailers as metadata. -/
def unary (outs : List Out) : Unary :=
  match endOf outs with
  | .ok t =>
    match messages (dataOf outs) with
    | m :: _ => .ok m (t.getD [])
    | [] => .missing
  | .status st => .status st
  | .layer => .layer
  | .panic => .panic

/-! ### the caller's view for an arbitrary response head

`create_response` (client/grpc.rs) hands the HTTP status to `Streaming::new_response`; the
headers become the `Response`'s metadata.  Headers tonic itself interprets (`grpc-status`,
`grpc-encoding`) are not part of these cases.  `content-type` and the version are not read.

* `Streaming` (decode.rs, as repaired by 80251617): the DATA of a response whose status is not
  200 is dropped unread; at the end of the body `infer_grpc_status(trailers, status)`.
* `client_streaming` (unary): an error of `try_next()` — i.e. one that arrives before any message —
  gets the response headers merged into its metadata (`status.metadata_mut().merge(parts)`,
  `HeaderMap::extend`: the headers win); an error while draining for the trailers does not.  On
  success the trailers are merged into the headers (`parts.merge(trailers)`: the trailers win). -/

def endAt (http : Nat) (outs : List Out) : End :=
  if outs.getLast? == some Out.err then .layer
  else
    match Status.inferGrpcStatus .fixed (trailersOf outs) http with
    | .done => .ok (trailersOf outs)
    | .noStatus => .ok (trailersOf outs)
    | .err st => .status st
    | .panic => .panic

def messagesAt (http : Nat) (outs : List Out) : List Bytes :=
  if http = 200 then messages (dataOf outs) else []

def streamingAt (head : WebClient.RespHead) (outs : List Out) : Streamed :=
  { msgs := messagesAt head.status outs, fin := endAt head.status outs }

def unaryAt (head : WebClient.RespHead) (outs : List Out) : Unary :=
  match endAt head.status outs with
  | .ok t =>
    match messagesAt head.status outs with
    | m :: _ => .ok m (HMap.extend head.headers (t.getD []))
    | [] => .missing
  | .status st =>
    match messagesAt head.status outs with
    | [] => .status { st with metadata := HMap.extend st.metadata head.headers }
    | _ :: _ => .status st
  | .layer => .layer
  | .panic => .panic

def missingMessage : Bytes := Ascii.ofString "Missing response message."

end WebCaller
