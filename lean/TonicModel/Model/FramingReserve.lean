import TonicModel.Model.Framing
/-
`self.buf.reserve(len)` of `StreamingInner::decode_chunk` (decode.rs) as a function of the state
the call is made in (C06: an oversized message is refused before memory is reserved for it).
-/
namespace Framing

/-- The reservation one call of `decode_chunk` makes: in the `ReadHeader` state, once the 5-byte
prefix is in the buffer, its flag has been accepted and the declared length has passed the limit
check (the code's order), `len` bytes are reserved; `none` = this call reserves nothing. -/
def Dec.chunkReserve (cfg : DecCfg) (s : DecSt) : Option Nat :=
  match s.ph, s.buf with
  | .hdr, f :: a :: b :: c :: d :: _ =>
    if (f = 0 ∨ (f = 1 ∧ cfg.enc.isSome = true)) ∧ readU32 a b c d ≤ cfg.limit then some (readU32 a b c d)
    else none
  | _, _ => none

variable {α : Type}

/-- `decode_chunk` with its `buf.reserve(len)` made explicit, in the code's order: the flag is
consumed and judged, the length is read and tested against the limit, THEN `len` bytes are reserved
and the body is read.  One function computes the transition and the reservation;
`Dec.decodeChunk` and `Dec.chunkReserve` are its two projections (`decodeChunkT_fst`, `decodeChunkT_snd`). -/
def Dec.decodeChunkT (cd : Codec α) (cfg : DecCfg) (s : DecSt) : (DecSt × DC α) × Option Nat :=
  match s.ph with
  | .failed _ => ((s, .more), none)
  | .body len comp => (Dec.readBody cd s len comp, none)
  | .hdr =>
    match s.buf with
    | f :: a :: b :: c :: d :: rest =>
      let afterFlag : DecSt := { s with buf := a :: b :: c :: d :: rest }
      let proceed (comp : Option Enc) : (DecSt × DC α) × Option Nat :=
        let len := readU32 a b c d
        if len > cfg.limit then (({ s with buf := rest }, .fail ⟨11, .tooLargeDec⟩), none)
        else (Dec.readBody cd { s with buf := rest } len comp, some len)   -- `self.buf.reserve(len)`
      if f = 0 then proceed none
      else if f = 1 then
        match cfg.enc with
        | some e => proceed (some e)
        | none => ((afterFlag, .fail ⟨13, .noEncoding⟩), none)
      else ((afterFlag, .fail ⟨13, .badFlag⟩), none)
    | _ => ((s, .more), none)

end Framing
