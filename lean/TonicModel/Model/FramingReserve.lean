import TonicModel.Model.Framing
/-
`self.buf.reserve(len)` of `StreamingInner::decode_chunk` (decode.rs) as a function of the state
the call is made in (C06: an oversized message is refused before memory is reserved for it).
-/
namespace Framing

/-- The reservation one call of `decode_chunk` makes: in the `ReadHeader` state, once the 5-byte
prefix is in the buffer, its flag has been accepted and the declared length has passed the limit
check (the code's order), `len` bytes are reserved; `none` = this call reserves nothing. -/
def Dec.chunkReserve (cfg : DecCfg) (s : DecSt) : Option Nat :=
  match s.ph, s.buf with
  | .hdr, f :: a :: b :: c :: d :: _ =>
    if (f = 0 ∨ (f = 1 ∧ cfg.enc.isSome = true)) ∧ readU32 a b c d ≤ cfg.limit then some (readU32 a b c d)
    else none
  | _, _ => none

end Framing
