import TonicModel.Model.WebClient
/-
The optional `http_body::Body` methods of the body the grpc-web CLIENT layer returns
(`GrpcWebCall::is_end_stream` / `size_hint`, tonic-web/src/call.rs) next to its `poll_frame` loop
(`WebClient.Fixed`), poll by poll.

`http_body`'s contract: `is_end_stream() == true` means `poll_frame` will return `None`;
`size_hint()` bounds the DATA bytes still to come.  The inner body (hyper's `Incoming`, `Full`, the
harness's scripted body) may give such hints; they speak about the undecoded grpc-web body — whose
last frame carries the trailers and whose bytes may be buffered in `decoded` long after the inner
body has ended.

Two hint functions:
* `delegated` — the code as found: both methods hand on the inner body's answer;
* `outerHint` — the code after `fix: tonic-web client response body hints` (client/Decode):
  `is_end_stream` = nothing buffered, no trailers held, and the inner body has ended (or says so);
  `size_hint` = no bounds (lower 0, no upper: the inner size counts the trailers frame as data).

`runH` is `Fixed.run` with, for every frame, the hint a consumer got when it asked right before
the `poll_frame` call that produced the frame (a `Pending` return starts a new call).
-/
namespace WebClient.Hints
open WebServer (BodyEv Out)

structure Hint where
  eos : Bool
  lower : Nat
  upper : Option Nat
  deriving DecidableEq, Repr

/-- data bytes an event list still carries -/
def dataLen : List BodyEv → Nat
  | [] => 0
  | .data b :: r => b.length + dataLen r
  | _ :: r => dataLen r

/-- The hints of the scripted inner body (harness `ScriptBody`) with `evs` still to come.
`bits`: 1 = `size_hint` is exact (data bytes to come), 2 = `is_end_stream` once nothing is left. -/
def innerHint (bits : Nat) (evs : List BodyEv) : Hint :=
  { eos := (bits / 2 % 2 == 1) && evs.isEmpty,
    lower := if bits % 2 == 1 then dataLen evs else 0,
    upper := if bits % 2 == 1 then some (dataLen evs) else none }

/-- hint function: layer state, `inner_done`, inner events still to come ↦ what the outer body says -/
abbrev HintFn := St → Bool → List BodyEv → Hint

/-- the code as found: `self.inner.is_end_stream()` / `self.inner.size_hint()` -/
def delegated (bits : Nat) : HintFn := fun _ _ evs => innerHint bits evs

/-- the repaired code (client, Decode direction) -/
def outerHint (bits : Nat) : HintFn := fun st innerDone evs =>
  let ih := innerHint bits evs
  { eos := st.decoded.isEmpty && st.trailers.isNone && (innerDone || ih.eos),
    lower := 0,
    upper := none }

/-- `Fixed.drain` with the hint in front of every frame -/
def drainH (hf : HintFn) : Nat → St → Hint → List (Hint × Out)
  | 0, _, h => [(h, .err)]
  | f + 1, st, h =>
    match Fixed.afterPoll true st with
    | .stop os => os.map (fun o => (h, o))
    | .emit o st' => (h, o) :: drainH hf f st' (hf st' true [])
    | .again st' => drainH hf f st' h

/-- `Fixed.run` with the hint in front of every frame; `h` = the hint asked at the beginning of
the `poll_frame` call that is under way -/
def runH (hf : HintFn) (st : St) : List BodyEv → Hint → List (Hint × Out)
  | [], h => drainH hf (st.decoded.length + 3) st h
  | .pending :: r, _ => runH hf st r (hf st false r)
  | .err :: _, h => [(h, .err)]
  | .trailers t :: r, h => runH hf { st with trailers := mergeTrailers st.trailers t } r h
  | .data b :: r, h =>
    match Fixed.afterPoll false { st with decoded := st.decoded ++ b } with
    | .stop os => os.map (fun o => (h, o))
    | .emit o st' => (h, o) :: runH hf st' r (hf st' false r)
    | .again st' => runH hf st' r h

def observeH (hf : HintFn) (evs : List BodyEv) : List (Hint × Out) :=
  runH hf {} evs (hf {} false evs)

/-- data bytes of a frame -/
def outLen : Out → Nat
  | .data b => b.length
  | _ => 0

/-- data bytes a hinted run still delivers -/
def dataAhead : List (Hint × Out) → Nat
  | [] => 0
  | (_, o) :: r => outLen o + dataAhead r

/-- `is_end_stream() == true` is only ever said right before the `None` -/
def endHintOk : List (Hint × Out) → Bool
  | [] => true
  | (h, o) :: r => (!h.eos || o == .eos) && endHintOk r

def upperOk (u : Option Nat) (n : Nat) : Bool :=
  match u with
  | some u => decide (n ≤ u)
  | none => true

/-- at every frame: `lower ≤ data bytes from here on ≤ upper` -/
def sizeHintOk : List (Hint × Out) → Bool
  | [] => true
  | (h, o) :: r =>
    decide (h.lower ≤ outLen o + dataAhead r) && upperOk h.upper (outLen o + dataAhead r) && sizeHintOk r

/-- A consumer that honours `http_body`'s contract: it asks `is_end_stream` before every poll
and, told `true`, takes the stream for ended without polling (hyper does so when it writes a body
out; `tonic::body::Body::new` does so once). -/
def honour : List (Hint × Out) → List Out
  | [] => []
  | (h, o) :: r => if h.eos then [.eos] else o :: honour r

end WebClient.Hints
