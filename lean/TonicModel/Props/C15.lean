import TonicModel.Model.Tls
import TonicModel.Spec.Tls
import TonicModel.Lemmas.Tls
import TonicModel.Lemmas.TlsProc
import TonicModel.Basic.TlsTestPki
/-
C15 — TLS channels and servers authenticate the peer and insist on HTTP/2.
Property theorems only; helper lemmas live in `Lemmas/Tls`.

PARTIAL by construction: certificate-path validation and the handshake are rustls/webpki,
which enter as the parameters `verifies`, `verifiesClient`, `hs` under the contract
`Spec.Tls.RustlsLaws`.  What is proved is that tonic's own decision logic — for EVERY sequence
of builder calls on either side, every URI, every handshake outcome — hands rustls exactly the
configured roots / name / client-auth mode and has no other path to "connected" or "served".
-/
namespace C15
open Tls Spec.Tls

variable {Root Chain : Type}

/-! ### the builders read back what the caller said, for every call sequence -/

/-- For every sequence of `ClientTlsConfig` builder calls: the domain is the last
`domain_name`, `assume_http2` the last value given (default false), the identity the last one
given, and the roots are exactly the CA certificates / trust anchors ever added (plus the
platform / webpki stores only if asked for and compiled in) — nothing is lost, nothing added. -/
theorem C15_client_config_reads_back (sys : Sys Root) (ops : List (ClientOp Root Chain)) :
    (ClientTlsConfig.build ops).domain = configuredDomain ops ∧
    (ClientTlsConfig.build ops).assumeHttp2 = assumes ops ∧
    (ClientTlsConfig.build ops).identity = configuredIdentity ops ∧
    ∀ r, cfgRoots sys (ClientTlsConfig.build ops) r ↔ r ∈ configuredRoots sys ops :=
  ⟨build_domain ops, build_assume ops, build_identity ops, cfgRoots_build sys ops⟩

/-- On the unchanged 0.13.0 tree the previous statement is FALSE: `with_enabled_roots` starts
from a fresh config, so `domain_name("bad.test")` followed by `with_enabled_roots()` forgets
the configured name (and the URI host is used instead). Replayed on the real code by the
corpus case `tls https good dom:bad roots ca:ca1 ; s1good h2 - tcp`. -/
theorem C15_client_config_reads_back_asis_fails :
    ¬ ∀ ops : List (ClientOp Unit Unit),
        (ClientTlsConfig.buildAsIs ops).domain = configuredDomain ops := by
  intro h
  exact absurd (h [.domainName "bad.test", .withEnabledRoots]) (by decide)

/-- For every sequence of `ServerTlsConfig` builder calls that yields an acceptor: ALPN is
exactly `h2`, and the client-auth mode handed to rustls is `off` iff no client CA was
configured, else `required` / `optional` over exactly the (non-empty) roots of the LAST
`client_ca_root`, optional iff the last `client_auth_optional` said so. In particular
`client_auth_optional(true)` without a CA does not enable anything. -/
theorem C15_server_config_reads_back (ops : List (ServerOp Root Chain)) (s : ServerHello Root Chain)
    (h : (ServerTlsConfig.build ops).tlsAcceptor = .ok s) :
    s.alpn = [alpnH2] ∧
    match clientCa ops with
    | none => s.clientAuth = .off
    | some pem => pemRoots pem ≠ [] ∧
        s.clientAuth = if authOptional ops then .optional (pemRoots pem) else .required (pemRoots pem) := by
  obtain ⟨ha, hm, _⟩ := acceptor_ok _ _ h
  refine ⟨ha, ?_⟩
  rw [sbuild_ca, sbuild_optional] at hm
  cases hca : clientCa ops with
  | none => simp [hca, clientAuthMode] at hm; exact hm.symm
  | some pem =>
    cases pem with
    | none => simp [hca, clientAuthMode] at hm
    | some rs =>
      simp only [hca, clientAuthMode] at hm
      cases hrs : rs.isEmpty
      · simp only [hrs] at hm
        have hne : rs ≠ [] := by intro e; subst e; simp at hrs
        cases ho : authOptional ops <;> simp [ho] at hm <;> simp [pemRoots, hne, hm.symm]
      · simp [hrs] at hm

/-! ### client half -/

/-- What `Endpoint::tls_config` hands to rustls, for every builder sequence and URI: the name
is the configured domain or else the URI host, the root store holds exactly the configured
roots, ALPN offers exactly `h2`, and the opt-out / identity are the configured ones. -/
theorem C15_connector_uses_configuration (sys : Sys Root) (uri : Uri)
    (ops : List (ClientOp Root Chain)) (ep : Endpoint Root Chain)
    (h : (Endpoint.fromShared uri).tlsConfig sys (ClientTlsConfig.build ops) = .ok ep) :
    ep.uri = uri ∧ ∃ t, ep.tls = some t ∧
      expectedName ops uri = some t.domain ∧ sys.validServerName t.domain = true ∧
      SameRoots t.hello.roots (configuredRoots sys ops) ∧
      t.hello.alpn = [alpnH2] ∧ t.assumeHttp2 = assumes ops ∧
      loadOptIdentity (configuredIdentity ops) = .ok t.hello.identity := by
  unfold Endpoint.tlsConfig at h
  cases hc : (ClientTlsConfig.build ops).intoTlsConnector sys (Endpoint.fromShared (Root := Root) (Chain := Chain) uri).uri with
  | error e => simp [hc] at h
  | ok t =>
    simp only [hc] at h
    cases h
    refine ⟨rfl, t, rfl, ?_⟩
    unfold ClientTlsConfig.intoTlsConnector at hc
    rw [build_domain] at hc
    have key : ∀ d, TlsConnector.new sys (ClientTlsConfig.build ops) d = .ok t →
        t.domain = d ∧ sys.validServerName t.domain = true ∧
        SameRoots t.hello.roots (configuredRoots sys ops) ∧
        t.hello.alpn = [alpnH2] ∧ t.assumeHttp2 = assumes ops ∧
        loadOptIdentity (configuredIdentity ops) = .ok t.hello.identity := by
      intro d hn
      obtain ⟨hr, hd, ha, hi, hv⟩ := connector_new_ok sys _ d t hn
      refine ⟨hd, hd ▸ hv, ?_, rfl, ?_, ?_⟩
      · intro r; rw [← cfgRoots_build sys ops r]; exact hr r
      · rw [ha, build_assume]
      · rw [← build_identity]; exact hi
    simp only [expectedName]
    cases hd : configuredDomain ops with
    | some d =>
      simp only [hd] at hc
      obtain ⟨h1, h2⟩ := key d hc
      exact ⟨by rw [h1], h2⟩
    | none =>
      simp only [hd, Endpoint.fromShared] at hc
      cases hh : uri.host with
      | none => simp [hh] at hc
      | some host =>
        simp only [hh] at hc
        obtain ⟨h1, h2⟩ := key host hc
        exact ⟨by rw [h1], h2⟩

/-- **Client admission.** Over an https endpoint configured by ANY sequence of builder calls,
`Connector::call` yields an IO to write the call on only if it is a TLS session whose server
chain verifies against exactly the configured roots for the configured (or URI) name, with h2
negotiated unless the caller opted out — whatever the dial result and the handshake do. -/
theorem C15_client_connects_only_if
    (verifies : List Root → Chain → String → Bool) (verifiesClient : List Root → Chain → Bool)
    (hs : Handshake Root Chain) (laws : RustlsLaws verifies verifiesClient hs)
    (sys : Sys Root) (uri : Uri) (ops : List (ClientOp Root Chain)) (ep : Endpoint Root Chain)
    (srv : ServerHello Root Chain) (dialOk : Bool) (io : Io)
    (hcfg : (Endpoint.fromShared uri).tlsConfig sys (ClientTlsConfig.build ops) = .ok ep)
    (hhttps : uri.scheme = some .https)
    (hconn : Connector.call ep dialOk (fun c => (hs c srv).client) = .ok io) :
    ∃ a, io = .tls a ∧ MayTransmit verifies sys ops uri srv.chain a := by
  obtain ⟨hu, t, ht, hname, _, hroots, _, hassume, _⟩ := C15_connector_uses_configuration sys uri ops ep hcfg
  unfold Connector.call at hconn
  cases dialOk
  · simp at hconn
  · simp only [Bool.not_true, Bool.false_eq_true, if_false, hu, hhttps, if_true, ht, TlsConnector.connect] at hconn
    cases hv : (hs t.hello srv).client with
    | alert => simp [hv] at hconn
    | badCert f => simp [hv] at hconn
    | garbage => simp [hv] at hconn
    | done a =>
      simp only [hv] at hconn
      split at hconn
      · rename_i hok
        cases hconn
        refine ⟨a, rfl, ⟨t.domain, t.hello.roots, hname, hroots, ?_⟩, ?_⟩
        · exact laws.client_done t.hello srv a hv
        · rw [← hassume]
          simpa using hok
      · cases hconn

/-- … and when h2 was required (no opt-out) the server really offered it. -/
theorem C15_h2_negotiated_unless_opted_out
    (verifies : List Root → Chain → String → Bool) (verifiesClient : List Root → Chain → Bool)
    (hs : Handshake Root Chain) (laws : RustlsLaws verifies verifiesClient hs)
    (ep : Endpoint Root Chain) (t : TlsConnector Root Chain) (srv : ServerHello Root Chain)
    (dialOk : Bool) (a : Option String)
    (ht : ep.tls = some t) (hno : t.assumeHttp2 = false)
    (hconn : Connector.call ep dialOk (fun c => (hs c srv).client) = .ok (.tls a)) :
    a = some alpnH2 ∧ alpnH2 ∈ srv.alpn := by
  unfold Connector.call at hconn
  cases dialOk
  · simp at hconn
  · simp only [Bool.not_true, Bool.false_eq_true, if_false] at hconn
    split at hconn
    · simp only [ht, TlsConnector.connect] at hconn
      cases hv : (hs t.hello srv).client with
      | alert => simp [hv] at hconn
      | badCert f => simp [hv] at hconn
      | garbage => simp [hv] at hconn
      | done a' =>
        simp only [hv, hno, Bool.or_false] at hconn
        split at hconn
        · rename_i hok
          cases hconn
          have : a = some alpnH2 := by simpa using hok
          subst this
          exact ⟨rfl, (laws.alpn_mutual t.hello srv alpnH2 hv).2⟩
        · cases hconn
    · cases hconn

/-- **No plaintext fallback.** Over an https URI `Connector::call` never yields a plaintext
IO, whatever the TLS configuration, the dial result and the handshake do. -/
theorem C15_no_plaintext_fallback (ep : Endpoint Root Chain) (dialOk : Bool)
    (hs : ClientHello Root Chain → ClientView) (h : ep.uri.scheme = some .https) :
    Connector.call ep dialOk hs ≠ .ok .plain := by
  unfold Connector.call
  cases dialOk <;> simp [h]
  cases ep.tls with
  | none => simp
  | some t =>
    simp only [TlsConnector.connect]
    cases hs t.hello <;> simp
    split <;> simp

/-- An https endpoint that was never given a TLS configuration cannot connect at all. -/
theorem C15_https_without_tls_config_fails (uri : Uri) (dialOk : Bool)
    (hs : ClientHello Root Chain → ClientView) (h : uri.scheme = some .https) :
    ∃ e, Connector.call (Endpoint.fromShared (Root := Root) (Chain := Chain) uri) dialOk hs = .error e := by
  unfold Connector.call
  cases dialOk <;> simp [h, Endpoint.fromShared]

/-- **No other path to "connected"**: the exact condition under which `Connector::call`
succeeds over https. -/
theorem C15_connect_iff (ep : Endpoint Root Chain) (dialOk : Bool)
    (hs : ClientHello Root Chain → ClientView) (h : ep.uri.scheme = some .https) (io : Io) :
    Connector.call ep dialOk hs = .ok io ↔
      dialOk = true ∧ ∃ t a, ep.tls = some t ∧ hs t.hello = .done a ∧
        (a = some alpnH2 ∨ t.assumeHttp2 = true) ∧ io = .tls a := by
  unfold Connector.call
  cases dialOk
  · simp
  · simp only [Bool.not_true, Bool.false_eq_true, if_false, h, if_true, true_and]
    cases ht : ep.tls with
    | none => simp
    | some t =>
      simp only [TlsConnector.connect, Option.some.injEq, exists_and_left, exists_eq_left']
      cases hv : hs t.hello with
      | alert => simp
      | badCert f => simp
      | garbage => simp
      | done a =>
        simp only [ClientView.done.injEq, exists_eq_left']
        by_cases hok : (a = some alpnH2 || t.assumeHttp2) = true
        · simp only [hok, if_true]
          constructor
          · intro e; cases e; exact ⟨by simpa using hok, rfl⟩
          · intro ⟨_, e⟩; rw [e]
        · simp only [hok]
          constructor
          · intro e; cases e
          · intro ⟨h1, _⟩; exact absurd (by simpa using h1) hok

/-! ### server half -/

/-- **Server admission.** For every sequence of `ServerTlsConfig` calls: the acceptor built
from it completes a handshake only with a client the property allows — one that presented a
chain verifying against the configured client CA, or none at all if (and only if) client auth
was made optional; without a client CA nobody is asked. The chain the session then holds is
the chain the client presented. -/
theorem C15_server_admits_only_if
    (verifies : List Root → Chain → String → Bool) (verifiesClient : List Root → Chain → Bool)
    (hs : Handshake Root Chain) (laws : RustlsLaws verifies verifiesClient hs)
    (ops : List (ServerOp Root Chain)) (s : ServerHello Root Chain)
    (hacc : (ServerTlsConfig.build ops).tlsAcceptor = .ok s)
    (c : ClientHello Root Chain) (peer : Option Chain) (hdone : (hs c s).server = some peer) :
    MayServe verifiesClient ops c.identity peer ∧ (clientCa ops = none → peer = none) := by
  have hmode := (C15_server_config_reads_back ops s hacc).2
  have hl := laws.server_done c s peer hdone
  unfold MayServe
  cases hca : clientCa ops with
  | none =>
    simp only [hca] at hmode
    rw [hmode] at hl
    exact ⟨trivial, fun _ => hl⟩
  | some pem =>
    simp only [hca] at hmode
    obtain ⟨_, hm⟩ := hmode
    refine ⟨?_, fun e => by cases e⟩
    cases ho : authOptional ops
    · simp only [ho, Bool.false_eq_true, if_false] at hm
      rw [hm] at hl
      exact Or.inl hl
    · simp only [ho, if_true] at hm
      rw [hm] at hl
      cases hl with
      | inl hnone => exact Or.inr ⟨rfl, hnone⟩
      | inr hsome => exact Or.inl hsome

/-- **Peer certificates are exposed.** A handler of a connection accepted by tonic's acceptor
finds, in the `TlsConnectInfo` request extension, exactly the chain the TLS session holds; and
`Request::peer_certs()` returns the same over TCP (and only ever that chain or nothing). (Transcription lemma: it holds by unfolding the model's definition, so it pins the model's shape for the correspondence run — its assurance about tonic is the tie, not this proof.) -/
theorem C15_peer_certs_exposed (inner : InnerInfo) (sessionPeer : Option Chain) :
    let e := extensionsTlsIo (tlsStreamConnectInfo inner sessionPeer)
    Request.tlsInfoCerts e = some sessionPeer ∧
    (inner = .tcp → Request.peerCerts e = sessionPeer) ∧
    (Request.peerCerts e = sessionPeer ∨ Request.peerCerts e = none) := by
  cases inner <;> simp [extensionsTlsIo, tlsStreamConnectInfo, Request.tlsInfoCerts, Request.peerCerts]

/-- The same when the application accepted TLS itself and hands `TlsStream<T>`s to a tonic
server without `tls_config` (`impl Connected for TlsStream<T>`): the handler still finds the
session's chain, and `Request::peer_certs()` agrees over TCP. (Transcription lemma: it holds by unfolding the model's definition, so it pins the model's shape for the correspondence run — its assurance about tonic is the tie, not this proof.) -/
theorem C15_peer_certs_exposed_user_accepted (inner : InnerInfo) (sessionPeer : Option Chain) :
    let e := extensionsUserTls (tlsStreamConnectInfo inner sessionPeer)
    Request.tlsInfoCerts e = some sessionPeer ∧
    (inner = .tcp → Request.peerCerts e = sessionPeer) ∧
    (Request.peerCerts e = sessionPeer ∨ Request.peerCerts e = none) := by
  cases inner <;> simp [extensionsUserTls, tlsStreamConnectInfo, Request.tlsInfoCerts, Request.peerCerts]

/-- Without TLS on the connection there is nothing to expose: `peer_certs()` is `None`. (Transcription lemma: it holds by unfolding the model's definition, so it pins the model's shape for the correspondence run — its assurance about tonic is the tie, not this proof.) -/
theorem C15_no_peer_certs_without_tls (inner : InnerInfo) :
    Request.peerCerts (extensionsPlain (Chain := Chain) inner) = none ∧
    Request.tlsInfoCerts (extensionsPlain (Chain := Chain) inner) = none := by
  simp [extensionsPlain, Request.peerCerts, Request.tlsInfoCerts]

/-! ### end to end: one call -/

/-- **A handler runs only for an authenticated, h2, TLS-protected call.** For every builder
sequence on both sides, every URI with scheme https, every transport and every handshake
behaviour within the rustls contract: if the handler of a tonic TLS server ran (or the call
succeeded), then the client was allowed to transmit (`MayTransmit`), the server was allowed to
serve that client (`MayServe`), nothing went over the wire in the clear, and the handler saw
exactly the client's verified chain (or none). -/
theorem C15_handler_runs_only_if
    (verifies : List Root → Chain → String → Bool) (verifiesClient : List Root → Chain → Bool)
    (hs : Handshake Root Chain) (laws : RustlsLaws verifies verifiesClient hs)
    (sys : Sys Root) (uri : Uri) (cops : List (ClientOp Root Chain)) (ep : Endpoint Root Chain)
    (sops : List (ServerOp Root Chain)) (s : ServerHello Root Chain) (inner : InnerInfo)
    (hcfg : (Endpoint.fromShared uri).tlsConfig sys (ClientTlsConfig.build cops) = .ok ep)
    (hacc : (ServerTlsConfig.build sops).tlsAcceptor = .ok s)
    (hhttps : uri.scheme = some .https)
    (hran : (scenario ep (.tonicTls s) inner hs).handlers > 0 ∨ (scenario ep (.tonicTls s) inner hs).ok = true) :
    let o := scenario ep (.tonicTls s) inner hs
    ∃ a t peer, ep.tls = some t ∧
      MayTransmit verifies sys cops uri s.chain a ∧
      MayServe verifiesClient sops t.hello.identity peer ∧
      o.plaintext = false ∧ o.handlers = 1 ∧ o.ok = true ∧
      o.ext = some (some peer) ∧ (inner = .tcp → o.peer = some peer) := by
  intro o
  have hdef : o = scenario ep (.tonicTls s) inner hs := rfl
  clear_value o
  rw [← hdef] at hran
  have hu := (C15_connector_uses_configuration sys uri cops ep hcfg).1
  have hsch : ep.uri.scheme = some .https := by rw [hu]; exact hhttps
  -- case on the connector result
  cases hc : Connector.call ep true (fun c => (hs c s).client) with
  | error e =>
    have : o = .failed (.conn e) false := by
      simp only [hdef, scenario, serverHelloOf, hc]
    rw [this] at hran
    simp [Outcome.failed] at hran
  | ok io =>
    obtain ⟨a, hio, hmay⟩ := C15_client_connects_only_if verifies verifiesClient hs laws sys uri cops ep s true io hcfg hhttps hc
    subst hio
    obtain ⟨_, t, a', ht, _, _, hio'⟩ := (C15_connect_iff ep true _ hsch _).1 hc
    cases hio'
    cases hsv : (hs t.hello s).server with
    | none =>
      have : o = .failed .rejected false := by
        simp only [hdef, scenario, serverHelloOf, hc, ht, hsv]
      rw [this] at hran
      simp [Outcome.failed] at hran
    | some peer =>
      have ho : o = .served (extensionsTlsIo (tlsStreamConnectInfo inner peer)) false := by
        simp only [hdef, scenario, serverHelloOf, hc, ht, hsv]
      have hserve := (C15_server_admits_only_if verifies verifiesClient hs laws sops s hacc t.hello peer hsv).1
      have hexp := C15_peer_certs_exposed inner peer
      refine ⟨a, t, peer, ht, hmay, hserve, ?_, ?_, ?_, ?_, ?_⟩
      · rw [ho]; rfl
      · rw [ho]; rfl
      · rw [ho]; rfl
      · rw [ho]; simp only [Outcome.served]; rw [hexp.1]
      · intro htcp; rw [ho]; simp only [Outcome.served]; rw [hexp.2.1 htcp]

/-- **Otherwise the call fails and no handler runs**: in every scenario (any server kind), a
failed call ran no handler, and over https nothing was written in the clear.
The FIRST conjunct is a transcription lemma: every branch of `Tls.scenario` returns
`Outcome.failed …` (`ok := false, handlers := 0`) or `Outcome.served …` (`ok := true,
handlers := 1`), so `ok = false → handlers = 0` holds of anything built from those two
constructors, whatever the branches' conditions are — it pins the model's bookkeeping; that a
rejected connection reaches no handler in tonic is carried by the correspondence run (the handler
counter of the `tls` cases).  The second conjunct has content (`C15_no_plaintext_fallback`). -/
theorem C15_failure_runs_no_handler (ep : Endpoint Root Chain) (srv : ServerKind Root Chain)
    (inner : InnerInfo) (hs : Handshake Root Chain) :
    let o := scenario ep srv inner hs
    (o.ok = false → o.handlers = 0) ∧ (ep.uri.scheme = some .https → o.plaintext = false) := by
  intro o
  constructor
  · intro hfail
    simp only [o, scenario] at hfail ⊢
    split at hfail <;> (try rfl)
    · split at hfail <;> first | rfl | (simp [Outcome.served] at hfail)
    · split at hfail
      · split at hfail <;> first | rfl | (simp [Outcome.served] at hfail)
      · split at hfail <;> first | rfl | (simp [Outcome.served] at hfail)
      · rfl
  · intro hh
    have hnp := C15_no_plaintext_fallback ep true
      (fun h => match serverHelloOf srv with | some s => (hs h s).client | none => .garbage) hh
    simp only [o, scenario]
    split
    · rfl
    · rename_i hplain; exact absurd hplain hnp
    · split
      · split <;> rfl
      · split <;> rfl
      · rfl

/-- A plaintext server never gets to serve an https endpoint — not even one without any TLS
configuration, whatever the environment does. -/
theorem C15_https_never_served_in_clear (ep : Endpoint Root Chain) (inner : InnerInfo)
    (hs : Handshake Root Chain) (h : ep.uri.scheme = some .https) :
    (scenario ep .plain inner hs).handlers = 0 ∧ (scenario ep .plain inner hs).ok = false := by
  have hnp := C15_no_plaintext_fallback ep true (fun _ => ClientView.garbage) h
  simp only [scenario, serverHelloOf]
  split
  · exact ⟨rfl, rfl⟩
  · rename_i hplain; exact absurd hplain hnp
  · cases ep.tls <;> exact ⟨rfl, rfl⟩

/-- Generated clients go through `Endpoint::new`: for an https URI TLS is switched on without
being asked, with the compiled-in root stores only, the URI host as the name to verify, no
client identity and no ALPN opt-out. -/
theorem C15_generated_client_default (sys : Sys Root) (uri : Uri) (ep : Endpoint Root Chain)
    (h : Endpoint.new sys uri = .ok ep) (hh : uri.scheme = some .https) :
    ∃ t, ep.tls = some t ∧ uri.host = some t.domain ∧
      SameRoots t.hello.roots
        ((if sys.featNative then sys.nativeCerts else []) ++ (if sys.featWebpki then sys.webpkiRoots else [])) ∧
      t.assumeHttp2 = false ∧ t.hello.identity = none := by
  simp only [Endpoint.new, hh, if_true] at h
  obtain ⟨_, t, ht, hn, _, hr, _, ha, hi⟩ := C15_connector_uses_configuration sys uri _ ep h
  refine ⟨t, ht, ?_, ?_, ?_, ?_⟩
  · simpa [expectedName, configuredDomain, domainOfOp] using hn
  · simpa [configuredRoots, rootsOfOp] using hr
  · simpa [assumes, assumeOfOp] using ha
  · have : loadOptIdentity (configuredIdentity ([.withEnabledRoots] : List (ClientOp Root Chain))) = .ok none := rfl
    rw [this] at hi
    injection hi with hi
    exact hi.symm

/-- **Generated clients connect only to an authenticated h2 server.** A client built the way
generated `connect` functions build it (`Endpoint::new`) over an https URI gets an IO to write
its call on only if that IO is a TLS session in which h2 WAS negotiated (there is no opt-out on
this path) and whose server chain verifies, for the URI's host, against exactly the root stores
compiled in and enabled (platform store, webpki store) — in every build (`sys`), whatever the
stores hold and whatever the handshake does. -/
theorem C15_generated_client_connects_only_if
    (verifies : List Root → Chain → String → Bool) (verifiesClient : List Root → Chain → Bool)
    (hs : Handshake Root Chain) (laws : RustlsLaws verifies verifiesClient hs)
    (sys : Sys Root) (uri : Uri) (ep : Endpoint Root Chain)
    (srv : ServerHello Root Chain) (dialOk : Bool) (io : Io)
    (hnew : Endpoint.new sys uri = .ok ep) (hhttps : uri.scheme = some .https)
    (hconn : Connector.call ep dialOk (fun c => (hs c srv).client) = .ok io) :
    io = .tls (some alpnH2) ∧
    ∃ name roots, uri.host = some name ∧
      SameRoots roots
        ((if sys.featNative then sys.nativeCerts else []) ++ (if sys.featWebpki then sys.webpkiRoots else [])) ∧
      verifies roots srv.chain name = true := by
  have hcfg : (Endpoint.fromShared uri).tlsConfig sys
      (ClientTlsConfig.build ([.withEnabledRoots] : List (ClientOp Root Chain))) = .ok ep := by
    simpa only [Endpoint.new, hhttps, if_true] using hnew
  obtain ⟨a, hio, ⟨name, roots, hname, hroots, hver⟩, halpn⟩ :=
    C15_client_connects_only_if verifies verifiesClient hs laws sys uri _ ep srv dialOk io hcfg hhttps hconn
  have hno : assumes ([.withEnabledRoots] : List (ClientOp Root Chain)) = false := rfl
  rw [hno] at halpn
  refine ⟨?_, name, roots, ?_, ?_, hver⟩
  · cases halpn with
    | inl h => rw [hio, h]
    | inr h => cases h
  · simpa [expectedName, configuredDomain, domainOfOp] using hname
  · simpa [configuredRoots, rootsOfOp] using hroots

/-- **An empty platform store is an error, not an empty trust store.** In a build with
`tls-native-roots`, a configuration that asks for the platform's certificates — at any point of
any builder sequence — is refused by `Endpoint::tls_config` when the platform yields none. -/
theorem C15_empty_native_store_refused (sys : Sys Root) (uri : Uri) (ops : List (ClientOp Root Chain))
    (hfeat : sys.featNative = true) (hempty : sys.nativeCerts = []) (hask : asksNative ops = true)
    (ep : Endpoint Root Chain) :
    (Endpoint.fromShared uri).tlsConfig sys (ClientTlsConfig.build ops) ≠ .ok ep := by
  have hstep : nativeStep sys (ClientTlsConfig.build ops) = .error .nativeCertsNotFound := by
    simp [nativeStep, hfeat, build_native, hask, hempty]
  intro h
  simp only [Endpoint.tlsConfig, Endpoint.fromShared, ClientTlsConfig.intoTlsConnector] at h
  cases hd : (ClientTlsConfig.build ops).domain with
  | some d => simp [hd, TlsConnector.new, hstep] at h
  | none =>
    cases hh : uri.host with
    | some d => simp [hd, hh, TlsConnector.new, hstep] at h
    | none => simp [hd, hh] at h

/-- … in particular a generated client over https does not come into being then. -/
theorem C15_generated_client_needs_a_store (sys : Sys Root) (uri : Uri)
    (hfeat : sys.featNative = true) (hempty : sys.nativeCerts = []) (hh : uri.scheme = some .https)
    (ep : Endpoint Root Chain) :
    Endpoint.new sys uri ≠ (.ok ep : Except CfgErr (Endpoint Root Chain)) := by
  simp only [Endpoint.new, hh, if_true]
  exact C15_empty_native_store_refused sys uri [.withEnabledRoots] hfeat hempty rfl ep

/-! ### configurations are values: using one has no memory -/

/-- In every program that defines any number of `ClientTlsConfig` variables — from
`ClientTlsConfig::new()` or from a clone of an earlier variable, by any builder calls — and
uses them for any endpoints in any order, every configuration variable holds exactly what
`ClientTlsConfig::new()` followed by ITS OWN builder calls gives (the calls its ancestors were
given up to the point it was cloned from them, then its own). -/
theorem C15_configs_are_values (sys : Sys Root) (prog : List (Stmt Root Chain)) (c : Nat) :
    (Proc.run sys prog).cfgs[c]? = (ownOps prog c).map ClientTlsConfig.build := by
  rw [run_cfgs, ownOps, List.getElem?_map]

/-- **Using a configuration has no memory.** After EVERY history `hist` of statements (other
endpoints configured with this configuration variable, with clones of it, with configurations
derived from it before or after they were used; endpoints cloned, re-configured, connected),
`Endpoint::from_shared(uri)?.tls_config(c.clone())` yields exactly the endpoint that a
configuration built from scratch by `c`'s own builder sequence yields for `uri` — hence the
same configuration error, or the same `Connector::call` decision for every dial result and
every handshake behaviour; and the same as after any other history `hist2` in which a variable
`c2` was told the same. The decision for an endpoint depends on its own URI and its own builder
sequence only. -/
theorem C15_config_use_has_no_memory (sys : Sys Root) (hist : List (Stmt Root Chain)) (c : Nat)
    (ops : List (ClientOp Root Chain)) (uri : Uri) (hown : ownOps hist c = some ops) :
    let fresh := (Endpoint.fromShared uri).tlsConfig sys (ClientTlsConfig.build ops)
    ((Proc.run sys hist).useConfig sys c uri).eps.getLast? = some fresh ∧
    (∀ dialOk hs, ((Proc.run sys hist).useConfig sys c uri).lastDecision dialOk hs =
      some (match fresh with
            | .ok ep => .ok (Connector.call ep dialOk hs)
            | .error e => .error e)) ∧
    (∀ (hist2 : List (Stmt Root Chain)) (c2 : Nat), ownOps hist2 c2 = some ops →
      ((Proc.run sys hist2).useConfig sys c2 uri).eps.getLast? =
        ((Proc.run sys hist).useConfig sys c uri).eps.getLast?) := by
  intro fresh
  have key : ∀ (h : List (Stmt Root Chain)) (k : Nat), ownOps h k = some ops →
      ((Proc.run sys h).useConfig sys k uri).eps.getLast? = some fresh := by
    intro h k hk
    have hc : (Proc.run sys h).cfgs[k]? = some (ClientTlsConfig.build ops) := by
      rw [C15_configs_are_values, hk]; rfl
    rw [(useConfig_eps sys _ k uri _ hc).2]
    simp [fresh]
  refine ⟨key hist c hown, ?_, ?_⟩
  · intro dialOk hs
    simp only [Proc.lastDecision, key hist c hown]
    cases fresh <;> rfl
  · intro hist2 c2 h2
    rw [key hist2 c2 h2, key hist c hown]

/-- **Later statements change no variable.** Whatever a program goes on to do (`more`), the
configuration and endpoint variables defined so far keep their values: a configuration that was
used, then cloned and modified, then used again, is still what it was. -/
theorem C15_later_statements_change_no_variable (sys : Sys Root) (hist more : List (Stmt Root Chain)) (k : Nat) :
    (k < (Proc.run sys hist).cfgs.length →
      (Proc.run sys (hist ++ more)).cfgs[k]? = (Proc.run sys hist).cfgs[k]?) ∧
    (k < (Proc.run sys hist).eps.length →
      (Proc.run sys (hist ++ more)).eps[k]? = (Proc.run sys hist).eps[k]?) := by
  obtain ⟨a, b, h1, h2⟩ := foldl_extends sys more (Proc.run sys hist)
  have hrun : Proc.run sys (hist ++ more) = more.foldl (Proc.exec sys) (Proc.run sys hist) := by
    simp [Proc.run, List.foldl_append]
  rw [hrun, h1, h2]
  exact ⟨fun hk => List.getElem?_append_left hk, fun hk => List.getElem?_append_left hk⟩

/-- **Endpoint values.** A clone of an endpoint is that endpoint; connecting (`&self`) changes
nothing, so the same endpoint connected twice, or a clone of it, decides the same way; and
`tls_config` on an existing endpoint (or a clone of one) gives what it gives on a fresh endpoint
for the same URI — the connector it had before plays no part (the origin override, which `tls_config`
does not read, stays).
The SECOND conjunct is a transcription lemma: `Proc.exec _ (.connect _) := p` by definition
(`Endpoint::connect` takes `&self`; the model gives a connect statement no effect on the variables),
so it is `rfl`; that connecting leaves an endpoint value usable and unchanged in tonic is carried by
the correspondence run (cases that connect the same endpoint / a clone twice).  The first and third
conjuncts compute with `Proc.exec` and `tlsConfig_replaces`. -/
theorem C15_endpoint_values (sys : Sys Root) (p : Proc Root Chain) (e c : Nat)
    (ep : Endpoint Root Chain) (cfg : ClientTlsConfig Root Chain)
    (he : p.eps[e]? = some (.ok ep)) (hc : p.cfgs[c]? = some cfg) :
    (p.exec sys (.cloneEndpoint e)).eps.getLast? = some (.ok ep) ∧
    p.exec sys (.connect e) = p ∧
    (p.exec sys (.tlsConfig e c)).eps.getLast? =
      some (((Endpoint.fromShared ep.uri).tlsConfig sys cfg).map (fun x => { x with origin := ep.origin })) := by
  refine ⟨by simp [Proc.exec, he], rfl, ?_⟩
  simp [Proc.exec, he, hc, tlsConfig_replaces sys ep cfg]

open Tls.TestPki in
/-- `C15_config_use_has_no_memory` has content: of a process in which clones of a configuration
share a cache of the connector built from it (`Tls.ProcShared`, the shape of seeded change
C15d) it is FALSE, and so is the property. In the test world: one configuration `c0` trusting
CA 1, used for `https://good.test`, then used again for `https://bad.test`: the second endpoint
connects (h2) to a server whose chain does not verify for `bad.test`. Same case as the corpus
line `tls https good ca:ca1 | https bad ^0 ; s1good h2 - tcp`. -/
theorem C15_config_use_has_no_memory_fails_with_shared_cache :
    ∃ (hist : List (Stmt Cert (List Cert))) (c : Nat) (ops : List (ClientOp Cert (List Cert)))
      (uri : Uri) (ep : Endpoint Cert (List Cert)) (srv : ServerHello Cert (List Cert)),
      ownOps hist c = some ops ∧
      ((ProcShared.run sys hist).useConfig sys c uri).eps.getLast? = some (.ok ep) ∧
      uri.scheme = some .https ∧
      Connector.call ep true (fun h => (handshake h srv).client) = .ok (.tls (some alpnH2)) ∧
      expectedName ops uri = some "bad.test" ∧
      verifies (configuredRoots sys ops) srv.chain "bad.test" = false :=
  ⟨[.config none [.caCertificate (some [.ca1])],
    .endpoint { scheme := some .https, host := some "good.test" }, .tlsConfig 0 0, .connect 1],
   0, [.caCertificate (some [.ca1])],
   { scheme := some .https, host := some "bad.test" }, _,
   { chain := [.s1good], clientAuth := .off, alpn := [alpnH2] },
   rfl, rfl, rfl, rfl, by decide, by decide⟩

/-! ### generated `connect(dst)` over an endpoint value; the `Server` builder chain -/

/-- `Endpoint::new(uri)` is `Endpoint::new` of the unconfigured endpoint for that URI: the `dst`
type a generated `connect` function is called with (string, `Uri`, fresh `Endpoint`) plays no part. -/
theorem C15_endpoint_new_of_uri (sys : Sys Root) (uri : Uri) :
    Endpoint.newFrom sys (Endpoint.fromShared (Root := Root) (Chain := Chain) uri) = Endpoint.new sys uri := by
  simp only [Endpoint.newFrom, Endpoint.new, Endpoint.fromShared, Option.isNone_none, Bool.true_and]
  by_cases h : uri.scheme = some .https <;> simp [h]

/-- **`Endpoint::new` keeps the caller's TLS configuration.** An endpoint that carries a TLS
connector — any `tls_config` the caller made — comes out of `Endpoint::new` (hence out of a
generated `connect(endpoint)`) unchanged; so does every endpoint that is not https. -/
theorem C15_endpoint_new_keeps_configuration (sys : Sys Root) (ep : Endpoint Root Chain)
    (h : ep.tls.isSome = true ∨ ep.uri.scheme ≠ some .https) :
    Endpoint.newFrom sys ep = .ok ep := by
  unfold Endpoint.newFrom
  cases h with
  | inl h =>
    cases ht : ep.tls with
    | none => simp [ht] at h
    | some t => simp
  | inr h => simp [h]

/-- **A generated client over a configured endpoint connects only to the server the caller's
configuration admits.** `Endpoint::from_shared(uri)?.tls_config(cfg)?` handed to a generated
`connect(dst)` (`Endpoint::new(dst)`): the channel gets an IO only under exactly the conditions of
`C15_client_connects_only_if` for the CALLER's builder sequence — configured roots, configured (or
URI) name, h2 unless the caller opted out. -/
theorem C15_generated_client_keeps_caller_configuration
    (verifies : List Root → Chain → String → Bool) (verifiesClient : List Root → Chain → Bool)
    (hs : Handshake Root Chain) (laws : RustlsLaws verifies verifiesClient hs)
    (sys : Sys Root) (uri : Uri) (ops : List (ClientOp Root Chain)) (ep ep' : Endpoint Root Chain)
    (srv : ServerHello Root Chain) (dialOk : Bool) (io : Io)
    (hcfg : (Endpoint.fromShared uri).tlsConfig sys (ClientTlsConfig.build ops) = .ok ep)
    (hnew : Endpoint.newFrom sys ep = .ok ep')
    (hhttps : uri.scheme = some .https)
    (hconn : Connector.call ep' dialOk (fun c => (hs c srv).client) = .ok io) :
    ∃ a, io = .tls a ∧ MayTransmit verifies sys ops uri srv.chain a := by
  obtain ⟨_, t, ht, _⟩ := C15_connector_uses_configuration sys uri ops ep hcfg
  have hk := C15_endpoint_new_keeps_configuration sys ep (Or.inl (by simp [ht]))
  rw [hk] at hnew
  cases hnew
  exact C15_client_connects_only_if verifies verifiesClient hs laws sys uri ops ep srv dialOk io hcfg hhttps hconn

open Tls.TestPki in
/-- Of the tree as found (0.13.0) the previous statement is FALSE: `Endpoint::new` replaced the
TLS configuration of every https endpoint by `ClientTlsConfig::new().with_enabled_roots()`.  In
the test world, in a build with `tls-native-roots` whose platform store holds CA 2: an endpoint the
caller configured to trust CA 1 only, handed to a generated `connect`, connects (h2) to a server
certified by CA 2 — which does not verify against the configured roots.  Same case as the corpus
line `tlsf n ca2 https good ca:ca1 | https good @0 new ; s2good h2 - tcp`. -/
theorem C15_generated_client_keeps_caller_configuration_asis_fails :
    ∃ (ops : List (ClientOp Cert (List Cert))) (uri : Uri) (ep ep' : Endpoint Cert (List Cert))
      (srv : ServerHello Cert (List Cert)),
      (Endpoint.fromShared uri).tlsConfig (sysWith false [.ca2]) (ClientTlsConfig.build ops) = .ok ep ∧
      Endpoint.newFromAsIs (sysWith false [.ca2]) ep = .ok ep' ∧
      uri.scheme = some .https ∧
      Connector.call ep' true (fun c => (handshake c srv).client) = .ok (.tls (some alpnH2)) ∧
      expectedName ops uri = some "good.test" ∧
      verifies (configuredRoots (sysWith false [.ca2]) ops) srv.chain "good.test" = false :=
  ⟨[.caCertificate (some [.ca1])], { scheme := some .https, host := some "good.test" }, _, _,
   { chain := [.s2good], clientAuth := .off, alpn := [alpnH2] },
   rfl, rfl, rfl, rfl, by decide, by decide⟩

/-- **`Endpoint::origin` plays no part in authenticating the peer.**  The origin override is what `AddOrigin`
writes into requests; whether it is set before or after `tls_config`, to the endpoint's own host or to any
other one (a proxy or load balancer reached by address): `tls_config` builds the same connector — the name the
server is authenticated against is the configured `domain_name`, else the endpoint URI's host — and
`Connector::call` decides the same way.  So every admission theorem above holds verbatim of endpoints with an
origin.
The SECOND conjunct is a transcription lemma: `Connector.call` never mentions the `origin` field (the
field was added to the model for this theorem), so it is `rfl`, and the third conjunct follows from the
first two; the first conjunct (`tls_config` commutes with `origin`) unfolds `Endpoint.tlsConfig`.  What
gives the statement content is the counter-model `C15_origin_plays_no_part_fails_with_origin_as_name`
(a `tls_config` that reads the origin falsifies it) and, for tonic itself, the `+o…` cases of the
correspondence run. -/
theorem C15_origin_plays_no_part (sys : Sys Root) (ep : Endpoint Root Chain) (o : Uri)
    (cfg : ClientTlsConfig Root Chain) (dialOk : Bool) (hs : ClientHello Root Chain → ClientView) :
    (ep.setOrigin o).tlsConfig sys cfg = (ep.tlsConfig sys cfg).map (·.setOrigin o) ∧
    Connector.call (ep.setOrigin o) dialOk hs = Connector.call ep dialOk hs ∧
    (∀ ep', (ep.setOrigin o).tlsConfig sys cfg = .ok ep' →
      ∃ ep'', ep.tlsConfig sys cfg = .ok ep'' ∧ ep'.tls = ep''.tls ∧ ep'.uri = ep''.uri ∧
        Connector.call ep' dialOk hs = Connector.call ep'' dialOk hs) := by
  have h1 : (ep.setOrigin o).tlsConfig sys cfg = (ep.tlsConfig sys cfg).map (·.setOrigin o) := by
    simp only [Endpoint.tlsConfig, Endpoint.setOrigin]
    cases cfg.intoTlsConnector sys ep.uri <;> rfl
  refine ⟨h1, rfl, ?_⟩
  intro ep' h
  rw [h1] at h
  cases h2 : ep.tlsConfig sys cfg with
  | error e => simp [h2, Except.map] at h
  | ok ep'' =>
    simp only [h2, Except.map, Except.ok.injEq] at h
    subst h
    exact ⟨ep'', rfl, rfl, rfl, rfl⟩

open Tls.TestPki in
/-- `C15_origin_plays_no_part` has content: of a `tls_config` that takes the server name from the overridden
origin (`Endpoint.tlsConfigOriginName`, the shape of seeded change C15f: "the origin plays the role of SNI") it
is FALSE, and so is the property.  In the test world: an endpoint for `https://bad.test` trusting CA 1, with
`origin("https://good.test")` set before `tls_config`, connects (h2) to a server whose certificate is valid for
`good.test` only — it does not verify for the host the caller named.  Same case as the corpus line
`tls https+oBhttps bad ca:ca1 ; s1good h2 - tcp`. -/
theorem C15_origin_plays_no_part_fails_with_origin_as_name :
    ∃ (ops : List (ClientOp Cert (List Cert))) (uri o : Uri) (ep' : Endpoint Cert (List Cert))
      (srv : ServerHello Cert (List Cert)),
      ((Endpoint.fromShared uri).setOrigin o).tlsConfigOriginName (sysWith false []) (ClientTlsConfig.build ops) = .ok ep' ∧
      uri.scheme = some .https ∧
      Connector.call ep' true (fun c => (handshake c srv).client) = .ok (.tls (some alpnH2)) ∧
      expectedName ops uri = some "bad.test" ∧
      verifies (configuredRoots (sysWith false []) ops) srv.chain "bad.test" = false ∧
      -- while the code refuses this server
      (∃ ep'', ((Endpoint.fromShared uri).setOrigin o).tlsConfig (sysWith false []) (ClientTlsConfig.build ops) = .ok ep'' ∧
        Connector.call ep'' true (fun c => (handshake c srv).client) = .error (.badCert .nameMismatch)) :=
  ⟨[.caCertificate (some [.ca1])], { scheme := some .https, host := some "bad.test" },
   { scheme := some .https, host := some "good.test" }, _,
   { chain := [.s1good], clientAuth := .off, alpn := [alpnH2] },
   rfl, rfl, rfl, by decide, by decide, ⟨_, rfl, rfl⟩⟩

/-- **The last `Server::tls_config` decides; `Server::layer` is invisible.** For every `Server`
builder chain (any number of `tls_config` calls and `layer` calls in any order) that comes
through: the acceptor the serve loop gets is the one built from the LAST `tls_config` call's
configuration — whatever earlier calls configured (e.g. a configuration without client
authentication) is gone, and layers added before or after change nothing; with no `tls_config`
call there is no TLS. -/
theorem C15_server_builder_last_tls_config_wins (steps : List (ServerStep Root Chain))
    (tls : Option (ServerHello Root Chain)) (h : ServerBuilder.run steps = .ok tls) :
    match (steps.filterMap (fun st => match st with | .tlsConfig ops => some ops | .layer => none)).getLast? with
    | none => tls = none
    | some ops => ∃ s, (ServerTlsConfig.build ops).tlsAcceptor = .ok s ∧ tls = some s := by
  have key : ∀ (steps : List (ServerStep Root Chain)) (t0 tls : Option (ServerHello Root Chain)),
      ServerBuilder.runFrom t0 steps = .ok tls →
      match (steps.filterMap (fun st => match st with | .tlsConfig ops => some ops | .layer => none)).getLast? with
      | none => tls = t0
      | some ops => ∃ s, (ServerTlsConfig.build ops).tlsAcceptor = .ok s ∧ tls = some s := by
    intro steps
    induction steps with
    | nil => intro t0 tls h; simp only [ServerBuilder.runFrom] at h; cases h; simp
    | cons st rest ih =>
      intro t0 tls h
      cases st with
      | layer =>
        simp only [ServerBuilder.runFrom, ServerStep.apply] at h
        simpa using ih t0 tls h
      | tlsConfig ops =>
        simp only [ServerBuilder.runFrom, ServerStep.apply] at h
        cases ha : (ServerTlsConfig.build ops).tlsAcceptor with
        | err e => simp [ha] at h
        | panic => simp [ha] at h
        | ok s =>
          simp only [ha] at h
          have := ih (some s) tls h
          simp only [List.filterMap_cons]
          cases hl : (rest.filterMap (fun st => match st with | .tlsConfig ops => some ops | .layer => none)).getLast? with
          | none =>
            simp only [hl] at this
            have hnil : rest.filterMap (fun st => match st with | .tlsConfig ops => some ops | .layer => none) = [] := by
              simpa using hl
            simp only [hnil, List.getLast?_singleton]
            exact ⟨s, ha, this⟩
          | some ops' =>
            simp only [hl] at this
            rw [List.getLast?_cons_of_ne_nil (by intro hn; simp [hn] at hl)] <;> simp [hl, this]
  exact key steps none tls h

/-! ### non-vacuity -/


open Tls.TestPki in
/-- The contract assumed of rustls is satisfiable: the concrete world of the correspondence
run (committed test PKI, webpki's checks restricted to it, RFC 7301, TLS 1.3 ordering)
satisfies it. -/
theorem C15_laws_satisfiable : RustlsLaws verifies verifiesClient handshake := by
  refine ⟨?_, ?_, ?_⟩
  · intro c s a h
    simp only [handshake] at h
    split at h
    · cases h
    · split at h
      · cases h
      · rename_i hv; simp [verifies, hv]
  · intro c s p h
    simp only [handshake] at h
    split at h
    · cases h
    · rename_i a hn
      split at h
      · cases h
      · simp only [ClientView.done.injEq] at h
        subst h
        simp only [negotiate] at hn
        split at hn
        · cases hn
        · split at hn
          · rename_i p' hf
            simp only [Option.some.injEq] at hn
            subst hn
            have := List.find?_some hf
            have hm := List.mem_of_find?_eq_some hf
            exact ⟨by simpa using this, hm⟩
          · cases hn
  · intro c s peer h
    simp only [handshake] at h
    split at h
    · cases h
    · split at h
      · cases h
      · simp only [serverSide] at h
        split at h
        · rename_i hm; rw [hm]; simpa using h.symm
        · rename_i rs hm
          rw [hm]
          split at h
          · split at h
            · rename_i ch hid hv; simp only [Option.some.injEq] at h; exact ⟨ch, h.symm, hid, hv⟩
            · cases h
          · cases h
        · rename_i rs hm
          rw [hm]
          split at h
          · split at h
            · rename_i ch hid hv; simp only [Option.some.injEq] at h; exact Or.inr ⟨ch, h.symm, hid, hv⟩
            · cases h
          · simp only [Option.some.injEq] at h; exact Or.inl h.symm

open Tls.TestPki in
/-- The consequence of `C15_client_config_reads_back_asis_fails` for the property itself, in
the test world: on the unchanged tree an https endpoint configured with
`domain_name("bad.test")`, then `with_enabled_roots()`, then CA 1, connects (h2 negotiated) to a
server whose chain does NOT verify for the configured name — `C15_client_connects_only_if`
is false of the 0.13.0 code. Same case as the first corpus line of the harness. -/
theorem C15_client_connects_only_if_asis_fails :
    ∃ (ops : List (ClientOp Cert (List Cert))) (uri : Uri) (ep : Endpoint Cert (List Cert))
      (srv : ServerHello Cert (List Cert)),
      (Endpoint.fromShared uri).tlsConfig sys (ClientTlsConfig.buildAsIs ops) = .ok ep ∧
      uri.scheme = some .https ∧
      Connector.call ep true (fun c => (handshake c srv).client) = .ok (.tls (some alpnH2)) ∧
      expectedName ops uri = some "bad.test" ∧
      verifies (configuredRoots sys ops) srv.chain "bad.test" = false :=
  ⟨[.domainName "bad.test", .withEnabledRoots, .caCertificate (some [.ca1])],
   { scheme := some .https, host := some "good.test" }, _,
   { chain := [.s1good], clientAuth := .off, alpn := [alpnH2] },
   rfl, rfl, rfl, by decide, by decide⟩

section Examples
open Tls.TestPki

private def goodOps : List (ClientOp Cert (List Cert)) :=
  [.domainName "bad.test", .caCertificate (some [.ca2]), .withEnabledRoots,
   .caCertificates [some [.ca1], some []], .domainName "good.test", .assumeHttp2 true, .assumeHttp2 false,
   .identity { cert := some [.c1], keyOk := true, accepted := true }]
private def goodUri : Uri := { scheme := some .https, host := some "other.test" }
private def goodSrvOps : List (ServerOp Cert (List Cert)) :=
  [.clientAuthOptional true, .identity { cert := some [.s1good], keyOk := true, accepted := true },
   .clientCaRoot (some [.ca2]), .clientCaRoot (some [.ca1]), .clientAuthOptional false]

/-- The hypotheses of the end-to-end theorem are met by a non-trivial configuration (mixed
builder calls on both sides, mTLS), and there the handler does run. -/
example :
    ∃ ep s, (Endpoint.fromShared goodUri).tlsConfig sys (ClientTlsConfig.build goodOps) = .ok ep ∧
      (ServerTlsConfig.build goodSrvOps).tlsAcceptor = .ok s ∧
      (scenario ep (.tonicTls s) .tcp handshake).handlers = 1 ∧
      (scenario ep (.tonicTls s) .tcp handshake).peer = some (some [.c1]) := by
  refine ⟨_, _, rfl, rfl, ?_, ?_⟩ <;> decide

/-- … and one step away (the other CA on the client) the same theorem's conclusion is
impossible, so the handler must not run — and the model agrees. -/
example :
    ∃ ep s, (Endpoint.fromShared goodUri).tlsConfig sys
        (ClientTlsConfig.build (goodOps ++ [.identity { cert := some [.c2], keyOk := true, accepted := true }])) = .ok ep ∧
      (ServerTlsConfig.build goodSrvOps).tlsAcceptor = .ok s ∧
      (scenario ep (.tonicTls s) .tcp handshake).handlers = 0 := by
  refine ⟨_, _, rfl, rfl, ?_⟩; decide

private def genUri : Uri := { scheme := some .https, host := some "good.test" }
private def h2Server (c : Cert) (alpn : List String) : ServerHello Cert (List Cert) :=
  { chain := [c], clientAuth := .off, alpn := alpn }

/-- The hypotheses of `C15_generated_client_connects_only_if` are met in a build with both root
stores compiled in (platform store {ca1}, webpki store {ca2}): a generated client comes into
being and connects to an h2 server certified by the webpki store … -/
example :
    ∃ ep, Endpoint.new (sysWith true [.ca1]) genUri = .ok ep ∧
      Connector.call ep true (fun c => (handshake c (h2Server .s2good [alpnH2])).client) = .ok (.tls (some alpnH2)) := by
  exact ⟨_, rfl, rfl⟩

/-- … while in the build without the webpki store the same server is refused, and a server
that does not select h2 is refused although its certificate is fine (no opt-out on this path). -/
example :
    ∃ ep, Endpoint.new (sysWith false [.ca1]) genUri = .ok ep ∧
      Connector.call ep true (fun c => (handshake c (h2Server .s2good [alpnH2])).client) = .error (.badCert .unknownIssuer) ∧
      Connector.call ep true (fun c => (handshake c (h2Server .s1good [])).client) = .error .h2NotNegotiated := by
  exact ⟨_, rfl, rfl, rfl⟩

/-- The hypotheses of `C15_empty_native_store_refused` are satisfiable (the request for the
platform store buried in the middle of a builder sequence), and one certificate in the store
is enough for the same configuration to be accepted. -/
example : (sysWith false ([] : List Cert)).featNative = true ∧ (sysWith false ([] : List Cert)).nativeCerts = [] ∧
    asksNative goodOps = true ∧
    ∃ ep, (Endpoint.fromShared goodUri).tlsConfig (sysWith false [.ca2]) (ClientTlsConfig.build goodOps) = .ok ep :=
  ⟨rfl, rfl, rfl, _, rfl⟩

/-- The hypothesis of `C15_config_use_has_no_memory` is met by a non-trivial history: a base
configuration that is never used itself, a clone of it used for `good.test`, and a configuration
derived from that used clone (`domain_name`, `assume_http2`) — whose own sequence is the
concatenation, and which the process model, run operationally, gives the name `bad.test` and the
roots of the base. -/
example :
    let hist : List (Stmt Cert (List Cert)) :=
      [.config none [.caCertificate (some [.ca1])], .config (some 0) [],
       .endpoint { scheme := some .https, host := some "good.test" }, .tlsConfig 0 1, .connect 1,
       .config (some 1) [.domainName "bad.test", .assumeHttp2 true], .cloneEndpoint 1]
    ownOps hist 2 = some [.caCertificate (some [.ca1]), .domainName "bad.test", .assumeHttp2 true] ∧
    (((Proc.run sys hist).useConfig sys 2 goodUri).eps.getLast?.bind
      (fun r => match r with | .ok ep => ep.tls.map (fun t => (t.domain, t.roots, t.assumeHttp2)) | .error _ => none))
      = some ("bad.test", [.ca1], true) := by
  exact ⟨rfl, by decide⟩

/-- The hypotheses of `C15_generated_client_keeps_caller_configuration` are met: in a build whose
platform store holds CA 2, an endpoint configured to trust CA 1 (name from the URI) goes through
`Endpoint::new` and connects to the CA-1 server — and NOT to the CA-2 server the default
configuration of generated clients would have accepted. -/
example :
    ∃ ep, (Endpoint.fromShared genUri).tlsConfig (sysWith false [.ca2])
        (ClientTlsConfig.build ([.caCertificate (some [.ca1])] : List (ClientOp Cert (List Cert)))) = .ok ep ∧
      Endpoint.newFrom (sysWith false [.ca2]) ep = .ok ep ∧
      Connector.call ep true (fun c => (handshake c (h2Server .s1good [alpnH2])).client) = .ok (.tls (some alpnH2)) ∧
      Connector.call ep true (fun c => (handshake c (h2Server .s2good [alpnH2])).client) = .error (.badCert .unknownIssuer) := by
  exact ⟨_, rfl, rfl, rfl, rfl⟩

/-- The hypothesis of `C15_server_builder_last_tls_config_wins` is met by a chain with an earlier
permissive `tls_config`, layers on both sides, and the mTLS configuration last: the serve loop's
acceptor requires client certificates of CA 1. -/
example :
    ∃ s, ServerBuilder.run (Root := Cert) (Chain := List Cert)
        [.tlsConfig [.identity { cert := some [.s1good], keyOk := true, accepted := true }, .clientAuthOptional true],
         .layer, .tlsConfig goodSrvOps, .layer] = .ok (some s) ∧
      (match s.clientAuth with | .required rs => rs == [Cert.ca1] | _ => false) = true := by
  exact ⟨_, rfl, by decide⟩

end Examples

end C15
