import TonicModel.Model.Tls
import TonicModel.Spec.Tls
import TonicModel.Basic.TlsTestPki
/-
C15 — TLS channels and servers authenticate the peer and insist on HTTP/2.
Property theorems only; helper lemmas live in `Lemmas/Tls`.
-/
namespace C15
open Tls

variable {Root Chain : Type}

/-- No plaintext fallback: over an https URI `Connector::call` never yields a plaintext IO,
whatever the TLS configuration, the dial result and the handshake do. -/
theorem C15_no_plaintext_fallback (ep : Endpoint Root Chain) (dialOk : Bool)
    (hs : ClientHello Root Chain → ClientView) (h : ep.uri.scheme = some .https) :
    Connector.call ep dialOk hs ≠ .ok .plain := by
  unfold Connector.call
  cases dialOk <;> simp [h]
  cases ep.tls with
  | none => simp
  | some t =>
    simp only [TlsConnector.connect]
    cases hs t.hello <;> simp
    split <;> simp

end C15
