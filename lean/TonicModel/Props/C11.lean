import TonicModel.Model.Codegen
import TonicModel.Spec.Codegen
import TonicModel.Lemmas.Codegen
import TonicModel.Props.C10
/-
C11 — Generated clients and servers agree with each other and with checked-in code.
Theorems about the generator model (`Model/Codegen`) for *all* service descriptors and options;
the correspondence run makes them statements about the emitted tokens.  The regeneration clause
(committed generated files = generator output) has no quantifier and is decided by exhaustive
re-execution (see `Driver/C11`, case `regen`).
-/
namespace C11
open Codegen

/-- The definition a descriptor stands for, in the spec's vocabulary. -/
def toMethodDef (o : Opts) (m : Method) : Spec.Codegen.MethodDef :=
  ⟨m.ident, m.clientStreaming, m.serverStreaming, (m.types o).1, (m.types o).2⟩

def toDef (s : Service) (o : Opts) : Spec.Codegen.ServiceDef :=
  ⟨s.package, s.ident, s.methods.map (toMethodDef o)⟩

def callNum : Call → Nat
  | .unary => 0 | .serverStreaming => 1 | .clientStreaming => 2 | .streaming => 3

def traitNum : SvcTrait → Nat
  | .unaryService => 0 | .serverStreamingService => 1 | .clientStreamingService => 2
  | .streamingService => 3

def obsC (c : ClientCall) : Spec.Codegen.ClientObs :=
  ⟨c.path, c.gmService, c.gmMethod, callNum c.call, c.reqStream, c.respStream, c.req, c.resp⟩

def obsS (a : ServerArm) : Spec.Codegen.ServerObs :=
  ⟨a.literal, callNum a.call, traitNum a.svcTrait, a.reqStream, a.respStream, a.req, a.resp,
    a.traitReq, a.traitResp⟩

/-- The generated server as C10's router sees it. -/
def serverOf (s : Service) (o : Opts) : Router.Svc :=
  ⟨serviceNameConst s o, s.methods.map (·.ident)⟩

private theorem path_spec (s : Service) (o : Opts) (m : Method) :
    formatMethodPath s m o =
      Spec.Codegen.methodPath (Spec.Codegen.fullName (pkgShown s o) s.ident) m.ident := by
  simp [formatMethodPath, Spec.Codegen.methodPath, serviceName_spec, slash]

/-- *Transcription lemma (definitional).*  The model's `clientMethod` and `serverMethod` both
call `formatMethodPath` and `Method.types` and repeat the same four-way `match`, as the two
generators do, so this unfolds the model (`cases <;> rfl`); that the *emitted tokens* agree is
what the syn-extraction correspondence run establishes.  Statement: **client and server agree,
method by method**: same path, same `Grpc` entry point, same streaming shape of request and
response, same message types — for every service descriptor (any package / names / number of
methods / combination of streaming flags) and every option. -/
theorem C11_agree (s : Service) (o : Opts) :
    (clientCalls s o).map (fun c => (c.path, c.call, c.reqStream, c.respStream, c.req, c.resp)) =
    (serverArms s o).map (fun a => (a.literal, a.call, a.reqStream, a.respStream, a.req, a.resp)) := by
  simp only [clientCalls, serverArms, List.map_map]
  apply List.map_congr_left
  intro m _
  simp only [Function.comp, clientMethod, serverMethod]
  cases m.clientStreaming <;> cases m.serverStreaming <;> rfl

/-- *Transcription lemma (definitional)* — also the statement itself.  **One type name per
message, on every side, under every option set**: for every method, whatever its type names come
from (prost-build's resolution, a manual definition, a user's own `request_response_name`) and
for every `compile_well_known_types` / `proto_path` / `emit_package`, the generated client
method, the server's `*Service` impl (whose type parameter fixes the codec's types) and the
server trait method all name the same request type and the same response type, because all
three ask `request_response_name` with the same two arguments. -/
theorem C11_types_agree (s : Service) (o : Opts) (m : Method) :
    (clientMethod s o m).req = (serverMethod s o m).req ∧
    (clientMethod s o m).resp = (serverMethod s o m).resp ∧
    (serverMethod s o m).traitReq = (serverMethod s o m).req ∧
    (serverMethod s o m).traitResp = (serverMethod s o m).resp := by
  simp only [clientMethod, serverMethod]
  cases m.clientStreaming <;> cases m.serverStreaming <;> exact ⟨rfl, rfl, rfl, rfl⟩

/-- What is assumed of prost-build's answer for a message type (checked by the driver on every
case): a message compiled into the generated tree (`here`) gets a *relative* path that is not
one of tonic-build's pass-through shapes; a message that lives elsewhere gets one of them — a
well-known type left to prost-types (proto name below `.google.protobuf`, not compiled), an
absolute path (`::…`), a `crate::…` path, or `()`. -/
def ProstLaw (protoType rustType : Bytes) (compileWkt here : Bool) : Prop :=
  ((isGoogleType protoType && !compileWkt) || colons.isPrefixOf rustType ||
    nonPathTypeAllowlist.contains rustType || cratePrefix.isPrefixOf rustType) = !here

/-- **The shared type-path resolution does what the definition demands**: under the stated law
on prost-build's output, tonic-build's `convert_type` names a message compiled into the
generated tree as `<proto_path>::<prost's path>` and any other message exactly as prost names
it — for every `proto_path`, both settings of `compile_well_known_types`, and any extern
mapping (they enter only through prost's answer). (Transcription lemma: it holds by unfolding the model's definition, so it pins the model's shape for the correspondence run — its assurance about tonic is the tie, not this proof.) -/
theorem C11_type_resolution (protoPath protoType rustType : Bytes) (compileWkt here : Bool)
    (law : ProstLaw protoType rustType compileWkt here) :
    (TypeName.prost protoType rustType).resolve protoPath compileWkt =
      Spec.Codegen.typePath protoPath here rustType := by
  unfold ProstLaw at law
  unfold TypeName.resolve Spec.Codegen.typePath
  dsimp only
  cases here with
  | true =>
    simp only [Bool.not_true, Bool.or_eq_false_iff] at law
    obtain ⟨⟨⟨h1, h2⟩, h3⟩, h4⟩ := law
    rw [h1, h2, h3, h4]
    simp [colons]
  | false =>
    simp only [Bool.not_false] at law
    cases h : ((isGoogleType protoType && !compileWkt) || colons.isPrefixOf rustType ||
        nonPathTypeAllowlist.contains rustType) with
    | true => simp
    | false =>
      rw [h, Bool.false_or] at law
      rw [law]; simp

example : ProstLaw (googlePrefix ++ [46, 69]) unitType false false := by unfold ProstLaw; decide
example : ProstLaw [46, 97, 46, 82] [82] false true := by unfold ProstLaw; decide

/-- *Transcription lemma (definitional)*: a case split over the two streaming flags, each case
closed by unfolding the model.  **Each side is what the definition says**: the path is `/package.Service/Method` (package
omitted when empty or when `emit_package(false)` was requested), the RPC kind is the one given
by the two streaming flags, the message types are the definition's, the `GrpcMethod` extension
names the same service and method. -/
theorem C11_client_conforms (s : Service) (o : Opts) (m : Method) :
    Spec.Codegen.clientOk (Spec.Codegen.fullName (pkgShown s o) s.ident) (toMethodDef o m)
      (obsC (clientMethod s o m)) = true := by
  simp only [Spec.Codegen.clientOk, obsC, clientMethod, toMethodDef]
  cases m.clientStreaming <;> cases m.serverStreaming <;>
    simp [path_spec, serviceName_spec, callNum, Spec.Codegen.kind]

/-- *Transcription lemma (definitional)*, server side of `C11_client_conforms`. -/
theorem C11_server_conforms (s : Service) (o : Opts) (m : Method) :
    Spec.Codegen.serverOk (Spec.Codegen.fullName (pkgShown s o) s.ident) (toMethodDef o m)
      (obsS (serverMethod s o m)) = true := by
  simp only [Spec.Codegen.serverOk, obsS, serverMethod, toMethodDef]
  cases m.clientStreaming <;> cases m.serverStreaming <;>
    simp [path_spec, callNum, traitNum, Spec.Codegen.kind]

private theorem all₂_map {α β γ} (p : β → γ → Bool) (f : α → β) (g : α → γ) (l : List α)
    (h : ∀ x ∈ l, p (f x) (g x) = true) : Spec.Codegen.all₂ p (l.map f) (l.map g) = true := by
  induction l with
  | nil => rfl
  | cons a l ih =>
    simp only [List.map_cons, Spec.Codegen.all₂, Bool.and_eq_true]
    exact ⟨h a List.mem_cons_self, ih (fun x hx => h x (List.mem_cons_of_mem _ hx))⟩

/-- *Transcription lemma (definitional)*: the three lemmas above, lifted over the method list.
**The generator output satisfies the executable spec predicate** (the one the driver
evaluates on the tokens extracted from the real generators), for every descriptor and option:
advertised service name = path prefix, both sides conform to the definition, and they agree. -/
theorem C11_conforms (s : Service) (o : Opts) :
    Spec.Codegen.conforms (pkgShown s o) (toDef s o) (some (serviceNameConst s o))
      (some ((clientCalls s o).map obsC)) (some ((serverArms s o).map obsS)) = true := by
  simp only [Spec.Codegen.conforms, toDef, serviceNameConst, serviceName_spec, beq_self_eq_true,
    Bool.true_and, Bool.and_eq_true, clientCalls, serverArms, List.map_map]
  refine ⟨⟨?_, ?_⟩, ?_⟩
  · have := all₂_map (Spec.Codegen.clientOk (Spec.Codegen.fullName (pkgShown s o) s.ident))
      (toMethodDef o)
      (obsC ∘ clientMethod s o) s.methods (fun m _ => C11_client_conforms s o m)
    simpa [List.map_map] using this
  · have := all₂_map (Spec.Codegen.serverOk (Spec.Codegen.fullName (pkgShown s o) s.ident))
      (toMethodDef o)
      (obsS ∘ serverMethod s o) s.methods (fun m _ => C11_server_conforms s o m)
    simpa [List.map_map] using this
  · unfold Spec.Codegen.sidesAgree
    apply all₂_map
    intro m _
    simp only [Function.comp, obsC, obsS, clientMethod, serverMethod]
    cases m.clientStreaming <;> cases m.serverStreaming <;> simp

/-- *Transcription lemma (definitional)*: `formatMethodPath` is written as
`"/" ++ formatServiceName ++ "/" ++ ident`, as `lib.rs::format_method_path` is.
**The advertised service name is the path prefix**: every arm literal (and so every client
path) is `"/" ++ SERVICE_NAME ++ "/" ++ method`, i.e. exactly the route C10's router keys on. -/
theorem C11_service_name_is_prefix (s : Service) (o : Opts) (m : Method) :
    (serverMethod s o m).literal = Router.routePrefix (serviceNameConst s o) ++ m.ident ∧
    (clientMethod s o m).path = Router.routePrefix (serviceNameConst s o) ++ m.ident := by
  constructor <;>
  · simp only [serverMethod, clientMethod]
    cases m.clientStreaming <;> cases m.serverStreaming <;>
      simp [formatMethodPath, Router.routePrefix, serviceNameConst, slash, Router.slash]

/-- **End to end with C10**: in any set of registered services containing the generated server,
a call made by the generated client for method `m` runs exactly the handler of `m` of that
service. -/
theorem C11_end_to_end (reg : List Router.Svc) (hwf : C10.WellFormed reg) (s : Service) (o : Opts)
    (hreg : serverOf s o ∈ reg) (m : Method) (hm : m ∈ s.methods) :
    Router.dispatch reg (clientMethod s o m).path = .handler (serviceNameConst s o) m.ident := by
  rw [C10.C10_dispatch_iff reg hwf]
  refine ⟨⟨(serverOf s o).methods, ?_, ?_⟩, ?_⟩
  · simp only [C10.decl, List.mem_map]
    exact ⟨serverOf s o, hreg, rfl⟩
  · simp only [serverOf, List.mem_map]; exact ⟨m, hm, rfl⟩
  · rw [(C11_service_name_is_prefix s o m).2]
    simp [Spec.Router.pathOf, Router.routePrefix, Router.slash]

/-- **The arm that fires has the client's shape and types.**  With distinct method identifiers,
the generated `match` run on the client's path for `m` selects the arm generated for `m`. -/
theorem C11_call_reaches_matching_arm (s : Service) (o : Opts)
    (hnd : (s.methods.map (·.ident)).Nodup) (m : Method) (hm : m ∈ s.methods) :
    serverCall (serverArms s o) (clientMethod s o m).path = some (serverMethod s o m) := by
  unfold serverCall serverArms
  rw [List.find?_map]
  have hfind : s.methods.find? ((fun a => (clientMethod s o m).path == a.literal) ∘ serverMethod s o) = some m := by
    apply Router.find?_eq_some_of_unique _ _ _ _ hm
    · simp [(C11_service_name_is_prefix s o m).1, (C11_service_name_is_prefix s o m).2]
    · intro y hy hpy
      have : (clientMethod s o m).path = (serverMethod s o y).literal := by simpa using hpy
      rw [(C11_service_name_is_prefix s o m).2, (C11_service_name_is_prefix s o y).1] at this
      have hid : y.ident = m.ident := (List.append_cancel_left this).symm
      exact Router.eq_of_nodup_map (·.ident) s.methods hnd y hy m hm hid
  rw [hfind]; rfl

/-- **The generated `match` is C10's `call`.**  Matching the request path against the emitted
arm literals fires an arm exactly when C10's abstract server (`NAME` + method identifiers) runs a
handler, so C10's theorems speak about the code this generator emits. -/
theorem C11_generated_match_is_router_call (s : Service) (o : Opts) (path : Bytes) :
    (serverCall (serverArms s o) path).isSome = ((serverOf s o).call path).handlerRan.isSome := by
  have hpred : ((fun a : ServerArm => path == a.literal) ∘ serverMethod s o) =
      ((fun i : Bytes => path == Router.routePrefix (serviceNameConst s o) ++ i) ∘ (·.ident)) := by
    funext m
    simp only [Function.comp, (C11_service_name_is_prefix s o m).1]
  unfold serverCall serverArms Router.Svc.call serverOf
  simp only [List.find?_map, hpred]
  cases s.methods.find? ((fun i : Bytes => path == Router.routePrefix (serviceNameConst s o) ++ i) ∘ (·.ident)) <;> rfl

/-- **… and it is the SAME method.**  Whatever arm the generated `match` fires on a path is the arm
generated for the very method C10's abstract server runs: there is a method `m` of the service with
`serverCall … = some (serverMethod s o m)` and `handlerRan = some (NAME, m.ident)`; and neither fires
when the other does not.  (Strengthens `C11_generated_match_is_router_call`, which only equates
whether something fires.) -/
theorem C11_generated_match_runs_the_routers_method (s : Service) (o : Opts) (path : Bytes) :
    (∃ m ∈ s.methods, serverCall (serverArms s o) path = some (serverMethod s o m) ∧
        ((serverOf s o).call path).handlerRan = some (serviceNameConst s o, m.ident)) ∨
    (serverCall (serverArms s o) path = none ∧ ((serverOf s o).call path).handlerRan = none) := by
  have hpred : ((fun a : ServerArm => path == a.literal) ∘ serverMethod s o) =
      ((fun i : Bytes => path == Router.routePrefix (serviceNameConst s o) ++ i) ∘ (·.ident)) := by
    funext m
    simp only [Function.comp, (C11_service_name_is_prefix s o m).1]
  unfold serverCall serverArms Router.Svc.call serverOf
  simp only [List.find?_map, hpred]
  cases hf : s.methods.find? ((fun i : Bytes => path == Router.routePrefix (serviceNameConst s o) ++ i) ∘ (·.ident)) with
  | none => right; simp [Router.Outcome.handlerRan]
  | some m => left; exact ⟨m, List.mem_of_find?_eq_some hf, by simp, by simp [Router.Outcome.handlerRan]⟩

/-- Conversely, an arm fires only for a path some client method produces. -/
theorem C11_arm_fires_only_for_client_paths (s : Service) (o : Opts) (path : Bytes) (a : ServerArm)
    (h : serverCall (serverArms s o) path = some a) :
    ∃ m ∈ s.methods, a = serverMethod s o m ∧ path = (clientMethod s o m).path := by
  unfold serverCall serverArms at h
  rw [List.find?_map] at h
  cases hf : s.methods.find? ((fun a => path == a.literal) ∘ serverMethod s o) with
  | none => simp [hf] at h
  | some m =>
    simp only [hf, Option.map_some, Option.some.injEq] at h
    refine ⟨m, List.mem_of_find?_eq_some hf, h.symm, ?_⟩
    have := List.find?_some hf
    simp only [Function.comp, beq_iff_eq] at this
    rw [this, (C11_service_name_is_prefix s o m).1, (C11_service_name_is_prefix s o m).2]

/-- Distinct method identifiers give distinct client paths: no two generated client methods
can land on the same server arm. -/
theorem C11_distinct_paths (s : Service) (o : Opts) (hnd : (s.methods.map (·.ident)).Nodup) :
    ((clientCalls s o).map (·.path)).Nodup := by
  have : (clientCalls s o).map (·.path) =
      (s.methods.map (·.ident)).map (fun i => Router.routePrefix (serviceNameConst s o) ++ i) := by
    simp only [clientCalls, List.map_map]
    apply List.map_congr_left
    intro m _
    exact (C11_service_name_is_prefix s o m).2
  rw [this]
  exact List.Pairwise.map _ (fun a b hab h => hab (List.append_cancel_left h)) hnd

/-- A service definition whose names are protobuf-like: identifier `.`-free and non-empty, no
route-pattern characters anywhere in the shown package or the identifier, method identifiers
non-empty. -/
def DefOk (s : Service) (o : Opts) : Prop :=
  dot ∉ s.ident ∧ s.ident ≠ [] ∧
  (∀ c, c ∈ pkgShown s o ∨ c ∈ s.ident → c ≠ 47 ∧ c ≠ 123 ∧ c ≠ 125) ∧
  (∀ m ∈ s.methods, m.ident ≠ [])

/-- **Distinct definitions give a well-formed registry.**  Generated servers of service
definitions that differ in (package, service identifier) advertise distinct, route-safe names:
C10's hypotheses hold for any such set. -/
theorem C11_registry_wellformed (ds : List Service) (o : Opts) (hok : ∀ s ∈ ds, DefOk s o)
    (hdist : (ds.map (fun s => (pkgShown s o, s.ident))).Nodup) :
    C10.WellFormed (ds.map (fun s => serverOf s o)) := by
  refine ⟨?_, ?_, ?_⟩
  · intro x hx
    obtain ⟨s, hs, rfl⟩ := List.mem_map.mp hx
    obtain ⟨_, hne, hch, _⟩ := hok s hs
    have hmem : ∀ c ∈ serviceNameConst s o, c ≠ 47 ∧ c ≠ 123 ∧ c ≠ 125 := by
      intro c hc
      rw [serviceNameConst, serviceName_spec] at hc
      rcases mem_fullName _ _ _ hc with h | h | h
      · exact hch c (Or.inl h)
      · subst h; decide
      · exact hch c (Or.inr h)
    have hnn : serviceNameConst s o ≠ [] := by
      rw [serviceNameConst, serviceName_spec]; exact fullName_ne_nil _ _ hne
    simp only [serverOf, Router.validName, Router.slash, Bool.and_eq_true, Bool.not_eq_eq_eq_not,
      Bool.not_true, List.isEmpty_eq_false_iff, List.contains_eq_mem, decide_eq_false_iff_not]
    exact ⟨⟨⟨hnn, fun h => (hmem _ h).1 rfl⟩, fun h => (hmem _ h).2.1 rfl⟩, fun h => (hmem _ h).2.2 rfl⟩
  · intro x hx mi hmi
    obtain ⟨s, hs, rfl⟩ := List.mem_map.mp hx
    obtain ⟨m, hm, rfl⟩ := List.mem_map.mp hmi
    exact (hok s hs).2.2.2 m hm
  · rw [List.map_map]
    rw [List.Nodup, List.pairwise_map] at hdist ⊢
    refine hdist.imp_of_mem ?_
    intro a b ha hb hne heq
    apply hne
    simp only [Function.comp, serverOf, serviceNameConst, serviceName_spec] at heq
    obtain ⟨h1, h2⟩ := fullName_inj _ _ _ _ (hok a ha).1 (hok b hb).1 heq
    rw [h1, h2]

/-- **End to end, stated on service definitions only.**  Take any set of service definitions
with protobuf-like names that differ in (package, identifier); register all their generated
servers; then the call the generated client makes for method `m` of definition `s` runs exactly
the handler of `m` in the server generated for `s` — whatever the other services are called
(prefixes of one another, same identifier in other packages, …). -/
theorem C11_end_to_end_defs (ds : List Service) (o : Opts) (hok : ∀ s ∈ ds, DefOk s o)
    (hdist : (ds.map (fun s => (pkgShown s o, s.ident))).Nodup)
    (s : Service) (hs : s ∈ ds) (m : Method) (hm : m ∈ s.methods) :
    Router.dispatch (ds.map (fun s => serverOf s o)) (clientMethod s o m).path =
      .handler (serviceNameConst s o) m.ident :=
  C11_end_to_end _ (C11_registry_wellformed ds o hok hdist) s o
    (List.mem_map.mpr ⟨s, hs, rfl⟩) m hm

/-- … and a path that no generated client method produces is answered UNIMPLEMENTED with no
handler run (C10 transported to definitions). -/
theorem C11_other_paths_unimplemented (ds : List Service) (o : Opts) (hok : ∀ s ∈ ds, DefOk s o)
    (hdist : (ds.map (fun s => (pkgShown s o, s.ident))).Nodup) (path : Bytes)
    (hno : ∀ s ∈ ds, ∀ m ∈ s.methods, path ≠ (clientMethod s o m).path) :
    (Router.dispatch (ds.map (fun s => serverOf s o)) path).handlerRan = none ∧
    (Router.dispatch (ds.map (fun s => serverOf s o)) path).routerStatus = some 12 := by
  apply C10.C10_else_unimplemented _ (C11_registry_wellformed ds o hok hdist)
  rintro ⟨sn, mn, ⟨ms, hmem, hmn⟩, hp⟩
  simp only [C10.decl, List.map_map, List.mem_map, Function.comp, serverOf, Prod.mk.injEq] at hmem
  obtain ⟨s, hs, rfl, rfl⟩ := hmem
  obtain ⟨m, hm, rfl⟩ := List.mem_map.mp hmn
  apply hno s hs m hm
  rw [hp, (C11_service_name_is_prefix s o m).2]
  simp [Spec.Router.pathOf, Router.routePrefix, Router.slash]

/-- Without a package (or with `emit_package(false)`) the name is the bare service identifier;
with one it is `package.Service`. -/
theorem C11_service_name (s : Service) (o : Opts) :
    serviceNameConst s o = Spec.Codegen.fullName (pkgShown s o) s.ident :=
  serviceName_spec s o

/- Non-vacuity: a descriptor with a nested package, the four kinds, Rust names that differ from
the proto identifiers; hypotheses of the end-to-end theorems are satisfiable. -/
private def bs (s : String) : Bytes := s.toList.map (fun c => c.toNat.toUInt8)
private def svc0 : Service :=
  ⟨bs "Greeter", bs "a.b", bs "Greeter",
   [⟨bs "say_hello", bs "SayHello", false, false, .fixed (bs "Req"), .fixed (bs "Resp")⟩,
    ⟨bs "watch", bs "Watch", false, true, .fixed (bs "Req"), .fixed (bs "Resp")⟩,
    ⟨bs "upload", bs "Upload", true, false, .fixed (bs "Chunk"), .fixed (bs "Resp")⟩,
    ⟨bs "r#type", bs "Type", true, true, .fixed (bs "Req"), .fixed (bs "Resp")⟩]⟩

example : (clientCalls svc0 { emitPackage := true }).map (·.path) =
    [bs "/a.b.Greeter/SayHello", bs "/a.b.Greeter/Watch", bs "/a.b.Greeter/Upload", bs "/a.b.Greeter/Type"] := by decide
example : (clientCalls svc0 { emitPackage := false }).map (·.path) =
    [bs "/Greeter/SayHello", bs "/Greeter/Watch", bs "/Greeter/Upload", bs "/Greeter/Type"] := by decide
example : (svc0.methods.map (·.ident)).Nodup := by decide
/-- a package spelled with a leading dot (what `manual::Service::package` accepts and prost never
produces; seed C11j): route, client path and advertised name keep the dot alike -/
example : (clientCalls { svc0 with package := bs ".helloworld" } { emitPackage := true }).map (·.path) =
    [bs "/.helloworld.Greeter/SayHello", bs "/.helloworld.Greeter/Watch", bs "/.helloworld.Greeter/Upload",
     bs "/.helloworld.Greeter/Type"] ∧
    serviceNameConst { svc0 with package := bs ".helloworld" } { emitPackage := true } = bs ".helloworld.Greeter" := by
  decide
example : C10.WellFormed [serverOf svc0 { emitPackage := true }, ⟨bs "a.b", [bs "Greeter"]⟩] := by
  refine ⟨by decide, by decide, by decide⟩
example : DefOk svc0 { emitPackage := true } := by
  refine ⟨by decide, by decide, ?_, by decide⟩
  intro c hc
  have h : c ∈ pkgShown svc0 { emitPackage := true } ++ svc0.ident := List.mem_append.mpr hc
  have all : ∀ c ∈ pkgShown svc0 { emitPackage := true } ++ svc0.ident, c ≠ 47 ∧ c ≠ 123 ∧ c ≠ 125 := by decide
  exact all c h
example : (serverArms svc0 { emitPackage := true }).map (·.call) = [.unary, .serverStreaming, .clientStreaming, .streaming] := by decide

/- the hypotheses of `C11_end_to_end_defs` hold for a set of definitions whose names collide in
every way the property mentions: same identifier in another package, no package, and a
Service-Name that is a prefix of another. -/
private def svc1 : Service := ⟨bs "Greeter", bs "a", bs "Greeter", [⟨bs "say_hello", bs "SayHello", false, false, .fixed (bs "Req"), .fixed (bs "Resp")⟩]⟩
private def svc2 : Service := ⟨bs "Greeter", [], bs "Greeter", [⟨bs "say_hello", bs "SayHello", true, true, .fixed (bs "Req"), .fixed (bs "Resp")⟩]⟩
private def svc3 : Service := ⟨bs "Gre", bs "a.b", bs "Gre", [⟨bs "eter", bs "eter", false, true, .fixed (bs "Req"), .fixed (bs "Resp")⟩]⟩
example : ([svc0, svc1, svc2, svc3].map (fun s => (pkgShown s { emitPackage := true }, s.ident))).Nodup := by decide
example : C10.WellFormed ([svc0, svc1, svc2, svc3].map (fun s => serverOf s { emitPackage := true })) := by
  refine ⟨by decide, by decide, by decide⟩
example : Router.dispatch ([svc0, svc1, svc2, svc3].map (fun s => serverOf s { emitPackage := true })) (bs "/Greeter/SayHello")
    = .handler (bs "Greeter") (bs "SayHello") := by decide

/-! ### Sets of services and builder histories (dimension audit aC11) -/

/-- Transcription lemma (definitional): `generateSet ds o` is DEFINED as `ds.map (generate · o)`, so
this is `List.map_append` and holds of any per-service generator; it restates the model's reading of
`ServiceGenerator::generate` being called once per service with fresh `CodeGenBuilder`s and carries
no assurance of its own.  That the real front ends carry nothing from one service of a set to the
next is established by the correspondence run (`px` descriptor sets with 1–4 services — same name in
two packages, with / without a package — and `mx` `manual::Builder::compile` on several services).
**A service of a set is generated as if it were alone.**  In a descriptor set (several
services in one `.proto` file, several files of one package, several packages; or
`manual::Builder::compile(&[…])`) what is generated for a service does not depend on what stands
before or after it: same Rust name in another package, a package that is a prefix of another, any
number of neighbours. -/
theorem C11_set_member_independent_of_neighbours (pre post : List Service) (s : Service) (o : Opts) :
    generateSet (pre ++ s :: post) o = generateSet pre o ++ generate s o :: generateSet post o := by
  simp [generateSet]

/-- Transcription lemma (definitional): `List.length_map` + `List.mem_map` + `C11_conforms`, which is
itself a transcription lemma (`toDef` takes the types from the model's own `Method.types`, so
"conforms" compares the model with a definition read off the model) — no assurance of its own; the
conformance of the EMITTED code to the descriptor is what the driver's evaluation of
`Spec.Codegen.conforms` on the `px` / `mx` cases establishes, per service.
**Every service of a set conforms** to its own definition (the executable spec predicate the
driver evaluates per service on `px` / `mx` cases), and the set has one output per service, in order. -/
theorem C11_set_conforms (ds : List Service) (o : Opts) :
    (generateSet ds o).length = ds.length ∧
    ∀ s ∈ ds, generate s o ∈ generateSet ds o ∧
      Spec.Codegen.conforms (pkgShown s o) (toDef s o) (some (generate s o).serviceName)
        (some ((generate s o).calls.map obsC)) (some ((generate s o).arms.map obsS)) = true := by
  refine ⟨by simp [generateSet], ?_⟩
  intro s hs
  exact ⟨List.mem_map.mpr ⟨s, hs, rfl⟩, C11_conforms s o⟩

/-- The value the last call of the `emit_package` setter gave, else the one before the history. -/
def lastEmit (dflt : Bool) : List BOp → Bool
  | [] => dflt
  | .emitPackage b :: ops => lastEmit b ops
  | _ :: ops => lastEmit dflt ops

/-- The value the last call of the `compile_well_known_types` setter gave. -/
def lastWkt (dflt : Bool) : List BOp → Bool
  | [] => dflt
  | .compileWkt b :: ops => lastWkt b ops
  | _ :: ops => lastWkt dflt ops

private theorem after_emit (st : BState) (ops : List BOp) :
    (st.after ops).emitPackage = lastEmit st.emitPackage ops := by
  induction ops generalizing st with
  | nil => rfl
  | cons op ops ih =>
    simp only [BState.after, List.foldl_cons] at ih ⊢
    rw [ih]
    cases op <;> rfl

private theorem after_wkt (st : BState) (ops : List BOp) :
    (st.after ops).compileWkt = lastWkt st.compileWkt ops := by
  induction ops generalizing st with
  | nil => rfl
  | cons op ops ih =>
    simp only [BState.after, List.foldl_cons] at ih ⊢
    rw [ih]
    cases op <;> rfl

/-- **What a builder emitted is never revised, and what it emits next depends on its past only
through its current value**: the output of a history `a ++ b` is the output of `a` followed by
the output of `b` run on the builder value `a` left behind. -/
theorem C11_builder_run_append (st : BState) (a b : List BOp) :
    st.run (a ++ b) = st.run a ++ (st.after a).run b := by
  induction a generalizing st with
  | nil => rfl
  | cons op a ih =>
    simp only [List.cons_append, BState.run, BState.after, List.foldl_cons, List.append_assoc]
    rw [ih]
    rfl

/-- Transcription lemma (definitional, `⟨rfl, rfl, rfl⟩`): `BState.set` is written with a catch-all arm
`| _ => st` for everything but the two setters (`generate_*` take `&self`); it pins the model's shape
for the `gseq` correspondence cases (one `CodeGenBuilder` reconfigured between 2–5 generations), which
carry the assurance.
**Generating changes nothing in the builder**: `generate_server` / `generate_client` (and the
setters of the other fields) leave the value as it was, so the same service generated twice in a
row comes out the same, in whichever order the two sides are generated. -/
theorem C11_builder_generation_keeps_value (st : BState) (s : Service) (p : Bytes) :
    st.set (.genServer s p) = st ∧ st.set (.genClient s p) = st ∧ st.set .other = st :=
  ⟨rfl, rfl, rfl⟩

/-- **A `CodeGenBuilder` has no memory.**  After ANY history of setter calls and generations
(other services, other option values, either side first), generating server and client for a
service emits exactly what the model emits for the options now in force — each the value its
setter was last called with, else the default — and that output satisfies the executable spec
predicate for those options.  In particular nothing of an earlier service (its name, its
package, an earlier `emit_package` value) can show.
What carries weight here: the first two conjuncts (an invariant over the history: the options in
force are the LAST value each setter was given — `lastEmit` / `lastWkt` — and the output is the
single-service model's for them), within the model `BState` whose `set` ignores `generate_*` by
construction (`C11_builder_generation_keeps_value`).  The THIRD conjunct re-exports the transcription
lemma `C11_conforms` (definitional, no assurance of its own) for convenience only.  Tie: `gseq`. -/
theorem C11_builder_has_no_memory (st : BState) (pre : List BOp) (s : Service) (p : Bytes) :
    let o : Opts := ⟨lastEmit st.emitPackage pre, lastWkt st.compileWkt pre, p⟩
    st.run (pre ++ [.genServer s p, .genClient s p]) =
      st.run pre ++ [.server (serviceNameConst s o) (serverArms s o), .client (clientCalls s o)] ∧
    st.run (pre ++ [.genClient s p, .genServer s p]) =
      st.run pre ++ [.client (clientCalls s o), .server (serviceNameConst s o) (serverArms s o)] ∧
    Spec.Codegen.conforms (pkgShown s o) (toDef s o) (some (serviceNameConst s o))
      (some ((clientCalls s o).map obsC)) (some ((serverArms s o).map obsS)) = true := by
  intro o
  have ho : (st.after pre).opts p = o := by
    simp only [BState.opts, after_emit, after_wkt, o]
  refine ⟨?_, ?_, C11_conforms s o⟩
  · rw [C11_builder_run_append]
    simp [BState.run, BState.emit, BState.set, ho]
  · rw [C11_builder_run_append]
    simp [BState.run, BState.emit, BState.set, ho]

/- Non-vacuity: a history that switches `emit_package` off and on again around a generation for
another service of the same Rust name. -/
example :
    let st : BState := {}
    st.run [.genServer svc1 superPath, .emitPackage false, .genServer svc0 superPath, .other,
            .emitPackage true, .compileWkt true, .genClient svc1 superPath] =
      [.server (bs "a.Greeter") (serverArms svc1 { emitPackage := true }),
       .server (bs "Greeter") (serverArms svc0 { emitPackage := false }),
       .client (clientCalls svc1 { emitPackage := true, compileWkt := true })] := by decide
example : lastEmit true [.genServer svc1 superPath, .emitPackage false, .other] = false := by decide
example : (generateSet [svc0, svc1, svc2, svc3] { emitPackage := true }).map (·.serviceName) =
    [bs "a.b.Greeter", bs "a.Greeter", bs "Greeter", bs "a.b.Gre"] := by decide

end C11
