import TonicModel.Model.Reconnect
import TonicModel.Spec.Reconnect
import TonicModel.Spec.Balance
import TonicModel.Lemmas.Reconnect
import TonicModel.Lemmas.ReconnectErr
import TonicModel.Lemmas.ReconnectStack
import TonicModel.Lemmas.ReconnectNet
import TonicModel.Lemmas.Balance
import TonicModel.Lemmas.BalanceRun
import TonicModel.Lemmas.BalanceDebt
import TonicModel.Lemmas.BalanceWitness
import TonicModel.Lemmas.BalanceSpecMain
import TonicModel.Lemmas.BalanceRunAll
import TonicModel.Lemmas.BalanceAcct
import TonicModel.Lemmas.ReconnectAbandon
/-
C14 — A channel always answers and recovers when the peer comes back.
Property theorems only; helper lemmas live in `Lemmas/Reconnect.lean`.

Reading guide.  `Reconnect.pollReady` / `Reconnect.call` model `Reconnect::poll_ready` / `call`;
the environment is a script `List Ans` of unbounded length (every theorem below is for all
scripts, by induction).  `serve` is one request going through the buffer worker, `session` is any
number of them, `E2E.run` is a whole fault script over {attempt refused, served, peer gone before
the handshake, connect timeout} × {call, peer drops the connection} on a lazy or eager channel.
`Spec.Reconnect.*` is the oracle written from the property text; it never mentions the state
machine.
-/
namespace C14
open ConnScript Reconnect
open Spec.Reconnect (failures reported)

/-! ## never a panic -/

/-- Whenever `poll_ready` says ready, the `call` that follows does not hit the
`panic!("service not ready")` branch — from any state whatsoever and for any environment. -/
theorem C14_call_never_panics (r : R) (env : List Ans)
    (h : (pollReady r env).2.2 = .ready) : (call (pollReady r env).1).2 ≠ .panic := by
  unfold pollReady at h ⊢
  by_cases he : r.error.isSome = true
  · simp only [he, if_true] at h ⊢
    cases hr : r.error with
    | none => simp [hr] at he
    | some e => simp [call, hr]
  · simp only [he] at h ⊢
    have hc := loop_ready_callable r env h
    rcases hc with hc | ⟨c, hc⟩
    · cases hr : (loop r env).1.error with
      | none => simp [hr] at hc
      | some e => simp [call, hr]
    · cases hr : (loop r env).1.error <;> simp [call, hr, hc]

/-- `drive` (what the `tower` `Ready` future and the buffer worker do) is exactly "call
`poll_ready` again while it returned `Pending` and the environment still has something to say";
so everything proved about `drive`/`serve` below is about repeated `poll_ready`. -/
theorem C14_drive_is_repeated_poll_ready (r : R) (env : List Ans) :
    drive r env =
      if (pollReady r env).2.2 = .pending ∧ (pollReady r env).2.1 ≠ [] then
        drive (pollReady r env).1 (pollReady r env).2.1
      else pollReady r env := by
  unfold drive pollReady
  by_cases he : r.error.isSome = true
  · simp [he]
  · have hn : r.error = none := by cases h : r.error <;> simp_all
    simp only [he]
    rw [driveLoop_repolls r env hn]
    by_cases hp : (loop r env).2.2 = .pending ∧ (loop r env).2.1 ≠ []
    · -- a poll that returned Pending stored no error
      have : (loop r env).1.error = none := loop_pending_error r env hn hp.1
      simp [hp, this]
    · simp [hp]

/-- Results do not depend on the readiness pattern: removing every `Pending` answer from the
script (`strip`) changes neither the result of any call of a session of any length nor the final
state — `Pending` only delays. (This is what lets the end-to-end model ignore connector and
handshake latency.) -/
theorem C14_pending_irrelevant (r : R) (env : List Ans) (n : Nat) :
    (session r (strip env) n).1 = (session r env n).1 ∧
    (session r (strip env) n).2.1 = (session r env n).2.1 :=
  session_strip r env n

/-! ## every call gets a definite result -/

/-- One request through the worker, from any state the service can be in while it is still in use
(`spent` only arises after `poll_ready` returned an error, after which `tower` services must not
be used): the result is never a panic, and the request is left waiting only if the environment
itself went silent (the whole script was consumed without an answer). Otherwise it is a response,
a connect error, or the channel-closing error. -/
theorem C14_definite_result (r : R) (env : List Ans) (hs : r.st ≠ .spent) :
    (serve r env).2.2 ≠ .panic ∧ ((serve r env).2.2 = .hang → (serve r env).2.1 = []) :=
  serve_definite r env hs

/-- Over a whole session of any length on any script, from any state in use with no stored error
(a freshly built lazy channel, an eager one that connected, or any state in between calls): no
call panics; a call is left waiting only if the script is exhausted; and the channel closes only
through a failure that happened (`poll_ready` itself failing — a connector whose own `poll_ready`
errors, outside the property's fault alphabet). -/
theorem C14_session_definite (r : R) (env : List Ans) (n : Nat) (he : r.error = none)
    (hs : r.st ≠ .spent) :
    Res.panic ∉ (session r env n).1 ∧
    (Res.hang ∈ (session r env n).1 → (session r env n).2.2 = []) ∧
    (∀ e, Res.closed e ∈ (session r env n).1 → e ∈ failures env) :=
  session_facts n r env he hs

/-! ## an eager channel reports an initial failure immediately; a lazy one hands it to the first call -/

/-- Eager channel whose first attempt fails — after any number `p`, `q` of `Pending`s from the
connector and from the connect future —: building the channel returns that very error, exactly
one attempt was made (no hidden retry) and nothing after the failure was consumed. -/
theorem C14_eager_initial_failure (p q e : Nat) (rest : List Ans) :
    connectEager (List.replicate p .pending ++ .ok :: (List.replicate q .pending ++ .err e :: rest)) =
      ({ R.init false with st := .spent, made := 1 }, rest, .failed e) :=
  eager_initial_failure p q e rest

/-- Lazy channel, same script: the first call gets that error, after one attempt, and the state
left behind is `Idle` with no stored error — the next call starts a fresh attempt. -/
theorem C14_lazy_initial_failure (p q e : Nat) (rest : List Ans) :
    serve (R.init true) (List.replicate p .pending ++ .ok :: (List.replicate q .pending ++ .err e :: rest)) =
      ({ R.init true with made := 1 }, rest, .err e) :=
  lazy_initial_failure p q e rest

/-! ## a failure is reported once, to the call that triggered the attempt -/

/-- `Good`: a stored error always sits in the `Idle` state. It holds initially and after any
sequence whatsoever of `poll_ready` / `call` on any script. -/
theorem C14_invariant (l : Bool) (env : List Ans) (ops : List UOp) :
    Good (runOps (R.init l) env ops).2.1 :=
  runOps_good _ env ops (good_init l)

/-- The stored error is consumed by exactly the next call: that call returns it, and afterwards
the state is `Idle` with no error, so the following `poll_ready` starts a new attempt. -/
theorem C14_error_reported_once (r : R) (e : Nat) (hg : Good r) (he : r.error = some e) :
    (call r).2 = .error e ∧ (call r).1.error = none ∧ (call r).1.st = .idle := by
  have hst : r.st = .idle := hg (by simp [he])
  simp [call, he, hst]

/-- No replay, for ANY use of the two entry points on any script (not only the disciplined one):
the connect errors handed to calls, in order, form a subsequence of the failures that happened —
each failure is handed out at most once and never out of order. -/
theorem C14_no_replay (l : Bool) (env : List Ans) (ops : List UOp) :
    (handed (runOps (R.init l) env ops).1).Sublist (failures env) := by
  simpa [R.init] using runOps_handed_sublist (R.init l) env ops

/-- The same through the buffer worker, for any number of calls. -/
theorem C14_no_replay_session (l : Bool) (env : List Ans) (n : Nat) :
    (reported (session (R.init l) env n).1).Sublist (failures env) :=
  session_reported_sublist _ env n rfl

/-- The error a call receives was produced while that very call was waiting for readiness: it is
one of the failures in the part of the script consumed by this `serve` (so it belongs to an
attempt this call triggered or was waiting on), and the call leaves no error behind for later
calls. -/
theorem C14_error_belongs_to_triggering_call (r : R) (env : List Ans) (he : r.error = none)
    (e : Nat) (h : (serve r env).2.2 = .err e) :
    ∃ used, env = used ++ (serve r env).2.1 ∧ e ∈ failures used ∧ (serve r env).1.error = none := by
  obtain ⟨used, h1, h2, _, h4⟩ := serve_consumes r env he
  refine ⟨used, h1, ?_, h4 (by simp [h]) (by simp [h]) (by simp [h])⟩
  rw [h] at h2
  simpa [reported] using h2

/-! ## recovery without rebuilding the channel -/

/-- Once nothing fails any more (`Quiet`: every remaining answer is `Ready(Ok)` or `Pending`) and
the environment answers at least as often as the state machine needs (3 from `Idle`), the next
call is served — by the established connection if there is one, else by a new one — whatever
happened before, from any state still in use. -/
theorem C14_recovers (r : R) (env : List Ans) (he : r.error = none) (hs : r.st ≠ .spent)
    (hq : Quiet env) (hn : need r ≤ countOk env) :
    (serve r env).2.2 = .resp (target r) := by
  obtain ⟨h1, h2, h3, _⟩ := driveLoop_quiet env r he hs hq hn
  unfold serve drive
  simp only [he, Option.isSome_none, Bool.false_eq_true, if_false]
  rcases hd : driveLoop r env with ⟨r1, env1, p⟩
  rw [hd] at h1 h2 h3
  simp only at h1 h2 h3
  subst h1
  simp [call, h3, h2]

/-- If a connect error is stored, exactly the next call gets it and the one after is served. -/
theorem C14_recovers_after_reported_error (r : R) (e : Nat) (env : List Ans) (hg : Good r)
    (he : r.error = some e) (hq : Quiet env) (hn : 3 ≤ countOk env) :
    (serve r env).2.2 = .err e ∧ (serve r env).2.1 = env ∧
    (serve (serve r env).1 env).2.2 = .resp (r.made + 1) := by
  have hst : r.st = .idle := hg (by simp [he])
  rw [serve_stored_error r e env he]
  refine ⟨rfl, rfl, ?_⟩
  have := C14_recovers { r with error := none } env rfl (by simp [hst]) hq (by simpa [need, hst] using hn)
  simpa [target, hst] using this

/-- The peer dropped the established connection (its `poll_ready` fails, after any number of
`Pending`s) and the endpoint is reachable: the call is served by a new connection; the death of
the old one is not reported to anyone. -/
theorem C14_recovers_after_peer_drop (r : R) (c x p : Nat) (env : List Ans) (he : r.error = none)
    (hst : r.st = .connected c) (hq : Quiet env) (hn : 3 ≤ countOk env) :
    (serve r (List.replicate p .pending ++ .err x :: env)).2.2 = .resp (r.made + 1) := by
  have key : ∀ (p : Nat) (r : R), r.error = none → r.st = .connected c →
      driveLoop r (List.replicate p .pending ++ .err x :: env) =
        driveLoop { r with hasBeen := true, st := .idle } env := by
    intro p
    induction p with
    | zero => intro r _ hst; rw [List.replicate_zero, List.nil_append, driveLoop]; simp [step, hst]
    | succ p ih =>
      intro r he hst
      rw [List.replicate_succ, List.cons_append, driveLoop_pending_connected r _ c hst,
        ih { r with hasBeen := true } he hst]
  obtain ⟨h1, h2, h3, _⟩ := driveLoop_quiet env { r with hasBeen := true, st := .idle } he (by simp) hq
    (by simpa [need] using hn)
  unfold serve drive
  simp only [he, Option.isSome_none, Bool.false_eq_true, if_false]
  rw [key p r he hst]
  rcases hd : driveLoop { r with hasBeen := true, st := .idle } env with ⟨r1, env1, pl⟩
  rw [hd] at h1 h2 h3
  simp only at h1 h2 h3
  subst h1
  simp [call, h3, h2, target]

/-! ## deadlines and calls that die in flight

`stackCall` models the middleware `Connection::new` puts between the buffer worker and
`Reconnect` (`AddOrigin`, `UserAgent`, `GrpcTimeout`, the optional limit layers): each of them
calls its inner service unconditionally, and `GrpcTimeout`'s response future polls the inner
future before its own timer.  `serveD` / `serveX` / `sessionX` are `serve` / `session` for calls
that carry a zero effective deadline and/or are in flight when their connection dies. -/

/-- Whatever the deadline of a call — zero included — `Reconnect::call` runs exactly as for an
ordinary call: the middleware does not change what happens to the state machine, and a parked
connect error is taken by that very call and not left behind for a later one. (Transcription lemma: it holds by unfolding the model's definition, so it pins the model's shape for the correspondence run — its assurance about tonic is the tie, not this proof.) -/
theorem C14_deadline_call_takes_parked_error (r : R) (zero : Bool) :
    (stackCall r zero).1 = (call r).1 ∧
    ∀ e, r.error = some e → (stackCall r zero).2 = .error e ∧ (stackCall r zero).1.error = none :=
  ⟨stackCall_state r zero, fun e he => stackCall_parked r e zero he⟩

/-- One request with any deadline through the worker is the ordinary `serve` seen through the
deadline: same state afterwards, same part of the script consumed, and the only difference is
that a request that went out with a zero deadline ends as `expired` instead of answered. (Transcription lemma: it holds by unfolding the model's definition, so it pins the model's shape for the correspondence run — its assurance about tonic is the tie, not this proof.) -/
theorem C14_deadline_serve_is_serve (r : R) (env : List Ans) (zero : Bool) :
    serveD r env zero = ((serve r env).1, (serve r env).2.1, viewD zero (serve r env).2.2) :=
  serveD_eq r env zero

/-- `C14_definite_result` for calls of any kind (zero deadline or not, answered or dying in
flight), from any state in use: never a panic; left waiting only if the environment went silent. -/
theorem C14_definite_result_any_call (r : R) (env : List Ans) (cs : CallSpec) (hs : r.st ≠ .spent) :
    (serveX r env cs).2.2 ≠ .plain .panic ∧
    ((serveX r env cs).2.2 = .plain .hang → (serveX r env cs).2.1 = []) := by
  obtain ⟨_, h2, h3⟩ := serveX_eq r env cs
  obtain ⟨d1, d2⟩ := serve_definite r env hs
  refine ⟨fun h => d1 ?_, fun h => ?_⟩
  · rw [← h3, h]; rfl
  · rw [h2]; apply d2; rw [← h3, h]; rfl

/-- A session of calls of any kinds drives the state machine and consumes the script exactly like
the plain session of the same length (`toRes` forgets what became of a request once it was out):
what a call's deadline is, and whether its connection dies under it, has no influence on any
other call. (Transcription lemma: it holds by unfolding the model's definition, so it pins the model's shape for the correspondence run — its assurance about tonic is the tie, not this proof.) -/
theorem C14_session_any_calls_is_session (r : R) (env : List Ans) (specs : List CallSpec) :
    (sessionX r env specs).1.map XRes.toRes = (session r env specs.length).1 ∧
    (sessionX r env specs).2 = (session r env specs.length).2 :=
  sessionX_eq specs r env

/-- `C14_session_definite` for such sessions. -/
theorem C14_session_definite_any_calls (r : R) (env : List Ans) (specs : List CallSpec)
    (he : r.error = none) (hs : r.st ≠ .spent) :
    XRes.plain .panic ∉ (sessionX r env specs).1 ∧
    (XRes.plain .hang ∈ (sessionX r env specs).1 → (sessionX r env specs).2.2 = []) := by
  obtain ⟨h1, h2⟩ := sessionX_eq specs r env
  obtain ⟨f1, f2, _⟩ := session_facts specs.length r env he hs
  refine ⟨fun h => f1 ?_, fun h => ?_⟩
  · rw [← h1]; exact List.mem_map.2 ⟨_, h, rfl⟩
  · rw [h2]; apply f2; rw [← h1]; exact List.mem_map.2 ⟨_, h, rfl⟩

/-- `C14_no_replay_session` for such sessions: the connect errors handed to calls still form a
subsequence of the failures that happened, and every in-flight error is delivered to the call it
struck and to no other (in order, a subsequence of the scripted fates) — neither kind of error is
replayed onto a later call. -/
theorem C14_no_replay_any_calls (l : Bool) (env : List Ans) (specs : List CallSpec) :
    (reportedX (sessionX (R.init l) env specs).1).Sublist (failures env) ∧
    (lostIds (sessionX (R.init l) env specs).1).Sublist (fateIds specs) := by
  refine ⟨?_, sessionX_lost_sublist specs _ _⟩
  unfold reportedX
  rw [(sessionX_eq specs (R.init l) env).1]
  exact session_reported_sublist _ env _ rfl

/-- Two callers at the same moment on a channel with no connection (lazy and not yet connected,
or the connection was lost) whose next attempt fails with `e`: `tower::buffer` queues the two
requests and the worker handles each completely before the next, so the FIRST request gets `e` —
the failure of the attempt its own `poll_ready` ran — and the SECOND triggers a fresh attempt of
its own: it is served if that one succeeds, and gets that attempt's own failure `e2` (never `e`
again) if not. -/
theorem C14_concurrent_callers (r : R) (e e2 : Nat) (rest : List Ans) (he : r.error = none)
    (hst : r.st = .idle) (hl : (r.hasBeen || r.isLazy) = true) :
    (session r (.ok :: .err e :: .ok :: .ok :: .ok :: rest) 2).1 = [.err e, .resp (r.made + 2)] ∧
    (session r (.ok :: .err e :: .ok :: .err e2 :: rest) 2).1 = [.err e, .err e2] := by
  have h1 := serve_idle_fails r e (.ok :: .ok :: .ok :: rest) he hst hl
  have h1' := serve_idle_fails r e (.ok :: .err e2 :: rest) he hst hl
  have h2 := serve_idle_connects { r with st := .idle, made := r.made + 1 } rest he rfl
  have h3 := serve_idle_fails { r with st := .idle, made := r.made + 1 } e2 rest he rfl hl
  constructor
  · simp only [session, h1, h2]
  · simp only [session, h1', h3]

/-! ## the oracle holds of the model at the two lower levels too -/

/-- For every script, mode and number of calls, what the model does when driven like `Channel`
drives it (`ready_oneshot` if eager, then the buffer worker) satisfies every clause of the
flat-script oracle — the predicate the check evaluates on the real `Reconnect` behind a real
`tower::buffer::Buffer`. -/
theorem C14_session_spec (isLazy : Bool) (env : List Ans) (n : Nat) :
    (Spec.Reconnect.sessBuildClauses isLazy env (channelSession isLazy env n).1
        (channelSession isLazy env n).2.2.2.length ++
      Spec.Reconnect.sessClauses env (channelSession isLazy env n).2.1
        (channelSession isLazy env n).2.2.2.length).all (·.2) = true :=
  channelSession_spec isLazy env n

/-- For every script and every sequence of `poll_ready` / `call` (disciplined or not), what the
model does satisfies the single-operation oracle: a panic only outside `tower`'s `Service`
contract (a `call` not directly after a ready `poll_ready`, or any use after `poll_ready`
returned an error), ready means an error to hand out or a connection, a handed-out error is
cleared, and no error is replayed. -/
theorem C14_unit_spec (l : Bool) (env : List Ans) (ops : List UOp) :
    (Spec.Reconnect.unitClauses env ((runOps (R.init l) env ops).1.map toObs)).all (·.2) = true :=
  runOps_spec l env ops

/-! ## the whole property on end-to-end fault scripts -/

/-! ### the class of a connection failure: `Status::from_error` over the source chain

`ErrClass.fromError` models `Status::from_error(..).code()` on an error given as the list of nodes
that walking `source()` visits (`ErrChain.Node`: what `downcast_ref` can tell apart). -/

/-- `find_status_in_source_chain` looks through wrappers that mean nothing by themselves
(`transport::Error`, `io::Error`, TLS errors, any user error type): any number of them in front of
a chain does not change what is found. -/
theorem C14_class_wrappers_transparent (pre rest : List ErrChain.Node)
    (h : ∀ n ∈ pre, n.plain = true) :
    ErrClass.findInChain (pre ++ rest) = ErrClass.findInChain rest :=
  ErrClass.findInChain_plain_prefix pre rest h

/-- A `ConnectError` anywhere under such wrappers is classified UNAVAILABLE **whatever its cause
chain is** — any `io::ErrorKind`, a TLS error, a timeout, a boxed custom error, a nested `Status`
(of any code), `TimeoutExpired`, another `ConnectError`, a `hyper`/`h2` error: `cause` is an
arbitrary chain. -/
theorem C14_connect_error_unavailable_whatever_cause (pre cause : List ErrChain.Node)
    (h : ∀ n ∈ pre, n.plain = true) :
    ErrClass.fromError (pre ++ .connectError :: cause) = unavailable :=
  ErrClass.fromError_connect pre cause h

/-- Every error a failed connection attempt can produce on the fixed tree — `transport::Error`
around `MakeSendRequestService`'s `ConnectError` around (when the failure came from inside
`Connector::call`) that one's `ConnectError` around ANY cause — is UNAVAILABLE. -/
theorem C14_attempt_error_unavailable (inConnector : Bool) (cause : List ErrChain.Node) :
    ErrClass.fromError (ErrClass.attemptChain true inConnector cause) = unavailable :=
  ErrClass.fromError_attempt inConnector cause

/-- The other arms, for completeness of the model's reading of `from_error`: a `Status` under
plain wrappers keeps its code, `TimeoutExpired` is CANCELLED, nothing recognisable is UNKNOWN. -/
theorem C14_class_other_arms (pre rest : List ErrChain.Node) (c : Nat)
    (h : ∀ n ∈ pre, n.plain = true) :
    ErrClass.fromError (pre ++ .status c :: rest) = c ∧
    ErrClass.fromError (pre ++ .timeoutExpired :: rest) = 1 ∧
    ErrClass.fromError pre = 2 :=
  ⟨ErrClass.fromError_status pre rest c h, ErrClass.fromError_timeoutExpired pre rest h,
    ErrClass.fromError_plain pre h⟩

/-- For every chain, what the model answers satisfies the oracle's class clause (the predicate
the check evaluates on the code the real `Status::from_error` returned): if the chain is that of
a connection failure (`Spec.Reconnect.isConnectFailure`), the code is UNAVAILABLE. -/
theorem C14_class_spec (chain : List ErrChain.Node) :
    (Spec.Reconnect.classClauses chain (ErrClass.fromError chain)).all (·.2) = true :=
  ErrClass.classClauses_hold chain

/-- On the pinned tree (before `fix-C14-connect-error-class.patch`) the class of a failure raised
outside `Connector::call` depended on its cause: a connect timeout or a handshake failure (plain
causes) came out UNKNOWN. -/
theorem C14_attempt_error_unfixed_fails :
    ¬ (∀ (inConnector : Bool) (cause : List ErrChain.Node),
        ErrClass.fromError (ErrClass.attemptChain false inConnector cause) = unavailable) := by
  intro h
  have := h false [.io .timedOut]
  revert this
  decide

/-- Every way a connection attempt of the end-to-end scripts can fail (refused by the connector,
HTTP/2 handshake on a dead transport, connect timeout) is, through the classification above,
UNAVAILABLE (on the tree with `fix-C14-connect-error-class.patch`). -/
theorem C14_connect_failures_are_unavailable (o : Outcome) :
    E2E.statusCode (E2E.classOf true o) = unavailable :=
  ErrClass.fromError_attempt (o = .refuse) (E2E.causeOf o)

/-- Headline: for EVERY fault script — any list of attempt outcomes, any list of calls and
peer-drops of any length, lazy or eager — what the model lets a caller observe satisfies every
clause of the oracle `Spec.Reconnect.clauses` (the same decidable predicate the check evaluates on
the real implementation's output): each call — ordinary, with a zero deadline (`callZero`), or in
flight when the peer drops the connection (`callDie`), or one of two issued at the same moment
(`pair`: explainable as two calls in queue order, so the two are never handed the failure of the
same attempt) — gets a definite result; an error is UNAVAILABLE, is
given only while no connection exists and the attempt this call triggered failed, and carries
that attempt's failure (never an older one); a call succeeds whenever a connection is up or the
endpoint is reachable again; an eager channel whose first attempt fails reports it from `connect`
after exactly one attempt. -/
theorem C14_e2e_spec (isLazy : Bool) (outs : List Outcome) (ops : List Op) :
    Spec.Reconnect.holds isLazy outs ops (E2E.run true isLazy outs ops) = true :=
  E2E.run_holds isLazy outs ops

/-- The standard entry points, `Endpoint::connect()` / `connect_lazy()`, against a real listening
socket that a script opens and closes (`NOp.up` / `NOp.down`; loopback TCP port or unix socket):
for EVERY script — any steps of the environment before the channel is built, any steps and calls
after — what the model lets a caller observe satisfies every clause of the network oracle
`Spec.Reconnect.netClauses`: each call gets a response from the server generation that is up (or
still holds the connection), or an UNAVAILABLE error only while no server listens and no
connection is left; the call after the server is back is served; and `Endpoint::connect()` with
no server listening fails at once with UNAVAILABLE instead of handing out a channel. -/
theorem C14_net_spec (isLazy : Bool) (pre post : List NOp) (hpre : ∀ op ∈ pre, op ≠ .call) :
    (Spec.Reconnect.netClauses isLazy pre post (Net.run isLazy pre post)).all (·.2) = true :=
  Net.run_holds isLazy pre post hpre

/-- "an eagerly connected channel reports an initial failure immediately", for the standard entry
point: whatever happened before, if no server listens when `Endpoint::connect()` is called the
result is an UNAVAILABLE error and no channel (so no call can be issued on it). -/
theorem C14_net_eager_initial_failure (pre post : List NOp)
    (hdown : (pre.foldl Net.W.env { up := false, gen := 0, alive := none, aliveGen := 0 }).up = false) :
    Net.run false pre post = { build := .error unavailable, evs := [] } := by
  have hc := Net.world_connects (pre.foldl Net.W.env { up := false, gen := 0, alive := none, aliveGen := 0 })
  rw [hdown] at hc
  simp [Net.run, connectEager, E2E.answersFor, R.init, hc, drive, driveLoop, step, Net.refusedCode_eq]

/-- The pinned tree (before the fix) does NOT satisfy the property: a lazy channel whose first
attempt reaches a peer that is already gone (HTTP/2 handshake fails) hands the call an UNKNOWN
error instead of an UNAVAILABLE-class one. Same for a connect timeout. Witnesses are in the
harness corpus (`e2e L XS cc`, `e2e L TS cc`). -/
theorem C14_e2e_spec_unfixed_fails :
    ¬ (∀ (isLazy : Bool) (outs : List Outcome) (ops : List Op),
        Spec.Reconnect.holds isLazy outs ops (E2E.run false isLazy outs ops) = true) := by
  intro h
  have := h true [.deadPeer, .accept] [.call, .call]
  revert this
  decide

/-! ## calls the application abandons (dimension audit; harness kind `e2a`, finding C14-F1)

A caller may drop the future of a call that is still waiting for a connection attempt (its own
timeout around the call, a `select!`, a cancelled task). `tower::buffer`'s worker then forgets the
request without touching the service (`worker.rs::poll_next_msg`), so `Reconnect` stays in
`Connecting` with the attempt where it was; the NEXT request's `poll_ready` polls it on and gets
its outcome. `Abandon.run` is a whole script over {call, peer drops the connection, abandoned call};
`Spec.ReconnectAbandon` is the oracle written from the property text. -/

/-- What an abandoned call leaves behind: the worker, waiting for readiness on its behalf, has
started exactly one attempt (after noticing a dropped connection, if there was one) and is
`Pending` on it; nothing is stored, nothing panics. For every state with nothing connected. -/
theorem C14_abandoned_call_leaves_attempt_in_progress (r : R) (he : r.error = none) :
    (r.st = .idle → drive r [.ok] = ({ r with st := .connecting, made := r.made + 1 }, [], .pending)) ∧
    (∀ c x, r.st = .connected c →
      drive r [.err x, .ok] = ({ r with st := .connecting, made := r.made + 1, hasBeen := true }, [], .pending)) :=
  ⟨fun hs => drive_idle_starts r he hs, fun c x hs => drive_dead_starts r c x he hs⟩

/-- … and what the NEXT request gets when that attempt fails (the code as found; finding C14-F1):
the failure `e` of an attempt it did not make (`made` does not move) — whatever comes after in the
script, in particular although the endpoint is reachable again; the state machine is then idle with
nothing stored, so the request after that one makes a fresh attempt and is served
(`rest = ok, ok, ok, …`). For every lazy or once-connected `Reconnect` with an attempt in progress. -/
theorem C14_abandoned_attempt_failure_goes_to_next_call (r : R) (e : Nat) (rest : List Ans)
    (he : r.error = none) (hs : r.st = .connecting) (hl : (r.hasBeen || r.isLazy) = true) :
    serve r (.err e :: rest) = ({ r with st := .idle }, rest, .err e) ∧
    (serve r (.err e :: rest)).1.made = r.made ∧
    (serve (serve r (.err e :: .ok :: .ok :: .ok :: rest)).1 (serve r (.err e :: .ok :: .ok :: .ok :: rest)).2.1).2.2
      = .resp (r.made + 1) := by
  have h1 := serve_connecting_fails r e rest he hs hl
  have h2 := serve_connecting_fails r e (.ok :: .ok :: .ok :: rest) he hs hl
  refine ⟨h1, by rw [h1], ?_⟩
  rw [h2]
  have := serve_idle_connects { r with st := .idle } rest he rfl
  simp only at this
  rw [this]

/-- When the attempt of the abandoned call succeeds, the next request is served by that very
connection and no further attempt is made. -/
theorem C14_abandoned_attempt_connection_is_used (r : R) (rest : List Ans)
    (he : r.error = none) (hs : r.st = .connecting) :
    serve r (.ok :: .ok :: rest) = ({ r with st := .connected r.made, hasBeen := true }, rest, .resp r.made) :=
  serve_connecting_connects r rest he hs

/-- TARGET (the property as stated, false of the code as found — see `_fails` below): for every
script with abandoned calls the run satisfies every clause of the oracle.
PROVED INSTEAD, for EVERY script (any attempt outcomes, any sequence of calls, peer drops and
abandoned calls, lazy or eager): every clause holds except
`failure-reported-only-to-the-call-that-triggered-the-attempt` — definite results, UNAVAILABLE
class, responses only from live connections, success whenever the endpoint is reachable and no
failure of an abandoned attempt is outstanding, an abandoned call starts exactly one attempt, and
where the excepted clause fails the error handed out is exactly the abandoned attempt's own
failure, UNAVAILABLE, once (the companion clause). -/
theorem C14_abandon_spec_partial (isLazy : Bool) (outs : List Outcome) (ops : List AOp) :
    Spec.ReconnectAbandon.holdsButStrict isLazy outs ops (Abandon.run isLazy outs ops) = true :=
  Abandon.run_holdsButStrict isLazy outs ops

/-- The property as stated does NOT hold of the code as found: lazy channel, first attempt
refused, second would be accepted; the first call is abandoned while its attempt is in progress;
the second call — issued when the endpoint is reachable — is handed the first attempt's failure.
Witness in the harness corpus (`e2a L FS Ac`); known finding C14-F1. -/
theorem C14_abandon_spec_fails :
    ¬ (∀ (isLazy : Bool) (outs : List Outcome) (ops : List AOp),
        Spec.ReconnectAbandon.holdsA isLazy outs ops (Abandon.run isLazy outs ops) = true) := by
  intro h
  have := h true [.refuse, .accept] [.abandon, .call]
  revert this
  decide

/-- Scripts in which the attempt of every abandoned call succeeds are not affected: e.g. every
attempt accepted. (Instance; the general statement is the partial theorem plus the companion
clause, which ties a violation to a failed attempt.) -/
theorem C14_abandon_spec_holds_when_attempts_succeed :
    Spec.ReconnectAbandon.holdsA true [.accept, .accept, .accept] [.abandon, .die, .call, .die, .abandon, .call]
      (Abandon.run true [.accept, .accept, .accept] [.abandon, .die, .call, .die, .abandon, .call]) = true := by
  decide

/-! ## load-balanced channels (`Channel::balance_list`, `Channel::balance_channel`)

`Balance.call` is one request through the buffer worker and tower's p2c `Balance` over the
channel's endpoints, each endpoint being the lazy `Reconnect` of the sections above
(`Connection::lazy`, as `discover.rs` builds it) with its own loopback network (`Balance.EW`);
`Balance.Choice` is what the balancer's coin flips decide during that call; every theorem is for
EVERY choice.  `Balance.run` / `Balance.exec` run a whole script of calls, servers starting and
stopping, `Change::Insert` / `Change::Remove` (`BalScript.BOp`). -/

/-- Every call on a balanced channel that has at least one endpoint completes with a result of
its own — a response, the UNAVAILABLE-class failure of one connection attempt, or (the call went
out on a connection whose peer was already gone) an error of that connection — never a hang and
never a panic: for every script of servers starting and stopping and endpoints inserted and
removed, for every sequence of choices of the balancer, and for EVERY call of the script — also
those issued after an earlier call hung on the then endpoint-less channel (`Balance.runAll` goes on
past a hang; `Balance.run`, what the harness observes, stops at the first one). -/
theorem C14_balanced_call_definite (ops : List BalScript.BOp) (chs : List Balance.Choice) :
    ∀ p ∈ Balance.runAll (Balance.B.init true) ops chs,
      (0 < p.1 → (∃ k g, p.2 = .resp k g) ∨ (∃ k x, p.2 = .err k x) ∨ (∃ k, p.2 = .lost k)) ∧
      (∀ code, p.2.obs = .error code → code = unavailable) := by
  intro p hp
  constructor
  · intro hm
    have := Balance.runAll_definite ops (Balance.B.init true) chs rfl (by intro e he; cases he) p hp hm
    cases h : p.2 with
    | resp k g => exact Or.inl ⟨k, g, rfl⟩
    | err k x => exact Or.inr (Or.inl ⟨k, x, rfl⟩)
    | lost k => exact Or.inr (Or.inr ⟨k, rfl⟩)
    | hang => rw [h] at this; cases this
    | panic => rw [h] at this; cases this
  · intro code hc
    cases h : p.2 <;> rw [h] at hc <;> simp [Balance.BRes.obs] at hc
    rw [← hc]; exact Net.refusedCode_eq

/-- `Balance.run` (the observation that ends at the first hang — what the correspondence run
compares with the real channel) is `Balance.runAll` cut there, so the statement above covers
every call `run` reports.  (This is what `C14_balanced_call_definite` said before review round 4:
it did NOT cover the calls after a hang.) -/
theorem C14_balanced_call_definite_observed_run (ops : List BalScript.BOp) (chs : List Balance.Choice) :
    Balance.run (Balance.B.init true) ops chs <+: Balance.runAll (Balance.B.init true) ops chs ∧
    ∀ p ∈ Balance.run (Balance.B.init true) ops chs,
      (0 < p.1 → (∃ k g, p.2 = .resp k g) ∨ (∃ k x, p.2 = .err k x) ∨ (∃ k, p.2 = .lost k)) ∧
      (∀ code, p.2.obs = .error code → code = unavailable) :=
  ⟨Balance.run_prefix_runAll ops _ chs,
   fun p hp => C14_balanced_call_definite ops chs p ((Balance.run_prefix_runAll ops _ chs).subset hp)⟩

/-- The same at state level: in EVERY state any script can lead to (hangs on the way included), a
call on a channel that has an endpoint gets a result of its own, whatever the balancer chooses. -/
theorem C14_balanced_call_definite_in_every_state (ops : List BalScript.BOp) (chs : List Balance.Choice)
    (ch : Balance.Choice) :
    let s := Balance.exec (Balance.B.init true) ops chs
    0 < Balance.members s.eps → (Balance.call s ch).2.definite = true := by
  intro s hm
  exact Balance.call_definite s ch
    (Balance.exec_lz ops (Balance.B.init true) chs rfl (by intro e he; cases he)).2 hm

/-- The one case in which a call on a balanced channel waits: the channel has NO endpoint (none
inserted yet, or all removed). `Balance::poll_ready` is then `Pending` until discovery delivers
one. (The property's "every call completes" is about channels that have an endpoint; see
`C14_balanced_call_definite`.) -/
theorem C14_balanced_no_endpoint_waits (s : Balance.B) (ch : Balance.Choice)
    (h : Balance.members s.eps = 0) : (Balance.call s ch).2 = .hang :=
  Balance.call_no_member s ch h

/-- "No fault script removes an endpoint from the set: only an explicit `Change::Remove` does."
In every state any script can lead to, a call (whatever the balancer chooses, whatever fails
during it) and a server starting or stopping leave the set of endpoints in the channel exactly
as it was; `Change::Insert(k)` / `Change::Remove(k)` put `k` in / take it out. -/
theorem C14_balanced_no_endpoint_lost (ops : List BalScript.BOp) (chs : List Balance.Choice)
    (ch : Balance.Choice) (k : Nat) :
    let s := Balance.exec (Balance.B.init true) ops chs
    Balance.memberKeys (Balance.call s ch).1.eps = Balance.memberKeys s.eps ∧
    Balance.memberKeys (Balance.env s (.up k)).eps = Balance.memberKeys s.eps ∧
    Balance.memberKeys (Balance.env s (.down k)).eps = Balance.memberKeys s.eps ∧
    k ∈ Balance.memberKeys (Balance.env s (.insert k)).eps ∧
    k ∉ Balance.memberKeys (Balance.env s (.remove k)).eps := by
  intro s
  have hl := (Balance.exec_lz ops (Balance.B.init true) chs rfl (by intro e he; cases he)).2
  exact ⟨Balance.call_memberKeys s ch hl, Balance.env_up_memberKeys s k, Balance.env_down_memberKeys s k,
    Balance.env_insert_memberKeys s k, Balance.env_remove_memberKeys s k⟩

/-- Recovery, with the exact bound. Take any state a script can lead to in which every endpoint
of the channel is reachable (its server listens), and let nothing but calls happen from then on.
Each endpoint holds at most one failure no call has been told about yet (a parked connect error,
a refused attempt still in flight, an attempt accepted by a server that has gone since);
`Balance.debt` counts them. Then, whatever the balancer chooses: every further call completes,
and the calls that end in an error instead of a response are at most `debt` many — in total, not
just in a row — and `debt` is at most the number of endpoints. So a call succeeds after at most
`debt ≤ n` further calls, and from then on every call does once the debt is used up. -/
theorem C14_balanced_recovers (ops : List BalScript.BOp) (chs more : List Balance.Choice) :
    let s := Balance.exec (Balance.B.init true) ops chs
    (∀ e ∈ s.eps, e.member = true → e.w.up = true) → 0 < Balance.members s.eps →
      (∀ r ∈ Balance.calls s more, r.definite = true) ∧
      ((Balance.calls s more).filter Balance.BRes.errored).length ≤ Balance.debt s.eps ∧
      Balance.debt s.eps ≤ Balance.members s.eps := by
  intro s hup hm
  have hl := (Balance.exec_lz ops (Balance.B.init true) chs rfl (by intro e he; cases he)).2
  have hg := Balance.exec_gd ops (Balance.B.init true) chs (by intro e he; cases he)
  exact ⟨Balance.calls_definite more s hl hm,
    Balance.calls_debt more s (fun e he => ⟨hup e he, hg e he⟩), Balance.debt_le_members s.eps⟩

/-- The bound is `n - 1` at any moment after a call that was served: the endpoint that served the
last call holds no failure. For a channel over ONE endpoint that is the property as stated: once
the endpoint is reachable again, the next call succeeds. -/
theorem C14_balanced_recovers_bound (ops : List BalScript.BOp) (chs : List Balance.Choice)
    (ch : Balance.Choice) :
    let s := Balance.exec (Balance.B.init true) ops chs
    (Balance.call s ch).2 ≠ .hang →
      Balance.debt (Balance.call s ch).1.eps + 1 ≤ Balance.members (Balance.call s ch).1.eps := by
  intro s h
  exact Balance.call_slack s ch (Balance.exec_gd ops (Balance.B.init true) chs (by intro e he; cases he)) h

/-- The script's own steps do not add to what an endpoint holds unless its server is stopped:
a server that starts leaves the debt as it is. (Together with `C14_balanced_recovers_bound`: one
endpoint, server back up, next call served.) -/
theorem C14_balanced_single_endpoint_recovers (ops : List BalScript.BOp) (chs : List Balance.Choice)
    (ch ch' : Balance.Choice) (k : Nat) :
    let s := Balance.exec (Balance.B.init true) ops chs
    let s' := Balance.env (Balance.call s ch).1 (.up k)
    (Balance.call s ch).2 ≠ .hang → Balance.members s.eps = 1 →
    (∀ e ∈ s'.eps, e.member = true → e.w.up = true) →
      ∃ k' g, (Balance.call s' ch').2 = .resp k' g := by
  intro s s' hh hone hup
  have hlz := (Balance.exec_lz ops (Balance.B.init true) chs rfl (by intro e he; cases he)).1
  have hl := (Balance.exec_lz ops (Balance.B.init true) chs rfl (by intro e he; cases he)).2
  have hg := Balance.exec_gd ops (Balance.B.init true) chs (by intro e he; cases he)
  have hl1 := Balance.call_lz s ch hl
  have hg1 := Balance.pw_gd (Balance.call_pw s ch) hg
  have hm1 : Balance.members (Balance.call s ch).1.eps = 1 := by
    rw [Balance.pw_members (Balance.call_pw s ch) hl]; exact hone
  have hd1 : Balance.debt (Balance.call s ch).1.eps = 0 := by
    have := Balance.call_slack s ch hg hh
    omega
  have hl' : ∀ e ∈ s'.eps, Balance.Lz e :=
    Balance.env_lz _ _ (by rw [Balance.call_lazyEps]; exact hlz) hl1
  have hg' : ∀ e ∈ s'.eps, Balance.Gd e := Balance.env_gd _ _ hg1
  have hm' : Balance.members s'.eps = 1 := by
    rw [Balance.members_table, ← List.length_map (f := fun p : Nat × Bool => p.1)]
    have := Balance.env_up_memberKeys (Balance.call s ch).1 k
    rw [Balance.memberKeys_table, Balance.memberKeys_table] at this
    rw [this, List.length_map, ← Balance.members_table]; exact hm1
  have hd' : Balance.debt s'.eps = 0 := by
    have := Balance.env_up_debt (Balance.call s ch).1 k
    show Balance.debt (Balance.env (Balance.call s ch).1 (.up k)).eps = 0
    omega
  have hdef := Balance.call_definite s' ch' hl' (by omega)
  have hdebt := (Balance.call_debt s' ch' (fun e he => ⟨hup e he, hg' e he⟩)).1
  cases h : (Balance.call s' ch').2 with
  | resp k' g => exact ⟨k', g, rfl⟩
  | err k x => rw [h] at hdebt; simp [Balance.BRes.errored] at hdebt; omega
  | lost k => rw [h] at hdebt; simp [Balance.BRes.errored] at hdebt; omega
  | hang => rw [h] at hdef; cases hdef
  | panic => rw [h] at hdef; cases hdef

/-- Recovery, per endpoint — what "once the endpoint is reachable again the next call succeeds"
comes to on a balanced channel when only SOME endpoint is reachable. Take any state a script can
lead to in which endpoint `k`'s server listens, and let nothing but calls happen. Whatever the
other endpoints do (down for good, or not) and whatever the balancer draws: at most ONE further
call gets an error that came from `k` (the stale failure `k` may still hold from the time it was
down); every other call the balancer gives to `k` is served. So a call succeeds as soon as the
balancer draws `k` for the second time — how soon that is, is the balancer's coin
(`C14_balanced_recovers_one_reachable_fails`). -/
theorem C14_balanced_endpoint_recovers (ops : List BalScript.BOp) (chs more : List Balance.Choice) (k : Nat) :
    let s := Balance.exec (Balance.B.init true) ops chs
    (∀ e ∈ s.eps, e.key = k → e.member = true → e.w.up = true) →
      ((Balance.calls s more).filter (Balance.BRes.errorOf k)).length ≤ 1 := by
  intro s hup
  have hg := Balance.exec_gd ops (Balance.B.init true) chs (by intro e he; cases he)
  have hn := Balance.exec_keys_nodup ops (Balance.B.init true) chs (by simp [Balance.B.init])
  exact Nat.le_trans (Balance.calls_errors_of k more s (fun e he => ⟨hup e he, hg e he⟩))
    (Balance.potK_total_le_one k s.eps hn)

/-- What does NOT hold, and why the bound above asks for every endpoint to be reachable: with only
SOME endpoint reachable there is no number of calls after which one must succeed. Three endpoints,
endpoint 0 up and connected, 1 and 2 down: each dead endpoint is back in the ready set — holding
the parked failure of its latest attempt, which the call that draws it gets — every other call, so
a balancer that keeps drawing 1 and 2 in turn fails every call for ever (`Balance.starved_step`:
two calls later the channel is where it was). tower's p2c draws at random among the ready
endpoints (`Connection::load` is constant), so in the real channel this run has probability 0 —
but every finite prefix of it has positive probability: the guarantee is per endpoint and per
choice, not a bound on calls. -/
theorem C14_balanced_recovers_one_reachable_fails :
    ¬ ∃ K : Nat, ∀ (ops : List BalScript.BOp) (chs more : List Balance.Choice), more.length = K + 1 →
        (∃ e ∈ (Balance.exec (Balance.B.init true) ops chs).eps, e.member = true ∧ e.w.up = true) →
        ∃ r ∈ Balance.calls (Balance.exec (Balance.B.init true) ops chs) more, r.errored = false := by
  rintro ⟨K, h⟩
  obtain ⟨r, hr, he⟩ := h Balance.starveOps Balance.starveChs ((Balance.alt (K + 1)).take (K + 1))
    (by rw [List.length_take, Balance.alt_length]; omega)
    (by rw [Balance.starved_reachable]; exact ⟨_, List.mem_cons_self, rfl, rfl⟩)
  rw [Balance.starved_reachable, Balance.calls_take] at hr
  have := Balance.starved_forever (K + 1) 2 r (List.mem_of_mem_take hr)
  rw [this] at he
  cases he

/-- The counter-model (seed C14e): were the endpoint connections of a balanced channel NOT lazy
(`Reconnect::new(.., is_lazy = false)`, `Balance.B.init false`), a failing first attempt would
come out of `poll_ready` as an error, tower's `Balance` would drop the endpoint, and nothing would
re-insert it: one endpoint, nothing listening — the first call hangs and the endpoint is gone
although no `Change::Remove` was sent (`C14_balanced_no_endpoint_lost` fails), and the call after
the server has started hangs as well (`C14_balanced_call_definite` and recovery fail), whatever
the balancer chooses. Witness in the harness corpus: `bal list 0 bccu0cc`. -/
theorem C14_balanced_no_endpoint_lost_eager_fails (ch ch' : Balance.Choice) :
    let s := Balance.env (Balance.B.init false) (.insert 0)
    Balance.memberKeys s.eps = [0] ∧
    (Balance.call s ch).2 = .hang ∧
    Balance.memberKeys (Balance.call s ch).1.eps = [] ∧
    (Balance.call (Balance.env (Balance.call s ch).1 (.up 0)) ch').2 = .hang := by
  intro s
  obtain ⟨h1, h2⟩ := Balance.eager_first_call ch
  refine ⟨by decide, h1, h2, ?_⟩
  apply Balance.call_no_member
  have := Balance.env_up_memberKeys (Balance.call s ch).1 0
  rw [h2] at this
  simpa [Balance.members, Balance.memberKeys] using this

/-- The model against the oracle, for balanced channels: for EVERY script of calls, servers
starting and stopping, `Change::Insert` / `Change::Remove`, and for EVERY sequence of choices of
the balancer, what the model lets the callers observe satisfies every clause of
`Spec.Balance.clauses` — each call gets a result of its own (a hang only on a channel with no
endpoint), an error is UNAVAILABLE-class and is given only while some endpoint of the channel
owes a failure (it was unreachable at the time of a call, or its server was stopped, and it has
neither answered nor been the only one owing when an error was handed out since — so a failure is
not replayed), a response comes from a listening endpoint of the channel and from its current
server generation, an error that is not a connect error only after a server of the channel was
stopped, and with every endpoint reachable and none owing the call succeeds.
First conjunct: the observation that ENDS AT THE FIRST HANG (`Balance.run` / `Spec.Balance.holds`:
the oracle evaluated on what the real channel did, case by case, by `./check C14` — the harness
cannot go on after a real hang).  Second conjunct: the observation carried on past every hang
(`Balance.runAll` / `Spec.Balance.holdsAll`, same clauses per call), so that every call of the
script is judged — model only; the calls after a hang are not tied to the real channel. -/
theorem C14_balanced_spec (ops : List BalScript.BOp) (chs : List Balance.Choice) :
    Spec.Balance.holds ops ((Balance.run (Balance.B.init true) ops chs).map fun p => p.2.obs) = true ∧
    Spec.Balance.holdsAll ops ((Balance.runAll (Balance.B.init true) ops chs).map fun p => p.2.obs) = true :=
  ⟨Balance.run_spec_init ops chs, Balance.runAll_spec_init ops chs⟩

/-- … and the counter-model with non-lazy endpoint connections (seed C14e) does not: the oracle
rejects its run on the one-endpoint witness (`definite-result`). -/
theorem C14_balanced_spec_eager_fails :
    ¬ (∀ (ops : List BalScript.BOp) (chs : List Balance.Choice),
        Spec.Balance.holds ops ((Balance.run (Balance.B.init false) ops chs).map fun p => p.2.obs) = true) := by
  intro h
  have := h [.insert 0, .call, .up 0, .call] []
  revert this
  decide

/-! ## non-vacuity -/

-- hypotheses of `C14_recovers` are satisfiable from every state in use, with Pendings interleaved
example : Quiet [.pending, .ok, .pending, .ok, .ok] ∧ need (R.init true) ≤ countOk [.pending, .ok, .pending, .ok, .ok] := by
  refine ⟨?_, by decide⟩
  simp [Quiet]
example : (serve (R.init true) [.pending, .ok, .pending, .ok, .ok]).2.2 = .resp 1 := by decide
-- a stored error while lazy, then recovery; the failure is not replayed
example : (session (R.init true) [.ok, .err 7, .ok, .ok, .ok, .ok] 3).1 = [.err 7, .resp 2, .resp 2] := by decide
-- eager channel: connection dies, reconnect fails, error goes to one call, next one recovers
example : (session { R.init false with st := .connected 1, hasBeen := true, made := 1 }
    [.err 0, .ok, .err 9, .ok, .ok, .ok, .ok] 3).1 = [.err 9, .resp 3, .resp 3] := by decide
-- the `Good` hypothesis of `C14_error_reported_once` is met by a reachable state with an error
example : (pollReady (R.init true) [.ok, .err 4]).1.error = some 4 ∧ Good (pollReady (R.init true) [.ok, .err 4]).1 := by
  refine ⟨by decide, ?_⟩
  intro _; decide
-- the oracle is not trivially true: it rejects a replayed error and a hang
example : Spec.Reconnect.holds true [.refuse, .accept] [.call, .call]
    { build := .ok, buildAttempts := 0,
      evs := [.call (.error 14 (some 1)) 1, .call (.error 14 (some 1)) 1] } = false := by decide
example : Spec.Reconnect.holds true [.accept] [.call]
    { build := .ok, buildAttempts := 0, evs := [.call .hang 0] } = false := by decide
example : Spec.Reconnect.holds false [.refuse] [.call]
    { build := .ok, buildAttempts := 1, evs := [.call (.error 14 (some 1)) 1] } = false := by decide
-- and accepts what the model does on a long mixed script
example : Spec.Reconnect.holds false [.accept, .refuse, .timeout, .deadPeer, .accept]
    [.call, .die, .call, .call, .die, .call, .call]
    (E2E.run true false [.accept, .refuse, .timeout, .deadPeer, .accept]
      [.call, .die, .call, .call, .die, .call, .call]) = true := by decide

-- the classification hypotheses are met by the chains the code really builds, with nasty causes
example : ∀ n ∈ [ErrChain.Node.transport, .custom 3, .io .other], n.plain = true := by decide
example : ErrClass.fromError [.transport, .connectError, .connectError, .io .notFound] = 14 := by decide
example : ErrClass.fromError [.transport, .connectError, .custom 1, .status 5] = 14 := by decide
example : ErrClass.fromError [.transport, .connectError, .timeoutExpired] = 14 := by decide
-- and the model does tell classes apart where the code does
example : ErrClass.fromError [.custom 1, .status 5] = 5 := by decide
example : ErrClass.fromError [.transport, .hyper ⟨false, false⟩, .h2 (some 7)] = 14 := by decide
example : ErrClass.fromError [.transport, .hyper ⟨false, false⟩, .io .brokenPipe] = 2 := by decide
example : ErrClass.fromError [.h2 (some 8)] = 1 ∧ ErrClass.fromError [.custom 0, .h2 (some 8)] = 2 := by decide
-- the oracle's class clause rejects NOT_FOUND for a connect error caused by io NotFound
example : (Spec.Reconnect.classClauses [.transport, .connectError, .io .notFound] 5).all (·.2) = false := by decide

-- a zero-deadline call on a lazy channel whose attempt fails takes the connect error itself …
example : (serveD (R.init true) [.ok, .err 7, .ok, .ok, .ok] true).2.2 = .plain (.err 7) := by decide
-- … so the next, ordinary call starts a fresh attempt and is served
example : (sessionX (R.init true) [.ok, .err 7, .ok, .ok, .ok] [⟨true, .answered⟩, ⟨false, .answered⟩]).1
    = [.plain (.err 7), .plain (.resp 2)] := by decide
-- a call dies in flight, the next one (old connection reports closed, reconnect works) is served
example : (sessionX (R.init true) [.ok, .ok, .ok, .err 0, .ok, .ok, .ok] [⟨false, .dies 5⟩, ⟨false, .answered⟩]).1
    = [.lost 1 5, .plain (.resp 2)] := by decide
-- end to end: zero deadline while the attempt fails, then the peer is back
example : Spec.Reconnect.holds true [.refuse, .accept] [.callZero, .call]
    (E2E.run true true [.refuse, .accept] [.callZero, .call]) = true := by decide
-- the oracle rejects what a fail-fast deadline check in front of `Reconnect::call` would produce:
-- the zero-deadline call reports its deadline although no connection exists, and the parked
-- error goes to the next call without any new attempt
example : Spec.Reconnect.holds true [.refuse, .accept] [.callZero, .call]
    { build := .ok, buildAttempts := 0,
      evs := [.call .expired 1, .call (.error 14 (some 1)) 1] } = false := by decide
example : Spec.Reconnect.holds true [.accept, .accept] [.callDie, .call]
    (E2E.run true true [.accept, .accept] [.callDie, .call]) = true := by decide

-- a server that is started later, stopped, and started again, seen from a lazy channel
example : Net.run true [] [.call, .up, .call, .down, .call, .up, .call] =
    { build := .ok, evs := [.error 14, .resp 1, .error 14, .resp 2] } := by decide
-- the network oracle rejects a channel handed out by an eager connect to a dead port
example : (Spec.Reconnect.netClauses false [] [.call] { build := .ok, evs := [.error 14] }).all (·.2) = false := by
  decide

-- two callers at once on a lazy channel whose first attempt fails and whose second succeeds: the
-- first gets the failure of the attempt it triggered, the second is served by its own attempt
example : E2E.run true true [.refuse, .accept] [.pair] =
    { build := .ok, buildAttempts := 0, evs := [.pair (.error 14 (some 1)) (.resp 2) 2] } := by decide
-- the oracle rejects both callers being handed the same failure
example : Spec.Reconnect.holds true [.refuse, .accept] [.pair]
    { build := .ok, buildAttempts := 0, evs := [.pair (.error 14 (some 1)) (.error 14 (some 1)) 1] } = false := by decide

-- balanced channel, one endpoint: an error per call while nothing listens, served at the first call after
example : (Balance.run (Balance.B.init true) [.insert 0, .call, .call, .up 0, .call, .call] [default, default, default, default]).map (·.2)
    = [.err 0 1, .err 0 2, .resp 0 1, .resp 0 1] := by decide
-- two endpoints, one up: the dead one's parked failure goes to the call that draws it, once; it is retried
example : (Balance.run (Balance.B.init true) [.up 0, .insert 0, .insert 1, .call, .call, .call, .call]
      [⟨[1], 1⟩, ⟨[1], 1⟩, ⟨[1], 1⟩, ⟨[1], 1⟩]).map (·.2)
    = [.err 1 1, .resp 0 1, .err 1 2, .resp 0 1] := by decide
-- a stale failure: endpoint 1 was down when last tried, is up now, and is the only one left
example : (Balance.run (Balance.B.init true)
      [.up 0, .insert 0, .insert 1, .call, .call, .up 1, .remove 0, .call, .call]
      [⟨[0], 0⟩, ⟨[0], 0⟩, default, default]).map (·.2)
    = [.resp 0 1, .resp 0 1, .err 1 1, .resp 1 1] := by decide
-- an attempt accepted by a server that is gone before the connection is first used
example : (Balance.run (Balance.B.init true)
      [.up 0, .up 1, .insert 0, .call, .insert 1, .call, .down 1, .call]
      [default, ⟨[0], 0⟩, ⟨[1], 1⟩]).map (·.2)
    = [.resp 0 1, .resp 0 1, .lost 1] := by decide
-- the hypotheses of `C14_balanced_recovers` are satisfiable with a debt to pay: two endpoints, both down
-- for two calls, then both up: one stale failure (debt 1 = n - 1), then responses
example :
    let s := Balance.exec (Balance.B.init true) [.insert 0, .insert 1, .call, .call, .up 0, .up 1] [default, default]
    (∀ e ∈ s.eps, e.member = true → e.w.up = true) ∧ Balance.members s.eps = 2 ∧ Balance.debt s.eps = 1 ∧
    Balance.calls s [default, default, default, default] = [.err 0 2, .resp 1 1, .resp 0 1, .resp 0 1] := by decide
-- the oracle accepts what the model shows and rejects a hang, a replayed failure, a wrong class
example : Spec.Balance.holds [.insert 0, .call, .up 0, .call] [.error 14, .resp 0 1] = true := by decide
example : Spec.Balance.holds [.insert 0, .call] [.hang] = false := by decide
example : Spec.Balance.holds [.insert 0, .call, .up 0, .call] [.error 14, .error 14] = false := by decide
example : Spec.Balance.holds [.insert 0, .call] [.error 2] = false := by decide
example : Spec.Balance.holds [.call] [.hang] = true := by decide

-- abandoned calls: the run, the witness of C14-F1, and an oracle that can fail otherwise too
example : Abandon.run true [.refuse, .accept] [.abandon, .call, .call] =
    { build := .ok, buildAttempts := 0, evs := [.abandoned 1, .call (.error 14 (some 1)) 1, .call (.resp 2) 2] } := by decide
example : Abandon.run false [.accept, .accept] [.die, .abandon, .die, .call] =
    { build := .ok, buildAttempts := 1, evs := [.die, .abandoned 2, .die, .call (.resp 2) 2] } := by decide
example : Spec.ReconnectAbandon.holdsButStrict true [.accept] [.abandon, .call]
    { build := .ok, buildAttempts := 0, evs := [.abandoned 1, .call (.error 14 none) 1] } = false := by decide
example : Spec.ReconnectAbandon.holdsButStrict true [.refuse] [.abandon, .call]
    { build := .ok, buildAttempts := 0, evs := [.abandoned 1, .call .hang 1] } = false := by decide
example : ∃ r : R, r.error = none ∧ r.st = .connecting ∧ (r.hasBeen || r.isLazy) = true :=
  ⟨{ R.init true with st := .connecting, made := 1 }, rfl, rfl, rfl⟩

-- review round 4 (lr5-7): a call issued after a call that hung on the endpoint-less channel is
-- judged by the run-level theorems (`runAll`), while `run` stops at the hang; the oracle carried on
-- past the hang is not trivially true (it rejects a second hang once an endpoint is there)
example : Balance.run (Balance.B.init true) [.call, .insert 0, .up 0, .call] [] = [(0, .hang)] := by decide
example : Balance.runAll (Balance.B.init true) [.call, .insert 0, .up 0, .call] [] = [(0, .hang), (1, .resp 0 1)] := by decide
example : Spec.Balance.holdsAll [.call, .insert 0, .up 0, .call] [.hang, .resp 0 1] = true := by decide
example : Spec.Balance.holdsAll [.call, .insert 0, .up 0, .call] [.hang, .hang] = false := by decide

end C14
