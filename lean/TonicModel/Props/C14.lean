import TonicModel.Model.Reconnect
import TonicModel.Spec.Reconnect
import TonicModel.Lemmas.Reconnect
/-
C14 — A channel always answers and recovers when the peer comes back.
-/
namespace C14
open ConnScript Reconnect

/-- Whenever `poll_ready` says ready, the `call` that follows does not hit the
`panic!("service not ready")` branch — from any state and for any environment. -/
theorem C14_call_never_panics (r : R) (env : List Ans)
    (h : (pollReady r env).2.2 = .ready) : (call (pollReady r env).1).2 ≠ .panic := by
  unfold pollReady at h ⊢
  by_cases he : r.error.isSome = true
  · simp only [he, if_true] at h ⊢
    cases hr : r.error with
    | none => simp [hr] at he
    | some e => simp [call, hr]
  · simp only [he] at h ⊢
    have hc := loop_ready_callable r env h
    rcases hc with hc | ⟨c, hc⟩
    · cases hr : (loop r env).1.error with
      | none => simp [hr] at hc
      | some e => simp [call, hr]
    · cases hr : (loop r env).1.error <;> simp [call, hr, hc]

end C14
