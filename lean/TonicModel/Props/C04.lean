import TonicModel.Model.Status
import TonicModel.Spec.Status
import TonicModel.Lemmas.Status
import TonicModel.Lemmas.FramingHttp
import TonicModel.Model.FramingAsFound
import TonicModel.Model.StatusClient
/-
C04 — Status survives the header encoding; reading any headers is total.
Property theorems only; helper lemmas live in `Lemmas/Status.lean` and `Basic/*`.
`Variant.fixed` is the tree with fixes/fix-C04-*.patch and fix-C12-status-details-metadata.patch
applied (what the correspondence run drives); `Variant.orig` is the pinned tree, for which the `_fails` witnesses are proved.
-/
namespace C04
open Status

/-! ## writing -/

/-- Writing a status into headers never fails, whatever the code, message bytes, details,
metadata and the block written into: `add_header` returns `Ok` (its `Err` branch — a value that
is not a legal header value — is unreachable). (Transcription lemma: it holds by unfolding the model's definition, so it pins the model's shape for the correspondence run — its assurance about tonic is the tie, not this proof.) -/
theorem C04_write_never_fails (v : Variant) (st : St) (h0 : HMap) : ∃ h, addHeader v st h0 = .ok h :=
  ⟨wire v st h0, addHeader_eq v st h0⟩

/-- The header block `add_header` makes out of `h0` (`h0 = []`: trailers; `h0 = [content-type]`:
a trailers-only response), name by name: `grpc-status` is the code's decimal; a non-empty message
is written as its percent-encoding under `grpc-message`, non-empty details as their unpadded
base64 under `grpc-status-details-bin`; every custom name (not reserved, not the details header)
that the metadata has carries exactly the metadata's values for it, in order; everything else
is left as it was in `h0` — in particular nothing from the metadata appears under a reserved name. -/
theorem C04_wire_form (st : St) (h0 h : HMap) (hw : addHeader .fixed st h0 = .ok h) (k : Bytes) :
    HMap.getAll k h =
      if k = GRPC_STATUS then [st.code.headerValue]
      else if k = GRPC_MESSAGE ∧ st.message ≠ [] then [Pct.encode st.message]
      else if k = GRPC_STATUS_DETAILS ∧ st.details ≠ [] then [B64.encode false st.details]
      else if isCustom k = true ∧ HMap.getAll k st.metadata ≠ [] then HMap.getAll k st.metadata
      else HMap.getAll k h0 := by
  rw [addHeader_eq] at hw
  cases hw
  exact getAll_wire st h0 k

private theorem legal_of (w : Bytes) (hw' : HMap.legalValue w = true) : Spec.Status.legalHeaderValue w = true := by
  simp only [HMap.legalValue, Spec.Status.legalHeaderValue, List.all_eq_true] at hw' ⊢
  intro b hb
  have := hw' b hb
  simp only [HMap.legalValueByte, Spec.Status.legalHeaderByte, Bool.or_eq_true, Bool.and_eq_true,
    decide_eq_true_eq, bne_iff_ne, beq_iff_eq] at this ⊢
  omega

/-- Every header value in the block is a legal HTTP header value (HTAB, SP–~, obs-text), given
that the metadata's own values and those already in `h0` are (which `HeaderValue` guarantees);
a `grpc-message` value written for a non-empty message is moreover visible ASCII without space
(a spec-conformant `Percent-Encoded` string). -/
theorem C04_values_legal (st : St) (h0 h : HMap) (hw : addHeader .fixed st h0 = .ok h)
    (hmd : ∀ e ∈ st.metadata, Spec.Status.legalHeaderValue e.2 = true)
    (h0l : ∀ e ∈ h0, Spec.Status.legalHeaderValue e.2 = true) :
    (∀ e ∈ h, Spec.Status.legalHeaderValue e.2 = true) ∧
    (st.message ≠ [] → ∀ v ∈ HMap.getAll GRPC_MESSAGE h, ∀ b ∈ v, 33 ≤ b.toNat ∧ b.toNat ≤ 126) := by
  constructor
  · intro e he
    have hv : e.2 ∈ HMap.getAll e.1 h := HMap.mem_getAll_of_mem (k := e.1) (v := e.2) (by simpa using he)
    rw [C04_wire_form st h0 h hw e.1] at hv
    have from_md : ∀ k, e.2 ∈ HMap.getAll k st.metadata → Spec.Status.legalHeaderValue e.2 = true :=
      fun k hk => hmd (k, e.2) (HMap.mem_of_mem_getAll hk)
    have from_h0 : ∀ k, e.2 ∈ HMap.getAll k h0 → Spec.Status.legalHeaderValue e.2 = true :=
      fun k hk => h0l (k, e.2) (HMap.mem_of_mem_getAll hk)
    split at hv
    · have : e.2 = st.code.headerValue := by simpa using hv
      rw [this]; cases st.code <;> decide
    · split at hv
      · have : e.2 = Pct.encode st.message := by simpa using hv
        rw [this]; exact legal_of _ (pct_encode_legal _)
      · split at hv
        · have : e.2 = B64.encode false st.details := by simpa using hv
          rw [this]; exact legal_of _ (b64_encode_legal _ _)
        · split at hv
          · exact from_md _ hv
          · exact from_h0 _ hv
  · intro hm v hv b hb
    rw [C04_wire_form st h0 h hw GRPC_MESSAGE] at hv
    have n := names_ne
    simp only [n.1.symm, if_false, true_and, hm, ne_eq, not_false_eq_true, if_true] at hv
    have : v = Pct.encode st.message := by simpa using hv
    subst this
    exact Pct.encode_visible _ b hb

/-! ## round trip -/

/-- **Round trip.** For every status — any of the 17 codes, any valid-UTF-8 message (controls,
`%`, non-ASCII, empty), any details byte string, any metadata — written into any block `h0`
that does not already hold a message or details header (`[]` for trailers, `[content-type]`
for a trailers-only response), reading the block back yields exactly the same code, message
and details; and its metadata has, under every custom name the status' metadata had, exactly
those values in that order, nothing under the status names, and otherwise what `h0` had. -/
theorem C04_status_roundtrip (st : St) (h0 : HMap) (hutf : Utf8.valid st.message = true)
    (hm0 : HMap.getAll GRPC_MESSAGE h0 = []) (hd0 : HMap.getAll GRPC_STATUS_DETAILS h0 = []) :
    ∃ h, addHeader .fixed st h0 = .ok h ∧
      fromHeaderMap .fixed h = some (.status
        { code := st.code, message := st.message, details := st.details, metadata := stripStatus h }) ∧
      ∀ k, HMap.getAll k (stripStatus h) =
        if k = GRPC_STATUS ∨ k = GRPC_MESSAGE ∨ k = GRPC_STATUS_DETAILS then []
        else if isCustom k = true ∧ HMap.getAll k st.metadata ≠ [] then HMap.getAll k st.metadata
        else HMap.getAll k h0 := by
  obtain ⟨n1, n2, n3, n4, n5, n6⟩ := names_ne
  have hw : addHeader .fixed st h0 = .ok (wire .fixed st h0) := addHeader_eq .fixed st h0
  have g := C04_wire_form st h0 _ hw
  have gS := g GRPC_STATUS
  have gM := g GRPC_MESSAGE
  have gD := g GRPC_STATUS_DETAILS
  have cM : isCustom GRPC_MESSAGE = false := by decide
  have cD : isCustom GRPC_STATUS_DETAILS = false := by decide
  simp only [if_true] at gS
  simp only [n1.symm, n3, if_false, true_and, false_and, cM, Bool.false_eq_true, hm0] at gM
  simp only [n2.symm, n3.symm, if_false, true_and, false_and, cD, Bool.false_eq_true, hd0] at gD
  have hmsg : decodeMessage (wire .fixed st h0) = .ok st.message := by
    unfold decodeMessage HMap.get
    rw [gM]
    by_cases hm : st.message = []
    · simp [hm]
    · have hv : Utf8.validate st.message = none := by simpa [Utf8.valid] using hutf
      simp [hm, Pct.decode_encode, hv]
  have hcode : Code.fromBytes st.code.headerValue = st.code := by cases st.code <;> decide
  refine ⟨_, hw, ?_, ?_⟩
  · unfold fromHeaderMap stripStatus
    by_cases hd : st.details = []
    · simp only [HMap.get, gS, gD, hd, ne_eq, not_true_eq_false, if_false, List.head?_nil, List.head?_cons, hmsg, hcode]
    · simp only [HMap.get, gS, gD, hd, ne_eq, not_false_eq_true, if_true, List.head?_cons, B64.decode_encode, hmsg, hcode]
  · intro k
    rw [getAll_stripStatus, g k]
    by_cases k1 : k = GRPC_STATUS
    · subst k1; simp
    · by_cases k2 : k = GRPC_MESSAGE
      · subst k2; simp
      · by_cases k3 : k = GRPC_STATUS_DETAILS
        · subst k3; simp
        · simp [k1, k2, k3]

/-- The same with the message given as text: for **every list of Unicode scalar values** (Lean
`Char`s — controls, `%`, non-ASCII, astral planes, empty), its UTF-8 encoding is a message that
survives, with no validity hypothesis left. -/
theorem C04_status_roundtrip_unicode (code : Code) (text : List Char) (details : Bytes) (md h0 : HMap)
    (hm0 : HMap.getAll GRPC_MESSAGE h0 = []) (hd0 : HMap.getAll GRPC_STATUS_DETAILS h0 = []) :
    ∃ h, addHeader .fixed
        { code := code, message := Utf8.encodeString (text.map Char.toNat), details := details, metadata := md } h0 = .ok h ∧
      fromHeaderMap .fixed h = some (.status
        { code := code, message := Utf8.encodeString (text.map Char.toNat), details := details,
          metadata := stripStatus h }) := by
  obtain ⟨h, h1, h2, _⟩ := C04_status_roundtrip
    { code := code, message := Utf8.encodeString (text.map Char.toNat), details := details, metadata := md }
    h0 (Utf8.valid_encodeChars text) hm0 hd0
  exact ⟨h, h1, h2⟩

/-- On the pinned tree as found the round trip fails for a status whose metadata carries a
`grpc-status-details-bin` entry while its details are empty: the entry is written to the wire
and the peer reads it as the details.  Witness: `details = ""`, metadata
`grpc-status-details-bin: QUJD` reads back with details `ABC`. -/
theorem C04_status_roundtrip_unfixed_fails :
    ¬ ∀ st : St, Utf8.valid st.message = true →
      ∃ h st', addHeader .orig st [] = .ok h ∧ fromHeaderMap .fixed h = some (.status st') ∧
        st'.details = st.details := by
  intro hall
  have := hall { code := .invalidArgument, message := [], details := [],
                 metadata := [(GRPC_STATUS_DETAILS, [81, 85, 74, 68])] } (by decide)
  obtain ⟨h, st', h1, h2, h3⟩ := this
  rw [addHeader_eq] at h1
  cases h1
  revert h2 h3
  generalize hw : wire Variant.orig _ _ = w
  have : w = [(GRPC_STATUS_DETAILS, [81, 85, 74, 68]), (GRPC_STATUS, [51])] := by rw [← hw]; decide
  subst this
  intro h3 h2
  have h4 : fromHeaderMap .fixed [(GRPC_STATUS_DETAILS, [81, 85, 74, 68]), (GRPC_STATUS, [51])] =
      some (.status { code := .invalidArgument, message := [], details := [65, 66, 67], metadata := [] }) := by decide
  rw [h4] at h2
  cases h2
  simp at h3

/-! ## reading arbitrary peer headers -/

/-- **Totality.** Reading a status from *any* header block never panics (repaired tree). -/
theorem C04_read_total (h : HMap) : fromHeaderMap .fixed h ≠ some .panic := by
  unfold fromHeaderMap
  split
  · simp
  · simp only []
    split <;> simp

/-- On the pinned tree as found the reader is not total: a `grpc-status-details-bin` value that
is not base64 panics (`expect`).  Witness: `grpc-status: 3`, `grpc-status-details-bin: !!!`. -/
theorem C04_read_total_unfixed_fails : ¬ ∀ h, fromHeaderMap .orig h ≠ some .panic := by
  intro hall
  exact hall [(GRPC_STATUS, [51]), (GRPC_STATUS_DETAILS, [33, 33, 33])] (by decide)

/-- … and that is the only way it panics: on the pinned tree every block whose details header
(if any) is valid base64 is read without panic, and both trees agree on it. -/
theorem C04_read_total_partial (h : HMap)
    (hd : ∀ dv, HMap.get GRPC_STATUS_DETAILS h = some dv → (B64.decode dv).isSome = true) :
    fromHeaderMap .orig h ≠ some .panic ∧ fromHeaderMap .orig h = fromHeaderMap .fixed h := by
  unfold fromHeaderMap
  split
  · simp
  · simp only []
    cases hg : HMap.get GRPC_STATUS_DETAILS h with
    | none => simp
    | some dv =>
      have := hd dv hg
      cases hdec : B64.decode dv with
      | none => rw [hdec] at this; cases this
      | some d => simp [hdec]

/-- **The reader computes the spec's reading**, for every header block: no status iff there is
no `grpc-status`; otherwise a status whose metadata is the block minus the three status headers
and whose fields are: the code the spec's table gives (UNKNOWN for every unknown or malformed
code string), the percent-decoded message and the base64-decoded details when both are
decodable; and an error status (UNKNOWN, never OK) as soon as one of them is not. -/
theorem C04_read_is_spec (h : HMap) :
    match Spec.Status.read h, fromHeaderMap .fixed h with
    | none, none => True
    | some r, some (.status st) =>
        st.metadata = stripStatus h ∧
        (∀ m d, r.message = some m → r.details = some d →
          st.code.num = r.code ∧ st.message = m ∧ st.details = d) ∧
        ((r.message = none ∨ r.details = none) → st.code = .unknown)
    | _, _ => False := by
  have e1 : Spec.Status.statusName = GRPC_STATUS := rfl
  have e2 : Spec.Status.messageName = GRPC_MESSAGE := rfl
  have e3 : Spec.Status.detailsName = GRPC_STATUS_DETAILS := rfl
  unfold Spec.Status.read fromHeaderMap decodeMessage stripStatus
  rw [e1, e2, e3]
  cases hs : HMap.get GRPC_STATUS h with
  | none => simp
  | some cv =>
    cases hm : HMap.get GRPC_MESSAGE h with
    | none =>
      cases hd : HMap.get GRPC_STATUS_DETAILS h with
      | none => simp [fromBytes_is_spec]
      | some dv =>
        cases hdec : B64.decode dv with
        | none => simp [hdec]
        | some d => simp [hdec, fromBytes_is_spec]
    | some mv =>
      cases hv : Utf8.validate (Pct.decode mv) with
      | none =>
        have hvalid : Utf8.valid (Pct.decode mv) = true := by simp [Utf8.valid, hv]
        cases hd : HMap.get GRPC_STATUS_DETAILS h with
        | none => simp [fromBytes_is_spec, hvalid, hv]
        | some dv =>
          cases hdec : B64.decode dv with
          | none => simp [hdec, hv]
          | some d => simp [hdec, hv, fromBytes_is_spec, hvalid]
      | some e =>
        have hvalid : Utf8.valid (Pct.decode mv) = false := by simp [Utf8.valid, hv]
        cases hd : HMap.get GRPC_STATUS_DETAILS h with
        | none => simp [hvalid, hv]
        | some dv =>
          cases hdec : B64.decode dv with
          | none => simp [hdec, hv]
          | some d => simp [hdec, hv, hvalid]

/-- **Reading what any conformant peer wrote.** Take any header block whose `grpc-status` is the
decimal of a code, whose `grpc-message` is *some* percent-encoding of a valid-UTF-8 message (any
set of escaped bytes that includes `%`, upper- or lower-case hex — not necessarily tonic's own
choice) and whose `grpc-status-details-bin` is the base64 of the details *with or without
padding*, plus arbitrary other headers: the reader returns exactly that code, message and
details, and the other headers as metadata. -/
theorem C04_reads_any_conformant_peer (c : Code) (msg det : Bytes) (others : HMap)
    (esc : UInt8 → Bool) (lower pad : Bool) (hesc : esc Pct.PCT = true)
    (hutf : Utf8.valid msg = true)
    (ho : HMap.getAll GRPC_STATUS others = [] ∧ HMap.getAll GRPC_MESSAGE others = [] ∧
          HMap.getAll GRPC_STATUS_DETAILS others = []) :
    fromHeaderMap .fixed
        (others ++ [(GRPC_STATUS, c.headerValue), (GRPC_MESSAGE, Pct.encodeWith esc lower msg),
                    (GRPC_STATUS_DETAILS, B64.encode pad det)]) =
      some (.status { code := c, message := msg, details := det,
                      metadata := stripStatus (others ++ [(GRPC_STATUS, c.headerValue),
                        (GRPC_MESSAGE, Pct.encodeWith esc lower msg), (GRPC_STATUS_DETAILS, B64.encode pad det)]) }) := by
  obtain ⟨n1, n2, n3, _, _, _⟩ := names_ne
  obtain ⟨o1, o2, o3⟩ := ho
  have gS : HMap.get GRPC_STATUS (others ++ [(GRPC_STATUS, c.headerValue), (GRPC_MESSAGE, Pct.encodeWith esc lower msg),
      (GRPC_STATUS_DETAILS, B64.encode pad det)]) = some c.headerValue := by
    simp [HMap.get, HMap.getAll_append_list, o1, HMap.getAll_cons, HMap.getAll_nil]
  have gM : HMap.get GRPC_MESSAGE (others ++ [(GRPC_STATUS, c.headerValue), (GRPC_MESSAGE, Pct.encodeWith esc lower msg),
      (GRPC_STATUS_DETAILS, B64.encode pad det)]) = some (Pct.encodeWith esc lower msg) := by
    simp [HMap.get, HMap.getAll_append_list, o2, HMap.getAll_cons, HMap.getAll_nil, n1]
  have gD : HMap.get GRPC_STATUS_DETAILS (others ++ [(GRPC_STATUS, c.headerValue), (GRPC_MESSAGE, Pct.encodeWith esc lower msg),
      (GRPC_STATUS_DETAILS, B64.encode pad det)]) = some (B64.encode pad det) := by
    simp [HMap.get, HMap.getAll_append_list, o3, HMap.getAll_cons, HMap.getAll_nil, n2, n3]
  have hv : Utf8.validate msg = none := by simpa [Utf8.valid] using hutf
  have hcode : Code.fromBytes c.headerValue = c := by cases c <;> decide
  unfold fromHeaderMap decodeMessage stripStatus
  simp only [gS, gM, gD, Pct.decode_encodeWith esc lower hesc, hv, B64.decode_encode, hcode]

/-- The `grpc-status` value is parsed by the exact table: each code's decimal gives that code
and every other byte string (empty, sign, leading zero, space, three digits, 17…) gives UNKNOWN. -/
theorem C04_code_parse_is_spec (bs : Bytes) : (Code.fromBytes bs).num = Spec.Status.readCode bs :=
  fromBytes_is_spec bs

/-- Every code's header value is its decimal number and parses back to the code. -/
theorem C04_code_roundtrip (c : Code) :
    c.headerValue = decimal c.num ∧ Code.fromBytes c.headerValue = c ∧ Code.ofInt (Int.ofNat c.num) = c := by
  cases c <;> decide

/-! ## classification when no grpc-status is available -/

/-- HTTP status table, all status codes: the model's table is the spec's table (and 200 is the
one status that ends the stream without an error). -/
theorem C04_http_table (http : Nat) :
    (http = 200 → httpToCode http = none) ∧
    (http ≠ 200 → ∃ c, httpToCode http = some c ∧ c.num = Spec.Status.httpToCode http) := by
  unfold httpToCode Spec.Status.httpToCode
  constructor
  · intro h; subst h; decide
  · intro h
    repeat' split
    all_goals first
      | exact ⟨_, rfl, by decide⟩
      | omega
      | (simp_all; done)
      | (refine ⟨_, rfl, ?_⟩; simp_all [Code.num, Spec.Status.UNKNOWN]; done)

/-- With no trailers, or trailers without `grpc-status`, a non-200 response is an error whose
code is the spec's HTTP mapping; with a `grpc-status` in the trailers the trailers decide
(OK ends the stream cleanly, anything else is that error), whatever the HTTP status. -/
theorem C04_infer (trailers : Option HMap) (http : Nat) :
    ((trailers.bind Spec.Status.read = none) → http ≠ 200 →
      ∃ st, inferGrpcStatus .fixed trailers http = .err st ∧ st.code.num = Spec.Status.httpToCode http) ∧
    (∀ t st, trailers = some t → fromHeaderMap .fixed t = some (.status st) →
      inferGrpcStatus .fixed trailers http = if st.code = .ok then .done else .err st) := by
  constructor
  · intro hnone hne
    have hft : ∀ t, trailers = some t → fromHeaderMap .fixed t = none := by
      intro t ht
      subst ht
      have hr : Spec.Status.read t = none := by simpa using hnone
      have := C04_read_is_spec t
      rw [hr] at this
      cases hf : fromHeaderMap .fixed t with
      | none => rfl
      | some o => rw [hf] at this; cases o <;> simp at this
    obtain ⟨c, hc, hnum⟩ := (C04_http_table http).2 hne
    refine ⟨{ code := c, message := inferMessage http, details := [], metadata := [] }, ?_, hnum⟩
    unfold inferGrpcStatus
    cases trailers with
    | none => simp only [hc]
    | some t => simp only [hft t rfl, hc]
  · intro t st ht hst
    subst ht
    unfold inferGrpcStatus
    simp only [hst]

/-! ## a non-200 response WITH a body

The theorems above classify the end of a body that carried no DATA.  `Streaming` (model:
`Framing.Dec`, `codec/decode.rs`) is what meets a real body.  On the pinned tree it parsed the
DATA of every response as gRPC frames before it saw the end of the body; on the repaired tree the
DATA of a response whose HTTP status is not 200 is dropped unread. -/

/-- the HTTP-status table of the stream model (`Framing.inferStatus`) is the spec's table -/
theorem C04_stream_http_table (http : Nat) : Framing.httpCode http = Spec.Status.httpToCode http := by
  unfold Framing.httpCode Spec.Status.httpToCode
  repeat' split
  all_goals first
    | rfl
    | omega
    | (simp_all [Spec.Status.UNKNOWN]; done)

/-- **HTTP-status table, any body.**  Take a response whose HTTP status is not 200 and ANY body:
any list of DATA chunks (an HTML page, bytes that look like a gRPC frame, a truncated frame, empty
chunks — any bytes in any chunking), `Pending`s, and trailers frames without a `grpc-status` (or
none), with any message codec, negotiated encoding and size limit.  Polled more often than there
are events, the stream yields, `Pending`s aside, exactly one error whose code is the spec's HTTP
mapping (400 INTERNAL, 401 UNAUTHENTICATED, 403 PERMISSION_DENIED, 404 UNIMPLEMENTED,
429/502/503/504 UNAVAILABLE, anything else UNKNOWN), then `None` for ever — and no message. -/
theorem C04_http_table_any_body {α : Type} (cd : Framing.Codec α) (enc : Option Framing.Enc)
    (maxSize : Option Nat) (http : Nat) (h200 : http ≠ 200)
    (evs : List Framing.BodyEv) (hevs : Framing.NoStatusEvs evs = true) (n : Nat) (hn : evs.length < n) :
    ∃ k, Framing.nonPending
        (Framing.Dec.run cd { enc := enc, maxSize := maxSize, dir := .response http } n Framing.Dec.init evs) =
      .err ⟨Spec.Status.httpToCode http, .http⟩ :: List.replicate k .none := by
  rw [← C04_stream_http_table]
  exact Framing.run_non200_noStatus cd _ http rfl h200 n Framing.Dec.init evs Framing.idle_init hevs hn

/-- **No message from a non-200 response, ever** — for every event list whatsoever (body errors
and trailers with a status included), any number of polls. -/
theorem C04_non200_no_message {α : Type} (cd : Framing.Codec α) (enc : Option Framing.Enc)
    (maxSize : Option Nat) (http : Nat) (h200 : http ≠ 200) (evs : List Framing.BodyEv) (n : Nat) :
    Framing.msgsOf
      (Framing.Dec.run cd { enc := enc, maxSize := maxSize, dir := .response http } n Framing.Dec.init evs) = [] :=
  Framing.run_non200_no_message cd _ (Framing.skips_of_non200 rfl h200) n evs

/-- **A `grpc-status` in the trailers wins, any body.**  If the first trailers frame of a non-200
response carries `grpc-status: c`, then whatever DATA and `Pending`s precede it the first ready
result of the stream is the clean end for `c = 0` and the error with code `c` otherwise. -/
theorem C04_trailers_status_wins_any_body {α : Type} (cd : Framing.Codec α) (enc : Option Framing.Enc)
    (maxSize : Option Nat) (http : Nat) (h200 : http ≠ 200) (c : Nat)
    (evs : List Framing.BodyEv) (hevs : Framing.NoErrEvs evs = true)
    (hfirst : Framing.firstTr evs = some (some c)) (n : Nat) (hn : evs.length < n) :
    Framing.firstReady
        (Framing.Dec.run cd { enc := enc, maxSize := maxSize, dir := .response http } n Framing.Dec.init evs) =
      some (if c = 0 then .none else .err ⟨c, .user⟩) := by
  have := Framing.run_non200_first cd { enc := enc, maxSize := maxSize, dir := .response http } http rfl h200 n
    Framing.Dec.init evs Framing.idle_init hevs hn
  rw [this, hfirst]
  by_cases hc : c = 0 <;> simp [Framing.inferStatus, hc]

/-- the codec of the witnesses below: messages are byte strings, every payload decodes -/
def rawCodec : Framing.Codec Bytes :=
  { ser := id, de := some, deErr := 13, cz := fun _ b => b, dz := fun _ _ => none }

/-- On the pinned tree as found the HTTP-status classification fails as soon as the response has a
body.  Witnesses (both replayed on the real code, `inferb` corpus cases): HTTP 503 with an HTML
body (`<html>`) ends with INTERNAL ("invalid compression flag: 60") instead of UNAVAILABLE. -/
theorem C04_http_status_with_body_asis_fails :
    ¬ ∀ (http : Nat), http ≠ 200 → ∀ (evs : List Framing.BodyEv), Framing.NoStatusEvs evs = true →
      ∀ n, evs.length < n →
      ∃ k, Framing.nonPending
          (Framing.Dec.runAsFound rawCodec { enc := none, maxSize := none, dir := .response http } n Framing.Dec.init evs) =
        .err ⟨Spec.Status.httpToCode http, .http⟩ :: List.replicate k .none := by
  intro hall
  obtain ⟨k, hk⟩ := hall 503 (by decide) [.data [60, 104, 116, 109, 108, 62]] (by decide) 2 (by decide)
  have hrun : Framing.nonPending
      (Framing.Dec.runAsFound rawCodec { enc := none, maxSize := none, dir := .response 503 } 2 Framing.Dec.init
        [.data [60, 104, 116, 109, 108, 62]]) = [.err ⟨13, .badFlag⟩, .none] := by decide
  rw [hrun] at hk
  cases k with
  | zero => simp at hk
  | succ k => simp [List.replicate_succ] at hk

/-- … and a 401 whose body happens to look like a frame (`00 00 00 00 02 6e 6f`) DELIVERS A
MESSAGE on the pinned tree as found. -/
theorem C04_non200_no_message_asis_fails :
    ¬ ∀ (http : Nat), http ≠ 200 → ∀ (evs : List Framing.BodyEv) (n : Nat),
      Framing.msgsOf
        (Framing.Dec.runAsFound rawCodec { enc := none, maxSize := none, dir := .response http } n Framing.Dec.init evs) = [] := by
  intro hall
  have := hall 401 (by decide) [.data [0, 0, 0, 0, 2, 110, 111]] 3
  revert this
  decide

/-- HTTP/2 error-code table (repaired tree): every error code for which gRPC's table gives a
mapping — CANCEL, REFUSED_STREAM, ENHANCE_YOUR_CALM, INADEQUATE_SECURITY and the eight
protocol-level codes — is mapped to exactly that code; for all error codes, known or unknown. -/
theorem C04_h2_table (reason c : Nat) (h : Spec.Status.h2ToCode reason = some c) :
    (codeFromH2 .fixed reason).num = c := by
  unfold Spec.Status.h2ToCode at h
  unfold codeFromH2
  repeat' split at h
  all_goals first
    | (cases h; decide)
    | cases h

/-- On the pinned tree as found the table has one wrong row: FRAME_SIZE_ERROR (6), a
protocol-level code, gives UNKNOWN instead of INTERNAL. -/
theorem C04_h2_table_unfixed_fails :
    ¬ ∀ reason c, Spec.Status.h2ToCode reason = some c → (codeFromH2 .orig reason).num = c := by
  intro hall
  have := hall 6 13 (by decide)
  revert this; decide

/-- … and it is the only wrong row. -/
theorem C04_h2_table_partial (reason c : Nat) (hne : reason ≠ 6)
    (h : Spec.Status.h2ToCode reason = some c) : (codeFromH2 .orig reason).num = c := by
  rw [← C04_h2_table reason c h]
  unfold codeFromH2
  simp [hne]

/-- A status is reset with CANCEL exactly when it is CANCELLED, and the peer maps that reset
back to CANCELLED. -/
theorem C04_cancel_reset (c : Code) :
    (toH2 c = 8 ↔ c = .cancelled) ∧ codeFromH2 .fixed (toH2 .cancelled) = .cancelled := by
  cases c <;> decide

/-! ## the layers around the codec (audit aC04): the client's first look at a response, the
server's two ways of writing a failure, a finished stream polled again -/

/-- **A client reads the status of a trailers-only response out of the response headers, and
exactly as the spec reads that block.** For every HTTP status and every header block:
no `grpc-status` in the headers — the body becomes the response stream that is classified at its
end (by its trailers, else by the HTTP status: `C04_infer`, `C04_http_table_any_body`); a
`grpc-status` there that reads as a non-OK status — the call fails at once with the spec's
reading of the block (code, message, details), whatever the HTTP status; an undecodable field —
it fails with a non-OK status; and only a well-formed OK lets the call go on. -/
theorem C04_client_header_status (http : Nat) (h : HMap) :
    match Spec.Status.read h, createResponse .fixed http h with
    | none, .stream d => d = .response http
    | some r, .fail st =>
        st.code ≠ .ok ∧ st.metadata = stripStatus h ∧
        (∀ m d, r.message = some m → r.details = some d →
          st.code.num = r.code ∧ st.message = m ∧ st.details = d)
    | some r, .stream d => d = .empty ∧ r.code = Spec.Status.OK ∧ r.message.isSome ∧ r.details.isSome
    | _, _ => False := by
  have hs := C04_read_is_spec h
  unfold createResponse
  cases hr : Spec.Status.read h with
  | none =>
    rw [hr] at hs
    cases hf : fromHeaderMap .fixed h with
    | none => simp
    | some o => rw [hf] at hs; cases o <;> simp at hs
  | some r =>
    rw [hr] at hs
    cases hf : fromHeaderMap .fixed h with
    | none => rw [hf] at hs; simp at hs
    | some o =>
      rw [hf] at hs
      cases o with
      | panic => simp at hs
      | status st =>
        obtain ⟨hmd, hdec, hund⟩ := hs
        by_cases hok : st.code = .ok
        · simp only [hok, if_true]
          refine ⟨trivial, ?_⟩
          cases hm : r.message with
          | none => have := hund (Or.inl hm); rw [hok] at this; cases this
          | some m =>
            cases hd : r.details with
            | none => have := hund (Or.inr hd); rw [hok] at this; cases this
            | some d =>
              have := (hdec m d hm hd).1
              rw [hok] at this
              exact ⟨this.symm, rfl, rfl⟩
        · simp only [hok, if_false]
          exact ⟨hok, hmd, hdec⟩

/-- **Both ways a server writes a failed call are read back by a client as the same status.**
For every status with a code other than OK (any valid-UTF-8 message, any details, any metadata):
written by `Status::into_http` into a trailers-only response, the client's `create_response`
fails the call with exactly that code, message and details, whatever the HTTP status; and written
by `Status::to_header_map` into the trailers of a response body (`EncodeBody`), the end of the
response stream (`infer_grpc_status`) is exactly that error, whatever the HTTP status. -/
theorem C04_server_failure_reaches_client (st : St) (http : Nat) (hutf : Utf8.valid st.message = true)
    (hne : st.code ≠ .ok) :
    (∃ h, addHeader .fixed st [(CONTENT_TYPE, HMap.name "application/grpc")] = .ok h ∧
      createResponse .fixed http h = .fail
        { code := st.code, message := st.message, details := st.details, metadata := stripStatus h }) ∧
    (∃ t, toHeaderMap .fixed st = .ok t ∧
      inferGrpcStatus .fixed (some t) http = .err
        { code := st.code, message := st.message, details := st.details, metadata := stripStatus t }) := by
  constructor
  · obtain ⟨h, hw, hr, _⟩ := C04_status_roundtrip st [(CONTENT_TYPE, HMap.name "application/grpc")] hutf (by decide) (by decide)
    refine ⟨h, hw, ?_⟩
    unfold createResponse
    rw [hr]
    simp [hne]
  · obtain ⟨t, hw, hr, _⟩ := C04_status_roundtrip st [] hutf (by decide) (by decide)
    refine ⟨t, hw, ?_⟩
    have := (C04_infer (some t) http).2 t _ rfl hr
    rw [this]
    simp [hne]

/-- Target: *a stream that has ended stays ended* — polled again after `message()` said `None`
and `trailers()` handed out the trailers, it says `None` again (the documentation of
`Streaming::message` promises it).  **False of the code as it is** (finding C04-F2): a response
whose HTTP status is not 200 and whose trailers carry `grpc-status: 0` ends cleanly, but once
`trailers()` has taken the trailers the next poll classifies the response by its HTTP status
alone and fails, e.g. with UNAVAILABLE for a 503. -/
theorem C04_ended_stream_stays_ended_fails :
    ¬ ∀ dir, repollAfterTrailersTaken dir = none := by
  intro h
  have := h (.response 503)
  revert this
  decide

/-- … and it holds exactly when the response's HTTP status is 200 (and for request streams and
the `new_empty` streams of trailers-only responses). -/
theorem C04_ended_stream_stays_ended_partial (dir : Framing.Dir) :
    repollAfterTrailersTaken dir = none ↔ dir ≠ .response 200 → ∀ http, dir ≠ .response http := by
  cases dir with
  | request => simp [repollAfterTrailersTaken, Framing.Dec.response]
  | empty => simp [repollAfterTrailersTaken, Framing.Dec.response]
  | response http =>
    simp only [repollAfterTrailersTaken, Framing.Dec.response, Framing.inferStatus]
    by_cases h200 : http = 200
    · subst h200; simp
    · simp only [h200, if_false]
      constructor
      · intro h; repeat (split at h <;> try cases h)
      · intro h
        exact absurd rfl (h (by simpa using h200) http)

/-! ## non-vacuity -/

/- a status with controls, `%`, non-ASCII text, details of length 2 (mod 3) and repeated and
reserved metadata satisfies the round-trip hypotheses … -/
private def exSt : St :=
  { code := .dataLoss, message := [37, 10, 195, 169, 32], details := [0, 255],
    metadata := [(HMap.name "x-a", [49]), (HMap.name "te", [120]), (HMap.name "x-a", [50])] }

example : Utf8.valid exSt.message = true := by decide

/- … the hypotheses of `C04_server_failure_reaches_client` are met by it, and the three outcomes of
`create_response` all occur: a 503 whose headers carry a status fails with that status, OK in the
headers gives the unclassified `new_empty` stream, no status gives the stream classified at its end -/
example : exSt.code ≠ .ok := by decide
example : createResponse .fixed 503 [(GRPC_STATUS, [55]), (GRPC_STATUS_DETAILS, HMap.name "QUI=")] =
    .fail { code := .permissionDenied, message := [], details := [65, 66], metadata := [] } := by decide +kernel
example : createResponse .fixed 200 [(GRPC_STATUS, [48])] = .stream .empty ∧
    createResponse .fixed 404 [(CONTENT_TYPE, HMap.name "text/html")] = .stream (.response 404) := by decide
example : repollAfterTrailersTaken (.response 503) = some ⟨14, .http⟩ ∧
    repollAfterTrailersTaken (.response 200) = none := by decide
/- … and its wire form is what the theorems say -/
example : (toHeaderMap .fixed exSt).toOption = some
    [(HMap.name "x-a", [49]), (HMap.name "x-a", [50]), (GRPC_STATUS, [49, 53]),
     (GRPC_MESSAGE, HMap.name "%25%0A%C3%A9%20"), (GRPC_STATUS_DETAILS, HMap.name "AP8")] := by decide
/- the block a trailers-only response starts from satisfies the `h0` hypotheses -/
example : HMap.getAll GRPC_MESSAGE [(CONTENT_TYPE, HMap.name "application/grpc")] = [] ∧
    HMap.getAll GRPC_STATUS_DETAILS [(CONTENT_TYPE, HMap.name "application/grpc")] = [] := by decide
/- a peer that escapes only `%`, in lower-case hex, and pads its base64, meets the hypotheses of
`C04_reads_any_conformant_peer`; so does a block with other headers around -/
example : (fun b : UInt8 => b == 37) Pct.PCT = true ∧
    Pct.encodeWith (fun b => b == 37) true [49, 48, 48, 37] = HMap.name "100%25" ∧
    B64.encode true [255] = HMap.name "/w==" ∧
    (HMap.getAll GRPC_STATUS [(HMap.name "x-a", [49])] = [] ∧ HMap.getAll GRPC_MESSAGE [(HMap.name "x-a", [49])] = [] ∧
      HMap.getAll GRPC_STATUS_DETAILS [(HMap.name "x-a", [49])] = []) := by decide
/- malformed inputs exist on both sides of `C04_read_is_spec` -/
example : Spec.Status.read [(GRPC_STATUS, HMap.name "016")] = some { code := 2, message := some [], details := some [] } := by decide
example : (Spec.Status.read [(GRPC_STATUS, [48]), (GRPC_STATUS_DETAILS, HMap.name "QR")]).map (·.details) = some none := by decide
/- an HTML page cut in two with a `Pending` and a status-less trailers frame satisfies the
hypotheses of `C04_http_table_any_body`; on the repaired tree the 401 look-alike frame yields no message -/
example : Framing.NoStatusEvs [.data [60, 104], .pending, .data [116, 109, 108, 62], .trailers none] = true := by decide
example : Framing.nonPending
    (Framing.Dec.run rawCodec { enc := none, maxSize := none, dir := .response 401 } 2 Framing.Dec.init
      [.data [0, 0, 0, 0, 2, 110, 111]]) = [.err ⟨16, .http⟩, .none] := by decide
example : Spec.Status.h2ToCode 6 = some 13 ∧ Spec.Status.h2ToCode 5 = none ∧ Spec.Status.httpToCode 429 = 14 := by decide

end C04
