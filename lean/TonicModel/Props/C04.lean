import TonicModel.Model.Status
import TonicModel.Spec.Status
namespace C04
open Status

/-- Every code's header value parses back to the code. -/
theorem C04_code_roundtrip (c : Code) : Code.fromBytes c.headerValue = c := by
  cases c <;> decide

end C04
