import TonicModel.Model.Shutdown
import TonicModel.Spec.Shutdown
/-
C13 — Graceful shutdown loses no accepted call.  Property theorems only.
-/
namespace C13
open Shutdown

/-- The accept loop as found (`select!` without `biased;`): a connection offered AFTER the signal
fired can still be accepted — both branches are ready and either may win. -/
theorem C13_no_accept_after_signal_fails :
    (run (init true false false) [.sigFire, .offer, .loopAccept 0]).map
      (fun s => s.conns.map (fun cn => (cn.offeredAfterSig, cn.accepted))) = some [(true, true)] := by
  decide

end C13
