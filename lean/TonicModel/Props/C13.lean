import TonicModel.Model.Shutdown
import TonicModel.Spec.Shutdown
import TonicModel.Lemmas.Shutdown
import TonicModel.Lemmas.ShutdownViews
import TonicModel.Lemmas.ShutdownProgress
import TonicModel.Lemmas.ShutdownTrack
import TonicModel.Lemmas.ShutdownContract
import TonicModel.Lemmas.ShutdownTimeout
import TonicModel.Lemmas.ShutdownBurst
import TonicModel.Model.ShutdownPair
/-
C13 — Graceful shutdown loses no accepted call.  Property theorems only; the invariant and its
preservation are in `Lemmas/Shutdown`, the oracle in `Spec/Shutdown`.

`Reachable g b a s`: `s` is reachable from the initial state of a server configured with
`g` (a shutdown signal is given), `b` (the accept loop's `select!` is `biased;`, i.e. the repaired
code) and `a` (`max_connection_age` set) by ANY finite interleaving of enabled steps — any number
of connections (plain or through the TLS handshake set) and calls (all four shapes), any placement
of the signal, any order of task steps.  The initial state is taken with ANY setting of
`Server::timeout` (`Reachable.init t`), so every statement about `Reachable g b a` covers servers
with and without a request timeout; time passing is the environment steps `ageTick` (a connection's
`max_connection_age` sleep elapsed) and `deadlineTick` (a call's `GrpcTimeout` sleep elapsed).

THE REQUEST TIMEOUT (tonic's own logic, `GrpcTimeout` in `MakeSvc`): it bounds the time to the
response head only.  `C13_timeout_fires_only_before_head` (exact enabling condition of `expire`),
`C13_timeout_never_cuts_a_streaming_body` (a call past its response head is ended only by its handler
or by its caller, along ANY run, whatever timers are configured and fire),
`C13_inflight_never_dropped` (every other step leaves every accepted call alone).  "True outcome"
(`Spec.outcome`, `Call.outcome`) is the handler's outcome, or the server's CANCELLED "Timeout
expired" for a call the timeout cut before its response head.

WHAT IS PROVED ABOUT TONIC'S OWN LOGIC (serve_internal, serve_connection, Fuse, ServerIoStream):
  * (b) the biased accept loop takes nothing once the signal is ready — `C13_no_accept_after_signal`,
    `C13_accept_disabled_after_signal`, `C13_no_accept_after_signal_trace`,
    `C13_no_accept_once_loop_over`, and `C13_no_accept_after_signal_fails` for the loop as found;
    and for a BURST (several connections ready at once, the signal becoming ready between two of
    them): `C13_burst_not_accepted_past_signal` — every burst size, every position of the signal,
    whatever happens afterwards, the connections still queued at the signal are never accepted —
    `C13_burst_no_accept_after_signal_trace`, and the counter-model of a loop that takes the whole
    backlog in one go (`stepDrain`, Model/ShutdownBurst):
    `C13_burst_not_accepted_past_signal_fails_for_a_draining_loop`,
    `C13_draining_loop_differs_only_inside_a_burst`;
  * (c) the watch channel's receiver count is exactly "own receiver + one per unfinished
    connection task", a count of 0 means all accepted connections are closed, the serve future
    resolves iff the loop is over and the count is 0 — `C13_receiver_count_is_open_connections`,
    `C13_resolve_enabled_iff`, `C13_resolve_only_when_all_closed`;
  * (d) progress: the server's own steps terminate, a draining server is never stuck, and EVERY
    maximal run of its own steps from a closeable state ends resolved —
    `C13_internal_steps_terminate`, `C13_not_stuck_before_resolved`,
    `C13_every_maximal_run_resolves`, `C13_maximal_run_exists`,
    `C13_resolve_enabled_once_all_closed`, `C13_shutdown_completes`.

WHAT IS TAKEN FROM HYPER ON TRUST, and what merely follows from it: clause (a), "every accepted
call runs to completion", is hyper's graceful-shutdown contract.  In the model it is the guard
`hyperConnDone` of the step `connBreak`; `C13_inflight_never_dropped` and
`C13_accepted_call_runs_to_completion` follow from that guard (plus tonic never dropping a
connection task or a stream itself, which IS checked: no tonic step touches `calls`), and
`C13_outcomes_truthful` holds by construction of `produce` / `deliver`.  The trusted part is one
named object, `HyperGracefulContract` (Lemmas/ShutdownContract): `C13_hyper_contract_of_model`,
`C13_safety_under_hyper_contract`, `C13_every_maximal_run_resolves_under_hyper_contract` state
that the theorems hold for a hyper satisfying it.  HOW MUCH FREEDOM THAT LEAVES (review round 3): the
whole contract pins three of hyper's five guards (`connDone`, `finalGoaway`, `deliver`) to exactly the
model's and lets the other two (`handshake`, `acceptStream`) only be restrictions of the model's, so it is
the NAMED STATEMENT of what is assumed of hyper rather than a generalisation; the safety half alone
(`HyperSafety`, one-directional) is genuinely more general — it covers every hyper whose behaviours are a
subset of the model's.  Whether the real hyper satisfies the contract is exercised by the correspondence
runs only.
-/
namespace C13
open Shutdown Spec.Shutdown

/-- (a, truth) In every reachable state every caller holds a prefix of the true outcome of its
call, and nothing at all of a call the server did not accept.
BY CONSTRUCTION of the model: `produce` appends the handler's next chunk of the plan, `deliver`
hands over the next written item — the model has no step that could corrupt or reorder an item.
That the real stack (tonic's encoder, hyper, h2) does not is what the correspondence runs check
(message contents, the response header and the status text are compared per call). -/
theorem C13_outcomes_truthful {g b a : Bool} {s : State} (h : Reachable g b a s) :
    truthful (callViews s) = true := by
  have hg := good_reachable h
  simp only [truthful, callViews, List.all_eq_true, List.mem_flatMap, List.mem_map,
    Bool.and_eq_true, Bool.or_eq_true, List.isEmpty_iff]
  rintro v ⟨cn, hcn, k, hk, rfl⟩
  exact callView_truthful ((hg.conns cn hcn).calls_ok k hk)

/-- (b) With the repaired (`biased;`) accept loop, a connection offered after the signal fired
is never accepted — in no reachable state, whatever the interleaving. -/
theorem C13_no_accept_after_signal {g a : Bool} {s : State} (h : Reachable g true a s) :
    noAcceptAfterSignal (connViews s) = true := by
  have hg := good_reachable h
  have hb := (reachable_cfg h).2.1
  simp only [noAcceptAfterSignal, connViews, List.all_eq_true, List.mem_map]
  rintro v ⟨cn, hcn, rfl⟩
  simp only [connView]
  cases ho : cn.offeredAfterSig with
  | false => simp
  | true => simp [(hg.conns cn hcn).late hb ho]

/-- (b) as enabledness: in every reachable state of the repaired server in which the signal has
fired, the accept step is disabled for every connection. -/
theorem C13_accept_disabled_after_signal {g a : Bool} {s : State} (h : Reachable g true a s)
    (hs : s.sigReady = true) (c : Nat) : step s (.loopAccept c) = none :=
  accept_disabled (good_reachable h) (Or.inl ⟨(reachable_cfg h).2.1, hs⟩) c

/-- (b) on traces: no execution of the repaired server contains an accept after the signal —
whatever happens before, between and after. -/
theorem C13_no_accept_after_signal_trace (g a t : Bool) (pre mid post : List Label) (c : Nat) :
    run (init g true a t) (pre ++ [.sigFire] ++ mid ++ [.loopAccept c] ++ post) = none := by
  cases hrun : run (init g true a t) (pre ++ [.sigFire] ++ mid ++ [.loopAccept c] ++ post) with
  | none => rfl
  | some sEnd =>
    exfalso
    simp only [List.append_assoc] at hrun
    rw [run_append] at hrun
    cases h1 : run (init g true a t) pre with
    | none => simp [h1] at hrun
    | some s1 =>
      simp only [h1, Option.bind_some] at hrun
      rw [run_append] at hrun
      cases h2 : run s1 [.sigFire] with
      | none => simp [h2] at hrun
      | some s2 =>
        simp only [h2, Option.bind_some] at hrun
        rw [run_append] at hrun
        cases h3 : run s2 mid with
        | none => simp [h3] at hrun
        | some s3 =>
          simp only [h3, Option.bind_some] at hrun
          have hr1 : Reachable g true a s1 := reachable_run (.init t) h1
          have hr2 : Reachable g true a s2 := reachable_run hr1 h2
          have hr3 : Reachable g true a s3 := reachable_run hr2 h3
          have hsig2 : s2.sigReady = true := by
            simp only [run, step] at h2
            split at h2
            · rename_i s2' hs2
              split at hs2
              · cases hs2; cases h2; rfl
              · cases hs2
            · cases h2
          have hsig3 := (run_mono h3).1 hsig2
          have hdis := C13_accept_disabled_after_signal hr3 hsig3 c
          rw [run_append] at hrun
          simp [run, hdis] at hrun

/-- What the code as found does guarantee: once the accept loop is over (it has SEEN the signal,
or incoming ended), nothing is accepted any more — also without `biased;`. -/
theorem C13_no_accept_once_loop_over {g b a : Bool} {s s' : State} {ls : List Label}
    (h : Reachable g b a s) (hloop : s.loopRunning = false) (hrun : run s ls = some s') (c : Nat) :
    step s' (.loopAccept c) = none :=
  accept_disabled (good_reachable (reachable_run h hrun)) (Or.inr ((run_mono hrun).2 hloop)) c

/-- (b) is FALSE of the accept loop as found (`select!` without `biased;`): the signal fires, a
connection is offered afterwards, and the loop — both branches ready — takes the connection. -/
theorem C13_no_accept_after_signal_fails :
    ∃ s, Reachable true false false s ∧ noAcceptAfterSignal (connViews s) = false := by
  refine ⟨_, .step (.loopAccept 0) (.step .offer (.step .sigFire (.init false) rfl) rfl) rfl, ?_⟩
  decide

/-- (b) for a BURST — several connections ready on `incoming` at the same instant, and the signal
becoming ready between two of them (on a single-threaded runtime: the accept itself fires it - an
`incoming` that serves `j` connections and then stops the server).  From ANY reachable state of the
repaired server, for EVERY burst size `n` and EVERY position `j` of the signal inside the burst
(`burstLabels`: `n` offers, the accept loop handed the first `j`, then `sigFire`), whatever happens
afterwards (`rest`: any labels, any length): every connection of the burst that was still queued
when the signal became ready — `j`, …, `n - 1` — is still unaccepted.  The loop looks at the signal
again before EVERY connection, however many are ready: there is no "rest of the backlog". -/
theorem C13_burst_not_accepted_past_signal {g a : Bool} {s0 s2 : State}
    (h0 : Reachable g true a s0) (n j : Nat) (rest : List Label)
    (hrun : run s0 (burstLabels s0.conns.length n j ++ rest) = some s2)
    (i : Nat) (hji : j ≤ i) (hin : i < n) :
    ∃ cn, s2.conns[s0.conns.length + i]? = some cn ∧ cn.accepted = false :=
  burst_rest_unaccepted h0 n j rest hrun i hji hin

/-- The same on traces, as a corollary of `C13_no_accept_after_signal_trace`: no execution of the
repaired server contains a burst with the signal at position `j` and, anywhere later, an accept —
of a connection of the burst or of any other. -/
theorem C13_burst_no_accept_after_signal_trace (g a t : Bool) (pre mid post : List Label)
    (base n j c : Nat) :
    run (init g true a t) (pre ++ burstLabels base n j ++ mid ++ [.loopAccept c] ++ post) = none := by
  have := C13_no_accept_after_signal_trace g a t (pre ++ burstOffers n ++ burstAccepts base j) mid post c
  simpa [burstLabels, List.append_assoc] using this

/-- The burst statement is FALSE of a loop that takes the whole backlog in one go (the counter-model
`stepDrain`: after handing a connection to its task the loop polls `incoming` again on the spot and
only goes back to `select!` — where the signal is looked at — when nothing is ready): two
connections offered at once, the first taken, the signal fires, and the second — queued when the
signal became ready — is accepted all the same. -/
theorem C13_burst_not_accepted_past_signal_fails_for_a_draining_loop :
    ∃ d, runDrain { st := init true true false, inDrain := false }
            (burstLabels 0 2 1 ++ [.loopAccept 1]) = some d
      ∧ d.st.sigReady = true ∧ (d.st.conns[1]?).map (·.accepted) = some true := by
  refine ⟨_, rfl, ?_, ?_⟩ <;> decide

/-- … and that is the ONLY difference: outside its inner loop (`inDrain = false`: the loop is at
`select!`) the counter-model takes exactly the steps of the model. -/
theorem C13_draining_loop_differs_only_inside_a_burst (d : DrainState) (l : Label)
    (h : d.inDrain = false) : (stepDrain d l).map (·.st) = step d.st l := by
  cases l <;> simp [stepDrain, h, Option.map_map, Function.comp_def]

-- the hypotheses of the burst theorem are satisfiable by non-trivial runs: a burst of 3 with the
-- signal behind the 2nd, on a server that already has a connection, followed by the loop's exit
example : (run (init true true false) ([.offer, .loopAccept 0] ++ burstLabels 1 3 2
    ++ [.loopSig, .afterLoop, .connSig 0])).isSome = true := by decide
-- … and the model itself refuses the step the draining loop takes
example : run (init true true false) (burstLabels 0 2 1 ++ [.loopAccept 1]) = none := by decide

/-- (c) + (a) Whenever the serve future has resolved, every accepted connection has been closed
and every accepted call whose caller did not itself give up has delivered its complete, true
outcome; and no accepted connection was open at the instant of resolution. -/
theorem C13_resolve_only_when_all_closed {b a : Bool} {s : State} (h : Reachable true b a s) :
    resolvedOnlyAfterClose s.resolved (connViews s) (callViews s) = true
    ∧ (s.resolved = true → s.openAtResolve = 0) := by
  have hg := good_reachable h
  have hgr := (reachable_cfg h).1
  refine ⟨?_, fun hr => hg.open_zero hr hgr⟩
  cases hr : s.resolved with
  | false => simp [resolvedOnlyAfterClose]
  | true =>
    simp only [resolvedOnlyAfterClose, Bool.not_true, Bool.false_or, Bool.and_eq_true]
    constructor
    · simp only [allClosed, connViews, List.all_eq_true, List.mem_map, Bool.or_eq_true,
        Bool.not_eq_true']
      rintro v ⟨cn, hcn, rfl⟩
      simp only [connView]
      cases ha : cn.accepted with
      | false => exact Or.inl rfl
      | true => exact Or.inr ((hg.conns cn hcn).resolved_closed hr hgr ha)
    · simp only [acceptedCallsComplete, callViews, List.all_eq_true, List.mem_flatMap,
        List.mem_map, Bool.or_eq_true, Bool.not_eq_true', beq_iff_eq]
      rintro v ⟨cn, hcn, k, hk, rfl⟩
      have hc := hg.conns cn hcn
      cases hst : k.started with
      | false => exact Or.inl (Or.inl (by simp [callView, hst]))
      | true =>
        cases hab : (k.cancelled || cn.peerGone) with
        | true => exact Or.inl (Or.inr (by simp [callView, hab]))
        | false =>
          simp only [Bool.or_eq_false_iff] at hab
          right
          have hcl := hc.resolved_closed hr hgr (hc.hs_acc (hc.started_hs k hk hst))
          exact callView_complete (hc.calls_ok k hk) (hc.closed_calls hcl hab.2 k hk hst hab.1)

/-- The watch channel's receiver count is what the anchors say: the serve future's own receiver
(until the accept loop is over) plus one per connection task that has not finished — every open
accepted connection is counted, nothing but accepted connections is counted, and a count of zero
means every accepted connection is closed. -/
theorem C13_receiver_count_is_open_connections {b a : Bool} {s : State}
    (h : Reachable true b a s) :
    receiverCount s = (if s.afterDone then 0 else 1) + s.conns.countP (·.watcher)
    ∧ openCount s ≤ s.conns.countP (·.watcher)
    ∧ (∀ cn ∈ s.conns, cn.watcher = true → cn.accepted = true)
    ∧ (receiverCount s = 0 → allClosed (connViews s) = true) := by
  have hg := good_reachable h
  have hgr := (reachable_cfg h).1
  refine ⟨?_, ?_, ?_, ?_⟩
  · unfold receiverCount
    rw [hg.mainRx_eq]
    cases s.afterDone <;> simp
  · unfold openCount
    apply List.countP_mono_left
    intro cn hcn ho
    simp only [Conn.isOpen, Bool.and_eq_true, Bool.not_eq_true'] at ho
    exact (hg.conns cn hcn).open_watched ho.1 ho.2 hgr
  · intro cn hcn hw
    exact ((hg.conns cn hcn).watcher_acc hw).1
  · intro h0
    have := hg.all_closed_of_no_receivers hgr h0
    simp only [allClosed, connViews, List.all_eq_true, List.mem_map, Bool.or_eq_true,
      Bool.not_eq_true']
    rintro v ⟨cn, hcn, rfl⟩
    simp only [connView]
    cases ha : cn.accepted with
    | false => exact Or.inl rfl
    | true => exact Or.inr (this cn hcn ha)

/-- "resolve enabled iff the accept loop has ended and the receiver count is 0": the exact
enabling condition of the `resolve` step. (Transcription lemma: it holds by unfolding the model's definition, so it pins the model's shape for the correspondence run — its assurance about tonic is the tie, not this proof.) -/
theorem C13_resolve_enabled_iff (s : State) :
    (step s .resolve).isSome = true ↔
      s.afterDone = true ∧ s.resolved = false ∧ (s.cfgGraceful = true → receiverCount s = 0) := by
  simp only [step]
  split
  · rename_i hc
    simp only [Bool.and_eq_true, Bool.not_eq_true', Bool.or_eq_true, beq_iff_eq] at hc
    simp only [Option.isSome_some, true_iff]
    refine ⟨hc.1.1, hc.1.2, fun hgr => ?_⟩
    rcases hc.2 with hx | hx
    · simp [hgr] at hx
    · exact hx
  · rename_i hc
    simp only [Bool.and_eq_true, Bool.not_eq_true', Bool.or_eq_true, beq_iff_eq, not_and,
      not_or] at hc
    simp only [Option.isSome_none, Bool.false_eq_true, false_iff, not_and]
    intro h1 h2 h3
    have := hc ⟨h1, h2⟩
    cases hgr : s.cfgGraceful with
    | false => simp [hgr] at this
    | true => exact this.2 (h3 hgr)

/-- (a, step by step) FOLLOWS FROM hyper's contract (the guard `hyperConnDone` of `connBreak`)
together with facts about tonic that are checked here: none of tonic's own steps (accept loop,
`send`, `graceful_shutdown()` calls, dropping the watcher, resolving) removes a call or closes a
connection — only `connBreak` closes, and only under hyper's guard; and the one tonic step that
does end a call, the request timeout (`expire`), is enabled only before the call's response head.
An accepted call is never dropped by the server: for every reachable state — with or without
`Server::timeout`, `max_connection_age` configured —
and EVERY step out of it — the signal, the accept loop ending, `send`, a connection task seeing the
signal or its age limit, graceful shutdown, the final GOAWAY, other connections closing, the serve
future resolving, any timer elapsing or firing, … — other than the caller's own `cancel` of this
call or `peerDrop` of its connection: the call is still there and still accepted, its handler's
outcome is unchanged, what was written to it is only extended, what the caller received has only
grown; it is cut by the request timeout in the new state only if it already was or this very step
is its `expire` and it had not reached its response head; and if its connection is closed in the
new state, the caller holds the complete true outcome (the handler's, if the call was not cut). -/
theorem C13_inflight_never_dropped {g b a : Bool} {s s' : State} {l : Label} {c j : Nat}
    {cn : Conn} {k : Call} (h : Reachable g b a s) (hs : step s l = some s')
    (hc : s.conns[c]? = some cn) (hk : cn.calls[j]? = some k)
    (hst : k.started = true) (hcan : k.cancelled = false) (hpg : cn.peerGone = false)
    (hl1 : l ≠ .cancel c j) (hl2 : l ≠ .peerDrop c) :
    ∃ cn' k', s'.conns[c]? = some cn' ∧ cn'.calls[j]? = some k'
      ∧ k'.started = true ∧ k'.cancelled = false ∧ cn'.peerGone = false
      ∧ k'.plan = k.plan ∧ (∃ more, k'.sent = k.sent ++ more) ∧ k.recv ≤ k'.recv
      ∧ (k'.expired = true → k.expired = true ∨ (l = .expire c j ∧ k.headDone = false))
      ∧ (cn'.closed = true → (callView cn' k').got = outcome (callView cn' k'))
      ∧ (cn'.closed = true → k'.expired = false → (callView cn' k').got = k.plan.map toOut) := by
  obtain ⟨cn', k', h1, h2, h3, h4, h5, h6, h7, h8, _, h10⟩ :=
    step_keeps_call hs hc hk hcan hpg hl1 hl2
  have hg' := good_step (good_reachable h) hs
  have hcm := mem_of_getElem? h1
  have hkm := mem_of_getElem? h2
  have hk' := hg'.conns cn' hcm
  refine ⟨cn', k', h1, h2, h5 hst, h3, h4, h6, h7, h8, fun he => ?_, fun hcl => ?_, fun hcl he => ?_⟩
  · cases hke : k.expired with
    | true => exact Or.inl rfl
    | false =>
      right
      refine ⟨?_, by rcases h10 he with hx | hx; · simp [hke] at hx
                     · exact hx⟩
      -- only `expire c j` sets the flag of this call
      by_cases hl3 : l = .expire c j
      · exact hl3
      · exfalso
        obtain ⟨cn2, k2, a1, a2, a3⟩ := step_expired_eq hs hc hk hl3
        rw [h1] at a1; cases a1
        rw [h2] at a2; cases a2
        rw [a3, hke] at he; cases he
  · exact callView_complete (hk'.calls_ok k' hkm) (hk'.closed_calls hcl h4 k' hkm (h5 hst) h3)
  · rw [callView_complete_plan (hk'.calls_ok k' hkm)
      (hk'.closed_calls hcl h4 k' hkm (h5 hst) h3) he, h6]

/-- Transcription lemma (definitional): this is the guard of `step _ (.expire c j)` unfolded — the
"exact enabling condition" is the one written into the model, so the theorem restates a definition
and carries no assurance of its own (twin of `C13_resolve_enabled_iff`).  What rests on it are the
trace-level theorems of this section (`C13_timeout_never_cuts_a_streaming_body`, …); that the real
`GrpcTimeout` stops at the response head is established by the correspondence run (scripts with the
`t<secs>` option = `Server::timeout`: streaming bodies that outlive the timeout, calls cut before their head).
THE REQUEST TIMEOUT FIRES ONLY BEFORE THE RESPONSE HEAD (tonic's own logic: `GrpcTimeout` wraps
the handler's response future, not the response body).  The exact enabling condition of `expire`:
a timeout is configured, the call's handler was invoked and its sleep has elapsed, the handler has
not returned its response yet, the caller is still there, the call was not cut before.  In
particular: never without `Server::timeout`, never for a call past its response head. -/
theorem C13_timeout_fires_only_before_head (s : State) (c j : Nat) :
    (step s (.expire c j)).isSome = true ↔
      s.cfgTimeout = true ∧ ∃ cn k, s.conns[c]? = some cn ∧ cn.calls[j]? = some k
        ∧ cn.closed = false ∧ k.started = true ∧ k.cancelled = false ∧ k.headersDeadline = true
        ∧ k.headDone = false ∧ k.expired = false := by
  simp only [step]
  constructor
  · intro h
    split at h
    · rename_i ht
      obtain ⟨s', hs'⟩ := Option.isSome_iff_exists.1 h
      obtain ⟨cn, k, hc, hk, hgd, _⟩ := updCall_some hs'
      simp only [Bool.and_eq_true, Bool.not_eq_true'] at hgd
      exact ⟨ht, cn, k, hc, hk, hgd.1.1.1.1.1, hgd.1.1.1.1.2, hgd.1.1.1.2, hgd.1.1.2, hgd.1.2, hgd.2⟩
    · cases h
  · rintro ⟨ht, cn, k, hc, hk, h1, h2, h3, h4, h5, h6⟩
    simp only [ht, if_true]
    exact updCall_isSome hc hk (by simp [h1, h2, h3, h4, h5, h6])

/-- A CALL PAST ITS RESPONSE HEAD IS ENDED ONLY BY ITS HANDLER OR BY ITS CALLER — whatever timers
are configured (`Server::timeout`, `max_connection_age`) and whenever they elapse or fire.
Take any reachable state (any configuration), an accepted call in it whose handler has returned
its response (`headDone`: the response head is out, the body may be streaming) and whose caller is
still there, and ANY run from there — the server's own steps in any order, the shutdown signal,
deadline and age ticks, `expire` attempts, other peers coming and going — in which this caller does
not cancel the call or leave.  Then at the end the call is still there, not cancelled, NOT cut by
the timeout; everything written to it is the handler's (written ++ still to come = the handler's
outcome), what the caller holds has only grown, and if its connection has been closed the caller
holds the handler's complete outcome.
This is what a "drain timeout" taken from `Server::timeout` in `serve_connection` would violate:
the model has no step that closes a connection under an unsettled call (`connBreak` is guarded by
hyper's contract), and the only tonic step that ends a call is `expire`. -/
theorem C13_timeout_never_cuts_a_streaming_body {g b a : Bool} {s s' : State} {ls : List Label}
    {c j : Nat} {cn : Conn} {k : Call} (h : Reachable g b a s) (hrun : run s ls = some s')
    (hc : s.conns[c]? = some cn) (hk : cn.calls[j]? = some k)
    (hst : k.started = true) (hhead : k.headDone = true)
    (hcan : k.cancelled = false) (hpg : cn.peerGone = false)
    (hall : ∀ l ∈ ls, l ≠ .cancel c j ∧ l ≠ .peerDrop c) :
    ∃ cn' k', s'.conns[c]? = some cn' ∧ cn'.calls[j]? = some k'
      ∧ k'.started = true ∧ k'.cancelled = false ∧ cn'.peerGone = false
      ∧ k'.expired = false ∧ k'.headDone = true
      ∧ k'.plan = k.plan ∧ (∃ more, k'.sent = k.sent ++ more)
      ∧ k'.sent ++ k'.todo.flatten = k.plan ∧ k.recv ≤ k'.recv
      ∧ (callView cn' k').timedOut = false
      ∧ (cn'.closed = true → (callView cn' k').got = k.plan.map toOut) := by
  have hg := good_reachable h
  have hko := (hg.conns cn (mem_of_getElem? hc)).calls_ok k (mem_of_getElem? hk)
  have hne : k.expired = false := by
    cases he : k.expired with
    | false => rfl
    | true => rw [hko.expired_nohead he] at hhead; cases hhead
  obtain ⟨cn', k', h1, h2, h3, h4, h5, h6, h7, h8, h9, h10⟩ :=
    run_keeps_call_of hall hrun (KeptIn.self hc hk hcan hpg)
  have hg' := good_run hg hrun
  have hk' := hg'.conns cn' (mem_of_getElem? h1)
  have hkm := mem_of_getElem? h2
  have hko' := hk'.calls_ok k' hkm
  have hne' : k'.expired = false := by
    cases he : k'.expired with
    | false => rfl
    | true =>
      rcases h10 he with hx | hx
      · rw [hne] at hx; cases hx
      · rw [hhead] at hx; cases hx
  refine ⟨cn', k', h1, h2, h5 hst, h3, h4, hne', h9 hhead, h6, h7, ?_, h8, hne', fun hcl => ?_⟩
  · rw [hko'.plan_eq hne', h6]
  · rw [callView_complete_plan hko' (hk'.closed_calls hcl h4 k' hkm (h5 hst) h3) hne', h6]

/-- The server's own steps (tonic's tasks, hyper, handlers) cannot go on for ever: any run made
of internal steps only is at most `weight s` long — from ANY state, for any interleaving. -/
theorem C13_internal_steps_terminate {s s' : State} {ls : List Label}
    (hall : ∀ l ∈ ls, l.internal = true) (h : run s ls = some s') :
    ls.length + weight s' ≤ weight s :=
  internal_run_bounded hall h

/-- (d, no stuck state) In every reachable state in which shutdown has been requested (signal
fired, or incoming ended, or the loop is over), no handler is waiting for an outside release or
for the rest of its caller's request, and the future has not resolved yet, the server can take a
step of its own.  (`Unblocked` is a property of one state; `Closeable`, which internal steps
preserve, is what `C13_every_maximal_run_resolves` uses.) -/
theorem C13_not_stuck_before_resolved {b a : Bool} {s : State} (h : Reachable true b a s)
    (hreq : ShutdownRequested s) (hub : Unblocked s) (hres : s.resolved = false) :
    ∃ l, l.internal = true ∧ (step s l).isSome = true :=
  progress (good_reachable h) (reachable_cfg h).1 hreq hub hres

/-- (d) "and does resolve once they have": from every reachable state in which the accept loop is
over and every accepted connection is closed, the serve future resolves within `weight s` steps
of its own — nothing else has to happen. -/
theorem C13_resolve_enabled_once_all_closed {b a : Bool} {s : State} (h : Reachable true b a s)
    (hloop : s.loopRunning = false) (hclosed : allClosed (connViews s) = true) :
    ∃ ls s', (∀ l ∈ ls, l.internal = true ∧ l.drains = true) ∧ run s ls = some s'
      ∧ s'.resolved = true ∧ ls.length ≤ weight s := by
  have hac : AllClosed s := by
    intro cn hcn ha
    simp only [allClosed, connViews, List.all_eq_true, List.mem_map, Bool.or_eq_true,
      Bool.not_eq_true'] at hclosed
    rcases hclosed (connView cn) ⟨cn, hcn, rfl⟩ with hx | hx
    · simp [connView, ha] at hx
    · exact hx
  refine drain (fun s => s.cfgGraceful = true ∧ s.loopRunning = false ∧ AllClosed s) ?_ ?_
    (weight s) s (Nat.le_refl _) (good_reachable h) ⟨(reachable_cfg h).1, hloop, hac⟩
  · intro s l s' _ hp hi hs
    exact ⟨(step_cfg hs).1.trans hp.1, (step_mono hs).2.2.1 hp.2.1, allClosed_step hp.2.1 hp.2.2 hi hs⟩
  · intro s hg hp hr
    exact progress_drains hg hp.1 (Or.inr (Or.inr hp.2.1)) (unblocked_of_allClosed hg hp.2.2) hr

/-- (a)+(d) liveness of the whole shutdown (existential form; `C13_every_maximal_run_resolves` is
the universal one): from every reachable state in which shutdown has been
requested, handlers are left to run and every remaining caller has completed its request
(`RequestsDone`; trivially true of unary and server-streaming calls), the server reaches — by its own steps alone, in at most
`weight s` of them, without any client having to go away and without the request timeout cutting
anything (`drains` steps only) — a state where the serve future has
resolved; by `C13_resolve_only_when_all_closed` every accepted call is complete there. -/
theorem C13_shutdown_completes {b a : Bool} {s : State} (h : Reachable true b a s)
    (hreq : ShutdownRequested s) (hfree : s.freeRun = true) (hdone : RequestsDone s) :
    ∃ ls s', (∀ l ∈ ls, l.internal = true ∧ l.drains = true) ∧ run s ls = some s'
      ∧ s'.resolved = true ∧ ls.length ≤ weight s := by
  refine drain (fun s => s.cfgGraceful = true ∧ ShutdownRequested s ∧ s.freeRun = true
      ∧ RequestsDone s) ?_ ?_
    (weight s) s (Nat.le_refl _) (good_reachable h) ⟨(reachable_cfg h).1, hreq, hfree, hdone⟩
  · intro s l s' _ hp hi hs
    have hm := step_mono hs
    refine ⟨(step_cfg hs).1.trans hp.1, ?_, hm.2.2.2 hp.2.2.1, requestsDone_step hp.2.2.2 hi hs⟩
    rcases hp.2.1 with hx | hx | hx
    · exact Or.inl (hm.1 hx)
    · exact Or.inr (Or.inl (hm.2.1 hx))
    · exact Or.inr (Or.inr (hm.2.2.1 hx))
  · intro s hg hp hr
    exact progress_drains hg hp.1 hp.2.1
      (fun cn hcn _ k hk _ hcan _ =>
        ⟨Or.inr hp.2.2.1, reqReady_of_reqLeft (hp.2.2.2 cn hcn k hk hcan)⟩) hr

/-- (a) end to end, for one call.  FOLLOWS FROM hyper's contract (`hyperConnDone`: a connection
closes under a call only when the call is settled) and the progress result
`C13_shutdown_completes`, which is about tonic's bookkeeping; `RequestsDone` — every caller that
is still there has sent its complete request — is needed since client-streaming and bidi calls
exist in the model (a handler's last phase waits for the end of the request stream; a client that
never finishes its request keeps a graceful shutdown waiting for ever, in the real server too).
Take ANY reachable state in which shutdown has been requested —
so the signal may have fired before the call's response headers, mid-stream or as it completes —
and a call the server has accepted there whose caller is still present.  If handlers are left to
run, the server by its own steps reaches a state where the serve future has resolved and THIS call
(same slot, same true outcome — the handler's, unless the request timeout had already cut the call
before) has been received by its caller completely. -/
theorem C13_accepted_call_runs_to_completion {b a : Bool} {s : State} {c j : Nat} {cn : Conn}
    {k : Call} (h : Reachable true b a s) (hreq : ShutdownRequested s) (hfree : s.freeRun = true)
    (hdone : RequestsDone s)
    (hc : s.conns[c]? = some cn) (hk : cn.calls[j]? = some k)
    (hst : k.started = true) (hcan : k.cancelled = false) (hpg : cn.peerGone = false) :
    ∃ ls s' cn' k', (∀ l ∈ ls, l.internal = true) ∧ run s ls = some s' ∧ s'.resolved = true
      ∧ s'.conns[c]? = some cn' ∧ cn'.calls[j]? = some k' ∧ k'.plan = k.plan
      ∧ k'.expired = k.expired
      ∧ (callView cn' k').got = k.outcome.map toOut
      ∧ (k.expired = false → (callView cn' k').got = k.plan.map toOut) := by
  obtain ⟨ls, s', halld, hrun, hres, _⟩ := C13_shutdown_completes h hreq hfree hdone
  have hall : ∀ l ∈ ls, l.internal = true := fun l hl => (halld l hl).1
  obtain ⟨cn', k', h1, h2, h3, h4, h5, h6, _, _⟩ :=
    run_keeps_call hall hrun (KeptIn.self hc hk hcan hpg)
  obtain ⟨cn2, k2, e1, e2, hexp⟩ := run_keeps_unexpired halld hrun hc hk hcan hpg
  rw [h1] at e1; cases e1
  rw [h2] at e2; cases e2
  have hg' := good_run (good_reachable h) hrun
  have hgr : s'.cfgGraceful = true := (reachable_cfg (reachable_run h hrun)).1
  have hk' := hg'.conns cn' (mem_of_getElem? h1)
  have hkm := mem_of_getElem? h2
  have hcl := hk'.resolved_closed hres hgr (hk'.hs_acc (hk'.started_hs k' hkm (h5 hst)))
  have hcomp := hk'.closed_calls hcl h4 k' hkm (h5 hst) h3
  have hout : (callView cn' k').got = k.outcome.map toOut := by
    rw [callView_complete (hk'.calls_ok k' hkm) hcomp, outcome_callView]
    simp [Call.outcome, h6, hexp]
  refine ⟨ls, s', cn', k', hall, hrun, hres, h1, h2, h6, hexp, hout, fun he => ?_⟩
  rw [hout]
  simp [Call.outcome, he]

/-- TLS accept path (`ServerIoStream`): a failed handshake does not stop the accept loop — after
`tlsFail c` the loop is as it was, and every other connection that could be accepted (or handed to
the handshake set) before still can. -/
theorem C13_failed_handshake_keeps_accepting {s s' : State} {c c' : Nat}
    (h : step s (.tlsFail c) = some s') (hne : c' ≠ c) :
    s'.loopRunning = s.loopRunning ∧ incomingBranch s' = incomingBranch s
    ∧ ((step s (.loopAccept c')).isSome = true → (step s' (.loopAccept c')).isSome = true)
    ∧ ((step s (.tlsTake c')).isSome = true → (step s' (.tlsTake c')).isSome = true) := by
  simp only [step] at h
  obtain ⟨cn, hc, _, rfl⟩ := updConn_some h
  have hget : (s.conns.set c { cn with pending := false })[c']? = s.conns[c']? :=
    List.getElem?_set_ne (Ne.symm hne)
  have key : ∀ (s1 s2 : State) (g : Conn → Bool) (f1 f2 : Conn → Conn),
      s2.conns[c']? = s1.conns[c']? →
      (updConn s1 c' g f1).isSome = true → (updConn s2 c' g f2).isSome = true := by
    intro s1 s2 g f1 f2 he h1
    unfold updConn at h1 ⊢
    rw [he]
    cases hq : s1.conns[c']? with
    | none => simp [hq] at h1
    | some x =>
      simp only [hq] at h1 ⊢
      cases hgx : g x with
      | true => simp
      | false => simp [hgx] at h1
  refine ⟨rfl, rfl, ?_, ?_⟩
  · intro h1
    simp only [step] at h1 ⊢
    have hib : incomingBranch { s with conns := s.conns.set c { cn with pending := false } }
        = incomingBranch s := rfl
    rw [hib]
    cases hb : incomingBranch s with
    | false => simp [hb] at h1
    | true =>
      simp only [hb, if_true] at h1 ⊢
      exact key _ _ _ _ _ hget h1
  · intro h1
    simp only [step] at h1 ⊢
    have hib : incomingBranch { s with conns := s.conns.set c { cn with pending := false } }
        = incomingBranch s := rfl
    rw [hib]
    cases hb : incomingBranch s with
    | false => simp [hb] at h1
    | true =>
      simp only [hb, if_true] at h1 ⊢
      exact key _ _ _ _ _ hget h1

/-- TLS accept path: a connection whose handshake is still running (or has just finished) in the
`JoinSet` when the signal fires is never accepted by the repaired loop — whether it was offered
before or after the signal. -/
theorem C13_handshake_in_progress_at_signal_not_accepted {g a : Bool} {s s' : State}
    {ls : List Label} {c : Nat} (h : Reachable g true a s) (hs : s.sigReady = true)
    (hrun : run s ls = some s') :
    step s' (.loopAccept c) = none ∧ step s' (.tlsTake c) = none := by
  have hr' := reachable_run h hrun
  have hsig := (run_mono hrun).1 hs
  refine ⟨C13_accept_disabled_after_signal hr' hsig c, ?_⟩
  have hg := good_reachable hr'
  have hb := (reachable_cfg hr').2.1
  simp only [step]
  cases hrn : s'.loopRunning with
  | false => simp [incomingBranch, hrn]
  | true =>
    have := hg.running_not_taken hrn
    simp [incomingBranch, sigBranchReady, hrn, hb, hsig, this]

/-- **A resolved serve future holds no connection it never accepted.**  In every reachable state in which the
serve future has resolved, no connection is still `pending` — offered on `incoming` and not (yet) handed to the
accept loop: queued on the stream, or inside `ServerIoStream`'s `JoinSet` with its TLS handshake running or just
finished.  Returning drops `incoming` with everything queued on it and aborts the handshake tasks; and nothing
offered afterwards is taken.  ("Resolves only after all connections have closed" for the connections that are
not accepted ones; the accepted ones are `C13_resolve_only_when_all_closed`.  The harness observes it as `held`,
clause `no-connection-held-after-resolve`; seed C13g: handshake tasks that outlive the serve future.) -/
theorem C13_resolved_holds_no_unaccepted_connection {g b a : Bool} {s : State}
    (h : Reachable g b a s) (hres : s.resolved = true) :
    ∀ cn ∈ s.conns, cn.pending = false :=
  fun cn hcn => ((good_reachable h).conns cn hcn).resolved_npending hres

/-- (d, universal form) EVERY maximal run of the server's own steps resolves: take any reachable
state in which shutdown has been requested and all connections are closeable (every call its
caller still wants has its complete request and all the releases its handler needs, or handlers
run freely).  Whatever internal steps the server's tasks take from there, in whatever order —
if the run cannot be extended (no internal step is enabled at its end), the serve future has
resolved there, after at most `weight s` steps.  (Termination measure `weight` + the progress
lemma: a non-resolved draining state always has an enabled internal step.) -/
theorem C13_every_maximal_run_resolves {b a : Bool} {s s' : State} {ls : List Label}
    (h : Reachable true b a s) (hreq : ShutdownRequested s) (hcl : Closeable s)
    (hall : ∀ l ∈ ls, l.internal = true) (hrun : run s ls = some s')
    (hmax : ∀ l, l.internal = true → step s' l = none) :
    s'.resolved = true ∧ ls.length ≤ weight s := by
  have hd : Draining s := ⟨good_reachable h, (reachable_cfg h).1, hreq, hcl⟩
  have hd' := draining_run hd hall hrun
  refine ⟨?_, by have := internal_run_bounded hall hrun; omega⟩
  cases hres : s'.resolved with
  | true => rfl
  | false =>
    obtain ⟨l, hi, _, hs⟩ := draining_progress hd' hres
    rw [hmax l hi] at hs
    cases hs

/-- … and maximal runs exist: from ANY state, any run of internal steps can be continued to one
that cannot be extended (there is no infinite run of internal steps). -/
theorem C13_maximal_run_exists (s : State) :
    ∃ ls s', (∀ l ∈ ls, l.internal = true) ∧ run s ls = some s'
      ∧ (∀ l, l.internal = true → step s' l = none) := by
  suffices hgen : ∀ (n : Nat) (s : State), weight s ≤ n →
      ∃ ls s', (∀ l ∈ ls, l.internal = true) ∧ run s ls = some s'
        ∧ (∀ l, l.internal = true → step s' l = none) from hgen (weight s) s (Nat.le_refl _)
  intro n
  induction n with
  | zero =>
    intro s hw
    refine ⟨[], s, by simp, rfl, fun l hi => ?_⟩
    cases hs : step s l with
    | none => rfl
    | some s1 => have := internal_step_decreases hi hs; omega
  | succ n ih =>
    intro s hw
    by_cases hex : ∃ l s1, l.internal = true ∧ step s l = some s1
    · obtain ⟨l, s1, hi, hs1⟩ := hex
      have hlt := internal_step_decreases hi hs1
      obtain ⟨ls, s', hall, hrun, hmax⟩ := ih s1 (by omega)
      refine ⟨l :: ls, s', ?_, by simp only [run, hs1]; exact hrun, hmax⟩
      intro x hx
      rcases List.mem_cons.1 hx with rfl | hx
      · exact hi
      · exact hall x hx
    · refine ⟨[], s, by simp, rfl, fun l hi => ?_⟩
      cases hs : step s l with
      | none => rfl
      | some s1 => exact absurd ⟨l, s1, hi, hs⟩ hex

/-- The trusted object is inhabited by the model's own guards, and the model IS the transition
system over them: `step = stepH hyperModel`, `hyperModel` satisfies `HyperGracefulContract`.  So
every theorem above is the instance `H := hyperModel` of a statement about an arbitrary hyper. -/
theorem C13_hyper_contract_of_model :
    HyperGracefulContract hyperModel ∧ ∀ s l, stepH hyperModel s l = step s l :=
  ⟨hyperModel_contract, stepH_hyperModel⟩

/-- SAFETY for any hyper that satisfies the safety half of the contract (every hyper whose behaviours
are among the model's): every state the server
can reach over such a hyper is a reachable state of the model, hence the clauses (a truth),
(b), (c) hold in it. -/
theorem C13_safety_under_hyper_contract {H : Hyper} (hc : HyperSafety H) {b a : Bool} {s : State}
    (h : ReachableH H true b a s) :
    Reachable true b a s
    ∧ truthful (callViews s) = true
    ∧ resolvedOnlyAfterClose s.resolved (connViews s) (callViews s) = true
    ∧ (b = true → noAcceptAfterSignal (connViews s) = true) := by
  have hr := reachableH_sub hc h
  refine ⟨hr, C13_outcomes_truthful hr, (C13_resolve_only_when_all_closed hr).1, fun hb => ?_⟩
  subst hb
  exact C13_no_accept_after_signal hr

/-- LIVENESS for a hyper that satisfies the whole contract (which leaves only `handshake` and
`acceptStream` free to be more restrictive than the model's — see the header): every maximal run of the server's
own steps OVER THAT HYPER, from a reachable state in which shutdown has been requested and all
connections are closeable, ends with the serve future resolved (and is at most `weight s` long). -/
theorem C13_every_maximal_run_resolves_under_hyper_contract {H : Hyper}
    (hc : HyperGracefulContract H) {b a : Bool} {s s' : State} {ls : List Label}
    (h : ReachableH H true b a s) (hreq : ShutdownRequested s) (hcl : Closeable s)
    (hall : ∀ l ∈ ls, l.internal = true) (hrun : runH H s ls = some s')
    (hmax : ∀ l, l.internal = true → stepH H s' l = none) :
    s'.resolved = true ∧ ls.length ≤ weight s := by
  have hr := reachableH_sub hc.toHyperSafety h
  have hrun' := runH_sub hc.toHyperSafety hrun
  have hd : Draining s := ⟨good_reachable hr, (reachable_cfg hr).1, hreq, hcl⟩
  have hd' := draining_run hd hall hrun'
  refine ⟨?_, by have := internal_run_bounded hall hrun'; omega⟩
  cases hres : s'.resolved with
  | true => rfl
  | false =>
    obtain ⟨l, hi, hdr, hs⟩ := draining_progress hd' hres
    have := stepH_of_step_drains hc.toHyperLiveness hdr hs
    rw [hmax l hi] at this
    cases this

-- hypotheses are satisfiable: a reachable, resolved state with an accepted connection and a
-- completed call (signal placed while the call is in flight)
example : ∃ s, Reachable true true false s ∧ s.resolved = true
    ∧ (connViews s).any (·.accepted) = true ∧ (callViews s).any (·.started) = true := by
  let ls : List Label :=
    [.offer, .loopAccept 0, .hsDone 0, .issue 0 [[.hdr, .msg 0, .status 0]] 0, .callStart 0 0,
     .sigFire, .loopSig, .afterLoop, .connSig 0, .final 0, .permit 0 0, .produce 0 0,
     .deliver 0 0, .deliver 0 0, .deliver 0 0, .connBreak 0, .connDropWatcher 0, .resolve]
  cases hrun : run (init true true false) ls with
  | none => exact absurd hrun (by decide)
  | some s =>
    refine ⟨s, reachable_run (.init false) hrun, ?_⟩
    have : (run (init true true false) ls).map
        (fun s => (s.resolved, (connViews s).any (·.accepted), (callViews s).any (·.started)))
        = some (true, true, true) := by decide
    rw [hrun] at this
    simp only [Option.map_some, Option.some.injEq, Prod.mk.injEq] at this
    exact this

-- the hypotheses of the liveness theorems are satisfiable by a non-trivial reachable state: the
-- signal fired with a streaming call in flight whose handler has one released phase
example : ∃ s, Reachable true true false s ∧ ShutdownRequested s ∧ Unblocked s
    ∧ s.resolved = false ∧ (callViews s).any (fun v => v.started && v.got != v.plan) = true := by
  refine ⟨_, reachable_run (ls := [.offer, .loopAccept 0, .hsDone 0,
      .issue 0 [[.hdr], [.msg 0], [.status 0]] 0, .callStart 0 0, .permit 0 0, .sigFire]) (.init false) rfl,
    ?_, ?_, ?_, ?_⟩
  · exact Or.inl rfl
  · exact unblocked_of_bool (by decide)
  · rfl
  · decide

-- … and those of `C13_resolve_enabled_once_all_closed`: loop over, one accepted connection, closed,
-- its task not yet finished (it still holds its watcher), future not yet resolved
example : ∃ s, Reachable true true false s ∧ s.loopRunning = false
    ∧ allClosed (connViews s) = true ∧ (connViews s).any (·.accepted) = true
    ∧ s.resolved = false ∧ receiverCount s = 1 := by
  refine ⟨_, reachable_run (ls := [.offer, .loopAccept 0, .hsDone 0, .sigFire, .loopSig,
      .afterLoop, .connSig 0, .final 0, .connBreak 0]) (.init false) rfl, ?_, ?_, ?_, ?_, ?_⟩ <;> decide

-- … and those of `C13_inflight_never_dropped`: the step is the connection task seeing the signal
example : ∃ s s' cn k, Reachable true true false s ∧ step s (.connSig 0) = some s'
    ∧ s.conns[0]? = some cn ∧ cn.calls[0]? = some k ∧ k.started = true ∧ k.cancelled = false
    ∧ cn.peerGone = false := by
  refine ⟨_, _, _, _, reachable_run (ls := [.offer, .loopAccept 0, .hsDone 0,
      .issue 0 [[.hdr], [.status 0]] 0, .callStart 0 0, .sigFire, .loopSig, .afterLoop]) (.init false) rfl,
    rfl, rfl, rfl, rfl, rfl, rfl⟩

-- … and those of `C13_accepted_call_runs_to_completion`: the signal fires mid-stream (headers and
-- one message delivered, more to come), handlers then run freely
example : ∃ s cn k, Reachable true true false s ∧ ShutdownRequested s ∧ s.freeRun = true
    ∧ RequestsDone s
    ∧ s.conns[0]? = some cn ∧ cn.calls[0]? = some k ∧ k.started = true ∧ k.cancelled = false
    ∧ cn.peerGone = false ∧ k.recv = 2 ∧ k.todo.length = 2 := by
  refine ⟨_, _, _, reachable_run (ls := [.offer, .loopAccept 0, .hsDone 0,
      .issue 0 [[.hdr], [.msg 0], [.msg 1], [.status 0]] 0, .callStart 0 0, .permit 0 0,
      .produce 0 0, .deliver 0 0, .permit 0 0, .produce 0 0, .deliver 0 0, .sigFire, .freeRun])
      (.init false) rfl, Or.inl rfl, rfl, requestsDone_of_bool (by decide), rfl, rfl, rfl, rfl, rfl, rfl,
      rfl⟩

-- the hypotheses of `C13_every_maximal_run_resolves` are satisfiable by a non-trivial state: one
-- connection accepted through the TLS handshake set carrying a client-streaming call whose
-- request is complete (2 of 2 messages sent) and a bidi call that is mid-stream, both released;
-- a second TLS connection whose client has not spoken yet; then the signal
example : ∃ s, Reachable true true false s ∧ ShutdownRequested s ∧ Closeable s
    ∧ s.resolved = false ∧ (callViews s).any (fun v => v.started && v.got != v.plan) = true
    ∧ s.conns.any (fun cn => cn.tls && cn.accepted) = true
    ∧ s.conns.any (fun cn => cn.inSet && !cn.tlsOk) = true := by
  refine ⟨_, reachable_run (ls := [.offerTls true false, .tlsTake 0, .tlsDone 0, .loopAccept 0,
      .hsDone 0, .offerTls false false, .tlsTake 1,
      .issue 0 [[.hdr, .msg 0, .status 0]] 2, .callStart 0 0, .reqSend 0 0, .reqSend 0 0,
      .issue 0 [[.hdr], [.msg 0], [.status 5]] 1, .callStart 0 1, .reqSend 0 1,
      .permit 0 0, .permit 0 1, .permit 0 1, .permit 0 1, .produce 0 1, .deliver 0 1,
      .sigFire]) (.init false) rfl, Or.inl rfl, closeable_of_bool (by decide), ?_, ?_, ?_, ?_⟩
    <;> decide

-- … and the conclusion is not vacuous either: a run of internal steps from such a state that ends
-- resolved (every call complete), spelled out
example :
    let s0 := run (init true true false) [.offer, .loopAccept 0, .hsDone 0,
      .issue 0 [[.hdr, .msg 0, .status 0]] 1, .callStart 0 0, .reqSend 0 0, .permit 0 0, .sigFire]
    let ls : List Label := [.loopSig, .afterLoop, .connSig 0, .final 0, .produce 0 0, .deliver 0 0,
      .deliver 0 0, .deliver 0 0, .connBreak 0, .connDropWatcher 0, .resolve]
    (s0.map closeableB) = some true ∧ ls.all Label.internal = true
    ∧ ((s0.bind (run · ls)).map fun s => (s.resolved, acceptedCallsComplete (callViews s)))
        = some (true, true) := by
  decide

-- the hypotheses of `C13_timeout_never_cuts_a_streaming_body` are satisfiable by the situation the
-- theorem is about: `Server::timeout` and `max_connection_age` configured, a server-streaming call
-- whose response head and first message are out, its `GrpcTimeout` sleep long elapsed; the run that
-- follows has the signal, the connection task's graceful shutdown, more clock ticks and the rest of
-- the stream.  `expire` is not enabled for that call at any point (first conjunct: at the start).
example : ∃ s cn k ls s', Reachable true true true s ∧ s.cfgTimeout = true
    ∧ s.conns[0]? = some cn ∧ cn.calls[0]? = some k ∧ k.started = true ∧ k.headDone = true
    ∧ k.headersDeadline = true ∧ k.cancelled = false ∧ cn.peerGone = false
    ∧ step s (.expire 0 0) = none
    ∧ run s ls = some s' ∧ (∀ l ∈ ls, l ≠ .cancel 0 0 ∧ l ≠ .peerDrop 0)
    ∧ s'.resolved = true ∧ acceptedCallsComplete (callViews s') = true := by
  refine ⟨_, _, _, [.sigFire, .loopSig, .afterLoop, .connSig 0, .deadlineTick 0 0, .ageTick 0,
      .connAge 0, .final 0, .permit 0 0, .produce 0 0, .deliver 0 0, .permit 0 0, .produce 0 0,
      .deliver 0 0, .connBreak 0, .connDropWatcher 0, .resolve], _,
    reachable_run (ls := [.offer, .loopAccept 0, .hsDone 0,
      .issue 0 [[.hdr], [.msg 0], [.msg 1], [.status 0]] 0, .callStart 0 0, .permit 0 0,
      .produce 0 0, .deliver 0 0, .permit 0 0, .produce 0 0, .deliver 0 0, .deadlineTick 0 0])
      (.init true) rfl,
    rfl, rfl, rfl, rfl, rfl, rfl, rfl, rfl, by decide, rfl, by simp, by decide, by decide⟩

-- … and `C13_timeout_fires_only_before_head` is not vacuous: with `Server::timeout` configured, a
-- unary call whose handler has not answered when its sleep elapses IS cut (`expire` enabled); the
-- caller then receives the server's "Timeout expired" — that is the call's true outcome
-- (`timedOut`), the connection drains and the serve future resolves
example :
    let s0 := run (init true true false true) [.offer, .loopAccept 0, .hsDone 0,
      .issue 0 [[.hdr, .msg 0, .status 0]] 0, .callStart 0 0, .sigFire, .deadlineTick 0 0]
    let ls : List Label := [.expire 0 0, .loopSig, .afterLoop, .connSig 0, .final 0, .deliver 0 0,
      .connBreak 0, .connDropWatcher 0, .resolve]
    (s0.map fun s => (step s (.expire 0 0)).isSome) = some true
    ∧ ((s0.bind (run · ls)).map fun s =>
        (s.resolved, acceptedCallsComplete (callViews s), truthful (callViews s)))
        = some (true, true, true)
    ∧ ((s0.bind (run · ls)).map fun s => (callViews s).map (fun v => (v.timedOut, v.got)))
        = some [(true, [.expired])]
    -- without the timeout configured the same call is never cut
    ∧ ((run (init true true false false) [.offer, .loopAccept 0, .hsDone 0,
      .issue 0 [[.hdr, .msg 0, .status 0]] 0, .callStart 0 0, .sigFire]).map
        fun s => ((step s (.deadlineTick 0 0)).isSome, (step s (.expire 0 0)).isSome))
      = some (false, false) := by
  decide

-- the hypotheses of `C13_failed_handshake_keeps_accepting` are satisfiable, with something to keep
-- accepting: connection 0 sent plain HTTP (its handshake fails), connection 1 has finished its
-- handshake and waits in the set for the loop
example : ∃ s, Reachable true true false s ∧ (step s (.tlsFail 0)).isSome = true
    ∧ (step s (.loopAccept 1)).isSome = true := by
  refine ⟨_, reachable_run (ls := [.offerTls false true, .tlsTake 0, .offerTls true false,
      .tlsTake 1, .tlsDone 1]) (.init false) rfl, ?_, ?_⟩ <;> decide

-- a hyper that is NOT the model's and still satisfies the contract: one that never completes a
-- handshake and never accepts a stream (the contract asks for neither) — so the contract is
-- strictly weaker than "hyper = the guards written into `step`"
example : ∃ H : Hyper, HyperGracefulContract H ∧ H.handshake ≠ hyperModel.handshake := by
  refine ⟨{ hyperModel with handshake := fun _ => false, acceptStream := fun _ _ => false },
    { connDone_only := hyperModel_contract.connDone_only
      handshake_only := by intro cn h; cases h
      finalGoaway_only := hyperModel_contract.finalGoaway_only
      acceptStream_only := by intro cn k h; cases h
      deliver_only := hyperModel_contract.deliver_only
      connDone_when := hyperModel_contract.connDone_when
      finalGoaway_when := hyperModel_contract.finalGoaway_when
      deliver_when := hyperModel_contract.deliver_when }, ?_⟩
  intro h
  have := congrFun h (Conn.new false false)
  simp [hyperModel, Conn.new] at this

-- ------------------------------------------------------------------ sibling servers (one builder, two servers)

/-- Transcription lemma (definitional): `Pair` / `stepPair` (Model/ShutdownPair.lean) ARE the product of
two copies of `step`, so this is the projection property of a product and holds for EVERY transition
function — nothing of `serve_internal` is used.  "Sibling servers share nothing" is the modelling
DECISION (read off the code: `add_service` clones the builder; the watch channel, the `Fuse`s and the
connection tasks are created per `serve_internal` call), not something this theorem establishes; the
assurance is the correspondence run (the `z` cases: a sibling server from the same builder, its signal
never fired, must stay unaffected while the script shuts the other down; clause `sibling-unaffected`) and the kernel-checked contrast with a builder that carries the watch channel
(`C13_sibling_resolve_fails_with_shared_channel`, `C13_sibling_independence_fails_with_shared_channel`).
SIBLING SERVERS, AS MODELLED.  Two servers made by `add_service` on one `Server` builder value run as
the product of two copies of the transition system: along ANY interleaving of their steps, each
server's own steps - in order - are a run of that server alone, ending in its component of the final
state.  So everything proved of `Reachable` states and of `run` holds of each of the two, whatever the
other one does: its signal, its connections, its calls, its resolution.  (Only this direction; the
converse — any two lone runs interleave into a pair run — is `C13_sibling_servers_independent_iff`.) -/
theorem C13_sibling_servers_independent (ls : List (Side × Label)) :
    ∀ (p p' : Pair), runPair p ls = some p' →
      run p.a (labelsOf .a ls) = some p'.a ∧ run p.b (labelsOf .b ls) = some p'.b := by
  induction ls with
  | nil =>
    intro p p' h
    simp [runPair] at h
    subst h
    simp [labelsOf, run]
  | cons x ls ih =>
    intro p p' h
    obtain ⟨sd, l⟩ := x
    simp only [runPair] at h
    cases sd with
    | a =>
      cases hs : step p.a l with
      | none => simp [stepPair, hs] at h
      | some s =>
        simp only [stepPair, hs, Option.map_some] at h
        have := ih _ _ h
        simpa [labelsOf, run, hs] using this
    | b =>
      cases hs : step p.b l with
      | none => simp [stepPair, hs] at h
      | some s =>
        simp only [stepPair, hs, Option.map_some] at h
        have := ih _ _ h
        simpa [labelsOf, run, hs] using this

/-- Transcription lemma (definitional): corollary of the product projection
`C13_sibling_servers_independent` (true of every product of transition systems); tie: the `z` cases.
A server is untouched by whatever a sibling built from the same builder goes through (its
shutdown signal, its drain, its resolution): if only the sibling takes steps, this server's state
is what it was. -/
theorem C13_sibling_untouched (ls : List (Side × Label)) (p p' : Pair)
    (h : runPair p ls = some p') (hs : ∀ x ∈ ls, x.1 = Side.a) : p'.b = p.b := by
  have hb := (C13_sibling_servers_independent ls p p' h).2
  have : labelsOf .b ls = [] := by
    simp only [labelsOf, List.filterMap_eq_nil_iff]
    intro x hx
    have := hs x hx
    simp [this]
  rw [this] at hb
  simpa [run] using hb.symm

/-- Transcription lemma (definitional): corollary of the product projection
`C13_sibling_servers_independent`; it transfers the lone-server theorems to each component of the
product and says nothing about whether the product is the right model (tie: the `z` cases).
Both servers of a pair started from initial states stay within the reachable states of a lone
server (so `C13_no_accept_after_signal`, `C13_resolve_only_when_all_closed`, … apply to each). -/
theorem C13_sibling_servers_reachable (g g' b a a' t t' : Bool) (ls : List (Side × Label)) (p' : Pair)
    (h : runPair { a := init g b a t, b := init g' b a' t' } ls = some p') :
    Reachable g b a p'.a ∧ Reachable g' b a' p'.b := by
  have := C13_sibling_servers_independent ls _ p' h
  exact ⟨reachable_run (.init t) this.1, reachable_run (.init t') this.2⟩

/-- Transcription lemma (definitional): the guard of `step _ .resolve` unfolded through `stepPair`
(`simp only [stepPair, step]; split <;> simp_all`), twin of `C13_resolve_enabled_iff`; the content is
the contrast with `stepPairShared` (next theorem) and the tie (`z` cases: the script's server resolves
while its sibling still serves a streaming call).
The serve future of one server waits for its OWN receivers only: `resolve` is enabled in the
pair exactly when it is enabled for that server alone - whatever connections the sibling has. -/
theorem C13_sibling_resolve_waits_for_own_connections_only (p : Pair) :
    (stepPair p .a .resolve).isSome
      = (p.a.afterDone && !p.a.resolved && (!p.a.cfgGraceful || receiverCount p.a == 0)) := by
  simp only [stepPair, step]
  split <;> simp_all

/-- … and this is false of a builder that carries the watch channel (shared by its clones): a
server whose signal fired and which has no connection at all cannot resolve while its sibling is
merely running (the sibling's `signal_rx` is a receiver of the shared channel). -/
theorem C13_sibling_resolve_fails_with_shared_channel :
    ∃ p : Pair, receiverCount p.a = 0 ∧ p.a.afterDone = true ∧ p.a.conns = []
      ∧ (stepPair p .a .resolve).isSome = true ∧ (stepPairShared p .a .resolve).isSome = false := by
  refine ⟨{ a := ((run (init true true false) [.sigFire, .loopSig, .afterLoop]).getD (init true true false)),
            b := init true true false }, ?_, ?_, ?_, ?_, ?_⟩ <;> decide

/-- Transcription lemma (definitional): the converse projection property of the product, again true of
every transition function.  Any run of server `a` alone and any run of server `b` alone, interleaved
in ANY way, are a run of the pair: neither server ever has to wait for, or is ever blocked by, the
other.  (This is the half a shared watch channel breaks: `C13_sibling_independence_fails_with_shared_channel`.) -/
theorem C13_sibling_lone_runs_interleave (ls : List (Side × Label)) :
    ∀ (p : Pair) (sa sb : State),
      run p.a (labelsOf .a ls) = some sa → run p.b (labelsOf .b ls) = some sb →
      runPair p ls = some { a := sa, b := sb } := by
  induction ls with
  | nil =>
    intro p sa sb ha hb
    simp [labelsOf, run] at ha hb
    subst ha; subst hb
    simp [runPair]
  | cons x ls ih =>
    intro p sa sb ha hb
    obtain ⟨sd, l⟩ := x
    cases sd with
    | a =>
      have e1 : labelsOf .a ((Side.a, l) :: ls) = l :: labelsOf .a ls := by simp [labelsOf]
      have e2 : labelsOf .b ((Side.a, l) :: ls) = labelsOf .b ls := by simp [labelsOf]
      rw [e1] at ha; rw [e2] at hb
      simp only [run] at ha
      cases hs : step p.a l with
      | none => simp [hs] at ha
      | some s =>
        simp only [hs] at ha
        simp only [runPair, stepPair, hs, Option.map_some]
        exact ih { p with a := s } sa sb ha hb
    | b =>
      have e1 : labelsOf .b ((Side.b, l) :: ls) = l :: labelsOf .b ls := by simp [labelsOf]
      have e2 : labelsOf .a ((Side.b, l) :: ls) = labelsOf .a ls := by simp [labelsOf]
      rw [e1] at hb; rw [e2] at ha
      simp only [run] at hb
      cases hs : step p.b l with
      | none => simp [hs] at hb
      | some s =>
        simp only [hs] at hb
        simp only [runPair, stepPair, hs, Option.map_some]
        exact ih { p with b := s } sa sb ha hb

/-- Transcription lemma (definitional): both directions together — a pair run IS a pair of lone runs of
its two projections (the characterisation of a product; no property of `serve_internal` enters). -/
theorem C13_sibling_servers_independent_iff (ls : List (Side × Label)) (p p' : Pair) :
    runPair p ls = some p' ↔
      run p.a (labelsOf .a ls) = some p'.a ∧ run p.b (labelsOf .b ls) = some p'.b :=
  ⟨C13_sibling_servers_independent ls p p',
   fun h => C13_sibling_lone_runs_interleave ls p p'.a p'.b h.1 h.2⟩

/-- … and the interleaving half is FALSE of a builder that carries the watch channel (counter-model
`stepPairShared`, run over whole interleavings by `runPairBy`): server `a` alone can resolve (signal
fired, accept loop left, no connection), server `b` alone can stay as it is, but the pair cannot
take `a`'s `resolve` step — `a` is blocked by a sibling that is merely running.  So the two
projection lemmas above do tell the product from this sharing. -/
theorem C13_sibling_independence_fails_with_shared_channel :
    ¬ ∀ (ls : List (Side × Label)) (p : Pair),
      (run p.a (labelsOf .a ls)).isSome = true → (run p.b (labelsOf .b ls)).isSome = true →
      (runPairBy stepPairShared p ls).isSome = true := by
  intro h
  have := h [(.a, .resolve)]
    { a := ((run (init true true false) [.sigFire, .loopSig, .afterLoop]).getD (init true true false)),
      b := init true true false } (by decide) (by decide)
  revert this
  decide

end C13
