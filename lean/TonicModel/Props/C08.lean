import TonicModel.Model.Metadata
import TonicModel.Spec.Metadata
namespace C08
open Metadata

/-- A binary value is restored from its stored form. -/
theorem C08_binary_roundtrip (b : Bytes) :
    (valueFromBytes .binary b).bind (valueToBytes .binary) = some b := by
  simp [valueFromBytes, valueToBytes, B64.decode_encode]

end C08
