import TonicModel.Model.Metadata
import TonicModel.Spec.Metadata
import TonicModel.Lemmas.Metadata
import TonicModel.Lemmas.Status
import TonicModel.Model.MetadataEntry
import TonicModel.Model.MetadataApi
import TonicModel.Spec.MetadataEntry
import TonicModel.Lemmas.MetadataEntry
import TonicModel.Lemmas.MetadataEntryMap
/-
C08 — User metadata crosses the wire intact; protocol headers cannot be forged.
Property theorems only; helper lemmas live in `Lemmas/Metadata.lean`, `Lemmas/Status.lean`, `Basic/*`.
`Variant.fixed` = pinned tree + fixes/fix-C08-bin-suffix-case.patch (+ the C04/C12 status patches);
`Variant.orig` = pinned tree, for which the `_fails` witness is proved.
-/
set_option linter.unusedSimpArgs false

namespace C08
open Metadata
open Status (Variant St)

/-! ## binary values -/

/-- **Binary round trip.** Every byte string (every length mod 3) is stored as unpadded
standard base64 — a legal header value without `=` — and is restored to the original bytes from
that form *and* from the padded form a peer may send instead. -/
theorem C08_binary_roundtrip (b : Bytes) :
    valueFromBytes .binary b = some (B64.encode false b) ∧
    HMap.legalValue (B64.encode false b) = true ∧
    Spec.Metadata.carriesBinary (B64.encode false b) b = true ∧
    (∀ pad, valueToBytes .binary (B64.encode pad b) = some b) := by
  refine ⟨rfl, Status.b64_encode_legal false b, ?_, ?_⟩
  · simp [Spec.Metadata.carriesBinary, B64.decode_encode]
  · intro pad; simp [valueToBytes, B64.decode_encode]

/-- **Size of a stored binary value, for every length.** The text a binary value is stored and sent
as has exactly `⌈4n/3⌉` symbols (`4·⌈n/3⌉` in the padded form a peer may send) — so no raw length
is special: there is no length at which a value is refused, truncated or stored differently (what a
fixed-size encode buffer sized by the raw length gets wrong from 769 bytes on, seed C08j). -/
theorem C08_binary_stored_length (b : Bytes) :
    (∃ w, valueFromBytes .binary b = some w ∧ w.length = (4 * b.length + 2) / 3) ∧
    (B64.encode true b).length = 4 * ((b.length + 2) / 3) := by
  have h : ∀ pad, (B64.encode pad b).length
      = if pad then 4 * ((b.length + 2) / 3) else (4 * b.length + 2) / 3 := by
    intro pad
    fun_induction B64.encode pad b with
    | case1 a b c rest ih => cases pad <;> simp_all <;> omega
    | case2 a b => cases pad <;> simp
    | case3 a => cases pad <;> simp
    | case4 => cases pad <;> simp
  exact ⟨⟨_, rfl, by simpa using h false⟩, by simpa using h true⟩

example : (valueFromBytes .binary (List.replicate 800 7)).map List.length = some 1067 := by decide +kernel

/-- ASCII values are stored and returned verbatim, and are accepted iff they are legal header
values. -/
theorem C08_ascii_verbatim (b : Bytes) :
    (HMap.legalValue b = true → valueFromBytes .ascii b = some b ∧ valueToBytes .ascii b = some b) ∧
    (HMap.legalValue b = false → valueFromBytes .ascii b = none) := by
  constructor <;> intro h <;> simp [valueFromBytes, valueToBytes, h]

/-! ## keys and categories -/

/-- A typed key is accepted exactly when it is a header name whose (normalised, lower-case)
form has the `-bin` suffix iff the key is a binary key — however the caller spelled it. -/
theorem C08_key_category (enc : Enc) (src : Bytes) :
    keyFromBytes .fixed enc src =
      match HMap.normName src with
      | none => none
      | some n => if (enc == Enc.binary) == Spec.Metadata.isBinName n then some n else none := by
  unfold keyFromBytes
  cases h : HMap.normName src with
  | none => rfl
  | some n =>
    -- the stored name is lower-case, so the suffix test on it is the spec's
    have hlow := normName_lower src n h
    have hb : isBinKey .fixed n = Spec.Metadata.isBinName n := by
      unfold isBinKey
      simp only []
      rw [hlow, map_toLower_idem, ← hlow, endsWith_bin_iff]
    cases enc <;> simp only [validKey, hb] <;> by_cases hx : Spec.Metadata.isBinName n = true <;> simp [hx]

/-- the stored name `n` belongs to the accessor family `enc` (`get…` for ASCII, `get…_bin` for
binary): it ends in `-bin` iff the family is the binary one -/
def ownCategory (enc : Enc) (n : Bytes) : Bool := (enc == Enc.binary) == Spec.Metadata.isBinName n

/-- **No miscategorisation, accessors (repaired tree).** For every map and every lookup string
(any spelling, valid header name or not), each typed accessor behaves as the spec demands: it
looks at the entries stored under the normalised name, and returns them only if the *stored*
name's category is the accessor's own — `get`/`get_all`/`remove` never yield a `-bin` entry,
`get_bin`/`get_all_bin`/`remove_bin` never yield anything else; a key of the wrong category or
one that is not a header name yields nothing and removes nothing. -/
theorem C08_accessors_by_stored_name (enc : Enc) (ks : Bytes) (m : HMap) :
    get .fixed enc ks m = (match HMap.normName ks with
      | some n => if ownCategory enc n then HMap.get n m else none
      | none => none) ∧
    getAll .fixed enc ks m = (match HMap.normName ks with
      | some n => if ownCategory enc n then HMap.getAll n m else []
      | none => []) ∧
    remove .fixed enc ks m = (match HMap.normName ks with
      | some n => if ownCategory enc n then (HMap.get n m, HMap.remove n m) else (none, m)
      | none => (none, m)) := by
  unfold Metadata.get Metadata.getAll Metadata.remove
  cases h : HMap.normName ks with
  | none => simp
  | some n =>
    have hb := isBinKey_fixed_norm ks n h
    cases enc <;> simp only [validKey, hb, ownCategory] <;> by_cases hx : Spec.Metadata.isBinName n = true <;> simp [hx]

/-- The same for the write side: `entry(key)` / `entry_bin(key)` with a `&str` key hands out an
entry (and possibly inserts) only when the *stored* name's category is its own; otherwise, and
for strings that are not header names, it fails and the map is unchanged. -/
theorem C08_entry_by_stored_name (enc : Enc) (ks val : Bytes) (m : HMap) :
    match (entryOrInsert .fixed enc ks val m).1 with
    | .entry _ => ∃ n, HMap.normName ks = some n ∧ ownCategory enc n = true
    | _ => (entryOrInsert .fixed enc ks val m).2 = m := by
  unfold entryOrInsert
  cases h : HMap.normName ks with
  | none => by_cases hv : validKey .fixed enc ks = true <;> simp [hv]
  | some n =>
    have hb := isBinKey_fixed_norm ks n h
    have hown : validKey .fixed enc ks = ownCategory enc n := by
      cases enc <;> simp only [validKey, hb, ownCategory] <;>
        by_cases hx : Spec.Metadata.isBinName n = true <;> simp [hx]
    by_cases hv : validKey .fixed enc ks = true
    · simp only [hv, Bool.not_true, Bool.false_eq_true, if_false]
      cases valueFromBytes enc val with
      | none => simp
      | some w =>
        cases HMap.get n m with
        | none => exact ⟨n, rfl, by rw [← hown]; exact hv⟩
        | some cur => exact ⟨n, rfl, by rw [← hown]; exact hv⟩
    · simp [hv]

/-- On the pinned tree as found this fails: `get("foo-BIN")` returns the binary entry stored
under `foo-bin`, typed as ASCII. -/
theorem C08_accessors_unfixed_fails :
    ¬ ∀ (ks : Bytes) (m : HMap) (w n : Bytes), get .orig .ascii ks m = some w →
        HMap.normName ks = some n → Spec.Metadata.isBinName n = false := by
  intro hall
  have := hall (HMap.name "foo-BIN") [(HMap.name "foo-bin", HMap.name "AAEC")] (HMap.name "AAEC")
    (HMap.name "foo-bin") (by decide) (by decide)
  revert this; decide

/-- … and only for keys not spelled in lower case: for a lower-case key the pinned tree and the
repaired tree agree. -/
theorem C08_accessors_partial (enc : Enc) (ks : Bytes) (m : HMap) (hlow : HMap.normName ks = some ks) :
    get .orig enc ks m = get .fixed enc ks m ∧ getAll .orig enc ks m = getAll .fixed enc ks m ∧
    remove .orig enc ks m = remove .fixed enc ks m := by
  have h1 := isBinKey_orig_lower ks
  have h2 := isBinKey_fixed_norm ks ks hlow
  unfold Metadata.get Metadata.getAll Metadata.remove validKey
  cases enc <;> simp only [h1, h2] <;> simp

/-- **No miscategorisation, iterators.** For every map whose names are stored normalised (as
`HeaderMap` stores them), `iter()` (and `keys()`, `values()`, which use the same test) presents
each entry, with its own name and value, as `Binary` iff its name ends in `-bin`; nothing is
dropped, duplicated or reordered. -/
theorem C08_iter_by_stored_name (m : HMap) (hwf : ∀ e ∈ m, HMap.normName e.1 = some e.1) :
    iter .fixed m = m.map (fun e =>
      (if Spec.Metadata.isBinName e.1 then Enc.binary else Enc.ascii, e.1, e.2)) := by
  unfold iter
  apply List.map_congr_left
  intro e he
  have hb := isBinKey_fixed_stored e.1 (hwf e he)
  simp only [validKey, hb]
  by_cases hx : Spec.Metadata.isBinName e.1 = true <;> simp [hx]

/-! ## preservation on the wire -/

/-- **Requests.** Every non-reserved name of the caller's metadata is on the wire with exactly
its values in order (and this is the metadata the server-side handler is given). -/
theorem C08_preserved_request (md : HMap) (k : Bytes) (hk : k ∉ Spec.Metadata.reserved) :
    HMap.getAll k (requestWire md) = HMap.getAll k md := by
  have hk' : k ∉ Status.reservedHeaders := fun h => hk ((mem_reserved_iff k).mpr h)
  have h1 : k ≠ Status.CONTENT_TYPE := by intro h; apply hk'; rw [h]; decide
  have h2 : k ≠ Status.TE := by intro h; apply hk'; rw [h]; decide
  unfold requestWire
  rw [HMap.getAll_insert_ne _ _ _ _ h1, HMap.getAll_insert_ne _ _ _ _ h2, Status.getAll_sanitize]
  simp [hk']

/-- **Responses.** Likewise for the handler's response metadata, both in the response headers
and in what a unary client returns to its caller (headers merged with the trailers). -/
theorem C08_preserved_response (md : HMap) (k : Bytes) (hk : k ∉ Spec.Metadata.reserved) :
    HMap.getAll k (responseWire md) = HMap.getAll k md ∧
    HMap.getAll k (clientUnaryMetadata md) = HMap.getAll k md := by
  have hk' : k ∉ Status.reservedHeaders := fun h => hk ((mem_reserved_iff k).mpr h)
  have h1 : k ≠ Status.CONTENT_TYPE := by intro h; apply hk'; rw [h]; decide
  have h3 : k ≠ Status.GRPC_STATUS := by intro h; apply hk'; rw [h]; decide
  have hr : HMap.getAll k (responseWire md) = HMap.getAll k md := by
    unfold responseWire
    rw [HMap.getAll_insert_ne _ _ _ _ h1, Status.getAll_sanitize]
    simp [hk']
  refine ⟨hr, ?_⟩
  unfold clientUnaryMetadata
  rw [HMap.getAll_extend]
  have : HMap.hasKey k okTrailers = false := by
    simp [okTrailers, HMap.hasKey, Ne.symm h3]
  simp [this, hr]

/-- **Trailers and error statuses.** For a status written as trailers (`h0 = []`) or as a
trailers-only response (`h0 = [content-type]`) — any block `h0` without custom entries of its
own — the peer reads back a status whose metadata has, under every custom name (not reserved,
not `grpc-status-details-bin`), exactly the original values in order. -/
theorem C08_preserved_status (st : St) (h0 : HMap) (k : Bytes)
    (hk : k ∉ Spec.Metadata.reserved) (hk2 : k ≠ Status.GRPC_STATUS_DETAILS)
    (h0k : HMap.getAll k h0 = []) :
    ∃ h st', Status.addHeader .fixed st h0 = .ok h ∧ Status.fromHeaderMap .fixed h = some (.status st') ∧
      HMap.getAll k h = HMap.getAll k st.metadata ∧
      HMap.getAll k st'.metadata = HMap.getAll k st.metadata := by
  have hk' : k ∉ Status.reservedHeaders := fun h => hk ((mem_reserved_iff k).mpr h)
  have n1 : k ≠ Status.GRPC_STATUS := by intro h; apply hk'; rw [h]; decide
  have n2 : k ≠ Status.GRPC_MESSAGE := by intro h; apply hk'; rw [h]; decide
  have hc : Status.isCustom k = true := by
    simp [Status.isCustom, hk', hk2]
  have hw := Status.addHeader_eq .fixed st h0
  have g := Status.getAll_wire st h0
  have gS := g Status.GRPC_STATUS
  simp only [if_true] at gS
  have hget : HMap.get Status.GRPC_STATUS (Status.wire .fixed st h0) = some st.code.headerValue := by
    simp [HMap.get, gS]
  obtain ⟨st', hr, hmeta⟩ := Status.fromHeaderMap_fixed_status _ _ hget
  have gk : HMap.getAll k (Status.wire .fixed st h0) = HMap.getAll k st.metadata := by
    rw [g k]
    simp only [n1, n2, hk2, if_false, false_and, hc, true_and]
    by_cases hg : HMap.getAll k st.metadata = []
    · simp [hg, h0k]
    · simp [hg]
  refine ⟨_, st', hw, hr, gk, ?_⟩
  rw [hmeta, Status.getAll_stripStatus]
  simp [n1, n2, hk2, gk]

/-! ## reserved names cannot be forged -/

/-- **Requests and responses.** Under each of the six reserved names the wire carries exactly
what the protocol itself puts there — `te: trailers` and `content-type: application/grpc` on a
request, `content-type: application/grpc` on a response, nothing else — whatever the user
metadata contains, in any position. -/
theorem C08_reserved_never_emitted (md : HMap) (r : Bytes) (hr : r ∈ Spec.Metadata.reserved) :
    HMap.getAll r (requestWire md) =
      HMap.getAll r [(HMap.name "te", HMap.name "trailers"), (HMap.name "content-type", HMap.name "application/grpc")] ∧
    HMap.getAll r (responseWire md) =
      HMap.getAll r [(HMap.name "content-type", HMap.name "application/grpc")] := by
  have hr' : r ∈ Status.reservedHeaders := (mem_reserved_iff r).mp hr
  have hs : HMap.getAll r (Status.sanitize md) = [] := by rw [Status.getAll_sanitize]; simp [hr']
  have ct : Status.CONTENT_TYPE = HMap.name "content-type" := rfl
  have te : Status.TE = HMap.name "te" := rfl
  have tr : TRAILERS = HMap.name "trailers" := rfl
  have ag : GRPC_CONTENT_TYPE = HMap.name "application/grpc" := rfl
  have tect : HMap.name "te" ≠ HMap.name "content-type" := by decide
  unfold requestWire responseWire
  rw [ct, te, tr, ag]
  by_cases h1 : r = HMap.name "content-type"
  · subst h1
    simp [HMap.getAll_insert_self, HMap.getAll_cons, HMap.getAll_nil, tect]
  · by_cases h2 : r = HMap.name "te"
    · subst h2
      rw [HMap.getAll_insert_ne _ _ _ _ h1, HMap.getAll_insert_self, HMap.getAll_insert_ne _ _ _ _ h1]
      simp [HMap.getAll_cons, HMap.getAll_nil, tect.symm, hs, tect]
    · rw [HMap.getAll_insert_ne _ _ _ _ h1, HMap.getAll_insert_ne _ _ _ _ h2, HMap.getAll_insert_ne _ _ _ _ h1, hs]
      simp [HMap.getAll_cons, HMap.getAll_nil, Ne.symm h1, Ne.symm h2]

/-- **Statuses.** What a status block carries under a reserved name does not depend on the
status' metadata at all: two statuses that differ only in their metadata produce the same
values under every reserved name (the code's decimal under `grpc-status`, the encoded message
under `grpc-message`, otherwise what the block held before). -/
theorem C08_status_reserved_independent (st : St) (md' : HMap) (h0 : HMap) (r : Bytes)
    (hr : r ∈ Spec.Metadata.reserved) :
    HMap.getAll r (Status.wire .fixed st h0) = HMap.getAll r (Status.wire .fixed { st with metadata := md' } h0) := by
  have hr' : r ∈ Status.reservedHeaders := (mem_reserved_iff r).mp hr
  have hc : Status.isCustom r = false := by simp [Status.isCustom, hr']
  rw [Status.getAll_wire, Status.getAll_wire]
  simp [hc]

/-! ## typed entries end to end -/

/-- A map built with the typed API is exactly the accepted entries under their normalised
names, in call order: nothing is merged, reordered or re-encoded. (Transcription lemma: it holds by unfolding the model's definition, so it pins the model's shape for the correspondence run — its assurance about tonic is the tie, not this proof.) -/
theorem C08_typed_build (es : List (Enc × Bytes × Bytes)) :
    buildTyped .fixed es = es.filterMap (storedEntry .fixed) :=
  buildTyped_eq .fixed es

/-- what a receiver's typed view must show under name `n` for the typed entries `es` a sender
attached: the accepted entries of that name in call order, each in its own category with its
original bytes (ASCII verbatim, binary restored) -/
def expectedUnder (es : List (Enc × Bytes × Bytes)) (n : Bytes) : List (Enc × Option Bytes) :=
  es.filterMap (fun e => match storedEntry .fixed e with
    | some (k, _) => if k = n then some (e.1, some e.2.2) else none
    | none => none)

/-- the rows of a typed view (`iter()` + `to_bytes()`) under name `n`, in order -/
def viewUnder (m : HMap) (n : Bytes) : List (Enc × Option Bytes) :=
  (typedView .fixed m).filterMap (fun r => if r.2.1 = n then some (r.1, r.2.2) else none)

private theorem built_rows (es : List (Enc × Bytes × Bytes)) (n : Bytes) :
    (HMap.getAll n (es.filterMap (storedEntry .fixed))).map (fun w =>
        let enc := if validKey .fixed .ascii n then Enc.ascii else Enc.binary
        (enc, valueToBytes enc w)) = expectedUnder es n := by
  unfold expectedUnder
  induction es with
  | nil => simp [HMap.getAll_nil]
  | cons e es ih =>
    rw [List.filterMap_cons, List.filterMap_cons]
    cases hs : storedEntry .fixed e with
    | none => simp only []; exact ih
    | some kw =>
      obtain ⟨k, w⟩ := kw
      simp only []
      rw [HMap.getAll_cons]
      by_cases hk : k = n
      · subst hk
        simp only [if_true, List.map_cons, ih]
        unfold storedEntry at hs
        cases hkey : keyFromBytes .fixed e.1 e.2.1 with
        | none => simp [hkey] at hs
        | some k' =>
          cases hval : valueFromBytes e.1 e.2.2 with
          | none => simp [hkey, hval] at hs
          | some w' =>
            simp only [hkey, hval, Option.some.injEq, Prod.mk.injEq] at hs
            obtain ⟨rfl, rfl⟩ := hs
            have hvk : validKey .fixed e.1 k' = true := by
              unfold keyFromBytes at hkey
              split at hkey
              · cases hkey
              · split at hkey
                · rename_i h; cases hkey; exact h
                · cases hkey
            congr 1
            cases he : e.1 with
            | ascii =>
              rw [he] at hvk hval
              have : validKey .fixed .ascii k' = true := hvk
              simp only [this, if_true]
              simp only [valueFromBytes] at hval
              split at hval
              · cases hval; simp [valueToBytes]
              · cases hval
            | binary =>
              rw [he] at hvk hval
              have hb : isBinKey .fixed k' = true := hvk
              have : validKey .fixed .ascii k' = false := by simp [validKey, hb]
              simp only [this, Bool.false_eq_true, if_false]
              simp only [valueFromBytes, Option.some.injEq] at hval
              subst hval
              simp [valueToBytes, B64.decode_encode]
      · simp only [hk, if_false]; exact ih

/-- core of the end-to-end theorems: any received map that has, under `n`, the values the
typed build has under `n`, shows exactly the sender's entries of that name -/
private theorem view_of_built (es : List (Enc × Bytes × Bytes)) (n : Bytes) (m : HMap)
    (hm : HMap.getAll n m = HMap.getAll n (buildTyped .fixed es)) :
    viewUnder m n = expectedUnder es n := by
  unfold viewUnder
  rw [typedView_of_name, hm, buildTyped_eq]
  exact built_rows es n

/-- **End to end, request direction.** For every list of typed entries a caller attaches and
every non-reserved name `n`: what the server-side typed view (`iter()` + `to_bytes()`) shows under
`n` is exactly the accepted entries of that name in call order, in the category of the name, with
ASCII values verbatim and binary values restored to the original bytes. -/
theorem C08_request_end_to_end (es : List (Enc × Bytes × Bytes)) (n : Bytes)
    (hn : n ∉ Spec.Metadata.reserved) :
    viewUnder (requestWire (buildTyped .fixed es)) n = expectedUnder es n :=
  view_of_built es n _ (C08_preserved_request _ _ hn)

/-- **End to end, response direction.** Likewise for the entries a handler attaches to its
response, as seen by the client in the response headers and in what a unary call returns. -/
theorem C08_response_end_to_end (es : List (Enc × Bytes × Bytes)) (n : Bytes)
    (hn : n ∉ Spec.Metadata.reserved) :
    viewUnder (responseWire (buildTyped .fixed es)) n = expectedUnder es n ∧
    viewUnder (clientUnaryMetadata (buildTyped .fixed es)) n = expectedUnder es n :=
  ⟨view_of_built es n _ (C08_preserved_response _ _ hn).1, view_of_built es n _ (C08_preserved_response _ _ hn).2⟩

/-- **End to end, error statuses and trailers.** Likewise for the entries attached to a
`Status` (any code, message, details), whether it travels as trailers (`h0 = []`) or as a
trailers-only response (`h0 = [content-type]`): the status the client obtains shows them under
every custom name. -/
theorem C08_status_end_to_end (code : Status.Code) (msg det : Bytes) (es : List (Enc × Bytes × Bytes))
    (h0 : HMap) (n : Bytes) (hn : n ∉ Spec.Metadata.reserved) (hn2 : n ≠ Status.GRPC_STATUS_DETAILS)
    (h0n : HMap.getAll n h0 = []) :
    ∃ h st', Status.addHeader .fixed
        { code := code, message := msg, details := det, metadata := buildTyped .fixed es } h0 = .ok h ∧
      Status.fromHeaderMap .fixed h = some (.status st') ∧
      viewUnder st'.metadata n = expectedUnder es n := by
  obtain ⟨h, st', h1, h2, _, h4⟩ := C08_preserved_status
    { code := code, message := msg, details := det, metadata := buildTyped .fixed es } h0 n hn hn2 h0n
  exact ⟨h, st', h1, h2, view_of_built es n _ h4⟩

/-- … and when the peer pads the base64 of a binary entry, the receiver's view is the same:
decoding is indifferent to padding. -/
theorem C08_padding_indifferent (n b : Bytes) (pad : Bool) (hb : Spec.Metadata.isBinName n = true)
    (hwf : HMap.normName n = some n) :
    typedView .fixed [(n, B64.encode pad b)] = [(Enc.binary, n, some b)] := by
  have h := isBinKey_fixed_stored n hwf
  simp [typedView, iter, validKey, h, hb, valueToBytes, B64.decode_encode]


/-! ## the entry API (`entry`, `entry_bin`, `Entry`, `VacantEntry`, `OccupiedEntry`, `GetAll`) -/

/-- **No miscategorisation and no miscategorised storage through the entry API.** For *every*
sequence of operations (`insert`/`append`/`remove`/`get_all` and `entry`/`entry_bin` with any of
the five key forms, followed by any script of `Entry` / `VacantEntry` / `OccupiedEntry` calls,
including calls on the handle `insert_entry` returns) on *every* starting map:
(1) every key, value, iterator item and entry handle the API hands out is typed `Binary` iff the
stored name it belongs to ends in `-bin`, and every value written is written through a type of
the stored name's category and is restored by that category's `to_bytes` to the bytes it was
built from (`evOk`); (2) every entry of the resulting map either was in the starting map or was
written by such an operation — through the category of its name, decodable back to what the
caller gave.  Model of the tree with `insert_entry` repaired (`IE.fixed`). -/
theorem C08_entry_api_keeps_categories (ops : List MetaOps.Op) (m0 : HMap) :
    (∀ s ∈ run .fixed .fixed ops m0, ∀ ev ∈ s.1, Spec.Metadata.EntryApi.evOk ev = true) ∧
    (∀ e ∈ finalMap (run .fixed .fixed ops m0) m0, e ∈ m0 ∨
      ∃ s ∈ run .fixed .fixed ops m0, ∃ raw,
        MetaOps.Ev.wrote (Spec.Metadata.isBinName e.1) e.1 raw e.2 ∈ s.1 ∧
        MetaOps.decodeAs (Spec.Metadata.isBinName e.1) e.2 = some raw) := by
  refine ⟨run_ok ops m0, ?_⟩
  intro e he
  rcases run_prov .fixed .fixed ops m0 e he with h | ⟨s, hs, b, raw, hw⟩
  · exact .inl h
  · refine .inr ⟨s, hs, raw, ?_⟩
    have hok := run_ok ops m0 s hs _ hw
    simp only [Spec.Metadata.EntryApi.evOk, Bool.and_eq_true, beq_iff_eq] at hok
    obtain ⟨hb, hd⟩ := hok
    subst hb
    exact ⟨hw, hd⟩

/-- the witness: `entry_bin("x-bin")` is vacant; `insert_entry(bytes 00 01 02)`; on the handle
returned: `get()`, then `append("not base64!")` -/
def insertEntryWitness : List MetaOps.Op :=
  [.entry true .str (HMap.name "x-bin")
    (.branch (.insertEntry [0, 1, 2]) [.get, .append (HMap.name "not base64!")])]

/-- **On the tree as found this fails**: `VacantEntry::<Binary>::insert_entry` returns an
`OccupiedEntry<'_, Ascii>`, so the binary entry `x-bin` is handed out typed ASCII (key and value),
and an ASCII value can be appended under the `-bin` name — the receiver's typed view then has a
binary entry that does not decode. -/
theorem C08_insert_entry_asis_fails :
    (¬ ∀ (ops : List MetaOps.Op) (m0 : HMap), ∀ s ∈ run .fixed .asis ops m0, ∀ ev ∈ s.1,
        Spec.Metadata.EntryApi.evOk ev = true) ∧
    (Enc.binary, HMap.name "x-bin", none) ∈ typedView .fixed (finalMap (run .fixed .asis insertEntryWitness []) []) := by
  constructor
  · intro h
    have := h insertEntryWitness []
    revert this
    decide
  · decide

/-! ## every constructor and comparison of the typed API -/

/-- **Binary constructors.** `from_bytes`, `TryFrom<&[u8]>`, `TryFrom<Vec<u8>>` and
`TryFrom<Bytes>` all store the unpadded base64 of the bytes given, and `to_bytes` gives them
back; `from_static` keeps a valid base64 text as it is (and panics on anything else), and the
text decodes. -/
theorem C08_binary_constructors (c : Ctor) (src : Bytes) :
    (c ≠ .fromStatic → construct .binary c src = .ok (B64.encode false src) ∧
        valueToBytes .binary (B64.encode false src) = some src) ∧
    (c = .fromStatic → (construct .binary c src = .panic ∧ B64.decode src = none) ∨
        (construct .binary c src = .ok src ∧ (valueToBytes .binary src).isSome = true)) := by
  constructor
  · intro hc
    refine ⟨?_, by simp [valueToBytes, B64.decode_encode]⟩
    cases c <;> first | rfl | exact absurd rfl hc
  · intro hc
    subst hc
    simp only [construct, valueToBytes]
    cases B64.decode src with
    | none => exact .inl ⟨rfl, rfl⟩
    | some d => exact .inr ⟨rfl, rfl⟩

/-- **ASCII constructors.** Every constructor (`TryFrom<&[u8] | Vec<u8> | Bytes | &str | String |
&String>`, `FromStr`, `from_static`) either rejects the input or stores it verbatim, `to_bytes`
returns it verbatim, and what is stored is a legal header value; the fallible ones accept exactly
the legal header values. -/
theorem C08_ascii_constructors (c : Ctor) (src w : Bytes) :
    (construct .ascii c src = .ok w → w = src ∧ HMap.legalValue src = true ∧ valueToBytes .ascii w = some src) ∧
    (c ≠ .fromStatic → (construct .ascii c src = .err ↔ HMap.legalValue src = false)) := by
  have hvis : src.all Ascii.isVisible = true → HMap.legalValue src = true := by
    intro h
    simp only [HMap.legalValue, List.all_eq_true] at h ⊢
    intro b hb
    have := h b hb
    simp only [Ascii.isVisible, HMap.legalValueByte, Bool.or_eq_true, Bool.and_eq_true, decide_eq_true_eq,
      beq_iff_eq, bne_iff_ne, ne_eq] at this ⊢
    omega
  constructor
  · intro h
    cases c <;> simp only [construct] at h <;> split at h <;> cases h
    all_goals first | exact ⟨rfl, ‹_›, rfl⟩ | exact ⟨rfl, hvis ‹_›, rfl⟩
  · intro hc
    cases c <;> first | exact absurd rfl hc | skip
    all_goals
      simp only [construct]
      by_cases hl : HMap.legalValue src = true <;> simp [hl]

/-- **Static keys.** `MetadataKey::<VE>::from_static` yields a key only for a string that is
already in stored form (no upper case) and whose `-bin` suffix matches `VE`; otherwise it
panics. -/
theorem C08_static_key_category (enc : Enc) (src n : Bytes) (h : keyFromStatic .fixed enc src = some n) :
    n = src ∧ MetaOps.staticName src = true ∧ ownCategory enc n = true := by
  unfold keyFromStatic nameFromStatic at h
  by_cases hs : MetaOps.staticName src = true
  · simp only [hs, if_true] at h
    by_cases hv : validKey .fixed enc src = true
    · simp only [hv, if_true, Option.some.injEq] at h
      subst h
      refine ⟨rfl, hs, ?_⟩
      -- a string in stored form is its own lower-casing, so the suffix test on it is the spec's
      have hlowc : ∀ k : Fin 256, MetaOps.staticNameChar (UInt8.ofNat k.val) = true →
          Ascii.toLower (UInt8.ofNat k.val) = UInt8.ofNat k.val := by decide +kernel
      have hlow : src.map Ascii.toLower = src := by
        simp only [MetaOps.staticName, Bool.and_eq_true, List.all_eq_true] at hs
        have : ∀ l : Bytes, (∀ b ∈ l, MetaOps.staticNameChar b = true) → l.map Ascii.toLower = l := by
          intro l
          induction l with
          | nil => intro _; rfl
          | cons b rest ih =>
            intro hl
            have hb := hlowc ⟨b.toNat, b.toNat_lt⟩
            simp only [UInt8.ofNat_toNat] at hb
            rw [List.map_cons, hb (hl b (by simp)), ih (fun x hx => hl x (by simp [hx]))]
        exact this src hs.2
      have hb : isBinKey .fixed src = Spec.Metadata.isBinName src := by
        unfold isBinKey
        simp only []
        rw [hlow, endsWith_bin_iff]
      cases enc <;> simp only [validKey, hb, ownCategory] at hv ⊢ <;>
        by_cases hx : Spec.Metadata.isBinName src = true <;> simp [hx] at hv ⊢
    · simp [hv] at h
  · simp [hs] at h

/-- **Comparisons.** `PartialEq<str | [u8]>` of a binary value compares the *decoded* bytes;
of an ASCII value the stored bytes; and `Hash` is consistent with `Eq` for both. -/
theorem C08_comparisons (enc : Enc) (a b other : Bytes) :
    (∀ d, B64.decode a = some d → equalsBytes .binary a other = (d == other)) ∧
    equalsBytes .ascii a other = (a == other) ∧
    (valuesEqual enc a b = true → hashKey enc a = hashKey enc b) := by
  refine ⟨?_, rfl, ?_⟩
  · intro d hd; simp [equalsBytes, hd]
  · cases enc with
    | ascii => simp [valuesEqual, hashKey]
    | binary =>
      simp only [valuesEqual, hashKey]
      cases B64.decode a <;> cases B64.decode b <;> simp

/-! ## a status found in an error's `source()` chain -/

/-- **`Status::from_error` / `try_from_error` keep the metadata.** A status with any code,
message, details and metadata, passed boxed directly (`ds = []`) or as the innermost `source()`
under any number of wrapper errors, comes back with the same code, message and details and, for
every name `k`, the same values in the same order. -/
theorem C08_status_from_error_chain_keeps_metadata (st : St) (ds : List Bytes) :
    tryFromError (wrapN ds (.status st)) = some (fromErrorChain (wrapN ds (.status st))) ∧
    (fromErrorChain (wrapN ds (.status st))).code = st.code ∧
    (fromErrorChain (wrapN ds (.status st))).message = st.message ∧
    (fromErrorChain (wrapN ds (.status st))).details = st.details ∧
    ∀ k, HMap.getAll k (fromErrorChain (wrapN ds (.status st))).metadata = HMap.getAll k st.metadata := by
  have hf : ∀ ds : List Bytes, findStatus (wrapN ds (.status st)) = some st := by
    intro ds
    induction ds with
    | nil => cases st; rfl
    | cons d ds ih => simpa [wrapN, findStatus] using ih
  have ht : tryFromError (wrapN ds (.status st)) = some st := by
    cases ds with
    | nil => rfl
    | cons d ds => simpa [wrapN, tryFromError] using hf (d :: ds)
  have hr : fromErrorChain (wrapN ds (.status st)) = st := by
    simp [fromErrorChain, ht]
  rw [hr]
  exact ⟨ht, rfl, rfl, rfl, fun _ => rfl⟩

/-- … and through `RecoverError`: when the inner service fails with such an error the
trailers-only response is the one `Status::into_http` builds for the original status, so it
carries, under every custom name, exactly the status' values in order. -/
theorem C08_recover_error_keeps_metadata (st : St) (ds : List Bytes) (k : Bytes)
    (hk : k ∉ Spec.Metadata.reserved) (hk2 : k ≠ Status.GRPC_STATUS_DETAILS) :
    ∃ h st', recoverError .fixed (wrapN ds (.status st)) = some (.ok h) ∧
      HMap.getAll k h = HMap.getAll k st.metadata ∧
      Status.fromHeaderMap .fixed h = some (.status st') ∧
      HMap.getAll k st'.metadata = HMap.getAll k st.metadata := by
  have ht := (C08_status_from_error_chain_keeps_metadata st ds).1
  have hr : fromErrorChain (wrapN ds (.status st)) = st := by
    have hf : ∀ ds : List Bytes, findStatus (wrapN ds (.status st)) = some st := by
      intro ds
      induction ds with
      | nil => cases st; rfl
      | cons d ds ih => simpa [wrapN, findStatus] using ih
    have ht' : tryFromError (wrapN ds (.status st)) = some st := by
      cases ds with
      | nil => rfl
      | cons d ds => simpa [wrapN, tryFromError] using hf (d :: ds)
    simp [fromErrorChain, ht']
  rw [hr] at ht
  have hct : k ≠ Status.CONTENT_TYPE := by
    intro h; apply hk; rw [h]; decide
  have h0 : HMap.getAll k [(Status.CONTENT_TYPE, GRPC_CONTENT_TYPE)] = [] := by
    simp [HMap.getAll_cons, HMap.getAll_nil, Ne.symm hct]
  obtain ⟨h, st', h1, h2, h3, h4⟩ := C08_preserved_status st [(Status.CONTENT_TYPE, GRPC_CONTENT_TYPE)] k hk hk2 h0
  refine ⟨h, st', ?_, h3, h2, h4⟩
  simp [recoverError, ht, errorResponseWire, h1]

/-! ## unary / client-streaming client: error after response headers -/

/-- **Fails (finding C08-F1).** When a server sends response headers and then an error status in
the trailers, `client::Grpc::client_streaming` (unary calls too) merges the *headers over* the
status' metadata by replacement: a status entry whose name also occurs in the response headers
is lost.  Witness: headers `x-a: 1`, status metadata `x-a: 2` — the caller sees `x-a = [1]`. -/
theorem C08_unary_error_header_collision_fails :
    ¬ ∀ (respmd stmd : HMap) (k : Bytes), k ∉ Spec.Metadata.reserved →
        HMap.getAll k (clientUnaryErrorMetadata respmd stmd) = HMap.getAll k stmd := by
  intro h
  have := h [(HMap.name "x-a", [49])] [(HMap.name "x-a", [50])] (HMap.name "x-a") (by decide)
  revert this
  decide

/-- … and exactly then: under every custom name that does *not* occur in the response
metadata the caller sees the status' values unchanged (under the others, the response's). -/
theorem C08_unary_error_metadata_partial (respmd stmd : HMap) (k : Bytes) (hk : k ∉ Spec.Metadata.reserved) :
    (HMap.hasKey k respmd = false → HMap.getAll k (clientUnaryErrorMetadata respmd stmd) = HMap.getAll k stmd) ∧
    (HMap.hasKey k respmd = true → HMap.getAll k (clientUnaryErrorMetadata respmd stmd) = HMap.getAll k respmd) := by
  have hr := (C08_preserved_response respmd k hk).1
  have hiff : HMap.hasKey k (responseWire respmd) = HMap.hasKey k respmd := by
    by_cases h1 : HMap.hasKey k respmd = true
    · rw [h1]; exact (HMap.hasKey_iff _ _).mpr (by rw [hr]; exact (HMap.hasKey_iff _ _).mp h1)
    · have h1' : HMap.hasKey k respmd = false := by simpa using h1
      rw [h1']
      by_cases h2 : HMap.hasKey k (responseWire respmd) = true
      · have := (HMap.hasKey_iff _ _).mp h2
        rw [hr] at this
        have := (HMap.hasKey_iff _ _).mpr this
        rw [h1'] at this; cases this
      · simpa using h2
  unfold clientUnaryErrorMetadata
  rw [HMap.getAll_extend, hiff, hr]
  constructor <;> intro h <;> simp [h]

/-! ## dimension audit (aC08): OK trailers that carry metadata; `set_timeout` -/

/-- NOT true of the code (finding C08-F3, the success-path twin of C08-F1): a unary /
client-streaming client has ONE metadata map for the response headers and the trailers, and
`parts.merge(trailers)` replaces: a response-header entry whose name also occurs in the trailers
is lost.  Witness: headers `x-a: 1`, OK trailers `x-a: 2` — the caller sees `x-a = [2]`, not
`[1, 2]`. -/
theorem C08_unary_ok_trailer_collision_fails :
    ¬ ∀ (respmd tr : HMap) (k : Bytes), k ∉ Spec.Metadata.reserved →
        HMap.getAll k (clientUnaryOkMetadata respmd tr) = HMap.getAll k respmd ++ HMap.getAll k tr := by
  intro h
  have := h [(HMap.name "x-a", [49])] [(HMap.name "x-a", [50])] (HMap.name "x-a") (by decide)
  revert this
  decide

/-- … and exactly then: under every custom name that does not occur in the trailers the caller
sees the response's values unchanged, under every name of the trailers the trailers' values, in
order — so every trailer entry always arrives, and a response entry is lost only to a trailer
entry of the same name. -/
theorem C08_unary_ok_trailers_partial (respmd tr : HMap) (k : Bytes) (hk : k ∉ Spec.Metadata.reserved) :
    (HMap.hasKey k tr = false → HMap.getAll k (clientUnaryOkMetadata respmd tr) = HMap.getAll k respmd) ∧
    (HMap.hasKey k tr = true → HMap.getAll k (clientUnaryOkMetadata respmd tr) = HMap.getAll k tr) := by
  have hr := (C08_preserved_response respmd k hk).1
  unfold clientUnaryOkMetadata
  rw [HMap.getAll_extend, hr]
  constructor <;> intro h <;> simp [h]

/-- `Request::set_timeout` touches the name `grpc-timeout` only: every other name keeps its values,
whatever the duration and whatever the map (so calling it before or after attaching metadata, or
twice, loses no entry). -/
theorem C08_set_timeout_keeps_other_entries (value : Bytes) (md : HMap) (k : Bytes) (hk : k ≠ HMap.name "grpc-timeout") :
    HMap.getAll k (setTimeout value md) = HMap.getAll k md ∧
    HMap.getAll k (setTimeout value (setTimeout value md)) = HMap.getAll k md := by
  unfold setTimeout
  rw [HMap.getAll_insert_ne _ _ _ _ hk, HMap.getAll_insert_ne _ _ _ _ hk, HMap.getAll_insert_ne _ _ _ _ hk]
  exact ⟨rfl, rfl⟩

/-- The contract of `MetadataMap::merge`, wherever it is used (OK trailers into response headers,
response headers into an error status, request trailers into request headers — also for what a
peer that is not tonic sends): a name of `other` arrives with exactly `other`'s values in order,
every other name keeps its values; no name gains or loses anything else. -/
theorem C08_merge_contract (into other : HMap) (k : Bytes) :
    (HMap.hasKey k other = true → HMap.getAll k (merge into other) = HMap.getAll k other) ∧
    (HMap.hasKey k other = false → HMap.getAll k (merge into other) = HMap.getAll k into) := by
  unfold merge
  rw [HMap.getAll_extend]
  constructor <;> intro h <;> simp [h]

/-! ## non-vacuity -/

example : Spec.Metadata.isBinName (HMap.name "x-trace-bin") = true ∧ Spec.Metadata.isBinName (HMap.name "x-bin-x") = false ∧
    Spec.Metadata.isBinName (HMap.name "bin") = false := by decide
example : HMap.normName (HMap.name "Foo-BIN") = some (HMap.name "foo-bin") ∧ HMap.normName (HMap.name "a b") = none := by decide
/- a typed build with a repeated key, a binary value of length 1 (mod 3), a reserved name and a
rejected key; its request wire form -/
example :
    requestWire (buildTyped .fixed
      [(.ascii, HMap.name "X-A", [49]), (.binary, HMap.name "k-bin", [255]), (.ascii, HMap.name "te", [120]),
       (.ascii, HMap.name "x-a", [50]), (.ascii, HMap.name "k-bin", [51])]) =
    [(HMap.name "x-a", [49]), (HMap.name "k-bin", HMap.name "/w"), (HMap.name "x-a", [50]),
     (HMap.name "te", HMap.name "trailers"), (HMap.name "content-type", HMap.name "application/grpc")] := by decide
/- stored names are normalised; a custom name is absent from the blocks a status is written into -/
example : HMap.normName (HMap.name "x-a-bin") = some (HMap.name "x-a-bin") ∧
    HMap.getAll (HMap.name "x-a") [(Status.CONTENT_TYPE, GRPC_CONTENT_TYPE)] = [] ∧
    HMap.name "x-a" ≠ Status.GRPC_STATUS_DETAILS := by decide
/- the pinned-tree witness, and what the repaired tree answers -/
example : get .orig .ascii (HMap.name "foo-BIN") [(HMap.name "foo-bin", HMap.name "AAEC")] = some (HMap.name "AAEC") ∧
    get .fixed .ascii (HMap.name "foo-BIN") [(HMap.name "foo-bin", HMap.name "AAEC")] = none ∧
    get .fixed .binary (HMap.name "foo-BIN") [(HMap.name "foo-bin", HMap.name "AAEC")] = some (HMap.name "AAEC") := by decide
example : (HMap.name "x-a") ∉ Spec.Metadata.reserved ∧ (HMap.name "grpc-status") ∈ Spec.Metadata.reserved := by decide
/- the insert_entry witness on the repaired model: the handle is typed Binary, the raw bytes given to
`append` are base64-coded like any other binary value, and both values decode -/
example : typedView .fixed (finalMap (run .fixed .fixed insertEntryWitness []) []) =
    [(Enc.binary, HMap.name "x-bin", some [0, 1, 2]), (Enc.binary, HMap.name "x-bin", some (HMap.name "not base64!"))] := by decide
/- a status three wrappers deep -/
example : (fromErrorChain (wrapN [[97], [98], [99]] (.status
    { code := .notFound, message := [109], details := [1], metadata := [(HMap.name "x-a", [49]), (HMap.name "x-a", [50])] }))).metadata =
    [(HMap.name "x-a", [49]), (HMap.name "x-a", [50])] := by decide
/- an error without a status in its chain -/
example : tryFromError (.wrap [97] (.leaf [98])) = none ∧ (fromErrorChain (.wrap [97] (.leaf [98]))).message = [97] := by decide

end C08
