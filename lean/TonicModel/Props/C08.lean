import TonicModel.Model.Metadata
import TonicModel.Spec.Metadata
import TonicModel.Lemmas.Metadata
import TonicModel.Lemmas.Status
/-
C08 — User metadata crosses the wire intact; protocol headers cannot be forged.
Property theorems only; helper lemmas live in `Lemmas/Metadata.lean`, `Lemmas/Status.lean`, `Basic/*`.
`Variant.fixed` = pinned tree + fixes/fix-C08-bin-suffix-case.patch (+ the C04/C12 status patches);
`Variant.orig` = pinned tree, for which the `_fails` witness is proved.
-/
set_option linter.unusedSimpArgs false

namespace C08
open Metadata
open Status (Variant St)

/-! ## binary values -/

/-- **Binary round trip.** Every byte string (every length mod 3) is stored as unpadded
standard base64 — a legal header value without `=` — and is restored to the original bytes from
that form *and* from the padded form a peer may send instead. -/
theorem C08_binary_roundtrip (b : Bytes) :
    valueFromBytes .binary b = some (B64.encode false b) ∧
    HMap.legalValue (B64.encode false b) = true ∧
    Spec.Metadata.carriesBinary (B64.encode false b) b = true ∧
    (∀ pad, valueToBytes .binary (B64.encode pad b) = some b) := by
  refine ⟨rfl, Status.b64_encode_legal false b, ?_, ?_⟩
  · simp [Spec.Metadata.carriesBinary, B64.decode_encode]
  · intro pad; simp [valueToBytes, B64.decode_encode]

/-- ASCII values are stored and returned verbatim, and are accepted iff they are legal header
values. -/
theorem C08_ascii_verbatim (b : Bytes) :
    (HMap.legalValue b = true → valueFromBytes .ascii b = some b ∧ valueToBytes .ascii b = some b) ∧
    (HMap.legalValue b = false → valueFromBytes .ascii b = none) := by
  constructor <;> intro h <;> simp [valueFromBytes, valueToBytes, h]

/-! ## keys and categories -/

/-- A typed key is accepted exactly when it is a header name whose (normalised, lower-case)
form has the `-bin` suffix iff the key is a binary key — however the caller spelled it. -/
theorem C08_key_category (enc : Enc) (src : Bytes) :
    keyFromBytes .fixed enc src =
      match HMap.normName src with
      | none => none
      | some n => if (enc == Enc.binary) == Spec.Metadata.isBinName n then some n else none := by
  unfold keyFromBytes
  cases h : HMap.normName src with
  | none => rfl
  | some n =>
    -- the stored name is lower-case, so the suffix test on it is the spec's
    have hlow := normName_lower src n h
    have hb : isBinKey .fixed n = Spec.Metadata.isBinName n := by
      unfold isBinKey
      simp only []
      rw [hlow, map_toLower_idem, ← hlow, endsWith_bin_iff]
    cases enc <;> simp only [validKey, hb] <;> by_cases hx : Spec.Metadata.isBinName n = true <;> simp [hx]

/-- the stored name `n` belongs to the accessor family `enc` (`get…` for ASCII, `get…_bin` for
binary): it ends in `-bin` iff the family is the binary one -/
def ownCategory (enc : Enc) (n : Bytes) : Bool := (enc == Enc.binary) == Spec.Metadata.isBinName n

/-- **No miscategorisation, accessors (repaired tree).** For every map and every lookup string
(any spelling, valid header name or not), each typed accessor behaves as the spec demands: it
looks at the entries stored under the normalised name, and returns them only if the *stored*
name's category is the accessor's own — `get`/`get_all`/`remove` never yield a `-bin` entry,
`get_bin`/`get_all_bin`/`remove_bin` never yield anything else; a key of the wrong category or
one that is not a header name yields nothing and removes nothing. -/
theorem C08_accessors_by_stored_name (enc : Enc) (ks : Bytes) (m : HMap) :
    get .fixed enc ks m = (match HMap.normName ks with
      | some n => if ownCategory enc n then HMap.get n m else none
      | none => none) ∧
    getAll .fixed enc ks m = (match HMap.normName ks with
      | some n => if ownCategory enc n then HMap.getAll n m else []
      | none => []) ∧
    remove .fixed enc ks m = (match HMap.normName ks with
      | some n => if ownCategory enc n then (HMap.get n m, HMap.remove n m) else (none, m)
      | none => (none, m)) := by
  unfold Metadata.get Metadata.getAll Metadata.remove
  cases h : HMap.normName ks with
  | none => simp
  | some n =>
    have hb := isBinKey_fixed_norm ks n h
    cases enc <;> simp only [validKey, hb, ownCategory] <;> by_cases hx : Spec.Metadata.isBinName n = true <;> simp [hx]

/-- The same for the write side: `entry(key)` / `entry_bin(key)` with a `&str` key hands out an
entry (and possibly inserts) only when the *stored* name's category is its own; otherwise, and
for strings that are not header names, it fails and the map is unchanged. -/
theorem C08_entry_by_stored_name (enc : Enc) (ks val : Bytes) (m : HMap) :
    match (entryOrInsert .fixed enc ks val m).1 with
    | .entry _ => ∃ n, HMap.normName ks = some n ∧ ownCategory enc n = true
    | _ => (entryOrInsert .fixed enc ks val m).2 = m := by
  unfold entryOrInsert
  cases h : HMap.normName ks with
  | none => by_cases hv : validKey .fixed enc ks = true <;> simp [hv]
  | some n =>
    have hb := isBinKey_fixed_norm ks n h
    have hown : validKey .fixed enc ks = ownCategory enc n := by
      cases enc <;> simp only [validKey, hb, ownCategory] <;>
        by_cases hx : Spec.Metadata.isBinName n = true <;> simp [hx]
    by_cases hv : validKey .fixed enc ks = true
    · simp only [hv, Bool.not_true, Bool.false_eq_true, if_false]
      cases valueFromBytes enc val with
      | none => simp
      | some w =>
        cases HMap.get n m with
        | none => exact ⟨n, rfl, by rw [← hown]; exact hv⟩
        | some cur => exact ⟨n, rfl, by rw [← hown]; exact hv⟩
    · simp [hv]

/-- On the pinned tree as found this fails: `get("foo-BIN")` returns the binary entry stored
under `foo-bin`, typed as ASCII. -/
theorem C08_accessors_unfixed_fails :
    ¬ ∀ (ks : Bytes) (m : HMap) (w n : Bytes), get .orig .ascii ks m = some w →
        HMap.normName ks = some n → Spec.Metadata.isBinName n = false := by
  intro hall
  have := hall (HMap.name "foo-BIN") [(HMap.name "foo-bin", HMap.name "AAEC")] (HMap.name "AAEC")
    (HMap.name "foo-bin") (by decide) (by decide)
  revert this; decide

/-- … and only for keys not spelled in lower case: for a lower-case key the pinned tree and the
repaired tree agree. -/
theorem C08_accessors_partial (enc : Enc) (ks : Bytes) (m : HMap) (hlow : HMap.normName ks = some ks) :
    get .orig enc ks m = get .fixed enc ks m ∧ getAll .orig enc ks m = getAll .fixed enc ks m ∧
    remove .orig enc ks m = remove .fixed enc ks m := by
  have h1 := isBinKey_orig_lower ks
  have h2 := isBinKey_fixed_norm ks ks hlow
  unfold Metadata.get Metadata.getAll Metadata.remove validKey
  cases enc <;> simp only [h1, h2] <;> simp

/-- **No miscategorisation, iterators.** For every map whose names are stored normalised (as
`HeaderMap` stores them), `iter()` (and `keys()`, `values()`, which use the same test) presents
each entry, with its own name and value, as `Binary` iff its name ends in `-bin`; nothing is
dropped, duplicated or reordered. -/
theorem C08_iter_by_stored_name (m : HMap) (hwf : ∀ e ∈ m, HMap.normName e.1 = some e.1) :
    iter .fixed m = m.map (fun e =>
      (if Spec.Metadata.isBinName e.1 then Enc.binary else Enc.ascii, e.1, e.2)) := by
  unfold iter
  apply List.map_congr_left
  intro e he
  have hb := isBinKey_fixed_stored e.1 (hwf e he)
  simp only [validKey, hb]
  by_cases hx : Spec.Metadata.isBinName e.1 = true <;> simp [hx]

/-! ## preservation on the wire -/

/-- **Requests.** Every non-reserved name of the caller's metadata is on the wire with exactly
its values in order (and this is the metadata the server-side handler is given). -/
theorem C08_preserved_request (md : HMap) (k : Bytes) (hk : k ∉ Spec.Metadata.reserved) :
    HMap.getAll k (requestWire md) = HMap.getAll k md := by
  have hk' : k ∉ Status.reservedHeaders := fun h => hk ((mem_reserved_iff k).mpr h)
  have h1 : k ≠ Status.CONTENT_TYPE := by intro h; apply hk'; rw [h]; decide
  have h2 : k ≠ Status.TE := by intro h; apply hk'; rw [h]; decide
  unfold requestWire
  rw [HMap.getAll_insert_ne _ _ _ _ h1, HMap.getAll_insert_ne _ _ _ _ h2, Status.getAll_sanitize]
  simp [hk']

/-- **Responses.** Likewise for the handler's response metadata, both in the response headers
and in what a unary client returns to its caller (headers merged with the trailers). -/
theorem C08_preserved_response (md : HMap) (k : Bytes) (hk : k ∉ Spec.Metadata.reserved) :
    HMap.getAll k (responseWire md) = HMap.getAll k md ∧
    HMap.getAll k (clientUnaryMetadata md) = HMap.getAll k md := by
  have hk' : k ∉ Status.reservedHeaders := fun h => hk ((mem_reserved_iff k).mpr h)
  have h1 : k ≠ Status.CONTENT_TYPE := by intro h; apply hk'; rw [h]; decide
  have h3 : k ≠ Status.GRPC_STATUS := by intro h; apply hk'; rw [h]; decide
  have hr : HMap.getAll k (responseWire md) = HMap.getAll k md := by
    unfold responseWire
    rw [HMap.getAll_insert_ne _ _ _ _ h1, Status.getAll_sanitize]
    simp [hk']
  refine ⟨hr, ?_⟩
  unfold clientUnaryMetadata
  rw [HMap.getAll_extend]
  have : HMap.hasKey k okTrailers = false := by
    simp [okTrailers, HMap.hasKey, Ne.symm h3]
  simp [this, hr]

/-- **Trailers and error statuses.** For a status written as trailers (`h0 = []`) or as a
trailers-only response (`h0 = [content-type]`) — any block `h0` without custom entries of its
own — the peer reads back a status whose metadata has, under every custom name (not reserved,
not `grpc-status-details-bin`), exactly the original values in order. -/
theorem C08_preserved_status (st : St) (h0 : HMap) (k : Bytes)
    (hk : k ∉ Spec.Metadata.reserved) (hk2 : k ≠ Status.GRPC_STATUS_DETAILS)
    (h0k : HMap.getAll k h0 = []) :
    ∃ h st', Status.addHeader .fixed st h0 = .ok h ∧ Status.fromHeaderMap .fixed h = some (.status st') ∧
      HMap.getAll k h = HMap.getAll k st.metadata ∧
      HMap.getAll k st'.metadata = HMap.getAll k st.metadata := by
  have hk' : k ∉ Status.reservedHeaders := fun h => hk ((mem_reserved_iff k).mpr h)
  have n1 : k ≠ Status.GRPC_STATUS := by intro h; apply hk'; rw [h]; decide
  have n2 : k ≠ Status.GRPC_MESSAGE := by intro h; apply hk'; rw [h]; decide
  have hc : Status.isCustom k = true := by
    simp [Status.isCustom, hk', hk2]
  have hw := Status.addHeader_eq .fixed st h0
  have g := Status.getAll_wire st h0
  have gS := g Status.GRPC_STATUS
  simp only [if_true] at gS
  have hget : HMap.get Status.GRPC_STATUS (Status.wire .fixed st h0) = some st.code.headerValue := by
    simp [HMap.get, gS]
  obtain ⟨st', hr, hmeta⟩ := Status.fromHeaderMap_fixed_status _ _ hget
  have gk : HMap.getAll k (Status.wire .fixed st h0) = HMap.getAll k st.metadata := by
    rw [g k]
    simp only [n1, n2, hk2, if_false, false_and, hc, true_and]
    by_cases hg : HMap.getAll k st.metadata = []
    · simp [hg, h0k]
    · simp [hg]
  refine ⟨_, st', hw, hr, gk, ?_⟩
  rw [hmeta, Status.getAll_stripStatus]
  simp [n1, n2, hk2, gk]

/-! ## reserved names cannot be forged -/

/-- **Requests and responses.** Under each of the six reserved names the wire carries exactly
what the protocol itself puts there — `te: trailers` and `content-type: application/grpc` on a
request, `content-type: application/grpc` on a response, nothing else — whatever the user
metadata contains, in any position. -/
theorem C08_reserved_never_emitted (md : HMap) (r : Bytes) (hr : r ∈ Spec.Metadata.reserved) :
    HMap.getAll r (requestWire md) =
      HMap.getAll r [(HMap.name "te", HMap.name "trailers"), (HMap.name "content-type", HMap.name "application/grpc")] ∧
    HMap.getAll r (responseWire md) =
      HMap.getAll r [(HMap.name "content-type", HMap.name "application/grpc")] := by
  have hr' : r ∈ Status.reservedHeaders := (mem_reserved_iff r).mp hr
  have hs : HMap.getAll r (Status.sanitize md) = [] := by rw [Status.getAll_sanitize]; simp [hr']
  have ct : Status.CONTENT_TYPE = HMap.name "content-type" := rfl
  have te : Status.TE = HMap.name "te" := rfl
  have tr : TRAILERS = HMap.name "trailers" := rfl
  have ag : GRPC_CONTENT_TYPE = HMap.name "application/grpc" := rfl
  have tect : HMap.name "te" ≠ HMap.name "content-type" := by decide
  unfold requestWire responseWire
  rw [ct, te, tr, ag]
  by_cases h1 : r = HMap.name "content-type"
  · subst h1
    simp [HMap.getAll_insert_self, HMap.getAll_cons, HMap.getAll_nil, tect]
  · by_cases h2 : r = HMap.name "te"
    · subst h2
      rw [HMap.getAll_insert_ne _ _ _ _ h1, HMap.getAll_insert_self, HMap.getAll_insert_ne _ _ _ _ h1]
      simp [HMap.getAll_cons, HMap.getAll_nil, tect.symm, hs, tect]
    · rw [HMap.getAll_insert_ne _ _ _ _ h1, HMap.getAll_insert_ne _ _ _ _ h2, HMap.getAll_insert_ne _ _ _ _ h1, hs]
      simp [HMap.getAll_cons, HMap.getAll_nil, Ne.symm h1, Ne.symm h2]

/-- **Statuses.** What a status block carries under a reserved name does not depend on the
status' metadata at all: two statuses that differ only in their metadata produce the same
values under every reserved name (the code's decimal under `grpc-status`, the encoded message
under `grpc-message`, otherwise what the block held before). -/
theorem C08_status_reserved_independent (st : St) (md' : HMap) (h0 : HMap) (r : Bytes)
    (hr : r ∈ Spec.Metadata.reserved) :
    HMap.getAll r (Status.wire .fixed st h0) = HMap.getAll r (Status.wire .fixed { st with metadata := md' } h0) := by
  have hr' : r ∈ Status.reservedHeaders := (mem_reserved_iff r).mp hr
  have hc : Status.isCustom r = false := by simp [Status.isCustom, hr']
  rw [Status.getAll_wire, Status.getAll_wire]
  simp [hc]

/-! ## typed entries end to end -/

/-- A map built with the typed API is exactly the accepted entries under their normalised
names, in call order: nothing is merged, reordered or re-encoded. -/
theorem C08_typed_build (es : List (Enc × Bytes × Bytes)) :
    buildTyped .fixed es = es.filterMap (storedEntry .fixed) :=
  buildTyped_eq .fixed es

/-- what a receiver's typed view must show under name `n` for the typed entries `es` a sender
attached: the accepted entries of that name in call order, each in its own category with its
original bytes (ASCII verbatim, binary restored) -/
def expectedUnder (es : List (Enc × Bytes × Bytes)) (n : Bytes) : List (Enc × Option Bytes) :=
  es.filterMap (fun e => match storedEntry .fixed e with
    | some (k, _) => if k = n then some (e.1, some e.2.2) else none
    | none => none)

/-- the rows of a typed view (`iter()` + `to_bytes()`) under name `n`, in order -/
def viewUnder (m : HMap) (n : Bytes) : List (Enc × Option Bytes) :=
  (typedView .fixed m).filterMap (fun r => if r.2.1 = n then some (r.1, r.2.2) else none)

private theorem built_rows (es : List (Enc × Bytes × Bytes)) (n : Bytes) :
    (HMap.getAll n (es.filterMap (storedEntry .fixed))).map (fun w =>
        let enc := if validKey .fixed .ascii n then Enc.ascii else Enc.binary
        (enc, valueToBytes enc w)) = expectedUnder es n := by
  unfold expectedUnder
  induction es with
  | nil => simp [HMap.getAll_nil]
  | cons e es ih =>
    rw [List.filterMap_cons, List.filterMap_cons]
    cases hs : storedEntry .fixed e with
    | none => simp only []; exact ih
    | some kw =>
      obtain ⟨k, w⟩ := kw
      simp only []
      rw [HMap.getAll_cons]
      by_cases hk : k = n
      · subst hk
        simp only [if_true, List.map_cons, ih]
        unfold storedEntry at hs
        cases hkey : keyFromBytes .fixed e.1 e.2.1 with
        | none => simp [hkey] at hs
        | some k' =>
          cases hval : valueFromBytes e.1 e.2.2 with
          | none => simp [hkey, hval] at hs
          | some w' =>
            simp only [hkey, hval, Option.some.injEq, Prod.mk.injEq] at hs
            obtain ⟨rfl, rfl⟩ := hs
            have hvk : validKey .fixed e.1 k' = true := by
              unfold keyFromBytes at hkey
              split at hkey
              · cases hkey
              · split at hkey
                · rename_i h; cases hkey; exact h
                · cases hkey
            congr 1
            cases he : e.1 with
            | ascii =>
              rw [he] at hvk hval
              have : validKey .fixed .ascii k' = true := hvk
              simp only [this, if_true]
              simp only [valueFromBytes] at hval
              split at hval
              · cases hval; simp [valueToBytes]
              · cases hval
            | binary =>
              rw [he] at hvk hval
              have hb : isBinKey .fixed k' = true := hvk
              have : validKey .fixed .ascii k' = false := by simp [validKey, hb]
              simp only [this, Bool.false_eq_true, if_false]
              simp only [valueFromBytes, Option.some.injEq] at hval
              subst hval
              simp [valueToBytes, B64.decode_encode]
      · simp only [hk, if_false]; exact ih

/-- core of the end-to-end theorems: any received map that has, under `n`, the values the
typed build has under `n`, shows exactly the sender's entries of that name -/
private theorem view_of_built (es : List (Enc × Bytes × Bytes)) (n : Bytes) (m : HMap)
    (hm : HMap.getAll n m = HMap.getAll n (buildTyped .fixed es)) :
    viewUnder m n = expectedUnder es n := by
  unfold viewUnder
  rw [typedView_of_name, hm, buildTyped_eq]
  exact built_rows es n

/-- **End to end, request direction.** For every list of typed entries a caller attaches and
every non-reserved name `n`: what the server-side typed view (`iter()` + `to_bytes()`) shows under
`n` is exactly the accepted entries of that name in call order, in the category of the name, with
ASCII values verbatim and binary values restored to the original bytes. -/
theorem C08_request_end_to_end (es : List (Enc × Bytes × Bytes)) (n : Bytes)
    (hn : n ∉ Spec.Metadata.reserved) :
    viewUnder (requestWire (buildTyped .fixed es)) n = expectedUnder es n :=
  view_of_built es n _ (C08_preserved_request _ _ hn)

/-- **End to end, response direction.** Likewise for the entries a handler attaches to its
response, as seen by the client in the response headers and in what a unary call returns. -/
theorem C08_response_end_to_end (es : List (Enc × Bytes × Bytes)) (n : Bytes)
    (hn : n ∉ Spec.Metadata.reserved) :
    viewUnder (responseWire (buildTyped .fixed es)) n = expectedUnder es n ∧
    viewUnder (clientUnaryMetadata (buildTyped .fixed es)) n = expectedUnder es n :=
  ⟨view_of_built es n _ (C08_preserved_response _ _ hn).1, view_of_built es n _ (C08_preserved_response _ _ hn).2⟩

/-- **End to end, error statuses and trailers.** Likewise for the entries attached to a
`Status` (any code, message, details), whether it travels as trailers (`h0 = []`) or as a
trailers-only response (`h0 = [content-type]`): the status the client obtains shows them under
every custom name. -/
theorem C08_status_end_to_end (code : Status.Code) (msg det : Bytes) (es : List (Enc × Bytes × Bytes))
    (h0 : HMap) (n : Bytes) (hn : n ∉ Spec.Metadata.reserved) (hn2 : n ≠ Status.GRPC_STATUS_DETAILS)
    (h0n : HMap.getAll n h0 = []) :
    ∃ h st', Status.addHeader .fixed
        { code := code, message := msg, details := det, metadata := buildTyped .fixed es } h0 = .ok h ∧
      Status.fromHeaderMap .fixed h = some (.status st') ∧
      viewUnder st'.metadata n = expectedUnder es n := by
  obtain ⟨h, st', h1, h2, _, h4⟩ := C08_preserved_status
    { code := code, message := msg, details := det, metadata := buildTyped .fixed es } h0 n hn hn2 h0n
  exact ⟨h, st', h1, h2, view_of_built es n _ h4⟩

/-- … and when the peer pads the base64 of a binary entry, the receiver's view is the same:
decoding is indifferent to padding. -/
theorem C08_padding_indifferent (n b : Bytes) (pad : Bool) (hb : Spec.Metadata.isBinName n = true)
    (hwf : HMap.normName n = some n) :
    typedView .fixed [(n, B64.encode pad b)] = [(Enc.binary, n, some b)] := by
  have h := isBinKey_fixed_stored n hwf
  simp [typedView, iter, validKey, h, hb, valueToBytes, B64.decode_encode]

/-! ## non-vacuity -/

example : Spec.Metadata.isBinName (HMap.name "x-trace-bin") = true ∧ Spec.Metadata.isBinName (HMap.name "x-bin-x") = false ∧
    Spec.Metadata.isBinName (HMap.name "bin") = false := by decide
example : HMap.normName (HMap.name "Foo-BIN") = some (HMap.name "foo-bin") ∧ HMap.normName (HMap.name "a b") = none := by decide
/- a typed build with a repeated key, a binary value of length 1 (mod 3), a reserved name and a
rejected key; its request wire form -/
example :
    requestWire (buildTyped .fixed
      [(.ascii, HMap.name "X-A", [49]), (.binary, HMap.name "k-bin", [255]), (.ascii, HMap.name "te", [120]),
       (.ascii, HMap.name "x-a", [50]), (.ascii, HMap.name "k-bin", [51])]) =
    [(HMap.name "x-a", [49]), (HMap.name "k-bin", HMap.name "/w"), (HMap.name "x-a", [50]),
     (HMap.name "te", HMap.name "trailers"), (HMap.name "content-type", HMap.name "application/grpc")] := by decide
/- stored names are normalised; a custom name is absent from the blocks a status is written into -/
example : HMap.normName (HMap.name "x-a-bin") = some (HMap.name "x-a-bin") ∧
    HMap.getAll (HMap.name "x-a") [(Status.CONTENT_TYPE, GRPC_CONTENT_TYPE)] = [] ∧
    HMap.name "x-a" ≠ Status.GRPC_STATUS_DETAILS := by decide
/- the pinned-tree witness, and what the repaired tree answers -/
example : get .orig .ascii (HMap.name "foo-BIN") [(HMap.name "foo-bin", HMap.name "AAEC")] = some (HMap.name "AAEC") ∧
    get .fixed .ascii (HMap.name "foo-BIN") [(HMap.name "foo-bin", HMap.name "AAEC")] = none ∧
    get .fixed .binary (HMap.name "foo-BIN") [(HMap.name "foo-bin", HMap.name "AAEC")] = some (HMap.name "AAEC") := by decide
example : (HMap.name "x-a") ∉ Spec.Metadata.reserved ∧ (HMap.name "grpc-status") ∈ Spec.Metadata.reserved := by decide

end C08
