import TonicModel.Lemmas.FramingWire
/-
C06 — Message size limits are enforced exactly and without collateral loss.
-/
namespace C06
open Framing Spec.Framing
variable {α : Type}

/-- **Outgoing limit, exactly.**  A message the encoder could serialize is refused iff its
on-the-wire payload is over the configured limit (OUT_OF_RANGE) or, failing that, over 2^32−1
bytes (RESOURCE_EXHAUSTED); otherwise it is framed.  A message `Encoder::encode` itself fails on
is refused with INTERNAL whatever its size. -/
theorem C06_encode_limit (cd : Codec α) (cfg : EncCfg) (m : α) :
    let len := (Framing.payload cd cfg m).length
    (encodeErr cd cfg m = some ⟨13, .encode⟩ ↔ cd.serFail m = true) ∧
    (encodeErr cd cfg m = some ⟨11, .tooLargeEnc⟩ ↔ cd.serFail m = false ∧ ∃ l, cfg.maxSize = some l ∧ len > l) ∧
    (encodeErr cd cfg m = some ⟨8, .over4G⟩ ↔
      cd.serFail m = false ∧ (∀ l, cfg.maxSize = some l → len ≤ l) ∧ len > u32Max) ∧
    (encodeErr cd cfg m = none ↔ cd.serFail m = false ∧ (∀ l, cfg.maxSize = some l → len ≤ l) ∧ len ≤ u32Max) := by
  simp only [encodeErr]
  cases hsf : cd.serFail m with
  | true => simp
  | false =>
    simp only [Bool.false_eq_true, ↓reduceIte, true_and]
    refine ⟨by cases cfg.maxSize <;> simp <;> split <;> simp, ?_⟩
    cases cfg.maxSize with
    | none =>
      by_cases h : (Framing.payload cd cfg m).length > u32Max <;> simp [h] <;> omega
    | some l =>
      by_cases h1 : (Framing.payload cd cfg m).length > l
      · simp [h1]; omega
      · by_cases h2 : (Framing.payload cd cfg m).length > u32Max <;> simp [h1, h2] <;> omega

/-- **No collateral loss (server).**  For every schedule of the message source — messages,
`Pending`s, source errors, oversized messages at any position — the response body delivers
every message produced before the first failure, whole and in order, then exactly one trailers
frame carrying that failure's status (OK if there was none), and nothing afterwards.  Nothing
of the refused message is sent. -/
theorem C06_no_collateral_loss_server (cd : Codec α) (cfg : EncCfg) (hs : cfg.server = true)
    (evs : List (SrcEv α)) (n : Nat) (hn : evs.length + 1 < n) :
    ∃ pre, Enc.run cd cfg n Enc.init evs
        = pre ++ [.trailers ((finalSt cd cfg evs).getD St.okSt)] ++ List.replicate (n - pre.length - 1) .none ∧
      (∀ o ∈ pre, GoodChunk cd cfg o) ∧
      dataConcat pre = framesOf cd cfg (okPrefix cd cfg evs) := by
  obtain ⟨pre, hrun, hgood, hdata, _⟩ := run_server cd cfg hs n none evs (by simp; omega)
  exact ⟨pre, by simpa [Enc.init, owedSt] using hrun, hgood, by simpa [owedData] using hdata⟩

/-- **No collateral loss (client).**  The request body delivers every message produced before
the first failure and then fails with that status; without a failure it ends cleanly. -/
theorem C06_no_collateral_loss_client (cd : Codec α) (cfg : EncCfg) (hs : cfg.server = false)
    (evs : List (SrcEv α)) (n : Nat) (hn : evs.length + 1 < n) :
    ∃ pre, (∀ o ∈ pre, GoodChunk cd cfg o) ∧ dataConcat pre = framesOf cd cfg (okPrefix cd cfg evs) ∧
      match finalSt cd cfg evs with
      | some st => ∃ post, Enc.run cd cfg n Enc.init evs = pre ++ .err st :: post
      | none => Enc.run cd cfg n Enc.init evs = pre ++ List.replicate (n - pre.length) .none := by
  obtain ⟨pre, hgood, hdata, _, hrun⟩ := run_client cd cfg hs n none evs (by simp; omega)
  refine ⟨pre, hgood, by simpa [owedData] using hdata, ?_⟩
  simp only [owedSt] at hrun
  cases hf : finalSt cd cfg evs with
  | some st => rw [hf] at hrun; exact hrun
  | none => rw [hf] at hrun; exact hrun

/-- **Incoming limit: refused as soon as the length prefix has been read.**  With a 5-byte
prefix in the buffer whose flag is acceptable and whose declared length exceeds the limit, the
very same `decode_chunk` call fails with OUT_OF_RANGE — whatever follows the prefix, even
nothing (no payload byte is waited for, and the model's `body` phase, where the code reserves
`len` bytes, is never entered). -/
theorem C06_oversize_refused_at_prefix (cd : Codec α) (cfg : DecCfg) (f a b c d : UInt8) (rest : Bytes)
    (tr : Option Tr) (hf : f = 0 ∨ (f = 1 ∧ cfg.enc.isSome)) (hover : readU32 a b c d > cfg.limit) :
    Dec.decodeChunk cd cfg ⟨f :: a :: b :: c :: d :: rest, .hdr, tr⟩
      = (⟨rest, .hdr, tr⟩, .fail ⟨11, .tooLargeDec⟩) := by
  rcases hf with rfl | ⟨rfl, he⟩
  · simp [Dec.decodeChunk, hover]
  · cases hc : cfg.enc with
    | none => simp [hc] at he
    | some e => simp [Dec.decodeChunk, hc, hover]

/-- **Incoming limit: accepted iff within the limit.**  With an acceptable flag, a declared
length within the limit is never refused for its size: the decoder waits for the payload
(`more`), yields the message, or reports a payload problem — never OUT_OF_RANGE. -/
theorem C06_within_limit_not_refused (cd : Codec α) (cfg : DecCfg) (f a b c d : UInt8) (rest : Bytes)
    (tr : Option Tr) (hf : f = 0 ∨ (f = 1 ∧ cfg.enc.isSome)) (hfit : readU32 a b c d ≤ cfg.limit) :
    (Dec.decodeChunk cd cfg ⟨f :: a :: b :: c :: d :: rest, .hdr, tr⟩).2 ≠ .fail ⟨11, .tooLargeDec⟩ := by
  have hn : ¬ readU32 a b c d > cfg.limit := by omega
  have key : ∀ comp, (Dec.readBody cd ⟨rest, .hdr, tr⟩ (readU32 a b c d) comp).2 ≠ .fail ⟨11, .tooLargeDec⟩ := by
    intro comp
    unfold Dec.readBody
    split
    · simp
    · cases comp with
      | none => dsimp only; split <;> simp
      | some e =>
        dsimp only
        split
        · simp
        · split <;> simp
  rcases hf with rfl | ⟨rfl, he⟩
  · simpa [Dec.decodeChunk, hn] using key none
  · cases hc : cfg.enc with
    | none => simp [hc] at he
    | some e => simpa [Dec.decodeChunk, hc, hn] using key (some e)

/-- **Incoming limit, end to end.**  For any chunking and readiness pattern, the messages a
stream yields are a prefix of the reference decoding, whose `header` judgement refuses a frame
for its size iff its declared length exceeds the limit (4 MiB by default). -/
theorem C06_decode_exact (cd : Codec α) (cfg : DecCfg) (flag : UInt8) (len : Nat)
    (hf : flag = 0 ∨ (flag = 1 ∧ cfg.enc.isSome)) :
    (header (recvOf cd cfg) flag len = .error .tooLarge ↔ len > cfg.maxSize.getD (4 * 1024 * 1024)) := by
  rcases hf with rfl | ⟨rfl, he⟩
  · simp only [header, recvOf, DecCfg.limit, defaultMaxRecv, ↓reduceIte]
    by_cases h : len > cfg.maxSize.getD (4 * 1024 * 1024) <;> simp [h]
  · simp only [header, recvOf, DecCfg.limit, defaultMaxRecv, he, ↓reduceIte]
    by_cases h : len > cfg.maxSize.getD (4 * 1024 * 1024) <;> simp [h]

/- Non-vacuity: the DESIGN §5.1 witness — [3 B, 3 B, 100 B] against a limit of 10. -/
def idCodec : Codec Bytes := { ser := id, de := some, deErr := 13, cz := fun _ b => b, dz := fun _ b => some b }

example :
    let cfg : EncCfg := { comp := none, yieldThr := 32768, maxSize := some 10, server := true }
    let evs : List (SrcEv Bytes) := [.item [1, 2, 3], .item [4, 5, 6], .item (List.replicate 100 7)]
    okPrefix idCodec cfg evs = [[1, 2, 3], [4, 5, 6]] ∧ finalSt idCodec cfg evs = some ⟨11, .tooLargeEnc⟩ := by
  decide

end C06
