import TonicModel.Lemmas.FramingWire
import TonicModel.Lemmas.FramingDecLimit
import TonicModel.Lemmas.FramingReserve
import TonicModel.Lemmas.LimitCfg
import TonicModel.Lemmas.FramingEncAfter
/-
C06 — Message size limits are enforced exactly and without collateral loss.
-/
namespace C06
open Framing Spec.Framing
variable {α : Type}

/-- **Outgoing limit, exactly.**  A message the encoder could serialize is refused iff its
on-the-wire payload is over the configured limit (OUT_OF_RANGE) or, failing that, over 2^32−1
bytes (RESOURCE_EXHAUSTED); otherwise it is framed.  A message `Encoder::encode` itself fails on
is refused with INTERNAL whatever its size. -/
theorem C06_encode_limit (cd : Codec α) (cfg : EncCfg) (m : α) :
    let len := (Framing.payload cd cfg m).length
    (encodeErr cd cfg m = some ⟨13, .encode⟩ ↔ cd.serFail m = true) ∧
    (encodeErr cd cfg m = some ⟨11, .tooLargeEnc⟩ ↔ cd.serFail m = false ∧ ∃ l, cfg.maxSize = some l ∧ len > l) ∧
    (encodeErr cd cfg m = some ⟨8, .over4G⟩ ↔
      cd.serFail m = false ∧ (∀ l, cfg.maxSize = some l → len ≤ l) ∧ len > u32Max) ∧
    (encodeErr cd cfg m = none ↔ cd.serFail m = false ∧ (∀ l, cfg.maxSize = some l → len ≤ l) ∧ len ≤ u32Max) := by
  simp only [encodeErr]
  cases hsf : cd.serFail m with
  | true => simp
  | false =>
    simp only [Bool.false_eq_true, ↓reduceIte, true_and]
    refine ⟨by cases cfg.maxSize <;> simp <;> split <;> simp, ?_⟩
    cases cfg.maxSize with
    | none =>
      by_cases h : (Framing.payload cd cfg m).length > u32Max <;> simp [h] <;> omega
    | some l =>
      by_cases h1 : (Framing.payload cd cfg m).length > l
      · simp [h1]; omega
      · by_cases h2 : (Framing.payload cd cfg m).length > u32Max <;> simp [h1, h2] <;> omega

/-- **No collateral loss (server).**  For every schedule of the message source — messages,
`Pending`s, source errors, oversized messages at any position — the response body delivers
every message produced before the first failure, whole and in order, then exactly one trailers
frame carrying that failure's status (OK if there was none), and nothing afterwards.  Nothing
of the refused message is sent. -/
theorem C06_no_collateral_loss_server (cd : Codec α) (cfg : EncCfg) (hs : cfg.server = true)
    (evs : List (SrcEv α)) (n : Nat) (hn : evs.length + 1 < n) :
    ∃ pre, Enc.run cd cfg n Enc.init evs
        = pre ++ [.trailers ((finalSt cd cfg evs).getD St.okSt)] ++ List.replicate (n - pre.length - 1) .none ∧
      (∀ o ∈ pre, GoodChunk cd cfg o) ∧
      dataConcat pre = framesOf cd cfg (okPrefix cd cfg evs) := by
  obtain ⟨pre, hrun, hgood, hdata, _⟩ := run_server cd cfg hs n none evs (by simp; omega)
  exact ⟨pre, by simpa [Enc.init, owedSt] using hrun, hgood, by simpa [owedData] using hdata⟩

/-- **No collateral loss (client).**  The request body delivers every message produced before
the first failure — whole frames, nothing else: `pre` consists of `Pending`s and data chunks only, so the
error below is the FIRST one — and then fails with that status; without a failure it ends cleanly.
What the body does when it is polled AGAIN after that error is stated exactly, not left open: it
resumes as a fresh body over the rest of the source (`rest`, a suffix of `evs`), so later messages can
still produce DATA frames (`C06_client_polled_after_error_continues` is such a run).  The property does
not forbid this: hyper drops a request body at its first error and the call fails with that status —
the statement "nothing after the error" holds of the stream hyper reads, not of `poll_frame` called
again; it never yields a trailers frame either way (`C03_client_body_never_trailers`). -/
theorem C06_no_collateral_loss_client (cd : Codec α) (cfg : EncCfg) (hs : cfg.server = false)
    (evs : List (SrcEv α)) (n : Nat) (hn : evs.length + 1 < n) :
    ∃ pre, (∀ o ∈ pre, GoodChunk cd cfg o) ∧ dataConcat pre = framesOf cd cfg (okPrefix cd cfg evs) ∧
      match finalSt cd cfg evs with
      | some st => ∃ done rest, evs = done ++ rest ∧
          Enc.run cd cfg n Enc.init evs = pre ++ .err st :: Enc.run cd cfg (n - pre.length - 1) Enc.init rest
      | none => Enc.run cd cfg n Enc.init evs = pre ++ List.replicate (n - pre.length) .none := by
  obtain ⟨pre, hgood, hdata, _, hrun⟩ := run_client cd cfg hs n none evs (by simp; omega)
  refine ⟨pre, hgood, by simpa [owedData] using hdata, ?_⟩
  simp only [owedSt] at hrun
  cases hf : finalSt cd cfg evs with
  | some st =>
    rw [hf] at hrun
    obtain ⟨post, hp⟩ := hrun
    obtain ⟨done, rest, hev, hpost⟩ :=
      run_client_err_resumes cd cfg hs n ⟨⟨[], none⟩, false⟩ evs rfl rfl pre post st hp
    exact ⟨done, rest, hev, by rw [← hpost]; exact hp⟩
  | none => rw [hf] at hrun; exact hrun

/-- **Incoming limit: refused as soon as the length prefix has been read.**  With a 5-byte
prefix in the buffer whose flag is acceptable and whose declared length exceeds the limit, the
very same `decode_chunk` call fails with OUT_OF_RANGE — whatever follows the prefix, even
nothing (no payload byte is waited for, and the model's `body` phase, where the code reserves
`len` bytes, is never entered). -/
theorem C06_oversize_refused_at_prefix (cd : Codec α) (cfg : DecCfg) (f a b c d : UInt8) (rest : Bytes)
    (tr : Option Tr) (hf : f = 0 ∨ (f = 1 ∧ cfg.enc.isSome)) (hover : readU32 a b c d > cfg.limit) :
    Dec.decodeChunk cd cfg ⟨f :: a :: b :: c :: d :: rest, .hdr, tr⟩
      = (⟨rest, .hdr, tr⟩, .fail ⟨11, .tooLargeDec⟩) := by
  rcases hf with rfl | ⟨rfl, he⟩
  · simp [Dec.decodeChunk, hover]
  · cases hc : cfg.enc with
    | none => simp [hc] at he
    | some e => simp [Dec.decodeChunk, hc, hover]

/-- **Incoming limit: accepted iff within the limit.**  With an acceptable flag, a declared
length within the limit is never refused for its size: the decoder waits for the payload
(`more`), yields the message, or reports a payload problem — never OUT_OF_RANGE. -/
theorem C06_within_limit_not_refused (cd : Codec α) (cfg : DecCfg) (f a b c d : UInt8) (rest : Bytes)
    (tr : Option Tr) (hf : f = 0 ∨ (f = 1 ∧ cfg.enc.isSome)) (hfit : readU32 a b c d ≤ cfg.limit) :
    (Dec.decodeChunk cd cfg ⟨f :: a :: b :: c :: d :: rest, .hdr, tr⟩).2 ≠ .fail ⟨11, .tooLargeDec⟩ := by
  have hn : ¬ readU32 a b c d > cfg.limit := by omega
  have key : ∀ comp, (Dec.readBody cd ⟨rest, .hdr, tr⟩ (readU32 a b c d) comp).2 ≠ .fail ⟨11, .tooLargeDec⟩ := by
    intro comp
    unfold Dec.readBody
    split
    · simp
    · cases comp with
      | none => dsimp only; split <;> simp
      | some e =>
        dsimp only
        split
        · simp
        · split <;> simp
  rcases hf with rfl | ⟨rfl, he⟩
  · simpa [Dec.decodeChunk, hn] using key none
  · cases hc : cfg.enc with
    | none => simp [hc] at he
    | some e => simpa [Dec.decodeChunk, hc, hn] using key (some e)

/-- the reading of a body `frames xs ++ header(f, len) ++ rest` by the reference decoder -/
private theorem spec_of_data (cd : Codec α) (cfg : DecCfg) (xs : List (Sent α)) (laws : CodecLawsOn cd xs)
    (hxs : ∀ x ∈ xs, SentOk cd cfg x) (f : UInt8) (len : Nat) (rest : Bytes) (hf : FlagOk cfg f)
    (h32 : len < 4294967296) (evs : List BodyEv)
    (hdata : dataOf evs = Spec.Framing.frames (xs.map (wireOf cd cfg.enc)) ++ f :: (u32be len ++ rest)) :
    specFrom cd cfg Dec.init (dataOf evs) =
      consAll (xs.map (·.msg)) (if len > cfg.limit then ([], .bad .tooLarge)
        else batchBody (recvOf cd cfg) len (f == 1) rest) := by
  simp only [specFrom, Dec.init, List.nil_append, hdata]
  rw [(batch_frames_append cd cfg xs laws hxs _).1, batch_header cd cfg f len rest hf h32]

/-- **Incoming limit under any chunking: an oversized message is refused, with OUT_OF_RANGE, as
soon as its length prefix has been read, and nothing is lost before it.**  (`hk`: the stream is a
gRPC message stream — a request, or a response with HTTP status 200; the body of any other response is
dropped unread and classified by its status, `C04_http_table_any_body`.)  Let the body deliver —
in chunks cut anywhere, with `Pending`s anywhere — the frames of valid messages `xs`, then a
5-byte prefix with an acceptable flag announcing `len > limit`, then anything at all (`rest`:
nothing, part of a payload, more frames).  Then the stream yields exactly the messages `xs`, in
order, then OUT_OF_RANGE, then `None` for ever.  (`Dec.chunkReserve_le`, property theorem
`C06_no_reservation_over_limit`: no `decode_chunk` call on the way reserves more than the limit.) -/
theorem C06_oversize_refused_any_chunking (cd : Codec α) (cfg : DecCfg) (hk : cfg.skipsBody = false)
    (xs : List (Sent α)) (laws : CodecLawsOn cd xs) (hxs : ∀ x ∈ xs, SentOk cd cfg x)
    (f : UInt8) (len : Nat) (rest : Bytes) (hf : FlagOk cfg f) (h32 : len < 4294967296)
    (hover : len > cfg.limit)
    (evs : List BodyEv) (hplain : PlainEvs evs = true)
    (hdata : dataOf evs = Spec.Framing.frames (xs.map (wireOf cd cfg.enc)) ++ f :: (u32be len ++ rest))
    (n : Nat) (hn : evs.length + xs.length < n) :
    ∃ k, nonPending (Dec.run cd cfg n Dec.init evs)
      = xs.map (fun x => Item.msg x.msg) ++ .err ⟨11, .tooLargeDec⟩ :: List.replicate k .none := by
  have hx := spec_of_data cd cfg xs laws hxs f len rest hf h32 evs hdata
  simp only [hover, ↓reduceIte, consAll, List.append_nil] at hx
  obtain ⟨k, hrun⟩ := run_plain cd cfg hk n Dec.init evs _ _ _ (by simp [PhaseOk, Dec.init]) hplain hx rfl
    (by simpa using hn)
  exact ⟨k, by simpa [plainTail, plainEnd, stOfBad, List.map_map, Function.comp_def] using hrun⟩

/-- **Refused before memory is reserved for it.**  `Dec.chunkReserve cfg s` is the
`buf.reserve(len)` a `decode_chunk` call makes in state `s`.  In *every* state — hence in every
state any body, chunking and readiness pattern can lead to — it is at most the limit; and it is
the only way out of the header phase: a call that ends in the body phase for `len`, or yields a
message, has made the reservation `len ≤ limit`, and a call that reserves nothing stays in the
header phase and yields nothing. -/
theorem C06_no_reservation_over_limit (cd : Codec α) (cfg : DecCfg) (s : DecSt) :
    (∀ r, Dec.chunkReserve cfg s = some r → r ≤ cfg.limit) ∧
    (s.ph = .hdr →
      (∀ len comp, (Dec.decodeChunk cd cfg s).1.ph = .body len comp →
        Dec.chunkReserve cfg s = some len ∧ len ≤ cfg.limit) ∧
      (∀ m, (Dec.decodeChunk cd cfg s).2 = .item m → ∃ len, Dec.chunkReserve cfg s = some len ∧ len ≤ cfg.limit) ∧
      (Dec.chunkReserve cfg s = none →
        (Dec.decodeChunk cd cfg s).1.ph = .hdr ∧ ∀ m, (Dec.decodeChunk cd cfg s).2 ≠ .item m)) := by
  refine ⟨fun r h => chunkReserve_le cfg s r h, fun hph => ?_⟩
  obtain ⟨h1, h2, h3⟩ := decodeChunk_reserve cd cfg s hph
  refine ⟨fun len comp h => ⟨h1 len comp h, chunkReserve_le cfg s len (h1 len comp h)⟩, fun m h => ?_, h3⟩
  obtain ⟨len, hl⟩ := h2 m h
  exact ⟨len, hl, chunkReserve_le cfg s len hl⟩

/-- **The reservation is part of the transition, not a side definition.**  `Dec.decodeChunkT` is
`decode_chunk` written once with its `buf.reserve(len)` at the place the code has it (after the flag
was judged and the length passed the limit test, before the body is read).  The transition function
every other theorem speaks about is its first projection, the reservation `C06_no_reservation_over_limit`
bounds is its second: in every state, one `decode_chunk` call reserves at most the limit, and what it
reserves is the length it then tries to read.  (Scope: `decodeChunkT` is a second, traced transcription written
next to `Dec.decodeChunk`; `Dec.pollNext` / `Dec.run` call `decodeChunk`, not this function.  The first two
conjuncts say that the two transcriptions agree; the third holds because the trace records `some len` in the
branch behind the limit test.  That the REAL `decode_chunk` calls `buf.reserve(len)` at that place and nowhere
earlier is not proved: it is the tie — the harness's allocation observer, see level_note.) -/
theorem C06_reserve_in_the_transition (cd : Codec α) (cfg : DecCfg) (s : DecSt) :
    (Dec.decodeChunkT cd cfg s).1 = Dec.decodeChunk cd cfg s ∧
    (Dec.decodeChunkT cd cfg s).2 = Dec.chunkReserve cfg s ∧
    (∀ r, (Dec.decodeChunkT cd cfg s).2 = some r → r ≤ cfg.limit) :=
  ⟨decodeChunkT_fst cd cfg s, decodeChunkT_snd cd cfg s,
   fun r h => chunkReserve_le cfg s r (by rw [← decodeChunkT_snd cd cfg s]; exact h)⟩

/-- **Incoming limit, exactly, end to end.**  With the body as in
`C06_oversize_refused_any_chunking` but `len` arbitrary: the stream's answer to that frame — its
first result after the messages `xs` — is OUT_OF_RANGE "message too large" **iff** the declared
length exceeds the limit (4 MiB unless configured).  (Within the limit the answer is the message,
`None` / `Unexpected EOF` / the HTTP-status error when the payload never completes, or the
decompressor's / decoder's error — never the size error.) -/
theorem C06_decode_exact (cd : Codec α) (cfg : DecCfg) (hk : cfg.skipsBody = false)
    (xs : List (Sent α)) (laws : CodecLawsOn cd xs) (hxs : ∀ x ∈ xs, SentOk cd cfg x)
    (f : UInt8) (len : Nat) (rest : Bytes) (hf : FlagOk cfg f) (h32 : len < 4294967296)
    (evs : List BodyEv) (hplain : PlainEvs evs = true)
    (hdata : dataOf evs = Spec.Framing.frames (xs.map (wireOf cd cfg.enc)) ++ f :: (u32be len ++ rest))
    (n : Nat) (hn : evs.length + (batch (recvOf cd cfg) (dataOf evs)).1.length < n) :
    (nonPending (Dec.run cd cfg n Dec.init evs))[xs.length]? = some (.err ⟨11, .tooLargeDec⟩)
      ↔ len > cfg.maxSize.getD (4 * 1024 * 1024) := by
  have hlim : cfg.maxSize.getD (4 * 1024 * 1024) = cfg.limit := by simp [DecCfg.limit, defaultMaxRecv]
  rw [hlim]
  have hx := spec_of_data cd cfg xs laws hxs f len rest hf h32 evs hdata
  have hn' : evs.length + (specFrom cd cfg Dec.init (dataOf evs)).1.length < n := by
    simpa [specFrom, Dec.init] using hn
  generalize hsp : specFrom cd cfg Dec.init (dataOf evs) = sp at hx hn'
  obtain ⟨ms, stop⟩ := sp
  obtain ⟨k, hrun⟩ := run_plain cd cfg hk n Dec.init evs ms stop _ (by simp [PhaseOk, Dec.init]) hplain hsp rfl hn'
  rw [hrun]
  have hidx : ∀ (ms2 : List α) (T : List (Item α)),
      ((xs.map (·.msg) ++ ms2).map Item.msg ++ T)[xs.length]? = (ms2.map Item.msg ++ T)[0]? := by
    intro ms2 T
    rw [List.map_append, List.append_assoc, List.getElem?_append_right (by simp)]
    simp
  by_cases hover : len > cfg.limit
  · simp only [hover, iff_true]
    simp only [hover, ↓reduceIte, consAll, Prod.mk.injEq, List.append_nil] at hx
    obtain ⟨rfl, rfl⟩ := hx
    simp only [plainTail, plainEnd, stOfBad]
    have := hidx [] (Item.err ⟨11, .tooLargeDec⟩ :: List.replicate k Item.none)
    simp only [List.append_nil, List.map_nil, List.nil_append] at this
    rw [this]
    simp
  · simp only [hover, iff_false]
    simp only [hover, ↓reduceIte, consAll] at hx
    generalize hb : batchBody (recvOf cd cfg) len (f == 1) rest = r at hx
    obtain ⟨ms2, stop2⟩ := r
    simp only [Prod.mk.injEq] at hx
    obtain ⟨rfl, rfl⟩ := hx
    rw [hidx]
    cases ms2 with
    | cons m ms2 => simp
    | nil =>
      have hstop := batchBody_nil_stop _ _ _ _ _ hb
      simp only [List.map_nil, List.nil_append, Dec.init]
      intro h
      cases htail : plainTail cd cfg none stop
          (heldFrom cd cfg { buf := [], ph := Phase.hdr, trailers := none } (dataOf evs)) with
      | none => simp [htail, plainEnd] at h
      | some e =>
        simp only [htail, plainEnd, List.getElem?_cons_zero, Option.some.injEq, Item.err.injEq] at h
        subst h
        have := plainTail_tooLarge cd cfg stop _ htail
        rcases hstop with h1 | h1 | h1 <;> simp [h1] at this

/-- **An `Encoder::encode` failure costs nothing before it either.**  If the encoder fails on a
message that follows any number of `Pending`s and encodable messages, the body delivers the
frames of exactly those earlier messages and then INTERNAL (`C06_no_collateral_loss_server` /
`_client` with this `okPrefix` / `finalSt`); nothing of the failed message — neither the reserved
5-byte prefix nor what the encoder wrote before failing — is sent. -/
theorem C06_encode_failure_no_collateral_loss (cd : Codec α) (cfg : EncCfg) (hs : cfg.server = true)
    (pre rest : List (SrcEv α)) (m : α) (hpre : AllOk cd cfg pre) (hm : cd.serFail m = true)
    (n : Nat) (hn : (pre ++ .item m :: rest).length + 1 < n) :
    ∃ out, Enc.run cd cfg n Enc.init (pre ++ .item m :: rest)
        = out ++ [.trailers ⟨13, .encode⟩] ++ List.replicate (n - out.length - 1) .none ∧
      (∀ o ∈ out, GoodChunk cd cfg o) ∧
      dataConcat out = framesOf cd cfg (itemsOfEvs pre) := by
  obtain ⟨h1, h2⟩ := okPrefix_append cd cfg pre (.item m :: rest) hpre
  obtain ⟨out, hrun, hgood, hdata⟩ := C06_no_collateral_loss_server cd cfg hs (pre ++ .item m :: rest) n hn
  refine ⟨out, ?_, hgood, ?_⟩
  · rw [hrun, h2]; simp [finalSt, serFail_encodeErr cd cfg m hm]
  · rw [hdata, h1]; simp [okPrefix, serFail_encodeErr cd cfg m hm]

/- Non-vacuity: the DESIGN §5.1 witness — [3 B, 3 B, 100 B] against a limit of 10. -/
def idCodec : Codec Bytes := { ser := id, de := some, deErr := 13, cz := fun _ b => b, dz := fun _ b => some b }

example :
    let cfg : EncCfg := { comp := none, yieldThr := 32768, maxSize := some 10, server := true }
    let evs : List (SrcEv Bytes) := [.item [1, 2, 3], .item [4, 5, 6], .item (List.replicate 100 7)]
    okPrefix idCodec cfg evs = [[1, 2, 3], [4, 5, 6]] ∧ finalSt idCodec cfg evs = some ⟨11, .tooLargeEnc⟩ := by
  decide

/-- **A client body polled again after its error goes on with the source** (the witness behind the
`rest` of `C06_no_collateral_loss_client`; review lr4 #6): limit 2, messages of 1, 3 and 1 bytes — the second is
refused with OUT_OF_RANGE, and a caller that polled again would be handed the frame of the third.  Only the
first three results are what a transport sees (hyper stops at the error). -/
theorem C06_client_polled_after_error_continues :
    Enc.run idCodec { comp := none, yieldThr := 0, maxSize := some 2, server := false } 4 Enc.init
        [.item [1], .item [1, 2, 3], .item [4]]
      = [.data [0, 0, 0, 0, 1, 1], .err ⟨11, .tooLargeEnc⟩, .data [0, 0, 0, 0, 1, 4], .none] := by
  decide

/- Non-vacuity of the hypotheses of `C06_oversize_refused_any_chunking` / `C06_decode_exact`: one
valid 2-byte message, then a prefix announcing 5 bytes against a limit of 4, nothing after it;
the bytes cut inside the first payload and inside the oversized prefix, with a `Pending`. -/
example :
    let cfg : DecCfg := { enc := none, maxSize := some 4, dir := .request }
    let xs : List (Sent Bytes) := [⟨[1, 2], false⟩]
    let evs : List BodyEv := [.data [0, 0, 0, 0, 2, 1], .pending, .data [2, 0, 0, 0], .data [0, 5]]
    PlainEvs evs = true ∧ FlagOk cfg 0 ∧ 5 > cfg.limit ∧
      dataOf evs = Spec.Framing.frames (xs.map (wireOf idCodec cfg.enc)) ++ (0 : UInt8) :: (u32be 5 ++ []) ∧
      (∀ x ∈ xs, SentOk idCodec cfg x) := by
  refine ⟨by decide, Or.inl rfl, by decide, by decide, ?_⟩
  intro x hx
  simp only [List.mem_cons, List.not_mem_nil, or_false] at hx
  subst hx
  simp [SentOk, wireOf, idCodec, DecCfg.limit]

/-! ### The limits as configuration: one `Grpc` value, a history of statements and calls (`lim.seq`) -/

open LimitProg in
/-- **The limit in force is the one asked for last.**  After ANY sequence of configuration statements
(`max_decoding_message_size`, `max_encoding_message_size`, `apply_max_message_size_config` with any
mix of `Some` / `None`, the compression builders, clones) the two limit fields of the `Grpc` value
are what the last statement that mentioned each of them asked for, and `None` (4 MiB / no limit) if
none did: no statement resets, swaps or forgets the other direction's limit. -/
theorem C06_config_last_set_wins (ops : List Op) :
    (ops.foldl LimitCfg.Cfg.step LimitCfg.Cfg.init).dec = Spec.LimitCfg.askedDec ops.reverse ∧
    (ops.foldl LimitCfg.Cfg.step LimitCfg.Cfg.init).enc = Spec.LimitCfg.askedEnc ops.reverse := by
  simpa [LimitCfg.Lemmas.Agree] using LimitCfg.Lemmas.agree_foldl ops _ [] LimitCfg.Lemmas.agree_init

open LimitProg in
/-- **A `server::Grpc` value through any history — in the configuration model.**  For every program of
configuration statements and calls of all four shapes (each call carrying at least one message each way, any
number of them, oversized ones at any position), `Model/LimitCfg.lean`'s answer to every call equals the
oracle's, which reads the limits in force AT THAT CALL off the program text: a request message is accepted iff
within the decoding limit asked for last (4 MiB if never), an oversized one gives OUT_OF_RANGE (a streaming
handler having received exactly the messages before it); the response delivers exactly the messages before the
first one over the encoding limit asked for last, then OUT_OF_RANGE.  Earlier calls — refused or not — and
re-configuration after use leave nothing behind.
WHAT THIS PROVES AND WHAT NOT: the content is (a) record-field update = "the last statement mentioning a field
wins" (`C06_config_last_set_wins`) and (b) the recursive scans `recvAll` / `sendAll` = "first index over the
limit".  `serverCall` is a hand-written abstraction over payload LENGTHS; it is not derived from `Call.serve`.
Its scans are tied to the codec model by `C06_limit_decisions_are_the_codecs` (single decision, every acceptable
flag), `C06_sendAll_is_the_encoders` and `C06_recvAll_is_the_streams` (whole sequences, `Enc.run` / `Dec.run`);
the call level above them — shapes, `try_next` + `trailers()`, handler, "Missing request message" — and the
claim that the real `server::Grpc` hands the configured numbers to the codec unchanged are carried by the
`lim.seq` / `lim.genp` correspondence (this model IS the prediction there). -/
theorem C06_limit_program_server (prog : List Stmt) (hwf : WellFormed prog = true) :
    LimitCfg.runServer LimitCfg.Cfg.init prog = Spec.LimitCfg.runServer [] prog :=
  LimitCfg.Lemmas.runServer_eq prog _ [] LimitCfg.Lemmas.agree_init hwf

open LimitProg in
/-- **A `client::Grpc` value through any history** (clones included) **— in the configuration model**: as
`C06_limit_program_server`, with the directions exchanged — requests meet the encoding limit (the
transport receives exactly the messages before the first oversized one, the call fails
OUT_OF_RANGE), responses the decoding limit.  The same remark applies: `clientCall` is a hand-written
abstraction over payload lengths whose scans are tied to `Enc.run` / `Dec.run` by
`C06_sendAll_is_the_encoders` / `C06_recvAll_is_the_streams`; its call level and the hand-over of the configured
numbers by the real `client::Grpc` are the `lim.seq` / `lim.genp` correspondence. -/
theorem C06_limit_program_client (prog : List Stmt) (hwf : WellFormed prog = true) :
    LimitCfg.runClient LimitCfg.Cfg.init prog = Spec.LimitCfg.runClient [] prog :=
  LimitCfg.Lemmas.runClient_eq prog _ [] LimitCfg.Lemmas.agree_init hwf

/-- **The per-message decisions of the configuration model are the codec's.**  `decRefusesLen d`
is `decode_chunk`'s answer to a 5-byte prefix announcing that length under `max_message_size = d`, for EVERY
acceptable flag — 0, or 1 with a negotiated encoding — (OUT_OF_RANGE at the prefix iff it says so; with an
unacceptable flag the answer is the flag's error whatever the length, never the size error), and
`encRefusesLen e` is `finish_encoding`'s answer to a serializable message with that payload length under
`max_message_size = e`.  This is the ONLY place where `Model/LimitCfg.lean` meets the codec model as far as
single decisions go; the sequences are `C06_sendAll_is_the_encoders` / `C06_recvAll_is_the_streams`. -/
theorem C06_limit_decisions_are_the_codecs (cd : Codec α) :
    (∀ (cfg : DecCfg) (f a b c d : UInt8) (rest : Bytes) (tr : Option Tr),
      (f = 0 ∨ (f = 1 ∧ cfg.enc.isSome) →
        ((Dec.decodeChunk cd cfg ⟨f :: a :: b :: c :: d :: rest, .hdr, tr⟩).2 = .fail ⟨11, .tooLargeDec⟩
          ↔ LimitCfg.decRefusesLen cfg.maxSize (readU32 a b c d) = true)) ∧
      (¬ (f = 0 ∨ (f = 1 ∧ cfg.enc.isSome)) →
        (Dec.decodeChunk cd cfg ⟨f :: a :: b :: c :: d :: rest, .hdr, tr⟩).2 ≠ .fail ⟨11, .tooLargeDec⟩)) ∧
    (∀ (cfg : EncCfg) (m : α), cd.serFail m = false →
      (encodeErr cd cfg m = some ⟨11, .tooLargeEnc⟩
        ↔ LimitCfg.encRefusesLen cfg.maxSize (Framing.payload cd cfg m).length = true)) := by
  refine ⟨fun cfg f a b c d rest tr => ⟨fun hf => ?_, fun hf => ?_⟩, fun cfg m hm => ?_⟩
  · have hl : (({ enc := none, maxSize := cfg.maxSize, dir := .request } : DecCfg).limit) = cfg.limit := rfl
    simp only [LimitCfg.decRefusesLen, hl, decide_eq_true_eq]
    constructor
    · intro h
      by_cases hover : readU32 a b c d > cfg.limit
      · exact hover
      · exact absurd h (C06_within_limit_not_refused cd cfg f a b c d rest tr hf (by omega))
    · intro hover
      rw [C06_oversize_refused_at_prefix cd cfg f a b c d rest tr hf hover]
  · simp only [not_or, not_and] at hf
    obtain ⟨h0, h1⟩ := hf
    by_cases hf1 : f = 1
    · have he : cfg.enc = none := by
        cases hc : cfg.enc with
        | none => rfl
        | some e => exact absurd (by simp [hc]) (h1 hf1)
      subst hf1
      simp [Dec.decodeChunk, he]
    · simp [Dec.decodeChunk, h0, hf1]
  · rw [(C06_encode_limit cd cfg m).2.1]
    simp only [hm, true_and, LimitCfg.encRefusesLen]
    cases cfg.maxSize <;> simp

/-! ### The SEQUENCES of the configuration model are the codec model's runs

`LimitCfg.sendAll` / `recvAll` — what `serverCall` / `clientCall` make of the messages of one call — are scans
over payload LENGTHS, written by hand next to the codec model.  The next two theorems derive them from
`Enc.run` / `Dec.run`: for every schedule / chunking the body (stream) delivers exactly the first
`(sendAll …).1` (`(recvAll …).1`) messages and then OUT_OF_RANGE iff the second component says so.  What
stays hand-written in `Model/LimitCfg.lean` — and is tied to the code by the `lim.seq` correspondence only —
is the CALL level above that: which messages a call shape offers to the body (`take 1` for the
single-message shapes), `try_next` + `trailers()` for a unary request, the handler's reaction, and the
`Missing … message` outcome. -/

/-- a schedule of serializable messages whose payloads fit the length prefix, with `Pending`s anywhere and no
source error: what a `lim.seq` call hands to `EncodeBody` -/
def Sendable (cd : Codec α) (cfg : EncCfg) : List (SrcEv α) → Prop
  | [] => True
  | .pending :: r => Sendable cd cfg r
  | .item m :: r => cd.serFail m = false ∧ (Framing.payload cd cfg m).length ≤ u32Max ∧ Sendable cd cfg r
  | .err _ :: _ => False

private theorem sendAll_ghost (cd : Codec α) (cfg : EncCfg) (evs : List (SrcEv α)) (h : Sendable cd cfg evs) :
    okPrefix cd cfg evs = (itemsOfEvs evs).take
      (LimitCfg.sendAll cfg.maxSize ((itemsOfEvs evs).map (fun m => (Framing.payload cd cfg m).length))).1 ∧
    finalSt cd cfg evs =
      if (LimitCfg.sendAll cfg.maxSize ((itemsOfEvs evs).map (fun m => (Framing.payload cd cfg m).length))).2
      then some ⟨11, .tooLargeEnc⟩ else none := by
  induction evs with
  | nil => simp [okPrefix, finalSt, itemsOfEvs, LimitCfg.sendAll]
  | cons ev r ih =>
    cases ev with
    | pending => simp only [okPrefix, finalSt, itemsOfEvs]; exact ih h
    | err st => exact absurd h (by simp [Sendable])
    | item m =>
      obtain ⟨hsf, h32, hr⟩ := h
      obtain ⟨ih1, ih2⟩ := ih hr
      have hdec := ((C06_limit_decisions_are_the_codecs cd).2 cfg m hsf)
      have hnone := (C06_encode_limit cd cfg m).2.2.2
      cases hx : LimitCfg.encRefusesLen cfg.maxSize (Framing.payload cd cfg m).length with
      | true =>
        have he : encodeErr cd cfg m = some ⟨11, .tooLargeEnc⟩ := hdec.mpr hx
        simp [okPrefix, finalSt, itemsOfEvs, LimitCfg.sendAll, hx, he]
      | false =>
        have he : encodeErr cd cfg m = none := by
          apply hnone.mpr
          refine ⟨hsf, ?_, h32⟩
          intro l hl
          simp only [LimitCfg.encRefusesLen, hl, decide_eq_false_iff_not] at hx
          omega
        simp [okPrefix, finalSt, itemsOfEvs, LimitCfg.sendAll, hx, he, ih1, ih2]

/-- **`sendAll` is what the encoder's body delivers.**  For every schedule of serializable messages
(`Pending`s anywhere) polled to exhaustion, with `s = sendAll max_message_size <payload lengths>`: the body's
data is exactly the frames of the first `s.1` messages; a server body then yields one trailers frame —
OUT_OF_RANGE if `s.2`, OK otherwise — and `None` for ever; a client body yields OUT_OF_RANGE as its first
error if `s.2` and ends cleanly otherwise. -/
theorem C06_sendAll_is_the_encoders (cd : Codec α) (cfg : EncCfg) (evs : List (SrcEv α)) (hev : Sendable cd cfg evs)
    (n : Nat) (hn : evs.length + 1 < n) :
    let s := LimitCfg.sendAll cfg.maxSize ((itemsOfEvs evs).map (fun m => (Framing.payload cd cfg m).length))
    ∃ pre, (∀ o ∈ pre, GoodChunk cd cfg o) ∧ dataConcat pre = framesOf cd cfg ((itemsOfEvs evs).take s.1) ∧
      (cfg.server = true →
        Enc.run cd cfg n Enc.init evs
          = pre ++ [.trailers (if s.2 then ⟨11, .tooLargeEnc⟩ else St.okSt)] ++ List.replicate (n - pre.length - 1) .none) ∧
      (cfg.server = false →
        if s.2 then ∃ post, Enc.run cd cfg n Enc.init evs = pre ++ .err ⟨11, .tooLargeEnc⟩ :: post
        else Enc.run cd cfg n Enc.init evs = pre ++ List.replicate (n - pre.length) .none) := by
  intro s
  obtain ⟨hok, hfin⟩ := sendAll_ghost cd cfg evs hev
  cases hs : cfg.server with
  | true =>
    obtain ⟨pre, hrun, hgood, hdata⟩ := C06_no_collateral_loss_server cd cfg hs evs n hn
    refine ⟨pre, hgood, by rw [hdata, hok], fun _ => ?_, fun h => by simp at h⟩
    rw [hrun, hfin]
    cases s.2 <;> simp
  | false =>
    obtain ⟨pre, hgood, hdata, hrun⟩ := C06_no_collateral_loss_client cd cfg hs evs n hn
    refine ⟨pre, hgood, by rw [hdata, hok], fun h => by simp at h, fun _ => ?_⟩
    rw [hfin] at hrun
    cases h2 : s.2 with
    | true =>
      simp only [s] at h2
      simp only [h2, ↓reduceIte] at hrun ⊢
      obtain ⟨_, rest, _, hr⟩ := hrun
      exact ⟨_, hr⟩
    | false =>
      simp only [s] at h2
      simp only [h2, Bool.false_eq_true, ↓reduceIte] at hrun ⊢
      exact hrun

private theorem recvAll_split {β : Type} (d : Option Nat) (f : β → Nat) : ∀ (all : List β) (i : Nat),
    LimitCfg.recvAll d (all.map f) = (i, true) →
    ∃ a y b, all = a ++ y :: b ∧ a.length = i ∧ (∀ x ∈ a, LimitCfg.decRefusesLen d (f x) = false) ∧
      LimitCfg.decRefusesLen d (f y) = true
  | [], i, h => by simp [LimitCfg.recvAll] at h
  | x :: xs, i, h => by
    simp only [List.map_cons, LimitCfg.recvAll] at h
    cases hx : LimitCfg.decRefusesLen d (f x) with
    | true =>
      simp only [hx, ↓reduceIte, Prod.mk.injEq, and_true] at h
      exact ⟨[], x, xs, rfl, by simpa using h, by simp, hx⟩
    | false =>
      simp only [hx, Bool.false_eq_true, ↓reduceIte, Prod.mk.injEq] at h
      obtain ⟨h1, h2⟩ := h
      obtain ⟨a, y, b, hall, hlen, ha, hy⟩ := recvAll_split d f xs _ (Prod.ext rfl h2)
      refine ⟨x :: a, y, b, by simp [hall], by simp [hlen, h1], ?_, hy⟩
      intro z hz
      rcases List.mem_cons.mp hz with rfl | hz
      · exact hx
      · exact ha z hz

private theorem recvAll_all {β : Type} (d : Option Nat) (f : β → Nat) : ∀ (all : List β) (i : Nat),
    LimitCfg.recvAll d (all.map f) = (i, false) →
    i = all.length ∧ ∀ x ∈ all, LimitCfg.decRefusesLen d (f x) = false
  | [], i, h => by simp [LimitCfg.recvAll] at h; simp [h]
  | x :: xs, i, h => by
    simp only [List.map_cons, LimitCfg.recvAll] at h
    cases hx : LimitCfg.decRefusesLen d (f x) with
    | true => simp [hx] at h
    | false =>
      simp only [hx, Bool.false_eq_true, ↓reduceIte, Prod.mk.injEq] at h
      obtain ⟨h1, h2⟩ := h
      obtain ⟨hl, ha⟩ := recvAll_all d f xs _ (Prod.ext rfl h2)
      refine ⟨by simp [← h1, ← hl], ?_⟩
      intro z hz
      rcases List.mem_cons.mp hz with rfl | hz
      · exact hx
      · exact ha z hz

private theorem flagOk_wireOf (cd : Codec α) (cfg : DecCfg) (x : Sent α) : FlagOk cfg (wireOf cd cfg.enc x).1 := by
  unfold wireOf FlagOk
  cases x.compressed <;> cases cfg.enc <;> simp

private theorem frames_append (a b : List (UInt8 × Bytes)) :
    Spec.Framing.frames (a ++ b) = Spec.Framing.frames a ++ Spec.Framing.frames b := by
  induction a with
  | nil => rfl
  | cons fp r ih => obtain ⟨f, p⟩ := fp; simp [Spec.Framing.frames, ih]

private theorem decRefuses_limit (cfg : DecCfg) (k : Nat) :
    LimitCfg.decRefusesLen cfg.maxSize k = decide (k > cfg.limit) := rfl

/-- **`recvAll` is what the decoder's stream yields.**  Let a sender frame ANY messages `all` (identity or
compressed with the negotiated encoding, payloads below 2^32 — some possibly over the receive limit) and the
body deliver those bytes in chunks cut anywhere with `Pending`s anywhere, then end.  With
`r = recvAll max_message_size <wire payload lengths>`: the stream yields exactly the first `r.1` messages, in
order, then OUT_OF_RANGE if `r.2` (and `None` for ever) or the end of the stream otherwise.  (`hk`: a request,
or a response with HTTP status 200.) -/
theorem C06_recvAll_is_the_streams (cd : Codec α) (cfg : DecCfg) (hk : cfg.skipsBody = false)
    (all : List (Sent α)) (laws : CodecLawsOn cd all)
    (h32 : ∀ x ∈ all, (wireOf cd cfg.enc x).2.length < 4294967296)
    (evs : List BodyEv) (hplain : PlainEvs evs = true)
    (hdata : dataOf evs = Spec.Framing.frames (all.map (wireOf cd cfg.enc)))
    (n : Nat) (hn : evs.length + all.length < n) :
    let r := LimitCfg.recvAll cfg.maxSize (all.map (fun x => (wireOf cd cfg.enc x).2.length))
    ∃ k, nonPending (Dec.run cd cfg n Dec.init evs) =
      (all.take r.1).map (fun x => Item.msg x.msg) ++
        (if r.2 then .err ⟨11, .tooLargeDec⟩ :: List.replicate k .none else List.replicate (k + 1) .none) := by
  intro r
  cases h2 : r.2 with
  | true =>
    have hr : LimitCfg.recvAll cfg.maxSize (all.map (fun x => (wireOf cd cfg.enc x).2.length)) = (r.1, true) :=
      Prod.ext rfl h2
    obtain ⟨a, y, b, hall, hlen, ha, hy⟩ := recvAll_split cfg.maxSize _ all r.1 hr
    have htake : all.take r.1 = a := by rw [hall, ← hlen]; simp
    have hmem : ∀ x ∈ a, x ∈ all := fun x hx => by rw [hall]; simp [hx]
    have hya : y ∈ all := by rw [hall]; simp
    have hxs : ∀ x ∈ a, SentOk cd cfg x := by
      intro x hx
      have := ha x hx
      rw [decRefuses_limit, decide_eq_false_iff_not] at this
      exact ⟨by omega, h32 x (hmem x hx)⟩
    have hover : (wireOf cd cfg.enc y).2.length > cfg.limit := by
      rw [decRefuses_limit, decide_eq_true_eq] at hy; exact hy
    have hd : dataOf evs = Spec.Framing.frames (a.map (wireOf cd cfg.enc)) ++
        (wireOf cd cfg.enc y).1 :: (u32be (wireOf cd cfg.enc y).2.length ++
          ((wireOf cd cfg.enc y).2 ++ Spec.Framing.frames (b.map (wireOf cd cfg.enc)))) := by
      rw [hdata, hall, List.map_append, frames_append, List.map_cons]
      simp [Spec.Framing.frames, Spec.Framing.frame, u32be]
    obtain ⟨k, hkk⟩ := C06_oversize_refused_any_chunking cd cfg hk a
      ⟨fun x hx => laws.de_ser x (hmem x hx), laws.dz_cz⟩ hxs _ _ _ (flagOk_wireOf cd cfg y) (h32 y hya) hover
      evs hplain hd n (by have : a.length ≤ all.length := by rw [hall]; simp
                          omega)
    exact ⟨k, by rw [hkk, htake]; simp⟩
  | false =>
    have hr : LimitCfg.recvAll cfg.maxSize (all.map (fun x => (wireOf cd cfg.enc x).2.length)) = (r.1, false) :=
      Prod.ext rfl h2
    obtain ⟨hlen, ha⟩ := recvAll_all cfg.maxSize _ all r.1 hr
    have hxs : ∀ x ∈ all, SentOk cd cfg x := by
      intro x hx
      have := ha x hx
      rw [decRefuses_limit, decide_eq_false_iff_not] at this
      exact ⟨by omega, h32 x hx⟩
    have hb : batch (recvOf cd cfg) (dataOf evs) = (all.map (·.msg), .clean) := by
      rw [hdata]; exact batch_wire_on cd cfg all laws hxs
    have hresp : respTr cfg none = none := by
      unfold respTr
      cases hd : cfg.dir with
      | request => rfl
      | empty => rfl
      | response http =>
        have : http = 200 := by simpa [DecCfg.skipsBody, hd] using hk
        subst this; rfl
    obtain ⟨k, hkk⟩ := run_plain cd cfg hk n Dec.init evs (all.map (·.msg)) .clean _ (by simp [PhaseOk, Dec.init]) hplain
      (by simpa [specFrom, Dec.init] using hb) rfl (by simpa using hn)
    refine ⟨k, ?_⟩
    rw [hkk, hlen]
    simp [plainTail, plainEnd, Dec.init, hresp, List.map_map, Function.comp_def]

/- Non-vacuity of the two bridge theorems: the schedule of `C06_client_polled_after_error_continues` with a
`Pending` is `Sendable` and `sendAll` stops at its second message; a body of three frames (2, 5 and 1 payload
bytes, limit 4) cut inside the first payload and inside the oversized prefix is a plain body of those frames and
`recvAll` stops at the second. -/
example :
    let cfg : EncCfg := { comp := none, yieldThr := 0, maxSize := some 2, server := false }
    Sendable idCodec cfg [.item [1], .pending, .item [1, 2, 3], .item [4]] ∧
    LimitCfg.sendAll cfg.maxSize ((itemsOfEvs [SrcEv.item [1], .pending, .item [1, 2, 3], .item [4]]).map
      (fun m => (Framing.payload idCodec cfg m).length)) = (1, true) := by
  refine ⟨?_, by decide⟩
  simp only [Sendable, and_true]
  decide

example :
    let cfg : DecCfg := { enc := none, maxSize := some 4, dir := .request }
    let all : List (Sent Bytes) := [⟨[1, 2], false⟩, ⟨[1, 2, 3, 4, 5], false⟩, ⟨[9], false⟩]
    let evs : List BodyEv := [.data [0, 0, 0, 0, 2, 1], .pending, .data [2, 0, 0, 0], .data [0, 5, 1, 2, 3, 4, 5, 0, 0, 0, 0, 1, 9]]
    PlainEvs evs = true ∧ dataOf evs = Spec.Framing.frames (all.map (wireOf idCodec cfg.enc)) ∧
      LimitCfg.recvAll cfg.maxSize (all.map (fun x => (wireOf idCodec cfg.enc x).2.length)) = (1, true) := by
  decide

/- Non-vacuity: a well-formed program with re-configuration after use, a refused call in the middle
and an oversized message in second position of a streaming request. -/
example :
    let prog : List LimitProg.Stmt :=
      [.op (.setDec 5), .op (.apply none (some 7)), .call ⟨.unary, false, [5], [7]⟩, .call ⟨.unary, false, [6], [7]⟩,
       .op (.setDec 6), .op .clone, .call ⟨.streaming, false, [6, 7, 1], [7, 8, 1]⟩, .call ⟨.serverStreaming, false, [6], [7, 8, 1]⟩]
    LimitProg.WellFormed prog = true ∧
    LimitCfg.runServer LimitCfg.Cfg.init prog = [⟨0, 1, 1, 1⟩, ⟨11, 0, 0, 0⟩, ⟨11, 1, 1, 0⟩, ⟨11, 1, 1, 1⟩] := by
  decide

end C06
