import TonicModel.Lemmas.FramingWire
import TonicModel.Lemmas.FramingDecLimit
import TonicModel.Lemmas.FramingReserve
import TonicModel.Lemmas.LimitCfg
/-
C06 — Message size limits are enforced exactly and without collateral loss.
-/
namespace C06
open Framing Spec.Framing
variable {α : Type}

/-- **Outgoing limit, exactly.**  A message the encoder could serialize is refused iff its
on-the-wire payload is over the configured limit (OUT_OF_RANGE) or, failing that, over 2^32−1
bytes (RESOURCE_EXHAUSTED); otherwise it is framed.  A message `Encoder::encode` itself fails on
is refused with INTERNAL whatever its size. -/
theorem C06_encode_limit (cd : Codec α) (cfg : EncCfg) (m : α) :
    let len := (Framing.payload cd cfg m).length
    (encodeErr cd cfg m = some ⟨13, .encode⟩ ↔ cd.serFail m = true) ∧
    (encodeErr cd cfg m = some ⟨11, .tooLargeEnc⟩ ↔ cd.serFail m = false ∧ ∃ l, cfg.maxSize = some l ∧ len > l) ∧
    (encodeErr cd cfg m = some ⟨8, .over4G⟩ ↔
      cd.serFail m = false ∧ (∀ l, cfg.maxSize = some l → len ≤ l) ∧ len > u32Max) ∧
    (encodeErr cd cfg m = none ↔ cd.serFail m = false ∧ (∀ l, cfg.maxSize = some l → len ≤ l) ∧ len ≤ u32Max) := by
  simp only [encodeErr]
  cases hsf : cd.serFail m with
  | true => simp
  | false =>
    simp only [Bool.false_eq_true, ↓reduceIte, true_and]
    refine ⟨by cases cfg.maxSize <;> simp <;> split <;> simp, ?_⟩
    cases cfg.maxSize with
    | none =>
      by_cases h : (Framing.payload cd cfg m).length > u32Max <;> simp [h] <;> omega
    | some l =>
      by_cases h1 : (Framing.payload cd cfg m).length > l
      · simp [h1]; omega
      · by_cases h2 : (Framing.payload cd cfg m).length > u32Max <;> simp [h1, h2] <;> omega

/-- **No collateral loss (server).**  For every schedule of the message source — messages,
`Pending`s, source errors, oversized messages at any position — the response body delivers
every message produced before the first failure, whole and in order, then exactly one trailers
frame carrying that failure's status (OK if there was none), and nothing afterwards.  Nothing
of the refused message is sent. -/
theorem C06_no_collateral_loss_server (cd : Codec α) (cfg : EncCfg) (hs : cfg.server = true)
    (evs : List (SrcEv α)) (n : Nat) (hn : evs.length + 1 < n) :
    ∃ pre, Enc.run cd cfg n Enc.init evs
        = pre ++ [.trailers ((finalSt cd cfg evs).getD St.okSt)] ++ List.replicate (n - pre.length - 1) .none ∧
      (∀ o ∈ pre, GoodChunk cd cfg o) ∧
      dataConcat pre = framesOf cd cfg (okPrefix cd cfg evs) := by
  obtain ⟨pre, hrun, hgood, hdata, _⟩ := run_server cd cfg hs n none evs (by simp; omega)
  exact ⟨pre, by simpa [Enc.init, owedSt] using hrun, hgood, by simpa [owedData] using hdata⟩

/-- **No collateral loss (client).**  The request body delivers every message produced before
the first failure and then fails with that status; without a failure it ends cleanly. -/
theorem C06_no_collateral_loss_client (cd : Codec α) (cfg : EncCfg) (hs : cfg.server = false)
    (evs : List (SrcEv α)) (n : Nat) (hn : evs.length + 1 < n) :
    ∃ pre, (∀ o ∈ pre, GoodChunk cd cfg o) ∧ dataConcat pre = framesOf cd cfg (okPrefix cd cfg evs) ∧
      match finalSt cd cfg evs with
      | some st => ∃ post, Enc.run cd cfg n Enc.init evs = pre ++ .err st :: post
      | none => Enc.run cd cfg n Enc.init evs = pre ++ List.replicate (n - pre.length) .none := by
  obtain ⟨pre, hgood, hdata, _, hrun⟩ := run_client cd cfg hs n none evs (by simp; omega)
  refine ⟨pre, hgood, by simpa [owedData] using hdata, ?_⟩
  simp only [owedSt] at hrun
  cases hf : finalSt cd cfg evs with
  | some st => rw [hf] at hrun; exact hrun
  | none => rw [hf] at hrun; exact hrun

/-- **Incoming limit: refused as soon as the length prefix has been read.**  With a 5-byte
prefix in the buffer whose flag is acceptable and whose declared length exceeds the limit, the
very same `decode_chunk` call fails with OUT_OF_RANGE — whatever follows the prefix, even
nothing (no payload byte is waited for, and the model's `body` phase, where the code reserves
`len` bytes, is never entered). -/
theorem C06_oversize_refused_at_prefix (cd : Codec α) (cfg : DecCfg) (f a b c d : UInt8) (rest : Bytes)
    (tr : Option Tr) (hf : f = 0 ∨ (f = 1 ∧ cfg.enc.isSome)) (hover : readU32 a b c d > cfg.limit) :
    Dec.decodeChunk cd cfg ⟨f :: a :: b :: c :: d :: rest, .hdr, tr⟩
      = (⟨rest, .hdr, tr⟩, .fail ⟨11, .tooLargeDec⟩) := by
  rcases hf with rfl | ⟨rfl, he⟩
  · simp [Dec.decodeChunk, hover]
  · cases hc : cfg.enc with
    | none => simp [hc] at he
    | some e => simp [Dec.decodeChunk, hc, hover]

/-- **Incoming limit: accepted iff within the limit.**  With an acceptable flag, a declared
length within the limit is never refused for its size: the decoder waits for the payload
(`more`), yields the message, or reports a payload problem — never OUT_OF_RANGE. -/
theorem C06_within_limit_not_refused (cd : Codec α) (cfg : DecCfg) (f a b c d : UInt8) (rest : Bytes)
    (tr : Option Tr) (hf : f = 0 ∨ (f = 1 ∧ cfg.enc.isSome)) (hfit : readU32 a b c d ≤ cfg.limit) :
    (Dec.decodeChunk cd cfg ⟨f :: a :: b :: c :: d :: rest, .hdr, tr⟩).2 ≠ .fail ⟨11, .tooLargeDec⟩ := by
  have hn : ¬ readU32 a b c d > cfg.limit := by omega
  have key : ∀ comp, (Dec.readBody cd ⟨rest, .hdr, tr⟩ (readU32 a b c d) comp).2 ≠ .fail ⟨11, .tooLargeDec⟩ := by
    intro comp
    unfold Dec.readBody
    split
    · simp
    · cases comp with
      | none => dsimp only; split <;> simp
      | some e =>
        dsimp only
        split
        · simp
        · split <;> simp
  rcases hf with rfl | ⟨rfl, he⟩
  · simpa [Dec.decodeChunk, hn] using key none
  · cases hc : cfg.enc with
    | none => simp [hc] at he
    | some e => simpa [Dec.decodeChunk, hc, hn] using key (some e)

/-- the reading of a body `frames xs ++ header(f, len) ++ rest` by the reference decoder -/
private theorem spec_of_data (cd : Codec α) (cfg : DecCfg) (xs : List (Sent α)) (laws : CodecLawsOn cd xs)
    (hxs : ∀ x ∈ xs, SentOk cd cfg x) (f : UInt8) (len : Nat) (rest : Bytes) (hf : FlagOk cfg f)
    (h32 : len < 4294967296) (evs : List BodyEv)
    (hdata : dataOf evs = Spec.Framing.frames (xs.map (wireOf cd cfg.enc)) ++ f :: (u32be len ++ rest)) :
    specFrom cd cfg Dec.init (dataOf evs) =
      consAll (xs.map (·.msg)) (if len > cfg.limit then ([], .bad .tooLarge)
        else batchBody (recvOf cd cfg) len (f == 1) rest) := by
  simp only [specFrom, Dec.init, List.nil_append, hdata]
  rw [(batch_frames_append cd cfg xs laws hxs _).1, batch_header cd cfg f len rest hf h32]

/-- **Incoming limit under any chunking: an oversized message is refused, with OUT_OF_RANGE, as
soon as its length prefix has been read, and nothing is lost before it.**  (`hk`: the stream is a
gRPC message stream — a request, or a response with HTTP status 200; the body of any other response is
dropped unread and classified by its status, `C04_http_table_any_body`.)  Let the body deliver —
in chunks cut anywhere, with `Pending`s anywhere — the frames of valid messages `xs`, then a
5-byte prefix with an acceptable flag announcing `len > limit`, then anything at all (`rest`:
nothing, part of a payload, more frames).  Then the stream yields exactly the messages `xs`, in
order, then OUT_OF_RANGE, then `None` for ever.  (`Dec.chunkReserve_le`, property theorem
`C06_no_reservation_over_limit`: no `decode_chunk` call on the way reserves more than the limit.) -/
theorem C06_oversize_refused_any_chunking (cd : Codec α) (cfg : DecCfg) (hk : cfg.skipsBody = false)
    (xs : List (Sent α)) (laws : CodecLawsOn cd xs) (hxs : ∀ x ∈ xs, SentOk cd cfg x)
    (f : UInt8) (len : Nat) (rest : Bytes) (hf : FlagOk cfg f) (h32 : len < 4294967296)
    (hover : len > cfg.limit)
    (evs : List BodyEv) (hplain : PlainEvs evs = true)
    (hdata : dataOf evs = Spec.Framing.frames (xs.map (wireOf cd cfg.enc)) ++ f :: (u32be len ++ rest))
    (n : Nat) (hn : evs.length + xs.length < n) :
    ∃ k, nonPending (Dec.run cd cfg n Dec.init evs)
      = xs.map (fun x => Item.msg x.msg) ++ .err ⟨11, .tooLargeDec⟩ :: List.replicate k .none := by
  have hx := spec_of_data cd cfg xs laws hxs f len rest hf h32 evs hdata
  simp only [hover, ↓reduceIte, consAll, List.append_nil] at hx
  obtain ⟨k, hrun⟩ := run_plain cd cfg hk n Dec.init evs _ _ _ (by simp [PhaseOk, Dec.init]) hplain hx rfl
    (by simpa using hn)
  exact ⟨k, by simpa [plainTail, plainEnd, stOfBad, List.map_map, Function.comp_def] using hrun⟩

/-- **Refused before memory is reserved for it.**  `Dec.chunkReserve cfg s` is the
`buf.reserve(len)` a `decode_chunk` call makes in state `s`.  In *every* state — hence in every
state any body, chunking and readiness pattern can lead to — it is at most the limit; and it is
the only way out of the header phase: a call that ends in the body phase for `len`, or yields a
message, has made the reservation `len ≤ limit`, and a call that reserves nothing stays in the
header phase and yields nothing. -/
theorem C06_no_reservation_over_limit (cd : Codec α) (cfg : DecCfg) (s : DecSt) :
    (∀ r, Dec.chunkReserve cfg s = some r → r ≤ cfg.limit) ∧
    (s.ph = .hdr →
      (∀ len comp, (Dec.decodeChunk cd cfg s).1.ph = .body len comp →
        Dec.chunkReserve cfg s = some len ∧ len ≤ cfg.limit) ∧
      (∀ m, (Dec.decodeChunk cd cfg s).2 = .item m → ∃ len, Dec.chunkReserve cfg s = some len ∧ len ≤ cfg.limit) ∧
      (Dec.chunkReserve cfg s = none →
        (Dec.decodeChunk cd cfg s).1.ph = .hdr ∧ ∀ m, (Dec.decodeChunk cd cfg s).2 ≠ .item m)) := by
  refine ⟨fun r h => chunkReserve_le cfg s r h, fun hph => ?_⟩
  obtain ⟨h1, h2, h3⟩ := decodeChunk_reserve cd cfg s hph
  refine ⟨fun len comp h => ⟨h1 len comp h, chunkReserve_le cfg s len (h1 len comp h)⟩, fun m h => ?_, h3⟩
  obtain ⟨len, hl⟩ := h2 m h
  exact ⟨len, hl, chunkReserve_le cfg s len hl⟩

/-- **The reservation is part of the transition, not a side definition.**  `Dec.decodeChunkT` is
`decode_chunk` written once with its `buf.reserve(len)` at the place the code has it (after the flag
was judged and the length passed the limit test, before the body is read).  The transition function
every other theorem speaks about is its first projection, the reservation `C06_no_reservation_over_limit`
bounds is its second: in every state, one `decode_chunk` call reserves at most the limit, and what it
reserves is the length it then tries to read. -/
theorem C06_reserve_in_the_transition (cd : Codec α) (cfg : DecCfg) (s : DecSt) :
    (Dec.decodeChunkT cd cfg s).1 = Dec.decodeChunk cd cfg s ∧
    (Dec.decodeChunkT cd cfg s).2 = Dec.chunkReserve cfg s ∧
    (∀ r, (Dec.decodeChunkT cd cfg s).2 = some r → r ≤ cfg.limit) :=
  ⟨decodeChunkT_fst cd cfg s, decodeChunkT_snd cd cfg s,
   fun r h => chunkReserve_le cfg s r (by rw [← decodeChunkT_snd cd cfg s]; exact h)⟩

/-- **Incoming limit, exactly, end to end.**  With the body as in
`C06_oversize_refused_any_chunking` but `len` arbitrary: the stream's answer to that frame — its
first result after the messages `xs` — is OUT_OF_RANGE "message too large" **iff** the declared
length exceeds the limit (4 MiB unless configured).  (Within the limit the answer is the message,
`None` / `Unexpected EOF` / the HTTP-status error when the payload never completes, or the
decompressor's / decoder's error — never the size error.) -/
theorem C06_decode_exact (cd : Codec α) (cfg : DecCfg) (hk : cfg.skipsBody = false)
    (xs : List (Sent α)) (laws : CodecLawsOn cd xs) (hxs : ∀ x ∈ xs, SentOk cd cfg x)
    (f : UInt8) (len : Nat) (rest : Bytes) (hf : FlagOk cfg f) (h32 : len < 4294967296)
    (evs : List BodyEv) (hplain : PlainEvs evs = true)
    (hdata : dataOf evs = Spec.Framing.frames (xs.map (wireOf cd cfg.enc)) ++ f :: (u32be len ++ rest))
    (n : Nat) (hn : evs.length + (batch (recvOf cd cfg) (dataOf evs)).1.length < n) :
    (nonPending (Dec.run cd cfg n Dec.init evs))[xs.length]? = some (.err ⟨11, .tooLargeDec⟩)
      ↔ len > cfg.maxSize.getD (4 * 1024 * 1024) := by
  have hlim : cfg.maxSize.getD (4 * 1024 * 1024) = cfg.limit := by simp [DecCfg.limit, defaultMaxRecv]
  rw [hlim]
  have hx := spec_of_data cd cfg xs laws hxs f len rest hf h32 evs hdata
  have hn' : evs.length + (specFrom cd cfg Dec.init (dataOf evs)).1.length < n := by
    simpa [specFrom, Dec.init] using hn
  generalize hsp : specFrom cd cfg Dec.init (dataOf evs) = sp at hx hn'
  obtain ⟨ms, stop⟩ := sp
  obtain ⟨k, hrun⟩ := run_plain cd cfg hk n Dec.init evs ms stop _ (by simp [PhaseOk, Dec.init]) hplain hsp rfl hn'
  rw [hrun]
  have hidx : ∀ (ms2 : List α) (T : List (Item α)),
      ((xs.map (·.msg) ++ ms2).map Item.msg ++ T)[xs.length]? = (ms2.map Item.msg ++ T)[0]? := by
    intro ms2 T
    rw [List.map_append, List.append_assoc, List.getElem?_append_right (by simp)]
    simp
  by_cases hover : len > cfg.limit
  · simp only [hover, iff_true]
    simp only [hover, ↓reduceIte, consAll, Prod.mk.injEq, List.append_nil] at hx
    obtain ⟨rfl, rfl⟩ := hx
    simp only [plainTail, plainEnd, stOfBad]
    have := hidx [] (Item.err ⟨11, .tooLargeDec⟩ :: List.replicate k Item.none)
    simp only [List.append_nil, List.map_nil, List.nil_append] at this
    rw [this]
    simp
  · simp only [hover, iff_false]
    simp only [hover, ↓reduceIte, consAll] at hx
    generalize hb : batchBody (recvOf cd cfg) len (f == 1) rest = r at hx
    obtain ⟨ms2, stop2⟩ := r
    simp only [Prod.mk.injEq] at hx
    obtain ⟨rfl, rfl⟩ := hx
    rw [hidx]
    cases ms2 with
    | cons m ms2 => simp
    | nil =>
      have hstop := batchBody_nil_stop _ _ _ _ _ hb
      simp only [List.map_nil, List.nil_append, Dec.init]
      intro h
      cases htail : plainTail cd cfg none stop
          (heldFrom cd cfg { buf := [], ph := Phase.hdr, trailers := none } (dataOf evs)) with
      | none => simp [htail, plainEnd] at h
      | some e =>
        simp only [htail, plainEnd, List.getElem?_cons_zero, Option.some.injEq, Item.err.injEq] at h
        subst h
        have := plainTail_tooLarge cd cfg stop _ htail
        rcases hstop with h1 | h1 | h1 <;> simp [h1] at this

/-- **An `Encoder::encode` failure costs nothing before it either.**  If the encoder fails on a
message that follows any number of `Pending`s and encodable messages, the body delivers the
frames of exactly those earlier messages and then INTERNAL (`C06_no_collateral_loss_server` /
`_client` with this `okPrefix` / `finalSt`); nothing of the failed message — neither the reserved
5-byte prefix nor what the encoder wrote before failing — is sent. -/
theorem C06_encode_failure_no_collateral_loss (cd : Codec α) (cfg : EncCfg) (hs : cfg.server = true)
    (pre rest : List (SrcEv α)) (m : α) (hpre : AllOk cd cfg pre) (hm : cd.serFail m = true)
    (n : Nat) (hn : (pre ++ .item m :: rest).length + 1 < n) :
    ∃ out, Enc.run cd cfg n Enc.init (pre ++ .item m :: rest)
        = out ++ [.trailers ⟨13, .encode⟩] ++ List.replicate (n - out.length - 1) .none ∧
      (∀ o ∈ out, GoodChunk cd cfg o) ∧
      dataConcat out = framesOf cd cfg (itemsOfEvs pre) := by
  obtain ⟨h1, h2⟩ := okPrefix_append cd cfg pre (.item m :: rest) hpre
  obtain ⟨out, hrun, hgood, hdata⟩ := C06_no_collateral_loss_server cd cfg hs (pre ++ .item m :: rest) n hn
  refine ⟨out, ?_, hgood, ?_⟩
  · rw [hrun, h2]; simp [finalSt, serFail_encodeErr cd cfg m hm]
  · rw [hdata, h1]; simp [okPrefix, serFail_encodeErr cd cfg m hm]

/- Non-vacuity: the DESIGN §5.1 witness — [3 B, 3 B, 100 B] against a limit of 10. -/
def idCodec : Codec Bytes := { ser := id, de := some, deErr := 13, cz := fun _ b => b, dz := fun _ b => some b }

example :
    let cfg : EncCfg := { comp := none, yieldThr := 32768, maxSize := some 10, server := true }
    let evs : List (SrcEv Bytes) := [.item [1, 2, 3], .item [4, 5, 6], .item (List.replicate 100 7)]
    okPrefix idCodec cfg evs = [[1, 2, 3], [4, 5, 6]] ∧ finalSt idCodec cfg evs = some ⟨11, .tooLargeEnc⟩ := by
  decide

/- Non-vacuity of the hypotheses of `C06_oversize_refused_any_chunking` / `C06_decode_exact`: one
valid 2-byte message, then a prefix announcing 5 bytes against a limit of 4, nothing after it;
the bytes cut inside the first payload and inside the oversized prefix, with a `Pending`. -/
example :
    let cfg : DecCfg := { enc := none, maxSize := some 4, dir := .request }
    let xs : List (Sent Bytes) := [⟨[1, 2], false⟩]
    let evs : List BodyEv := [.data [0, 0, 0, 0, 2, 1], .pending, .data [2, 0, 0, 0], .data [0, 5]]
    PlainEvs evs = true ∧ FlagOk cfg 0 ∧ 5 > cfg.limit ∧
      dataOf evs = Spec.Framing.frames (xs.map (wireOf idCodec cfg.enc)) ++ (0 : UInt8) :: (u32be 5 ++ []) ∧
      (∀ x ∈ xs, SentOk idCodec cfg x) := by
  refine ⟨by decide, Or.inl rfl, by decide, by decide, ?_⟩
  intro x hx
  simp only [List.mem_cons, List.not_mem_nil, or_false] at hx
  subst hx
  simp [SentOk, wireOf, idCodec, DecCfg.limit]

/-! ### The limits as configuration: one `Grpc` value, a history of statements and calls (`lim.seq`) -/

open LimitProg in
/-- **The limit in force is the one asked for last.**  After ANY sequence of configuration statements
(`max_decoding_message_size`, `max_encoding_message_size`, `apply_max_message_size_config` with any
mix of `Some` / `None`, the compression builders, clones) the two limit fields of the `Grpc` value
are what the last statement that mentioned each of them asked for, and `None` (4 MiB / no limit) if
none did: no statement resets, swaps or forgets the other direction's limit. -/
theorem C06_config_last_set_wins (ops : List Op) :
    (ops.foldl LimitCfg.Cfg.step LimitCfg.Cfg.init).dec = Spec.LimitCfg.askedDec ops.reverse ∧
    (ops.foldl LimitCfg.Cfg.step LimitCfg.Cfg.init).enc = Spec.LimitCfg.askedEnc ops.reverse := by
  simpa [LimitCfg.Lemmas.Agree] using LimitCfg.Lemmas.agree_foldl ops _ [] LimitCfg.Lemmas.agree_init

open LimitProg in
/-- **A `server::Grpc` value through any history.**  For every program of configuration statements
and calls of all four shapes (each call carrying at least one message each way, any number of them,
oversized ones at any position), every call is answered as the property demands under the limits in
force AT THAT CALL — read off the program text by the oracle: a request message is accepted iff
within the decoding limit asked for last (4 MiB if never), an oversized one gives OUT_OF_RANGE (a
streaming handler having received exactly the messages before it); the response delivers exactly
the messages before the first one over the encoding limit asked for last, then OUT_OF_RANGE.
Earlier calls — refused or not — and re-configuration after use leave nothing behind. -/
theorem C06_limit_program_server (prog : List Stmt) (hwf : WellFormed prog = true) :
    LimitCfg.runServer LimitCfg.Cfg.init prog = Spec.LimitCfg.runServer [] prog :=
  LimitCfg.Lemmas.runServer_eq prog _ [] LimitCfg.Lemmas.agree_init hwf

open LimitProg in
/-- **A `client::Grpc` value through any history** (clones included): as
`C06_limit_program_server`, with the directions exchanged — requests meet the encoding limit (the
transport receives exactly the messages before the first oversized one, the call fails
OUT_OF_RANGE), responses the decoding limit. -/
theorem C06_limit_program_client (prog : List Stmt) (hwf : WellFormed prog = true) :
    LimitCfg.runClient LimitCfg.Cfg.init prog = Spec.LimitCfg.runClient [] prog :=
  LimitCfg.Lemmas.runClient_eq prog _ [] LimitCfg.Lemmas.agree_init hwf

/-- **The per-message decisions of the configuration model are the codec's.**  `decRefusesLen d`
is `decode_chunk`'s answer to a prefix announcing that length under `max_message_size = d`
(OUT_OF_RANGE at the prefix iff it says so), and `encRefusesLen e` is `finish_encoding`'s answer to
a serializable message with that payload length under `max_message_size = e`. -/
theorem C06_limit_decisions_are_the_codecs (cd : Codec α) :
    (∀ (cfg : DecCfg) (a b c d : UInt8) (rest : Bytes) (tr : Option Tr),
      (Dec.decodeChunk cd cfg ⟨0 :: a :: b :: c :: d :: rest, .hdr, tr⟩).2 = .fail ⟨11, .tooLargeDec⟩
        ↔ LimitCfg.decRefusesLen cfg.maxSize (readU32 a b c d) = true) ∧
    (∀ (cfg : EncCfg) (m : α), cd.serFail m = false →
      (encodeErr cd cfg m = some ⟨11, .tooLargeEnc⟩
        ↔ LimitCfg.encRefusesLen cfg.maxSize (Framing.payload cd cfg m).length = true)) := by
  refine ⟨fun cfg a b c d rest tr => ?_, fun cfg m hm => ?_⟩
  · have hl : (({ enc := none, maxSize := cfg.maxSize, dir := .request } : DecCfg).limit) = cfg.limit := rfl
    simp only [LimitCfg.decRefusesLen, hl, decide_eq_true_eq]
    constructor
    · intro h
      by_cases hover : readU32 a b c d > cfg.limit
      · exact hover
      · exact absurd h (C06_within_limit_not_refused cd cfg 0 a b c d rest tr (Or.inl rfl) (by omega))
    · intro hover
      rw [C06_oversize_refused_at_prefix cd cfg 0 a b c d rest tr (Or.inl rfl) hover]
  · rw [(C06_encode_limit cd cfg m).2.1]
    simp only [hm, true_and, LimitCfg.encRefusesLen]
    cases cfg.maxSize <;> simp

/- Non-vacuity: a well-formed program with re-configuration after use, a refused call in the middle
and an oversized message in second position of a streaming request. -/
example :
    let prog : List LimitProg.Stmt :=
      [.op (.setDec 5), .op (.apply none (some 7)), .call ⟨.unary, false, [5], [7]⟩, .call ⟨.unary, false, [6], [7]⟩,
       .op (.setDec 6), .op .clone, .call ⟨.streaming, false, [6, 7, 1], [7, 8, 1]⟩, .call ⟨.serverStreaming, false, [6], [7, 8, 1]⟩]
    LimitProg.WellFormed prog = true ∧
    LimitCfg.runServer LimitCfg.Cfg.init prog = [⟨0, 1, 1, 1⟩, ⟨11, 0, 0, 0⟩, ⟨11, 1, 1, 0⟩, ⟨11, 1, 1, 1⟩] := by
  decide

end C06
