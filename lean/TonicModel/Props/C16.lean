import TonicModel.Model.WebServer
import TonicModel.Spec.GrpcWeb
import TonicModel.Lemmas.GrpcWeb
import TonicModel.Lemmas.WebServer
import TonicModel.Lemmas.WebServerX
import TonicModel.Spec.BodyHints
/-
C16 — grpc-web server layer translates requests and responses losslessly.
Property theorems only; helper lemmas live in `Lemmas/GrpcWeb` and `Lemmas/WebServer`.

Vocabulary: a body is the list of events its `poll_frame` produces (`data`, `trailers`, `err`,
`pending`; the end of the list is end-of-stream).  `respRun enc` / `reqRun enc` are what a
consumer gets from the `GrpcWebCall` wrapped around that body.  `Spec.GrpcWeb.read` is the
independent grpc-web reader.
-/
namespace C16
open WebServer WebServerLemmas GrpcWebLemmas
open TMap (Pair)
open Spec.GrpcWeb (nameOk valueOk Item)

/-- **Response side, full statement.**  For every list of message frames, every trailer list,
every way of cutting the frame bytes into body chunks (`chunks` — cuts may fall anywhere, also
inside the 5-byte prefix, and chunks may be empty), every interleaving of `Pending`s, and both
accepted forms (binary / base64 text): the wrapper emits only data frames and then ends, and an
independent grpc-web reader recovers from the concatenated body exactly the original message
frames (same flags, same bytes, same order) followed by exactly one trailers frame whose
entries are, name by name, all the trailer values in their original order. -/
theorem C16_response_lossless (enc : Enc) (frames : List (Bool × Bytes)) (trailers : List Pair)
    (chunks : List Bytes) (evs : List BodyEv)
    (hsched : evs.filter notPending = chunks.map BodyEv.data ++ [BodyEv.trailers trailers])
    (hchunks : chunks.flatten = Spec.GrpcWeb.framesBytes frames)
    (hframes : ∀ f ∈ frames, f.2.length < 4294967296)
    (htr : ∀ p ∈ trailers, nameOk p.1 ∧ valueOk p.2)
    (hlen : (encodeTrailers trailers).length < 4294967296) :
    ∃ (outs : List Bytes) (t' : List Pair),
      respRun enc evs = outs.map Out.data ++ [Out.eos] ∧
      Spec.GrpcWeb.read (enc == Enc.base64) outs.flatten =
        some (frames.map (fun f => Item.msg f.1 f.2) ++ [Item.trailers t']) ∧
      (∀ k, TMap.getAll k t' = TMap.getAll k trailers) ∧
      (∀ p, p ∈ t' ↔ p ∈ trailers) := by
  refine ⟨chunks.map (wrap enc) ++ [wrap enc (makeTrailersFrame trailers)], TMap.group trailers,
    ?_, ?_, fun k => TMap.getAll_group k trailers, fun p => TMap.group_mem p trailers⟩
  · rw [respRun_filter, hsched, respRun_data]
    simp [respRun]
  · have hgrp : ∀ p ∈ TMap.group trailers, nameOk p.1 ∧ valueOk p.2 :=
      fun p hp => htr p ((TMap.group_mem p trailers).1 hp)
    have hblk := parseBlock_lines (TMap.group trailers) hgrp
    rw [← encodeTrailers_eq] at hblk
    -- the raw (un-base64'd) body is: frame bytes ++ trailers frame
    have hraw : Spec.GrpcWeb.parseItems (chunks.flatten ++ makeTrailersFrame trailers) =
        some (frames.map (fun f => Item.msg f.1 f.2) ++ [Item.trailers (TMap.group trailers)]) := by
      have hl5 := framesBytes_length frames
      have hfuel : (chunks.flatten ++ makeTrailersFrame trailers).length + 1 =
          frames.length + ((chunks.flatten ++ makeTrailersFrame trailers).length + 1 - frames.length - 2 + 2) := by
        simp only [hchunks, List.length_append, makeTrailersFrame, List.length_cons, u32be_length]
        omega
      rw [Spec.GrpcWeb.parseItems, hfuel, hchunks, parseItemsAux_frames _ hframes]
      simp only [makeTrailersFrame]
      rw [parseItemsAux_trailers _ _ _ hblk hlen]
      simp
    cases enc with
    | none =>
      have hw : wrap Enc.none = id := by funext b; rfl
      simp only [hw, List.map_id, id, List.flatten_append, List.flatten_cons, List.flatten_nil,
        List.append_nil, Spec.GrpcWeb.read]
      simpa using hraw
    | base64 =>
      have hpieces := stream_pieces' (chunks ++ [makeTrailersFrame trailers])
      have hw : wrap Enc.base64 = B64.encode true := by funext b; rfl
      simp only [hw, Spec.GrpcWeb.read, beq_self_eq_true, if_true]
      have e : (chunks.map (B64.encode true) ++ [B64.encode true (makeTrailersFrame trailers)]) =
          (chunks ++ [makeTrailersFrame trailers]).map (B64.encode true) := by simp
      rw [e, hpieces]
      simpa using hraw

/-- **Base64 stream lemma** (the heart of text mode): pieces that are base64-encoded and padded
one at a time — which is how `poll_encode` emits a body, one piece per inner frame — read back,
after concatenation, as the concatenation of the pieces, wherever the piece boundaries fall
(inside a 3-byte group, empty pieces, …). -/
theorem C16_base64_stream (pieces : List Bytes) :
    Spec.GrpcWeb.b64StreamDecode ((pieces.map (wrap Enc.base64)).flatten) = some pieces.flatten :=
  stream_pieces' pieces

/-- An inner error is passed on as an error after the frames that preceded it (the body never
ends cleanly in that case). -/
theorem C16_response_error_not_clean (enc : Enc) (chunks : List Bytes) (rest : List BodyEv) :
    respRun enc (chunks.map BodyEv.data ++ BodyEv.err :: rest) =
      chunks.map (fun c => Out.data (wrap enc c)) ++ [Out.err] := by
  rw [respRun_data]; rfl

/-- **Request side, text mode.**  For every payload and every way of cutting its (single,
padded) base64 text into body chunks — cuts inside a quantum, empty chunks, `Pending`s — the
inner service receives data frames whose concatenation is the payload, then a clean end. -/
theorem C16_request_text_lossless (payload : Bytes) (chunks : List Bytes) (evs : List BodyEv)
    (hsched : evs.filter notPending = chunks.map BodyEv.data)
    (hbody : chunks.flatten = B64.encode true payload) :
    ∃ outs : List Bytes, reqRun Enc.base64 evs = outs.map Out.data ++ [Out.eos] ∧
      outs.flatten = payload := by
  simp only [reqRun]
  rw [reqText_filter, hsched]
  exact reqText_canonical chunks [] payload (by simp) (by simpa using hbody)

/-- **Request side, text mode, soundness for arbitrary bodies** (malformed ones included):
whenever the stream handed to the inner service ends cleanly, the bytes it carried are exactly
what the independent reader decodes from the whole request body.  Equivalently: a body the
reader rejects (foreign symbol, length not a multiple of four, non-zero discarded bits, …)
never reaches the inner service as a clean stream. -/
theorem C16_request_text_sound (evs : List BodyEv)
    (hclean : endsClean (reqRun Enc.base64 evs) = true) :
    Spec.GrpcWeb.b64StreamDecode (flat evs) = some (dataOf (reqRun Enc.base64 evs)) := by
  simpa [reqRun] using reqText_sound evs [] (by simpa [reqRun] using hclean)

/-- **Request side, binary mode**: the chunks pass through one for one. -/
theorem C16_request_binary_lossless (chunks : List Bytes) (evs : List BodyEv)
    (hsched : evs.filter notPending = chunks.map BodyEv.data) :
    reqRun Enc.none evs = chunks.map Out.data ++ [Out.eos] := by
  simp only [reqRun]
  rw [reqBin_filter, hsched, reqBin_data]

/-- Map the model's decision to the oracle's vocabulary. -/
private def toExpect : Action → Spec.GrpcWeb.Expect
  | .web e a => .web (e == Enc.base64) (a == Enc.base64)
  | .status c => .status c
  | .pass => .pass

private theorem ct_consts :
    Spec.GrpcWeb.webContentType GRPC_WEB = some false ∧
    Spec.GrpcWeb.webContentType GRPC_WEB_PROTO = some false ∧
    Spec.GrpcWeb.webContentType GRPC_WEB_TEXT = some true ∧
    Spec.GrpcWeb.webContentType GRPC_WEB_TEXT_PROTO = some true := by decide

private theorem ct_other (v : Bytes) (h1 : v ≠ GRPC_WEB) (h2 : v ≠ GRPC_WEB_PROTO)
    (h3 : v ≠ GRPC_WEB_TEXT) (h4 : v ≠ GRPC_WEB_TEXT_PROTO) :
    Spec.GrpcWeb.webContentType v = none := by
  have e1 : TMap.str "application/grpc-web" = GRPC_WEB := rfl
  have e2 : GRPC_WEB ++ TMap.str "+proto" = GRPC_WEB_PROTO := by decide
  have e3 : GRPC_WEB ++ TMap.str "-text" = GRPC_WEB_TEXT := by decide
  have e4 : GRPC_WEB ++ TMap.str "-text+proto" = GRPC_WEB_TEXT_PROTO := by decide
  simp only [Spec.GrpcWeb.webContentType, e1, e2, e3, e4, h1, h2, h3, h4, or_self, if_false]

private theorem web_ct (v : Option Bytes) :
    (v.bind Spec.GrpcWeb.webContentType).isSome = isGrpcWeb v ∧
    ((v.bind Spec.GrpcWeb.webContentType) == some true) = (encFromHeader v == Enc.base64) := by
  cases v with
  | none => simp [isGrpcWeb, encFromHeader]
  | some x =>
    obtain ⟨c1, c2, c3, c4⟩ := ct_consts
    by_cases h1 : x = GRPC_WEB
    · subst h1; simp only [Option.bind_some, c1]; decide
    by_cases h2 : x = GRPC_WEB_PROTO
    · subst h2; simp only [Option.bind_some, c2]; decide
    by_cases h3 : x = GRPC_WEB_TEXT
    · subst h3; simp only [Option.bind_some, c3]; decide
    by_cases h4 : x = GRPC_WEB_TEXT_PROTO
    · subst h4; simp only [Option.bind_some, c4]; decide
    simp [ct_other x h1 h2 h3 h4, isGrpcWeb, encFromHeader, h1, h2, h3, h4]

/-- **Status cases.**  For every method, HTTP version, content-type and accept header, the
layer's decision is the protocol's: a grpc-web content type with POST is translated (request
form from the content type, response form from Accept), with any other method it is answered
405 without calling the inner service; anything else is passed through untouched on HTTP/2
and answered 400 otherwise. -/
theorem C16_status_cases (method : Bytes) (isH2 : Bool) (ct accept : Option Bytes) :
    toExpect (classify method isH2 ct accept) = Spec.GrpcWeb.expect method isH2 ct accept := by
  obtain ⟨hs, ht⟩ := web_ct ct
  obtain ⟨_, ha⟩ := web_ct accept
  simp only [classify, Spec.GrpcWeb.expect]
  cases hw : ct.bind Spec.GrpcWeb.webContentType with
  | none =>
    have : isGrpcWeb ct = false := by rw [← hs, hw]; rfl
    simp only [this]
    cases isH2 <;> simp [toExpect]
  | some t =>
    have hg : isGrpcWeb ct = true := by rw [← hs, hw]; rfl
    simp only [hg, if_true]
    by_cases hm : method = TMap.str "POST"
    · simp only [hm, beq_self_eq_true, if_true, toExpect, ha]
      rw [hw] at ht
      cases t <;> simp_all
    · have : (method == TMap.str "POST") = false := by simpa using hm
      simp [this, hm, toExpect]

/-- The content-type constants of the model are the protocol's (a table of five constants; the
statements about header MAPS are `C16_coerce_request_headers` / `C16_coerce_response_headers`). (Transcription lemma: it holds by unfolding the model's definition, so it pins the model's shape for the correspondence run — its assurance about tonic is the tie, not this proof.) -/
theorem C16_content_types :
    GRPC_CONTENT_TYPE = Spec.GrpcWeb.grpcContentType ∧
    ∀ a : Enc, toContentType a = Spec.GrpcWeb.responseContentType (a == Enc.base64) := by
  refine ⟨rfl, fun a => ?_⟩
  cases a <;> rfl

private theorem hdr_names_distinct :
    CONTENT_TYPE ≠ TE ∧ CONTENT_TYPE ≠ ACCEPT_ENCODING ∧ CONTENT_TYPE ≠ CONTENT_LENGTH ∧
    TE ≠ ACCEPT_ENCODING ∧ TE ≠ CONTENT_LENGTH ∧ CONTENT_LENGTH ≠ ACCEPT_ENCODING := by decide

/-- **`coerce_request` on every header map.**  Whatever headers the grpc-web request carried
(any names, repeated names, several `content-type` / `te` / `content-length` values): after
`coerce_request` the map has exactly one `content-type`, and it is `application/grpc`; exactly
one `te`, `trailers`; no `content-length`; `accept-encoding: identity,deflate,gzip`; and every
other name keeps all its values in their order. -/
theorem C16_coerce_request_headers (h : List Pair) :
    TMap.getAll CONTENT_TYPE (coerceRequest h) = [Spec.GrpcWeb.grpcContentType] ∧
    TMap.getAll TE (coerceRequest h) = [TRAILERS] ∧
    TMap.getAll CONTENT_LENGTH (coerceRequest h) = [] ∧
    TMap.getAll ACCEPT_ENCODING (coerceRequest h) = [IDENTITY_DEFLATE_GZIP] ∧
    ∀ k, k ≠ CONTENT_TYPE → k ≠ TE → k ≠ CONTENT_LENGTH → k ≠ ACCEPT_ENCODING →
      TMap.getAll k (coerceRequest h) = TMap.getAll k h := by
  obtain ⟨d1, d2, d3, d4, d5, d6⟩ := hdr_names_distinct
  unfold coerceRequest
  refine ⟨?_, ?_, ?_, ?_, ?_⟩
  · rw [getAll_hinsert_ne _ _ _ _ d2, getAll_hinsert_ne _ _ _ _ d1, getAll_hinsert_self]; rfl
  · rw [getAll_hinsert_ne _ _ _ _ d4, getAll_hinsert_self]
  · rw [getAll_hinsert_ne _ _ _ _ d6, getAll_hinsert_ne _ _ _ _ (Ne.symm d5),
      getAll_hinsert_ne _ _ _ _ (Ne.symm d3), getAll_hremove_self]
  · rw [getAll_hinsert_self]
  · intro k h1 h2 h3 h4
    rw [getAll_hinsert_ne _ _ _ _ h4, getAll_hinsert_ne _ _ _ _ h2, getAll_hinsert_ne _ _ _ _ h1,
      getAll_hremove_ne _ _ _ h3]

/-- **`coerce_response` on every header map**: exactly one `content-type`, the grpc-web type of
the accepted form; every other header of the inner service's response is kept. -/
theorem C16_coerce_response_headers (a : Enc) (h : List Pair) :
    TMap.getAll CONTENT_TYPE (coerceResponse a h) =
      [Spec.GrpcWeb.responseContentType (a == Enc.base64)] ∧
    ∀ k, k ≠ CONTENT_TYPE → TMap.getAll k (coerceResponse a h) = TMap.getAll k h := by
  unfold coerceResponse
  refine ⟨?_, fun k hk => getAll_hinsert_ne _ _ _ _ hk⟩
  rw [getAll_hinsert_self]
  cases a <;> rfl

/-- the form the oracle speaks of, as the model's `Encoding` -/
private def encOf (text : Bool) : Enc := if text then Enc.base64 else Enc.none

/-- **The decision on whole requests.**  For every request (method, version, uri, any header
map, extensions) the arm `GrpcWebService::call` takes is the protocol's, read off the first
`content-type` and the first `accept` value. -/
theorem C16_decision (p : Parts) :
    toExpect (actionOf p) =
      Spec.GrpcWeb.expectFor p.method (p.version == Ver.h2) p.headers :=
  C16_status_cases p.method (p.version == Ver.h2) _ _

private theorem action_of_web (p : Parts) (rt pt : Bool)
    (h : Spec.GrpcWeb.expectFor p.method (p.version == Ver.h2) p.headers = .web rt pt) :
    actionOf p = Action.web (encOf rt) (encOf pt) := by
  have := C16_decision p
  rw [h] at this
  cases ha : actionOf p with
  | web e a =>
    rw [ha] at this
    simp only [toExpect, Spec.GrpcWeb.Expect.web.injEq] at this
    obtain ⟨h1, h2⟩ := this
    subst h1; subst h2
    cases e <;> cases a <;> rfl
  | status c => rw [ha] at this; simp [toExpect] at this
  | pass => rw [ha] at this; simp [toExpect] at this

/-- **Pass-through is the identity.**  A request the protocol does not claim (no grpc-web content
type) on HTTP/2 reaches the inner service as the very same request — same method, version, uri,
extensions, the same header map entry for entry, the same body frame for frame — and the inner
service's response (status, headers, body) is handed back as it is. -/
theorem C16_passthrough_untouched (p : Parts) (reqBody : List BodyEv) (st : Nat)
    (ih : List Pair) (ib : List BodyEv)
    (h : Spec.GrpcWeb.expectFor p.method (p.version == Ver.h2) p.headers = .pass) :
    serve p reqBody = Served.inner p (passRun reqBody) none ∧
    respond p reqBody st ih ib = { status := st, headers := ih, body := passRun ib } := by
  have hd := C16_decision p
  rw [h] at hd
  have ha : actionOf p = Action.pass := by
    cases ha : actionOf p <;> rw [ha] at hd <;> simp [toExpect] at hd
  simp [respond, serve, ha]

/-- … where "the same body frame for frame" means: the data chunks one for one, the trailers
map (if any) with every name's values in order, then the end. -/
theorem C16_passthrough_body (chunks : List Bytes) (t : List Pair) (evs : List BodyEv)
    (hsched : evs.filter notPending = chunks.map BodyEv.data ++ [BodyEv.trailers t]) :
    passRun evs = chunks.map Out.data ++ [Out.trailers (TMap.group t), Out.eos] ∧
    ∀ k, TMap.getAll k (TMap.group t) = TMap.getAll k t := by
  refine ⟨?_, fun k => TMap.getAll_group k t⟩
  show reqBin evs = _
  rw [reqBin_filter, hsched]
  exact passRun_data_trailers chunks t

/-- **405 / 400 without calling the inner service.**  Whenever the protocol's answer is an
immediate status (grpc-web content type with a method other than POST: 405; no grpc-web content
type and not HTTP/2: 400), the inner service is not called and the response is that status with
no headers and an empty body. -/
theorem C16_rejected_without_inner (p : Parts) (reqBody : List BodyEv) (st : Nat)
    (ih : List Pair) (ib : List BodyEv) (c : Nat)
    (h : Spec.GrpcWeb.expectFor p.method (p.version == Ver.h2) p.headers = .status c) :
    serve p reqBody = Served.immediate c ∧
    respond p reqBody st ih ib = { status := c, headers := [], body := [Out.eos] } := by
  have hd := C16_decision p
  rw [h] at hd
  have ha : actionOf p = Action.status c := by
    cases ha : actionOf p <;> rw [ha] at hd <;> simp [toExpect] at hd
    subst hd; rfl
  simp [respond, serve, ha]

/-- **Request side, end to end.**  For every grpc-web POST request — any version, uri, header
map — every payload and every chunking of its body (binary: the payload itself; text: its
padded base64 text, cut anywhere): the inner service is called with the same method, version,
uri and extensions, a header map whose `content-type` is exactly `application/grpc` (with
`te: trailers`, no `content-length`, all other names untouched), and a body that delivers
exactly the payload and then ends. -/
theorem C16_request_end_to_end (p : Parts) (rt pt : Bool)
    (hexp : Spec.GrpcWeb.expectFor p.method (p.version == Ver.h2) p.headers = .web rt pt)
    (payload : Bytes) (chunks : List Bytes) (evs : List BodyEv)
    (hsched : evs.filter notPending = chunks.map BodyEv.data)
    (hbody : chunks.flatten = if rt then B64.encode true payload else payload) :
    ∃ (hs' : List Pair) (outs : List Bytes),
      serve p evs = Served.inner { p with headers := hs' } (outs.map Out.data ++ [Out.eos])
        (some (encOf pt)) ∧
      outs.flatten = payload ∧
      TMap.getAll CONTENT_TYPE hs' = [Spec.GrpcWeb.grpcContentType] ∧
      TMap.getAll TE hs' = [TRAILERS] ∧
      TMap.getAll CONTENT_LENGTH hs' = [] ∧
      (∀ k, k ≠ CONTENT_TYPE → k ≠ TE → k ≠ CONTENT_LENGTH → k ≠ ACCEPT_ENCODING →
        TMap.getAll k hs' = TMap.getAll k p.headers) := by
  have ha := action_of_web p rt pt hexp
  obtain ⟨c1, c2, c3, _, c5⟩ := C16_coerce_request_headers p.headers
  cases rt with
  | true =>
    obtain ⟨outs, ho, hf⟩ := C16_request_text_lossless payload chunks evs hsched (by simpa using hbody)
    refine ⟨coerceRequest p.headers, outs, ?_, hf, c1, c2, c3, c5⟩
    simp [serve, ha, encOf, ho]
  | false =>
    have ho := C16_request_binary_lossless chunks evs hsched
    refine ⟨coerceRequest p.headers, chunks, ?_, by simpa using hbody, c1, c2, c3, c5⟩
    simp [serve, ha, encOf, ho]

/-- **Response side, end to end: the form is the one the request's Accept header asks for.**
For every grpc-web POST request (any header map; `pt` = the protocol's reading of its first
`accept` value: text iff it is `application/grpc-web-text[+proto]`), whatever the inner service
answers — any status, any headers, any message frames cut into chunks in any way, any trailers,
any `Pending`s: the layer's response has the inner status, exactly one `content-type`, the
grpc-web type of THAT form, all other inner headers, and a body which an independent grpc-web
reader OF THAT FORM reads as the identical message frames followed by exactly one trailers frame
listing every trailer.  (Composition of `C16_decision`, `C16_coerce_response_headers` and
`C16_response_lossless`: `respRun` is run with the very `accept` that the decision computed.) -/
theorem C16_response_end_to_end (p : Parts) (rt pt : Bool)
    (hexp : Spec.GrpcWeb.expectFor p.method (p.version == Ver.h2) p.headers = .web rt pt)
    (reqBody : List BodyEv) (st : Nat) (ih : List Pair)
    (frames : List (Bool × Bytes)) (trailers : List Pair) (chunks : List Bytes) (evs : List BodyEv)
    (hsched : evs.filter notPending = chunks.map BodyEv.data ++ [BodyEv.trailers trailers])
    (hchunks : chunks.flatten = Spec.GrpcWeb.framesBytes frames)
    (hframes : ∀ f ∈ frames, f.2.length < 4294967296)
    (htr : ∀ p ∈ trailers, nameOk p.1 ∧ valueOk p.2)
    (hlen : (encodeTrailers trailers).length < 4294967296) :
    (respond p reqBody st ih evs).status = st ∧
    TMap.getAll CONTENT_TYPE (respond p reqBody st ih evs).headers =
      [Spec.GrpcWeb.responseContentType pt] ∧
    (∀ k, k ≠ CONTENT_TYPE →
      TMap.getAll k (respond p reqBody st ih evs).headers = TMap.getAll k ih) ∧
    ∃ (outs : List Bytes) (t' : List Pair),
      (respond p reqBody st ih evs).body = outs.map Out.data ++ [Out.eos] ∧
      Spec.GrpcWeb.read pt outs.flatten =
        some (frames.map (fun f => Item.msg f.1 f.2) ++ [Item.trailers t']) ∧
      (∀ k, TMap.getAll k t' = TMap.getAll k trailers) ∧
      (∀ q, q ∈ t' ↔ q ∈ trailers) := by
  have ha := action_of_web p rt pt hexp
  have hr : respond p reqBody st ih evs =
      { status := st, headers := coerceResponse (encOf pt) ih, body := respRun (encOf pt) evs } := by
    simp [respond, serve, ha]
  obtain ⟨h1, h2⟩ := C16_coerce_response_headers (encOf pt) ih
  have hb : (encOf pt == Enc.base64) = pt := by cases pt <;> rfl
  rw [hb] at h1
  obtain ⟨outs, t', ho, hread, hk, hm⟩ :=
    C16_response_lossless (encOf pt) frames trailers chunks evs hsched hchunks hframes htr hlen
  rw [hb] at hread
  rw [hr]
  exact ⟨rfl, h1, h2, outs, t', ho, hread, hk, hm⟩

/-! Non-vacuity: the hypotheses are satisfiable by non-trivial values. -/

/-- two frames cut inside the first prefix and inside the second payload, a repeated trailer
name and a value containing a colon, with a `Pending` in between. -/
example :
    let frames : List (Bool × Bytes) := [(false, [1, 2, 3]), (true, [9])]
    let trailers : List Pair := [(TMap.str "grpc-status", TMap.str "0"), (TMap.str "x", TMap.str "a:b"),
      (TMap.str "grpc-status", TMap.str "7")]
    let chunks : List Bytes := [[0, 0], [0, 0, 3, 1, 2, 3, 1, 0, 0, 0, 1], [], [9]]
    let evs := [BodyEv.data [0, 0], .pending, .data [0, 0, 3, 1, 2, 3, 1, 0, 0, 0, 1], .data [], .data [9],
      .pending, .trailers trailers]
    evs.filter notPending = chunks.map BodyEv.data ++ [BodyEv.trailers trailers] ∧
    chunks.flatten = Spec.GrpcWeb.framesBytes frames ∧
    (∀ p ∈ trailers, nameOk p.1 ∧ valueOk p.2) ∧
    Spec.GrpcWeb.read true (dataOf (respRun Enc.base64 evs)) =
      some [Item.msg false [1, 2, 3], Item.msg true [9],
        Item.trailers [(TMap.str "grpc-status", TMap.str "0"), (TMap.str "grpc-status", TMap.str "7"),
          (TMap.str "x", TMap.str "a:b")]] := by
  decide

example : reqRun Enc.base64 [.data (TMap.str "AAAAAA"), .pending, .data (TMap.str "IBA"), .data (TMap.str "g==")] =
    [Out.data [0, 0, 0], Out.data [0, 2, 1], Out.data [2], Out.eos] := by decide

-- a truncated / mid-padded text body does not end cleanly
example : reqRun Enc.base64 [.data (TMap.str "AAAAAAIBA")] = [Out.data [0, 0, 0, 0, 2, 1], Out.err] := by decide
example : reqRun Enc.base64 [.data (TMap.str "AQ==AQ==")] = [Out.err] := by decide
example : classify (TMap.str "GET") true (some GRPC_WEB_TEXT) none = Action.status 405 := by decide
example : classify (TMap.str "POST") false (some GRPC_WEB_TEXT) (some GRPC_WEB) = Action.web .base64 .none := by decide


-- whole requests: a text request with a repeated content-type (the first one decides), `te` and
-- `content-length` present, a custom name repeated
example :
    let p : Parts := {
      method := TMap.str "POST", version := Ver.h11, uri := TMap.str "/a.B/C", ext := true,
      headers := [(CONTENT_TYPE, GRPC_WEB_TEXT), (TE, TMap.str "gzip"), (TMap.str "x-user", TMap.str "a"),
        (CONTENT_TYPE, GRPC_CONTENT_TYPE), (CONTENT_LENGTH, TMap.str "8"), (TMap.str "x-user", TMap.str "b"),
        (ACCEPT, GRPC_WEB_TEXT_PROTO)] }
    Spec.GrpcWeb.expectFor p.method (p.version == Ver.h2) p.headers = .web true true ∧
    serve p [.data (TMap.str "AAAAAAIBAg==")] =
      Served.inner { p with headers := [(TMap.str "x-user", TMap.str "a"), (TMap.str "x-user", TMap.str "b"),
          (ACCEPT, GRPC_WEB_TEXT_PROTO), (CONTENT_TYPE, GRPC_CONTENT_TYPE), (TE, TRAILERS),
          (ACCEPT_ENCODING, IDENTITY_DEFLATE_GZIP)] }
        [Out.data [0, 0, 0, 0, 2, 1, 2], Out.eos] (some Enc.base64) := by
  decide

example :
    let p : Parts := {
      method := TMap.str "POST", version := Ver.h2, uri := TMap.str "/", ext := false,
      headers := [(CONTENT_TYPE, GRPC_CONTENT_TYPE), (TE, TMap.str "trailers")] }
    Spec.GrpcWeb.expectFor p.method (p.version == Ver.h2) p.headers = .pass := by decide

example :
    let p : Parts := {
      method := TMap.str "GET", version := Ver.h2, uri := TMap.str "/", ext := false,
      headers := [(CONTENT_TYPE, GRPC_WEB)] }
    Spec.GrpcWeb.expectFor p.method (p.version == Ver.h2) p.headers = .status 405 := by decide

/-! ### Dimension audit (aC16): hints of the translated bodies, the response head

A body's hints (`size_hint`, `is_end_stream`) are read by whoever carries it — hyper writes `content-length` from an
exact size and cuts the body there.  `Spec.BodyHints.truthful` is what http-body promises of them; `reading h outs`
puts a hint next to what the body emits from that moment on.  The theorems are about EVERY state a body can be in
(`s` = the inner body's remaining events, `respRun enc s` / `reqBin s` / `reqText buf s` = what the consumer still
gets), for every inner hint that is itself truthful. -/

/-- **The response body's hints are truthful** (after the fix): in every state, for both forms, whatever truthful
hint the inner body gives — the translated body promises no upper bound, its lower bound is covered by what it
emits when it ends cleanly, and it says "end of stream" only when nothing but the end follows. -/
theorem C16_response_hints_truthful (enc : Enc) (s : List BodyEv) (h : Hint)
    (hlo : h.lo ≤ (flat s).length) (heos : h.eos = true → s.filter notPending = []) :
    Spec.BodyHints.truthful (reading (callHint .encode enc h) (respRun enc s)) = true := by
  rw [truthful_iff]
  refine ⟨?_, ?_, ?_⟩
  · intro u hu; simp [callHint] at hu
  · intro hc
    have := respRun_dataLen_ge enc s hc
    simp only [callHint]; omega
  · intro he
    have hs := heos (by simpa [callHint] using he)
    rw [respRun_filter, hs]
    simp [respRun, dataLens, others, endsClean]

/-- **As found, they were not**: `size_hint` was forwarded from the inner body.  Witness: a body of exact size 0 that
still owes its trailers (what `Empty` / `Full` `.with_trailers(..)` report) — the translated body announced exactly
0 bytes and then emitted the 20-byte trailers frame.  Replayed on the real code as the first `hresp` / `wresp`
corpus lines (through hyper: HTTP/1 body cut off before the trailers frame, HTTP/2 stream reset). -/
theorem C16_response_hints_truthful_fails_as_found :
    ¬ ∀ (enc : Enc) (s : List BodyEv) (h : Hint), h.lo ≤ (flat s).length →
        (∀ u, h.hi = some u → (flat s).length ≤ u) → (h.eos = true → s.filter notPending = []) →
        Spec.BodyHints.truthful (reading (callHintAsFound .encode enc h) (respRun enc s)) = true := by
  intro H
  have := H .none [.trailers [(TMap.str "grpc-status", TMap.str "0")]] ⟨0, some 0, false⟩
    (by decide) (by intro u _; exact Nat.zero_le u) (by decide)
  revert this
  decide

/-- **Binary request body: the inner hints hold as they are** — the data passes through unchanged, so the size
bounds and the end-of-stream hint of the request body are right for the body the inner service is handed. -/
theorem C16_request_binary_hints_truthful (s : List BodyEv) (h : Hint)
    (hlo : h.lo ≤ (flat s).length) (hhi : ∀ u, h.hi = some u → (flat s).length ≤ u)
    (heos : h.eos = true → s.filter notPending = []) :
    Spec.BodyHints.truthful (reading (callHint .decode .none h) (reqBin s)) = true := by
  rw [truthful_iff]
  refine ⟨?_, ?_, ?_⟩
  · intro u hu
    have := hhi u (by simpa [callHint] using hu)
    have := reqBin_dataLen_le s
    omega
  · intro hc
    rw [reqBin_dataLen_eq s hc]
    simpa [callHint] using hlo
  · intro he
    have hs := heos (by simpa [callHint] using he)
    rw [reqBin_filter, hs]
    simp [reqBin, dataLens, others, endsClean]

/-- **Text request body**: decoded data is shorter than the text, so (after the fix) the body gives no size at
all; its end-of-stream hint is the inner body's, and when that is raised the only thing left is the end — or, if
an undecodable remainder (1–3 characters) is still buffered, the error of a malformed body. -/
theorem C16_request_text_hints (buf : Bytes) (s : List BodyEv) (h : Hint)
    (heos : h.eos = true → s.filter notPending = []) :
    (callHint .decode .base64 h).lo = 0 ∧ (callHint .decode .base64 h).hi = none ∧
    ((callHint .decode .base64 h).eos = true →
      reqText buf s = if buf.isEmpty then [Out.eos] else [Out.err]) := by
  refine ⟨rfl, rfl, ?_⟩
  intro he
  have hs := heos (by simpa [callHint] using he)
  rw [reqText_filter, hs]
  simp [reqText]

/-- … consequently every reading of a text request body is truthful while no undecoded remainder is buffered. -/
theorem C16_request_text_hints_truthful (s : List BodyEv) (h : Hint)
    (heos : h.eos = true → s.filter notPending = []) :
    Spec.BodyHints.truthful (reading (callHint .decode .base64 h) (reqText [] s)) = true := by
  rw [truthful_iff]
  refine ⟨?_, ?_, ?_⟩
  · intro u hu; simp [callHint] at hu
  · intro _; simp [callHint]
  · intro he
    have := (C16_request_text_hints [] s h heos).2.2 he
    rw [this]
    simp [dataLens, others, endsClean]

/-- As found the text request body claimed the length of the base64 TEXT for the decoded data: `AQ==` (4
characters, exact size 4) decodes to one byte. -/
theorem C16_request_text_hints_fail_as_found :
    Spec.BodyHints.truthful (reading (callHintAsFound .decode .base64 ⟨4, some 4, false⟩)
      (reqText [] [.data (TMap.str "AQ==")])) = false := by
  decide

/-- **`Body::new` around a translated body** (`coerce_request`, `coerce_response`, the pass-through arm): when the
wrapped body is truthful about being at its end, taking it for `Body::empty()` loses nothing, and the wrapper's
hints are truthful whenever the wrapped body's are. -/
theorem C16_body_new_truthful (first now : Hint) (run : List Out)
    (hfirst : first.eos = true → run = [Out.eos])
    (hnow : Spec.BodyHints.truthful (reading now run) = true) :
    bodyNewRun first run = run ∧
    Spec.BodyHints.truthful (reading (bodyNew first now) (bodyNewRun first run)) = true := by
  cases he : first.eos with
  | false => simp [bodyNewRun, bodyNew, he, hnow]
  | true =>
    have hr := hfirst he
    subst hr
    refine ⟨by simp [bodyNewRun, he], ?_⟩
    simp [bodyNewRun, bodyNew, he]
    decide

/-- **The response head comes back as the inner service made it**, except for `content-type`: status, HTTP
version and extensions are kept (any status, not only 200 — a trailers-only answer with `grpc-status` among its
headers included), exactly one `content-type` of the accepted form, every other header value in place.
Conjuncts 1–3 (status, version, extensions kept) are transcription lemmas: `coerceResponseHead a h :=
{ h with headers := … }` touches no other field, so they are `rfl`; that `coerce_response` keeps them in
tonic-web is carried by the correspondence run (response heads compared token for token).  Conjuncts 4–5
are `C16_coerce_response_headers`, which has content. -/
theorem C16_response_head_kept (a : Enc) (h : RespHead) :
    (coerceResponseHead a h).status = h.status ∧
    (coerceResponseHead a h).version = h.version ∧
    (coerceResponseHead a h).ext = h.ext ∧
    TMap.getAll CONTENT_TYPE (coerceResponseHead a h).headers =
      [Spec.GrpcWeb.responseContentType (a == Enc.base64)] ∧
    ∀ k, k ≠ CONTENT_TYPE →
      TMap.getAll k (coerceResponseHead a h).headers = TMap.getAll k h.headers := by
  obtain ⟨h1, h2⟩ := C16_coerce_response_headers a h.headers
  exact ⟨rfl, rfl, rfl, h1, h2⟩

-- non-vacuity: a truthful exact hint on a body with data and trailers; the readings the fixed code gives
example :
    let s : List BodyEv := [.data [0, 0, 0, 0, 1, 7], .pending, .trailers [(TMap.str "grpc-status", TMap.str "0")]]
    let h : Hint := ⟨6, some 6, false⟩
    h.lo ≤ (flat s).length ∧ (flat s).length ≤ 6 ∧
    callHint .encode .base64 h = ⟨6, none, false⟩ ∧
    dataLen (respRun .base64 s) = 36 ∧
    respHints (fun s => ⟨(flat s).length, some (flat s).length, s.isEmpty⟩) .none s =
      [⟨6, none, false⟩, ⟨0, none, false⟩, ⟨0, none, true⟩] := by
  decide

end C16
