import TonicModel.Model.WebServer
import TonicModel.Spec.GrpcWeb
import TonicModel.Lemmas.GrpcWeb
import TonicModel.Lemmas.WebServer
/-
C16 — grpc-web server layer translates requests and responses losslessly.
Property theorems only; helper lemmas live in `Lemmas/GrpcWeb` and `Lemmas/WebServer`.

Vocabulary: a body is the list of events its `poll_frame` produces (`data`, `trailers`, `err`,
`pending`; the end of the list is end-of-stream).  `respRun enc` / `reqRun enc` are what a
consumer gets from the `GrpcWebCall` wrapped around that body.  `Spec.GrpcWeb.read` is the
independent grpc-web reader.
-/
namespace C16
open WebServer WebServerLemmas GrpcWebLemmas
open TMap (Pair)
open Spec.GrpcWeb (nameOk valueOk Item)

/-- **Response side, full statement.**  For every list of message frames, every trailer list,
every way of cutting the frame bytes into body chunks (`chunks` — cuts may fall anywhere, also
inside the 5-byte prefix, and chunks may be empty), every interleaving of `Pending`s, and both
accepted forms (binary / base64 text): the wrapper emits only data frames and then ends, and an
independent grpc-web reader recovers from the concatenated body exactly the original message
frames (same flags, same bytes, same order) followed by exactly one trailers frame whose
entries are, name by name, all the trailer values in their original order. -/
theorem C16_response_lossless (enc : Enc) (frames : List (Bool × Bytes)) (trailers : List Pair)
    (chunks : List Bytes) (evs : List BodyEv)
    (hsched : evs.filter notPending = chunks.map BodyEv.data ++ [BodyEv.trailers trailers])
    (hchunks : chunks.flatten = Spec.GrpcWeb.framesBytes frames)
    (hframes : ∀ f ∈ frames, f.2.length < 4294967296)
    (htr : ∀ p ∈ trailers, nameOk p.1 ∧ valueOk p.2)
    (hlen : (encodeTrailers trailers).length < 4294967296) :
    ∃ (outs : List Bytes) (t' : List Pair),
      respRun enc evs = outs.map Out.data ++ [Out.eos] ∧
      Spec.GrpcWeb.read (enc == Enc.base64) outs.flatten =
        some (frames.map (fun f => Item.msg f.1 f.2) ++ [Item.trailers t']) ∧
      (∀ k, TMap.getAll k t' = TMap.getAll k trailers) ∧
      (∀ p, p ∈ t' ↔ p ∈ trailers) := by
  refine ⟨chunks.map (wrap enc) ++ [wrap enc (makeTrailersFrame trailers)], TMap.group trailers,
    ?_, ?_, fun k => TMap.getAll_group k trailers, fun p => TMap.group_mem p trailers⟩
  · rw [respRun_filter, hsched, respRun_data]
    simp [respRun]
  · have hgrp : ∀ p ∈ TMap.group trailers, nameOk p.1 ∧ valueOk p.2 :=
      fun p hp => htr p ((TMap.group_mem p trailers).1 hp)
    have hblk := parseBlock_lines (TMap.group trailers) hgrp
    rw [← encodeTrailers_eq] at hblk
    -- the raw (un-base64'd) body is: frame bytes ++ trailers frame
    have hraw : Spec.GrpcWeb.parseItems (chunks.flatten ++ makeTrailersFrame trailers) =
        some (frames.map (fun f => Item.msg f.1 f.2) ++ [Item.trailers (TMap.group trailers)]) := by
      have hl5 := framesBytes_length frames
      have hfuel : (chunks.flatten ++ makeTrailersFrame trailers).length + 1 =
          frames.length + ((chunks.flatten ++ makeTrailersFrame trailers).length + 1 - frames.length - 2 + 2) := by
        simp only [hchunks, List.length_append, makeTrailersFrame, List.length_cons, u32be_length]
        omega
      rw [Spec.GrpcWeb.parseItems, hfuel, hchunks, parseItemsAux_frames _ hframes]
      simp only [makeTrailersFrame]
      rw [parseItemsAux_trailers _ _ _ hblk hlen]
      simp
    cases enc with
    | none =>
      have hw : wrap Enc.none = id := by funext b; rfl
      simp only [hw, List.map_id, id, List.flatten_append, List.flatten_cons, List.flatten_nil,
        List.append_nil, Spec.GrpcWeb.read]
      simpa using hraw
    | base64 =>
      have hpieces := stream_pieces' (chunks ++ [makeTrailersFrame trailers])
      have hw : wrap Enc.base64 = B64.encode true := by funext b; rfl
      simp only [hw, Spec.GrpcWeb.read, beq_self_eq_true, if_true]
      have e : (chunks.map (B64.encode true) ++ [B64.encode true (makeTrailersFrame trailers)]) =
          (chunks ++ [makeTrailersFrame trailers]).map (B64.encode true) := by simp
      rw [e, hpieces]
      simpa using hraw

/-- **Base64 stream lemma** (the heart of text mode): pieces that are base64-encoded and padded
one at a time — which is how `poll_encode` emits a body, one piece per inner frame — read back,
after concatenation, as the concatenation of the pieces, wherever the piece boundaries fall
(inside a 3-byte group, empty pieces, …). -/
theorem C16_base64_stream (pieces : List Bytes) :
    Spec.GrpcWeb.b64StreamDecode ((pieces.map (wrap Enc.base64)).flatten) = some pieces.flatten :=
  stream_pieces' pieces

/-- An inner error is passed on as an error after the frames that preceded it (the body never
ends cleanly in that case). -/
theorem C16_response_error_not_clean (enc : Enc) (chunks : List Bytes) (rest : List BodyEv) :
    respRun enc (chunks.map BodyEv.data ++ BodyEv.err :: rest) =
      chunks.map (fun c => Out.data (wrap enc c)) ++ [Out.err] := by
  rw [respRun_data]; rfl

/-- **Request side, text mode.**  For every payload and every way of cutting its (single,
padded) base64 text into body chunks — cuts inside a quantum, empty chunks, `Pending`s — the
inner service receives data frames whose concatenation is the payload, then a clean end. -/
theorem C16_request_text_lossless (payload : Bytes) (chunks : List Bytes) (evs : List BodyEv)
    (hsched : evs.filter notPending = chunks.map BodyEv.data)
    (hbody : chunks.flatten = B64.encode true payload) :
    ∃ outs : List Bytes, reqRun Enc.base64 evs = outs.map Out.data ++ [Out.eos] ∧
      outs.flatten = payload := by
  simp only [reqRun]
  rw [reqText_filter, hsched]
  exact reqText_canonical chunks [] payload (by simp) (by simpa using hbody)

/-- **Request side, text mode, soundness for arbitrary bodies** (malformed ones included):
whenever the stream handed to the inner service ends cleanly, the bytes it carried are exactly
what the independent reader decodes from the whole request body.  Equivalently: a body the
reader rejects (foreign symbol, length not a multiple of four, non-zero discarded bits, …)
never reaches the inner service as a clean stream. -/
theorem C16_request_text_sound (evs : List BodyEv)
    (hclean : endsClean (reqRun Enc.base64 evs) = true) :
    Spec.GrpcWeb.b64StreamDecode (flat evs) = some (dataOf (reqRun Enc.base64 evs)) := by
  simpa [reqRun] using reqText_sound evs [] (by simpa [reqRun] using hclean)

/-- **Request side, binary mode**: the chunks pass through one for one. -/
theorem C16_request_binary_lossless (chunks : List Bytes) (evs : List BodyEv)
    (hsched : evs.filter notPending = chunks.map BodyEv.data) :
    reqRun Enc.none evs = chunks.map Out.data ++ [Out.eos] := by
  simp only [reqRun]
  rw [reqBin_filter, hsched, reqBin_data]

/-- Map the model's decision to the oracle's vocabulary. -/
private def toExpect : Action → Spec.GrpcWeb.Expect
  | .web e a => .web (e == Enc.base64) (a == Enc.base64)
  | .status c => .status c
  | .pass => .pass

private theorem ct_consts :
    Spec.GrpcWeb.webContentType GRPC_WEB = some false ∧
    Spec.GrpcWeb.webContentType GRPC_WEB_PROTO = some false ∧
    Spec.GrpcWeb.webContentType GRPC_WEB_TEXT = some true ∧
    Spec.GrpcWeb.webContentType GRPC_WEB_TEXT_PROTO = some true := by decide

private theorem ct_other (v : Bytes) (h1 : v ≠ GRPC_WEB) (h2 : v ≠ GRPC_WEB_PROTO)
    (h3 : v ≠ GRPC_WEB_TEXT) (h4 : v ≠ GRPC_WEB_TEXT_PROTO) :
    Spec.GrpcWeb.webContentType v = none := by
  have e1 : TMap.str "application/grpc-web" = GRPC_WEB := rfl
  have e2 : GRPC_WEB ++ TMap.str "+proto" = GRPC_WEB_PROTO := by decide
  have e3 : GRPC_WEB ++ TMap.str "-text" = GRPC_WEB_TEXT := by decide
  have e4 : GRPC_WEB ++ TMap.str "-text+proto" = GRPC_WEB_TEXT_PROTO := by decide
  simp only [Spec.GrpcWeb.webContentType, e1, e2, e3, e4, h1, h2, h3, h4, or_self, if_false]

private theorem web_ct (v : Option Bytes) :
    (v.bind Spec.GrpcWeb.webContentType).isSome = isGrpcWeb v ∧
    ((v.bind Spec.GrpcWeb.webContentType) == some true) = (encFromHeader v == Enc.base64) := by
  cases v with
  | none => simp [isGrpcWeb, encFromHeader]
  | some x =>
    obtain ⟨c1, c2, c3, c4⟩ := ct_consts
    by_cases h1 : x = GRPC_WEB
    · subst h1; simp only [Option.bind_some, c1]; decide
    by_cases h2 : x = GRPC_WEB_PROTO
    · subst h2; simp only [Option.bind_some, c2]; decide
    by_cases h3 : x = GRPC_WEB_TEXT
    · subst h3; simp only [Option.bind_some, c3]; decide
    by_cases h4 : x = GRPC_WEB_TEXT_PROTO
    · subst h4; simp only [Option.bind_some, c4]; decide
    simp [ct_other x h1 h2 h3 h4, isGrpcWeb, encFromHeader, h1, h2, h3, h4]

/-- **Status cases.**  For every method, HTTP version, content-type and accept header, the
layer's decision is the protocol's: a grpc-web content type with POST is translated (request
form from the content type, response form from Accept), with any other method it is answered
405 without calling the inner service; anything else is passed through untouched on HTTP/2
and answered 400 otherwise. -/
theorem C16_status_cases (method : Bytes) (isH2 : Bool) (ct accept : Option Bytes) :
    toExpect (classify method isH2 ct accept) = Spec.GrpcWeb.expect method isH2 ct accept := by
  obtain ⟨hs, ht⟩ := web_ct ct
  obtain ⟨_, ha⟩ := web_ct accept
  simp only [classify, Spec.GrpcWeb.expect]
  cases hw : ct.bind Spec.GrpcWeb.webContentType with
  | none =>
    have : isGrpcWeb ct = false := by rw [← hs, hw]; rfl
    simp only [this]
    cases isH2 <;> simp [toExpect]
  | some t =>
    have hg : isGrpcWeb ct = true := by rw [← hs, hw]; rfl
    simp only [hg, if_true]
    by_cases hm : method = TMap.str "POST"
    · simp only [hm, beq_self_eq_true, if_true, toExpect, ha]
      rw [hw] at ht
      cases t <;> simp_all
    · have : (method == TMap.str "POST") = false := by simpa using hm
      simp [this, hm, toExpect]

/-- The translated request carries the gRPC content type and the translated response the
grpc-web content type of the form that was asked for. -/
theorem C16_content_types :
    GRPC_CONTENT_TYPE = Spec.GrpcWeb.grpcContentType ∧
    ∀ a : Enc, toContentType a = Spec.GrpcWeb.responseContentType (a == Enc.base64) := by
  refine ⟨rfl, fun a => ?_⟩
  cases a <;> rfl

/-! Non-vacuity: the hypotheses are satisfiable by non-trivial values. -/

/-- two frames cut inside the first prefix and inside the second payload, a repeated trailer
name and a value containing a colon, with a `Pending` in between. -/
example :
    let frames : List (Bool × Bytes) := [(false, [1, 2, 3]), (true, [9])]
    let trailers : List Pair := [(TMap.str "grpc-status", TMap.str "0"), (TMap.str "x", TMap.str "a:b"),
      (TMap.str "grpc-status", TMap.str "7")]
    let chunks : List Bytes := [[0, 0], [0, 0, 3, 1, 2, 3, 1, 0, 0, 0, 1], [], [9]]
    let evs := [BodyEv.data [0, 0], .pending, .data [0, 0, 3, 1, 2, 3, 1, 0, 0, 0, 1], .data [], .data [9],
      .pending, .trailers trailers]
    evs.filter notPending = chunks.map BodyEv.data ++ [BodyEv.trailers trailers] ∧
    chunks.flatten = Spec.GrpcWeb.framesBytes frames ∧
    (∀ p ∈ trailers, nameOk p.1 ∧ valueOk p.2) ∧
    Spec.GrpcWeb.read true (dataOf (respRun Enc.base64 evs)) =
      some [Item.msg false [1, 2, 3], Item.msg true [9],
        Item.trailers [(TMap.str "grpc-status", TMap.str "0"), (TMap.str "grpc-status", TMap.str "7"),
          (TMap.str "x", TMap.str "a:b")]] := by
  decide

example : reqRun Enc.base64 [.data (TMap.str "AAAAAA"), .pending, .data (TMap.str "IBA"), .data (TMap.str "g==")] =
    [Out.data [0, 0, 0], Out.data [0, 2, 1], Out.data [2], Out.eos] := by decide

-- a truncated / mid-padded text body does not end cleanly
example : reqRun Enc.base64 [.data (TMap.str "AAAAAAIBA")] = [Out.data [0, 0, 0, 0, 2, 1], Out.err] := by decide
example : reqRun Enc.base64 [.data (TMap.str "AQ==AQ==")] = [Out.err] := by decide
example : classify (TMap.str "GET") true (some GRPC_WEB_TEXT) none = Action.status 405 := by decide
example : classify (TMap.str "POST") false (some GRPC_WEB_TEXT) (some GRPC_WEB) = Action.web .base64 .none := by decide

end C16
