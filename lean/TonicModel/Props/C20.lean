import TonicModel.Model.RichError
import TonicModel.Spec.RichError
import TonicModel.Lemmas.RichError
import TonicModel.Lemmas.RichErrorWire
import TonicModel.Lemmas.SpecRichError
import TonicModel.Model.RichErrorTrip
import TonicModel.Props.C04
import TonicModel.Lemmas.Utf8Agree
import TonicModel.Lemmas.RichErrorRetry
/-
C20 — rich error details round-trip through a status.  Property theorems only.

Parameters of the theorems in the first part:
* `P : Prost` with `L : P.Laws WFd WFs` — prost's encode/decode of the ten detail messages and of
  google.rpc.Status, with their round-trip laws;
* `hdr`, `unhdr` with `hh : ∀ st, unhdr (hdr st) = some st` — an IDEAL status header encoding:
  every status (any code number, any message bytes, any metadata) comes back whole.  This is a
  parameter, not C04's result: the header model of C04 (`Status::add_header` /
  `Status::from_header_map`) does NOT satisfy `hh` (`C20_header_law_not_met_by_C04_model`: code 17,
  a non-UTF-8 message, metadata under a reserved name).  The theorems that carry `hh` therefore
  speak about the details bytes given that the status arrives; the statements through the real
  header model, without `hh`, are `C20_trip_invisible` and the `*_through_headers` theorems at the
  end of the file.
-/
namespace C20
open RichError

section parametric
variable {M H : Type} (P : Prost) {WFd : ErrorDetail → Prop} {WFs : PbStatus → Prop}
  (L : P.Laws WFd WFs) (hdr : Status M → H) (unhdr : H → Option (Status M))
  (hh : ∀ st, unhdr (hdr st) = some st)
include L hh

/-- Ordered list: any list of details (any kinds, repeated kinds, any order) attached with
`with_error_details_vec[_and_metadata]` comes back from `check_error_details_vec` unchanged —
same kinds, same order, same field values — after the status went through the header encoding;
the outer code and message are the ones given. -/
theorem C20_vec_roundtrip (code : Nat) (msg : Bytes) (ds : List ErrorDetail) (md : M)
    (hd : ∀ d ∈ ds, WFd d) (hs : WFs ⟨code, msg, ds.map (intoAny P)⟩) :
    ∃ st, unhdr (hdr (withVec P code msg ds md)) = some st ∧ st.code = code ∧ st.message = msg ∧
      checkVec P st.details = some ds ∧ getVec P st.details = ds := by
  refine ⟨_, hh _, rfl, rfl, ?_⟩
  have : checkVec P (withVec P code msg ds md).details = some ds := by
    simp only [checkVec, withVec, genDetailsBytes, L.status _ hs]
    exact checkVecAnys_intoAny P L ds hd
  simp [getVec, this]

/-- Set form: an `ErrorDetails` value attached with `with_error_details[_and_metadata]` comes back
from `check_error_details` unchanged. -/
theorem C20_set_roundtrip (code : Nat) (msg : Bytes) (s : ErrorDetails) (md : M)
    (hd : ∀ d ∈ s.toList, WFd d) (hs : WFs ⟨code, msg, s.toList.map (intoAny P)⟩) :
    ∃ st, unhdr (hdr (withSet P code msg s md)) = some st ∧ st.code = code ∧ st.message = msg ∧
      checkSet P st.details = some s ∧ getSet P st.details = s := by
  refine ⟨_, hh _, rfl, rfl, ?_⟩
  have : checkSet P (withSet P code msg s md).details = some s := by
    simp only [checkSet, withSet, genDetailsBytes, L.status _ hs]
    rw [checkSetAnys_intoAny P L _ hd, foldl_put_toList]
  simp [getSet, this]

omit hh in
/-- The two forms read each other: a set read as a list gives its members in the fixed kind
order; a list read as a set gives, for each kind, the last detail of that kind. -/
theorem C20_cross_forms (code : Nat) (msg : Bytes) (md : M) :
    (∀ s : ErrorDetails, (∀ d ∈ s.toList, WFd d) → WFs ⟨code, msg, s.toList.map (intoAny P)⟩ →
      checkVec P (withSet P code msg s md).details = some s.toList) ∧
    (∀ ds : List ErrorDetail, (∀ d ∈ ds, WFd d) → WFs ⟨code, msg, ds.map (intoAny P)⟩ →
      checkSet P (withVec P code msg ds md).details = some (ds.foldl ErrorDetails.put {})) := by
  constructor
  · intro s hd hs
    simp only [checkVec, withSet, genDetailsBytes, L.status _ hs]
    exact checkVecAnys_intoAny P L _ hd
  · intro ds hd hs
    simp only [checkSet, withVec, genDetailsBytes, L.status _ hs]
    exact checkSetAnys_intoAny P L _ hd _

/-- Each `get_details_<kind>` getter returns the first detail of its kind that was attached
(and nothing if there is none), after the header trip. -/
theorem C20_getters_first (code : Nat) (msg : Bytes) (ds : List ErrorDetail) (md : M) (k : Kind)
    (hd : ∀ d ∈ ds, WFd d) (hs : WFs ⟨code, msg, ds.map (intoAny P)⟩) :
    ∃ st, unhdr (hdr (withVec P code msg ds md)) = some st ∧
      getFirst P k st.details = Spec.RichError.firstOfKind k ds := by
  refine ⟨_, hh _, ?_⟩
  simp only [getFirst, withVec, genDetailsBytes, L.status _ hs]
  exact firstOfKindAnys_intoAny P L k ds hd

/-- The embedded google.rpc.Status (what prost decodes from the details bytes that arrive)
carries the outer status' code and message, and one `Any` per attached detail with that detail's
type URL. -/
theorem C20_embedded_status (code : Nat) (msg : Bytes) (ds : List ErrorDetail) (md : M)
    (hs : WFs ⟨code, msg, ds.map (intoAny P)⟩) :
    ∃ st emb, unhdr (hdr (withVec P code msg ds md)) = some st ∧ P.decStatus st.details = some emb ∧
      emb.code = st.code ∧ emb.message = st.message ∧
      emb.details.map (·.typeUrl) = ds.map (fun d => typeUrl d.kind) := by
  refine ⟨_, _, hh _, L.status _ hs, rfl, rfl, ?_⟩
  simp [intoAny, List.map_map, Function.comp_def]

end parametric

/-- The `TYPE_URL` dispatch of `check_error_details[_vec]` sends each kind's URL to that kind, so
no two kinds can be confused. (Transcription lemma: it holds by unfolding the model's definition, so it pins the model's shape for the correspondence run — its assurance about tonic is the tie, not this proof.) -/
theorem C20_url_dispatch (k : Kind) : kindOfUrl (typeUrl k) = some k := kindOfUrl_typeUrl k

/-- Decode side, any `Prost`, any bytes: a failed check is an empty result of the corresponding
`get_*`, a successful one is that result — the model has no third outcome. (Transcription lemma: it holds by unfolding the model's definition, so it pins the model's shape for the correspondence run — its assurance about tonic is the tie, not this proof.) -/
theorem C20_decode_total (P : Prost) (b : Bytes) :
    (checkVec P b = none ∧ getVec P b = [] ∨ ∃ ds, checkVec P b = some ds ∧ getVec P b = ds) ∧
    (checkSet P b = none ∧ getSet P b = {} ∨ ∃ s, checkSet P b = some s ∧ getSet P b = s) := by
  constructor
  · cases h : checkVec P b <;> simp [getVec, h]
  · cases h : checkSet P b <;> simp [getSet, h]

/-! ## prost made concrete: the protobuf wire model

`prost : Prost` is the model of prost 0.13's reader/writer on the generated `pb` types
(`Basic/PbWire` + the field tables of `generated/google_rpc.rs`).  For it the laws are theorems,
so the only remaining hypothesis of the composed statements in this section is the ideal header
round trip `hh` (see the note at the top: C04's header model does not satisfy it; the
`*_through_headers` theorems below replace it by the header model itself). -/

/-- prost's encoding of each of the ten detail messages decodes back to the same detail: for all
UTF-8 strings, any number of violations / links / stack entries, metadata maps with distinct
keys, retry delays whose seconds fit an `i64`. -/
theorem C20_prost_detail_roundtrip (d : ErrorDetail) (hwf : Spec.RichError.wfDetail d = true)
    (hsize : (prost.encDetail d).length < 18446744073709551616) :
    prost.decDetail d.kind (prost.encDetail d) = some d :=
  prost_detail_law d ⟨hwf, hsize⟩

/-- prost's encoding of google.rpc.Status `{code, message, details: Any*}` decodes back to the
same message, for every `int32` code, UTF-8 message and list of `Any`s with UTF-8 type URLs and
arbitrary value bytes. -/
theorem C20_prost_status_roundtrip (st : PbStatus)
    (hcode : -2147483648 ≤ st.code ∧ st.code < 2147483648) (hmsg : Utf8Rust.valid st.message = true)
    (hurl : ∀ a ∈ st.details, Utf8Rust.valid a.typeUrl = true)
    (hsize : (prost.encStatus st).length < 18446744073709551616) :
    prost.decStatus (prost.encStatus st) = some st :=
  prost_status_law st ⟨hcode, hmsg, hurl, hsize⟩

section wire
variable {M H : Type} (hdr : Status M → H) (unhdr : H → Option (Status M))
  (hh : ∀ st, unhdr (hdr st) = some st)
include hh

/-- The list form end to end over the wire model: attach, encode with prost, travel through the
header encoding, decode with prost, dispatch — the same list comes back, and the outer code and
message are unchanged. -/
theorem C20_wire_vec_roundtrip (code : Nat) (msg : Bytes) (ds : List ErrorDetail) (md : M)
    (hcode : code ≤ 16) (hmsg : Utf8Rust.valid msg = true)
    (hwf : ∀ d ∈ ds, Spec.RichError.wfDetail d = true)
    (hsize : (withVec prost code msg ds md).details.length < 18446744073709551616) :
    ∃ st, unhdr (hdr (withVec prost code msg ds md)) = some st ∧ st.code = code ∧ st.message = msg ∧
      checkVec prost st.details = some ds ∧ getVec prost st.details = ds := by
  obtain ⟨hd, hs⟩ := wf_of_plain code msg ds hwf hmsg hcode hsize
  exact C20_vec_roundtrip prost prost_laws hdr unhdr hh code msg ds md hd hs

/-- The set form end to end over the wire model. -/
theorem C20_wire_set_roundtrip (code : Nat) (msg : Bytes) (s : ErrorDetails) (md : M)
    (hcode : code ≤ 16) (hmsg : Utf8Rust.valid msg = true)
    (hwf : ∀ d ∈ s.toList, Spec.RichError.wfDetail d = true)
    (hsize : (withSet prost code msg s md).details.length < 18446744073709551616) :
    ∃ st, unhdr (hdr (withSet prost code msg s md)) = some st ∧ st.code = code ∧ st.message = msg ∧
      checkSet prost st.details = some s ∧ getSet prost st.details = s := by
  obtain ⟨hd, hs⟩ := wf_of_plain code msg s.toList hwf hmsg hcode hsize
  exact C20_set_roundtrip prost prost_laws hdr unhdr hh code msg s md hd hs

/-- The getters end to end over the wire model: first detail of the kind, or nothing. -/
theorem C20_wire_getters_first (code : Nat) (msg : Bytes) (ds : List ErrorDetail) (md : M) (k : Kind)
    (hcode : code ≤ 16) (hmsg : Utf8Rust.valid msg = true)
    (hwf : ∀ d ∈ ds, Spec.RichError.wfDetail d = true)
    (hsize : (withVec prost code msg ds md).details.length < 18446744073709551616) :
    ∃ st, unhdr (hdr (withVec prost code msg ds md)) = some st ∧
      getFirst prost k st.details = Spec.RichError.firstOfKind k ds := by
  obtain ⟨hd, hs⟩ := wf_of_plain code msg ds hwf hmsg hcode hsize
  exact C20_getters_first prost prost_laws hdr unhdr hh code msg ds md k hd hs

/-- The google.rpc.Status that prost decodes from the bytes that arrive has the outer status'
code and message (whatever the details are, well-formed or not, as long as prost could encode
them: this clause needs no hypothesis on the details' contents). -/
theorem C20_wire_embedded_status (code : Nat) (msg : Bytes) (ds : List ErrorDetail) (md : M)
    (hcode : code ≤ 16) (hmsg : Utf8Rust.valid msg = true)
    (hsize : (withVec prost code msg ds md).details.length < 18446744073709551616) :
    ∃ st emb, unhdr (hdr (withVec prost code msg ds md)) = some st ∧
      prost.decStatus st.details = some emb ∧ emb.code = st.code ∧ emb.message = st.message ∧
      emb.details.length = ds.length := by
  have hs : WFs ⟨code, msg, ds.map (intoAny prost)⟩ := by
    refine ⟨by show (-2147483648 : Int) ≤ (code : Int) ∧ (code : Int) < 2147483648; omega, hmsg, ?_, hsize⟩
    intro a ha
    obtain ⟨d, _, rfl⟩ := List.mem_map.mp ha
    exact valid_typeUrl _
  refine ⟨_, _, hh _, prost_status_law _ hs, rfl, rfl, by simp⟩

end wire

/-- The ideal header law `hh` is NOT what C04's header model provides (for `M = HMap`, writing with
`Status.addHeader` into an empty map and reading with `readBack` = `Status.fromHeaderMap`): metadata
under a reserved name does not come back, a code outside 0..16 does not, a non-UTF-8 message does
not.  So `hh` cannot be discharged by C04; the `*_through_headers` theorems are the ones without it. -/
theorem C20_header_law_not_met_by_C04_model :
    let hdr : Status HMap → Option HMap := fun st =>
      match _root_.Status.addHeader .fixed (toSt st) [] with | .ok h => some h | .error _ => none
    let unhdr : Option HMap → Option (Status HMap) := fun h =>
      (h.bind readBack).map fun s => ⟨s.code.num, s.message, s.details, s.metadata⟩
    (¬ ∀ st, unhdr (hdr st) = some st) ∧
    (unhdr (hdr ⟨17, [], [], []⟩)).map (·.code) ≠ some 17 ∧
    (unhdr (hdr ⟨3, [0xff], [], []⟩)).map (·.message) ≠ some [0xff] := by
  refine ⟨fun h => ?_, by decide, by decide +kernel⟩
  have := congrArg (Option.map (·.metadata)) (h ⟨3, [0x6d], [], [(Status.GRPC_MESSAGE, [0x78])]⟩)
  revert this; decide

/-! ## Wire conformance: the independent decoder of `Spec/` reads what tonic-types + prost write -/

/-- The details bytes produced for a list of details are, read by the naive .proto-driven decoder
of `Spec/RichError` (its varint reader, record cutting, field lookup, type URLs and Duration are
its own; the ONE thing it shares with the prost model is the UTF-8 validator
`Basic/Utf8Rust.valid`, which is also the domain predicate — a wrong validator would be a symmetric
deviation these theorems cannot see; `Utf8Agree.valid_eq` proves it equal to the separately written
`Utf8.valid`, for which `Utf8.valid_encodeChars` shows every Rust `String` is accepted), a
google.rpc.Status with the
outer status' code and message and exactly the attached details — kinds, order and field values.
A symmetric deviation of writer and reader (swapped field numbers, a misspelt type URL) would
survive the round-trip theorems but not this one. -/
theorem C20_wire_conformant (code : Nat) (msg : Bytes) (ds : List ErrorDetail)
    (hcode : code ≤ 16) (hmsg : Utf8Rust.valid msg = true)
    (hwf : ∀ d ∈ ds, Spec.RichError.wfDetail d = true)
    (hsize : (withVec prost code msg ds ()).details.length < 18446744073709551616) :
    Spec.RichError.carries code msg ds (withVec prost code msg ds ()).details = true := by
  obtain ⟨hd, hs⟩ := wf_of_plain code msg ds hwf hmsg hcode hsize
  exact SpecWire.spec_carries code msg ds hd hs

/-- The same for the set form (the order on the wire is not constrained for a set). -/
theorem C20_wire_conformant_set (code : Nat) (msg : Bytes) (s : ErrorDetails)
    (hcode : code ≤ 16) (hmsg : Utf8Rust.valid msg = true)
    (hwf : ∀ d ∈ s.toList, Spec.RichError.wfDetail d = true)
    (hsize : (withSet prost code msg s ()).details.length < 18446744073709551616) :
    Spec.RichError.carriesSet code msg s.toList (withSet prost code msg s ()).details = true := by
  obtain ⟨hd, hs⟩ := wf_of_plain code msg s.toList hwf hmsg hcode hsize
  exact SpecWire.spec_carriesSet code msg s.toList hd hs

/-- "The embedded google.rpc.Status carries the same code and message as the outer status",
judged by the independent decoder, for any details whatsoever. -/
theorem C20_embedded_status_spec (code : Nat) (msg : Bytes) (ds : List ErrorDetail)
    (hcode : code ≤ 16) (hmsg : Utf8Rust.valid msg = true)
    (hsize : (withVec prost code msg ds ()).details.length < 18446744073709551616) :
    Spec.RichError.embeds code msg (withVec prost code msg ds ()).details = true := by
  have hs : WFs ⟨code, msg, ds.map (intoAny prost)⟩ := by
    refine ⟨by show (-2147483648 : Int) ≤ (code : Int) ∧ (code : Int) < 2147483648; omega, hmsg, ?_, hsize⟩
    intro a ha
    obtain ⟨d, _, rfl⟩ := List.mem_map.mp ha
    exact valid_typeUrl _
  exact SpecWire.spec_embeds code msg _ hs

/-! ## `RetryInfo`: the clamp on the way in, the negative-delay rule on the way out -/

/-- Everything built through `RetryInfo::new` / `ErrorDetails::set_retry_info` is inside the
domain of the round-trip theorems (the clamp keeps the seconds far below `i64::MAX`). -/
theorem C20_retry_new_in_domain (d : Dur) (hn : d.nanos < 1000000000) :
    Spec.RichError.wfDetail (.retryInfo (RetryInfo.new (some d))) = true := by
  obtain ⟨s, n⟩ := d
  simp only [RetryInfo.new, Option.map_some, Spec.RichError.wfDetail]
  cases hc : Dur.gt ⟨s, n⟩ maxRetryDelay
  · simp only [Bool.false_eq_true, if_false]
    simp only [Dur.gt, maxRetryDelay, Bool.or_eq_false_iff, Bool.and_eq_false_iff,
      beq_eq_false_iff_ne] at hc
    simp only [Spec.RichError.wfDur, Bool.and_eq_true, decide_eq_true_eq]
    have h1 : ¬ (315576000000 < s) := of_decide_eq_false hc.1
    exact ⟨by omega, hn⟩
  · simp only [if_true]; decide

/-- Outside the domain (a `RetryInfo { retry_delay }` literal whose seconds exceed `i64::MAX`)
the delay that comes back over the wire — `From<RetryInfo> for pb::RetryInfo`, prost encode, prost
decode, `From<pb::RetryInfo>` — is the documented maximum, not the original (first conjunct; the
second is the same fact for the two conversion helpers alone). -/
theorem C20_retry_out_of_range (s n : Nat) (hs : 9223372036854775807 < s) :
    prost.decDetail .retryInfo (prost.encDetail (.retryInfo ⟨some ⟨s, n⟩⟩)) =
      some (.retryInfo ⟨some maxRetryDelay⟩) ∧
    durOfPb (durToPb ⟨s, n⟩) = maxRetryDelay := by
  have : ¬ ((s : Int) ≤ i64Max) := by simp only [i64Max]; omega
  constructor
  · simp only [prost, ErrorDetail.kind, toPb, Option.map_some, durToPb, this, if_false]
    decide +kernel
  · simp only [durToPb, this, if_false]
    decide

/-- FINDING (pinned tree, before fix-C20-retry-delay-i64-min): a `RetryInfo` whose
`retry_delay` normalizes to `i64::MIN` seconds — here `seconds = i64::MIN, nanos = 0`, 13 bytes any
peer can send — makes `From<pb::RetryInfo>` negate `i64::MIN`, which panics when overflow checks
are on.  The witness is the value field of the `Any`; `some none` = decoded by prost, then panic.
(`seconds = i64::MIN` on the wire is neither necessary nor sufficient in general: see
`C20_retry_delay_panic_class`.) -/
theorem C20_retry_delay_asis_fails :
    retryDelayAsIs [0x0a, 0x0b, 0x08, 0x80, 0x80, 0x80, 0x80, 0x80, 0x80, 0x80, 0x80, 0x80, 0x01] = some none := by
  decide +kernel

/-- Transcription lemma: `durOfPairAsIs` is defined with the branch
`else if (normalize s n).1 = i64Min then none`, and this reads that branch back (the only added
fact is `i64Min < 0`); it pins the model's shape.  The class of RAW `(seconds, nanos)` pairs that
trigger the panic is `C20_retry_delay_panic_class`; that the real conversion panics exactly there
is what the `raw` corpus cases of the correspondence run (the `normalize` duration table sent
through RetryInfo: 14 seconds values × 15 nanos values, on the unrepaired tree) establishes.

The panic happens exactly when the normalized seconds are `i64::MIN` … -/
theorem C20_retry_delay_panic_iff (s n : Int) :
    durOfPairAsIs s n = none ↔ (normalize s n).1 = i64Min := by
  unfold durOfPairAsIs
  split
  · rename_i h; simp only [i64Min]; constructor
    · intro h'; cases h'
    · intro h'; omega
  · split <;> simp_all

/-- **The trigger class in terms of what a peer sends.**  For a `seconds` field that is an `i64`
(any `nanos`): the pinned conversion panics iff `nanos ≤ 0` and `seconds` plus the whole seconds
carried by `nanos` (`nanos / 10^9`, truncated) is at or below `i64::MIN` — through
`prost_types::Duration::normalize` (carry, saturation, sign fix-up), not just `seconds == i64::MIN`:
`(i64::MIN + 1, -10^9)` panics and `(i64::MIN, 5)` does not. -/
theorem C20_retry_delay_panic_class (s n : Int) (hs : i64Min ≤ s) (hs' : s ≤ i64Max) :
    (durOfPairAsIs s n = none ↔ (n ≤ 0 ∧ s + n.tdiv nanosPerSec ≤ i64Min)) ∧
    durOfPairAsIs (-9223372036854775807) (-1000000000) = none ∧
    durOfPairAsIs (-9223372036854775808) 5 = some ⟨0, 0⟩ := by
  refine ⟨?_, by decide, by decide⟩
  rw [C20_retry_delay_panic_iff]
  exact normalize_fst_min_iff s n hs hs'

/-- … and the repaired conversion differs from the original nowhere else: wherever the original
returns, the repaired one returns the same delay; where it panicked, the repaired one gives zero
(the documented "negative retry_delays become 0"). -/
theorem C20_retry_delay_fix_agrees (s n : Int) :
    (∀ d, durOfPairAsIs s n = some d → durOfPair s n = d) ∧
    (durOfPairAsIs s n = none → durOfPair s n = ⟨0, 0⟩) := by
  unfold durOfPairAsIs durOfPair
  constructor
  · intro d h
    split at h
    · rename_i hpos
      have : ¬ ((normalize s n).1 < 0 ∨ (normalize s n).2 < 0) := by omega
      simp only [this, if_false]
      exact Option.some.inj h
    · rename_i hneg
      have : (normalize s n).1 < 0 ∨ (normalize s n).2 < 0 := by omega
      simp only [this, if_true]
      split at h
      · cases h
      · exact Option.some.inj h
  · intro h
    split at h
    · cases h
    · rename_i hneg
      have : (normalize s n).1 < 0 ∨ (normalize s n).2 < 0 := by omega
      simp only [this, if_true]

/-- Decode side, arbitrary bytes, over the wire model: whenever `check_error_details_vec`
succeeds on what arrived (from any peer, well-formed or not), `check_error_details` succeeds too
and holds the last detail of each kind, and every `get_details_<kind>` returns the first detail
of its kind of that same list.  (When the list check fails the getters may still find a detail:
they skip undecodable entries; that is modelled and tied, not claimed here.) -/
theorem C20_decode_consistent (b : Bytes) (ds : List ErrorDetail) (h : checkVec prost b = some ds) :
    checkSet prost b = some (ds.foldl ErrorDetails.put {}) ∧
    ∀ k, getFirst prost k b = Spec.RichError.firstOfKind k ds := by
  unfold checkVec at h
  unfold checkSet getFirst
  cases hs : prost.decStatus b with
  | none => simp [hs] at h
  | some st =>
    simp only [hs] at h ⊢
    exact ⟨checkSet_of_checkVec prost prost_kind_law _ _ _ h,
      fun k => firstOfKind_of_checkVec prost prost_kind_law k _ _ h⟩

/- Non-vacuity.  The hypotheses of the composed theorems are met by a non-trivial value: a header
encoding with the round-trip law exists (the identity), and a status with a two-byte UTF-8
message, a localized message with a multi-byte string, a retry delay, a quota failure with two
violations and an error info with two metadata entries is inside the domain. -/
example : ∃ st, (some : Status Unit → Option (Status Unit)) (id (withVec prost 3 [0xc3, 0xa9]
      [.localizedMessage ⟨[0x65, 0x6e], [0xe2, 0x82, 0xac]⟩, .retryInfo ⟨some ⟨5, 7⟩⟩,
       .quotaFailure ⟨[⟨[0x61], []⟩, ⟨[], [0x62]⟩]⟩, .errorInfo ⟨[0x52], [], [([0x6b], [0x31]), ([], [0x32])]⟩] ())) = some st ∧
    st.code = 3 ∧ st.message = [0xc3, 0xa9] ∧
    checkVec prost st.details = some
      [.localizedMessage ⟨[0x65, 0x6e], [0xe2, 0x82, 0xac]⟩, .retryInfo ⟨some ⟨5, 7⟩⟩,
       .quotaFailure ⟨[⟨[0x61], []⟩, ⟨[], [0x62]⟩]⟩, .errorInfo ⟨[0x52], [], [([0x6b], [0x31]), ([], [0x32])]⟩] ∧
    getVec prost st.details =
      [.localizedMessage ⟨[0x65, 0x6e], [0xe2, 0x82, 0xac]⟩, .retryInfo ⟨some ⟨5, 7⟩⟩,
       .quotaFailure ⟨[⟨[0x61], []⟩, ⟨[], [0x62]⟩]⟩, .errorInfo ⟨[0x52], [], [([0x6b], [0x31]), ([], [0x32])]⟩] :=
  C20_wire_vec_roundtrip id some (fun _ => rfl) 3 [0xc3, 0xa9] _ () (by decide) (by decide)
    (by decide) (by decide +kernel)

/- The same value directly: -/
example : checkVec prost (withVec prost 3 [0x6d] [.localizedMessage ⟨[0x65, 0x6e], [0xc3, 0xa9]⟩,
    .retryInfo ⟨some ⟨5, 7⟩⟩] ()).details
    = some [.localizedMessage ⟨[0x65, 0x6e], [0xc3, 0xa9]⟩, .retryInfo ⟨some ⟨5, 7⟩⟩] := by decide +kernel

/-! ## the other ways through the header encoding (`x` cases)

`RichError.trip` composes the header model of C04 (`Status.addHeader` / `Status.fromHeaderMap`, the tree as
it stands): a fresh map, a block in use, the trailers-only response of `Status::into_http`, a peer
that pads its base64, a proxy that writes the recovered status again. -/

private theorem once_ok (h0 : HMap) (st : St) (hutf : Utf8.valid st.message = true)
    (hm0 : HMap.getAll Status.GRPC_MESSAGE h0 = []) (hd0 : HMap.getAll Status.GRPC_STATUS_DETAILS h0 = []) :
    ∃ st', once h0 st = some st' ∧ st'.code = st.code ∧ st'.message = st.message ∧ st'.details = st.details := by
  obtain ⟨h, h1, h2, _⟩ := C04.C04_status_roundtrip st h0 hutf hm0 hd0
  refine ⟨{ code := st.code, message := st.message, details := st.details, metadata := Status.stripStatus h },
    ?_, rfl, rfl, rfl⟩
  simp [once, h1, readBack, h2]

private theorem padded_ok (st : St) (hutf : Utf8.valid st.message = true) :
    ∃ st', trip .padded st = some st' ∧ st'.code = st.code ∧ st'.message = st.message ∧ st'.details = st.details := by
  obtain ⟨n1, n2, n3, _, _, _⟩ := Status.names_ne
  have hw := Status.addHeader_eq .fixed st []
  have g := Status.getAll_wire st []
  have cM : Status.isCustom Status.GRPC_MESSAGE = false := by decide
  have cD : Status.isCustom Status.GRPC_STATUS_DETAILS = false := by decide
  have gS : HMap.getAll Status.GRPC_STATUS (repad st (Status.wire .fixed st [])) = [st.code.headerValue] := by
    unfold repad
    split
    · rw [g]; simp
    · rw [HMap.getAll_insert_ne _ _ _ _ n2, g]; simp
  have gM : HMap.getAll Status.GRPC_MESSAGE (repad st (Status.wire .fixed st [])) =
      if st.message = [] then [] else [Pct.encode st.message] := by
    have : HMap.getAll Status.GRPC_MESSAGE (Status.wire .fixed st []) =
        if st.message = [] then [] else [Pct.encode st.message] := by
      rw [g]
      by_cases hm : st.message = [] <;> simp [n1.symm, n3, cM, hm, HMap.getAll_nil]
    unfold repad
    split
    · exact this
    · rw [HMap.getAll_insert_ne _ _ _ _ n3]; exact this
  have gD : HMap.getAll Status.GRPC_STATUS_DETAILS (repad st (Status.wire .fixed st [])) =
      if st.details = [] then [] else [B64.encode true st.details] := by
    unfold repad
    by_cases hd : st.details = []
    · simp only [hd, if_true]
      rw [g]; simp [n2.symm, n3.symm, cD, hd, HMap.getAll_nil]
    · simp only [hd, if_false]
      exact HMap.getAll_insert_self _ _ _
  have hmsg : Status.decodeMessage (repad st (Status.wire .fixed st [])) = .ok st.message := by
    unfold Status.decodeMessage HMap.get
    rw [gM]
    by_cases hm : st.message = []
    · simp [hm]
    · have hv : Utf8.validate st.message = none := by simpa [Utf8.valid] using hutf
      simp [hm, Pct.decode_encode, hv]
  have hcode : Status.Code.fromBytes st.code.headerValue = st.code := by cases st.code <;> decide
  refine ⟨{ code := st.code, message := st.message, details := st.details,
            metadata := Status.stripStatus (repad st (Status.wire .fixed st [])) }, ?_, rfl, rfl, rfl⟩
  simp only [trip, hw, readBack]
  unfold Status.fromHeaderMap Status.stripStatus
  by_cases hd : st.details = []
  · simp only [HMap.get, gS, gD, hd, if_true, List.head?_nil, List.head?_cons, hmsg, hcode]
  · simp only [HMap.get, gS, gD, hd, if_false, List.head?_cons, B64.decode_encode, hmsg, hcode]

/-- **Every way through the header encoding is invisible.** Whatever the status (any code, any
UTF-8 message, any details bytes, any metadata — also metadata under `grpc-status`, `grpc-message`
or `grpc-status-details-bin`): written into a fresh map, into any block in use that holds no message
/ details header yet (`[content-type]`: `Status::into_http`), read by way of a peer that pads the
base64 text, or written and read twice by a proxy — a status comes back and its code, message and
details are the ones that went in. -/
theorem C20_trip_invisible (t : Trip) (st : St) (hutf : Utf8.valid st.message = true) (ht : t.wf) :
    ∃ st', trip t st = some st' ∧ st'.code = st.code ∧ st'.message = st.message ∧ st'.details = st.details := by
  cases t with
  | add h0 => exact once_ok h0 st hutf ht.1 ht.2
  | padded => exact padded_ok st hutf
  | twice =>
    obtain ⟨s1, e1, c1, m1, d1⟩ := once_ok [] st hutf rfl rfl
    obtain ⟨s2, e2, c2, m2, d2⟩ := once_ok [] s1 (by rw [m1]; exact hutf) rfl rfl
    exact ⟨s2, by simp [trip, e1, e2], by rw [c2, c1], by rw [m2, m1], by rw [d2, d1]⟩

example : (Trip.add contentTypeGrpc).wf := ⟨by decide, by decide⟩
example : (Trip.add [(HMap.name "a", Ascii.ofString "pre"), (HMap.name "x-pre", Ascii.ofString "1")]).wf :=
  ⟨by decide, by decide⟩

private theorem code_num : ∀ c : Fin 17, (Status.Code.ofNum c.val).num = c.val := by decide

/-- **The list form end to end, with the header encoding no longer a hypothesis.** Attach a list
of details, encode with prost, go through the header model any of these ways, decode with prost,
dispatch: the outer code and message are the ones given, `check_error_details_vec` and
`get_error_details_vec` return the list that was attached (kinds, order, field values), and every
getter the first detail of its kind.  (`Utf8.valid` and `Utf8Rust.valid` are the two models of
`str::from_utf8` used by C04 and C20; they accept the same strings, `Utf8Agree.valid_eq`, so one
hypothesis on the message suffices.) -/
theorem C20_vec_roundtrip_through_headers (t : Trip) (ht : t.wf) (code : Nat) (msg : Bytes)
    (ds : List ErrorDetail) (md : HMap)
    (hcode : code ≤ 16) (hmsg : Utf8Rust.valid msg = true)
    (hwf : ∀ d ∈ ds, Spec.RichError.wfDetail d = true)
    (hsize : (withVec prost code msg ds md).details.length < 18446744073709551616) :
    ∃ st', trip t (toSt (withVec prost code msg ds md)) = some st' ∧ st'.code.num = code ∧ st'.message = msg ∧
      checkVec prost st'.details = some ds ∧ getVec prost st'.details = ds ∧
      ∀ k, getFirst prost k st'.details = Spec.RichError.firstOfKind k ds := by
  have hmsg' : Utf8.valid msg = true := by rw [Utf8Agree.valid_eq]; exact hmsg
  obtain ⟨st', e, c, m, d⟩ := C20_trip_invisible t (toSt (withVec prost code msg ds md)) hmsg' ht
  obtain ⟨s, hs, _, _, hv, hg⟩ := C20_wire_vec_roundtrip (M := HMap) id some (fun _ => rfl) code msg ds md hcode hmsg hwf hsize
  cases hs
  refine ⟨st', e, ?_, m, ?_, ?_, ?_⟩
  · rw [c]; exact code_num ⟨code, by omega⟩
  · rw [d]; exact hv
  · rw [d]; exact hg
  · intro k
    obtain ⟨s, hs, hk⟩ := C20_wire_getters_first (M := HMap) id some (fun _ => rfl) code msg ds md k hcode hmsg hwf hsize
    cases hs
    rw [d]; exact hk

/-- The set form likewise. -/
theorem C20_set_roundtrip_through_headers (t : Trip) (ht : t.wf) (code : Nat) (msg : Bytes)
    (s : ErrorDetails) (md : HMap)
    (hcode : code ≤ 16) (hmsg : Utf8Rust.valid msg = true)
    (hwf : ∀ d ∈ s.toList, Spec.RichError.wfDetail d = true)
    (hsize : (withSet prost code msg s md).details.length < 18446744073709551616) :
    ∃ st', trip t (toSt (withSet prost code msg s md)) = some st' ∧ st'.code.num = code ∧ st'.message = msg ∧
      checkSet prost st'.details = some s ∧ getSet prost st'.details = s := by
  have hmsg' : Utf8.valid msg = true := by rw [Utf8Agree.valid_eq]; exact hmsg
  obtain ⟨st', e, c, m, d⟩ := C20_trip_invisible t (toSt (withSet prost code msg s md)) hmsg' ht
  obtain ⟨r, hr, _, _, hv, hg⟩ := C20_wire_set_roundtrip (M := HMap) id some (fun _ => rfl) code msg s md hcode hmsg hwf hsize
  cases hr
  refine ⟨st', e, ?_, m, ?_, ?_⟩
  · rw [c]; exact code_num ⟨code, by omega⟩
  · rw [d]; exact hv
  · rw [d]; exact hg

/-- **The domain is every Rust `String`**: the UTF-8 predicate of the theorems above
(`Utf8Rust.valid`, table 3-7 written out) is the same predicate as C04's separately written
state-machine validator, and accepts the UTF-8 encoding of every list of `Char`s. -/
theorem C20_utf8_domain :
    (∀ bs : Bytes, Utf8Rust.valid bs = Utf8.valid bs) ∧
    (∀ cs : List Char, Utf8Rust.valid (Utf8.encodeString (cs.map Char.toNat)) = true) :=
  ⟨fun bs => (Utf8Agree.valid_eq bs).symm,
   fun cs => by rw [← Utf8Agree.valid_eq]; exact Utf8.valid_encodeChars cs⟩

/- Non-vacuity of `C20_vec_roundtrip_through_headers`: a two-byte UTF-8 message, three details
(a multi-byte localized message, a retry delay, an error info with two metadata entries), user
metadata under a reserved name, written into the trailers-only block of `Status::into_http`. -/
example : ∃ st', trip (.add contentTypeGrpc) (toSt (withVec prost 3 [0xc3, 0xa9]
      [.localizedMessage ⟨[0x65, 0x6e], [0xe2, 0x82, 0xac]⟩, .retryInfo ⟨some ⟨5, 7⟩⟩,
       .errorInfo ⟨[0x52], [], [([0x6b], [0x31]), ([], [0x32])]⟩]
      [(Status.GRPC_STATUS, [0x39])])) = some st' ∧ st'.code.num = 3 ∧ st'.message = [0xc3, 0xa9] ∧
      checkVec prost st'.details = some
        [.localizedMessage ⟨[0x65, 0x6e], [0xe2, 0x82, 0xac]⟩, .retryInfo ⟨some ⟨5, 7⟩⟩,
         .errorInfo ⟨[0x52], [], [([0x6b], [0x31]), ([], [0x32])]⟩] ∧
      getVec prost st'.details =
        [.localizedMessage ⟨[0x65, 0x6e], [0xe2, 0x82, 0xac]⟩, .retryInfo ⟨some ⟨5, 7⟩⟩,
         .errorInfo ⟨[0x52], [], [([0x6b], [0x31]), ([], [0x32])]⟩] ∧
      ∀ k, getFirst prost k st'.details = Spec.RichError.firstOfKind k
        [.localizedMessage ⟨[0x65, 0x6e], [0xe2, 0x82, 0xac]⟩, .retryInfo ⟨some ⟨5, 7⟩⟩,
         .errorInfo ⟨[0x52], [], [([0x6b], [0x31]), ([], [0x32])]⟩] :=
  C20_vec_roundtrip_through_headers (.add contentTypeGrpc) ⟨by decide, by decide⟩ 3 [0xc3, 0xa9] _ _
    (by decide) (by decide) (by decide) (by decide +kernel)

end C20
