import TonicModel.Model.RichError
import TonicModel.Spec.RichError
import TonicModel.Lemmas.RichError
/-
C20 — rich error details round-trip through a status.  Property theorems only.

Parameters of the theorems in the first part:
* `P : Prost` with `L : P.Laws WFd WFs` — prost's encode/decode of the ten detail messages and of
  google.rpc.Status, with their round-trip laws;
* `hdr`, `unhdr` with `hh : ∀ st, unhdr (hdr st) = some st` — the status header encoding
  (`Status::add_header` / `Status::from_header_map`), which is C04's subject.
-/
namespace C20
open RichError

section parametric
variable {M H : Type} (P : Prost) {WFd : ErrorDetail → Prop} {WFs : PbStatus → Prop}
  (L : P.Laws WFd WFs) (hdr : Status M → H) (unhdr : H → Option (Status M))
  (hh : ∀ st, unhdr (hdr st) = some st)
include L hh

/-- Ordered list: any list of details (any kinds, repeated kinds, any order) attached with
`with_error_details_vec[_and_metadata]` comes back from `check_error_details_vec` unchanged —
same kinds, same order, same field values — after the status went through the header encoding;
the outer code and message are the ones given. -/
theorem C20_vec_roundtrip (code : Nat) (msg : Bytes) (ds : List ErrorDetail) (md : M)
    (hd : ∀ d ∈ ds, WFd d) (hs : WFs ⟨code, msg, ds.map (intoAny P)⟩) :
    ∃ st, unhdr (hdr (withVec P code msg ds md)) = some st ∧ st.code = code ∧ st.message = msg ∧
      checkVec P st.details = some ds ∧ getVec P st.details = ds := by
  refine ⟨_, hh _, rfl, rfl, ?_⟩
  have : checkVec P (withVec P code msg ds md).details = some ds := by
    simp only [checkVec, withVec, genDetailsBytes, L.status _ hs]
    exact checkVecAnys_intoAny P L ds hd
  simp [getVec, this]

/-- Set form: an `ErrorDetails` value attached with `with_error_details[_and_metadata]` comes back
from `check_error_details` unchanged. -/
theorem C20_set_roundtrip (code : Nat) (msg : Bytes) (s : ErrorDetails) (md : M)
    (hd : ∀ d ∈ s.toList, WFd d) (hs : WFs ⟨code, msg, s.toList.map (intoAny P)⟩) :
    ∃ st, unhdr (hdr (withSet P code msg s md)) = some st ∧ st.code = code ∧ st.message = msg ∧
      checkSet P st.details = some s ∧ getSet P st.details = s := by
  refine ⟨_, hh _, rfl, rfl, ?_⟩
  have : checkSet P (withSet P code msg s md).details = some s := by
    simp only [checkSet, withSet, genDetailsBytes, L.status _ hs]
    rw [checkSetAnys_intoAny P L _ hd, foldl_put_toList]
  simp [getSet, this]

omit hh in
/-- The two forms read each other: a set read as a list gives its members in the fixed kind
order; a list read as a set gives, for each kind, the last detail of that kind. -/
theorem C20_cross_forms (code : Nat) (msg : Bytes) (md : M) :
    (∀ s : ErrorDetails, (∀ d ∈ s.toList, WFd d) → WFs ⟨code, msg, s.toList.map (intoAny P)⟩ →
      checkVec P (withSet P code msg s md).details = some s.toList) ∧
    (∀ ds : List ErrorDetail, (∀ d ∈ ds, WFd d) → WFs ⟨code, msg, ds.map (intoAny P)⟩ →
      checkSet P (withVec P code msg ds md).details = some (ds.foldl ErrorDetails.put {})) := by
  constructor
  · intro s hd hs
    simp only [checkVec, withSet, genDetailsBytes, L.status _ hs]
    exact checkVecAnys_intoAny P L _ hd
  · intro ds hd hs
    simp only [checkSet, withVec, genDetailsBytes, L.status _ hs]
    exact checkSetAnys_intoAny P L _ hd _

/-- Each `get_details_<kind>` getter returns the first detail of its kind that was attached
(and nothing if there is none), after the header trip. -/
theorem C20_getters_first (code : Nat) (msg : Bytes) (ds : List ErrorDetail) (md : M) (k : Kind)
    (hd : ∀ d ∈ ds, WFd d) (hs : WFs ⟨code, msg, ds.map (intoAny P)⟩) :
    ∃ st, unhdr (hdr (withVec P code msg ds md)) = some st ∧
      getFirst P k st.details = Spec.RichError.firstOfKind k ds := by
  refine ⟨_, hh _, ?_⟩
  simp only [getFirst, withVec, genDetailsBytes, L.status _ hs]
  exact firstOfKindAnys_intoAny P L k ds hd

/-- The embedded google.rpc.Status (what prost decodes from the details bytes that arrive)
carries the outer status' code and message, and one `Any` per attached detail with that detail's
type URL. -/
theorem C20_embedded_status (code : Nat) (msg : Bytes) (ds : List ErrorDetail) (md : M)
    (hs : WFs ⟨code, msg, ds.map (intoAny P)⟩) :
    ∃ st emb, unhdr (hdr (withVec P code msg ds md)) = some st ∧ P.decStatus st.details = some emb ∧
      emb.code = st.code ∧ emb.message = st.message ∧
      emb.details.map (·.typeUrl) = ds.map (fun d => typeUrl d.kind) := by
  refine ⟨_, _, hh _, L.status _ hs, rfl, rfl, ?_⟩
  simp [intoAny, List.map_map, Function.comp_def]

end parametric

/-- The `TYPE_URL` dispatch of `check_error_details[_vec]` sends each kind's URL to that kind, so
no two kinds can be confused. -/
theorem C20_url_dispatch (k : Kind) : kindOfUrl (typeUrl k) = some k := kindOfUrl_typeUrl k

/-- Decode side, any `Prost`, any bytes: a failed check is an empty result of the corresponding
`get_*`, a successful one is that result — the model has no third outcome. -/
theorem C20_decode_total (P : Prost) (b : Bytes) :
    (checkVec P b = none ∧ getVec P b = [] ∨ ∃ ds, checkVec P b = some ds ∧ getVec P b = ds) ∧
    (checkSet P b = none ∧ getSet P b = {} ∨ ∃ s, checkSet P b = some s ∧ getSet P b = s) := by
  constructor
  · cases h : checkVec P b <;> simp [getVec, h]
  · cases h : checkSet P b <;> simp [getSet, h]

/- Non-vacuity: the wire model satisfies the shape of the hypotheses on a concrete value. -/
example : checkVec prost (withVec prost 3 [0x6d] [.localizedMessage ⟨[0x65, 0x6e], [0xc3, 0xa9]⟩,
    .retryInfo ⟨some ⟨5, 7⟩⟩] ()).details
    = some [.localizedMessage ⟨[0x65, 0x6e], [0xc3, 0xa9]⟩, .retryInfo ⟨some ⟨5, 7⟩⟩] := by decide +kernel

end C20
