import TonicModel.Model.Health
import TonicModel.Spec.Health
namespace C18
open Health

/-- Before any update, Check answers SERVING for the empty name and NOT_FOUND for every other. -/
theorem C18_initial_check (n : Name) :
    (step init (.check n)).2 = if n = [] then .status .serving else .notFound := by
  by_cases h : n = []
  · subst h; rfl
  · have : ¬ ([] = n) := fun e => h e.symm
    simp [step, init, lookup, this, h]

end C18
