import TonicModel.Model.Health
import TonicModel.Spec.Health
import TonicModel.Lemmas.HealthSpec
import TonicModel.Lemmas.Health
import TonicModel.Lemmas.HealthPark
import TonicModel.Basic.HealthLin
import TonicModel.Lemmas.HealthLin
import TonicModel.Lemmas.HealthLife
import TonicModel.Lemmas.HealthLinRT
/-
C18 — Health service reports the latest status to Check and Watch.
Property theorems only; helper lemmas live in `Lemmas/Health*.lean`.

Vocabulary.  `Health.step / exec / run` are the model of tonic-health/src/server.rs
(`Model/Health`); `answer ops op` is the model's answer to `op` after the history `ops`, and
`logOf ops` the log of `ops` with the model's answers (newest first).  `Spec.Health.*` is the
oracle that only scans such a log (`Spec/Health`): `current` = status of a name, `view h w` =
what the log says about the stream opened by the `w`-th Watch call (its name, the status at
subscription, the events since), `latest` = latest status of the stream's registration,
`lastReported` = the status the stream delivered last.
Operation sequences `ops : List Op` are arbitrary: any interleaving of `set`, `clear`, `check`,
`watch`, `next w`, `drop w`, of any length, over any names.
-/
namespace C18
open Health Spec.Health

/-! ## refinement -/

/-- Refinement: on every operation sequence the model of tonic-health answers exactly like the
reference interpreter, which keeps nothing but the log of past events and answers each call by
scanning it (Check = last set since the last clear; a stream delivers the latest status of its
registration when it has not delivered yet or an update came since, ends once cleared, waits
otherwise). -/
theorem C18_refines_oracle (ops : List Op) : Health.run init ops = Spec.Health.run [] ops :=
  run_eq sim_init ops

/-- Every answer the model gives, on every operation sequence, passes the property's clauses
(`Spec.Health.clauses`: Check is the latest status / NOT_FOUND; a stream's delivery is a status
that was set, is the latest one, the first poll delivers; a stream is silent only when up to
date and registered; it ends only after a clear and after the undelivered status). -/
theorem C18_answers_allowed (ops : List Op) :
    allowedTrace [] (ops.zip (Health.run init ops)) = true := by
  rw [C18_refines_oracle]; exact allowedTrace_run [] trivial ops

/-! ## Check -/

/-- Check, after any history: the status most recently set for that name since it was last
cleared (`Spec.Health.current` of the log), else NOT_FOUND. -/
theorem C18_check_is_current (ops : List Op) (n : Name) :
    answer ops (.check n) =
      (match current (logOf ops) n with
       | some s => Resp.status s
       | none => Resp.notFound) := by
  rw [answer_spec]; rfl

/-- … which is the most recently set status: after `set n s`, as long as `n` is neither set
again nor cleared, Check answers `s` — whatever happened before and whatever else happens. -/
theorem C18_check_after_set (pre post : List Op) (n : Name) (s : St)
    (hs : ∀ st, Op.set n st ∉ post) (hc : Op.clear n ∉ post) :
    answer (pre ++ .set n s :: post) (.check n) = .status s := by
  rw [C18_check_is_current, logOf_insert, current_log_quiet n _ post hs hc, current_cons_set]
  simp

/-- The empty name (the server as a whole) is SERVING until someone sets or clears it. -/
theorem C18_check_default_serving (ops : List Op)
    (hs : ∀ st, Op.set [] st ∉ ops) (hc : Op.clear [] ∉ ops) :
    answer ops (.check []) = .status .serving := by
  have : logOf ops = log [] ops := logOf_eq_log ops
  rw [C18_check_is_current, this, current_log_quiet [] [] ops hs hc]
  rfl

/-- A name that was never set is NOT_FOUND. -/
theorem C18_check_never_set (ops : List Op) (n : Name) (hn : n ≠ [])
    (hs : ∀ st, Op.set n st ∉ ops) : answer ops (.check n) = .notFound := by
  have : logOf ops = log [] ops := logOf_eq_log ops
  rw [C18_check_is_current, this, current_log_none n [] ops (by simp [current, hn]) hs]

/-- A name that was cleared and not set since is NOT_FOUND (this includes the empty name). -/
theorem C18_check_after_clear (pre post : List Op) (n : Name) (hs : ∀ st, Op.set n st ∉ post) :
    answer (pre ++ .clear n :: post) (.check n) = .notFound := by
  rw [C18_check_is_current, logOf_insert,
    current_log_none n _ post (by simp [current_cons_clear]) hs]

/-! ## Watch: subscription -/

/-- Watch is accepted exactly when the name has a status (else NOT_FOUND, like Check). -/
theorem C18_watch_accepted_iff_registered (ops : List Op) (n : Name) :
    answer ops (.watch n) = if (current (logOf ops) n).isSome then .subscribed else .notFound := by
  rw [answer_spec]; rfl

/-- The stream opened by an accepted Watch call: as long as it is not dropped, the log's view of
it has the watched name, the status current at subscription as its start, and exactly the
operations issued since as its events.  (`w` = number of Watch calls before this one.) -/
theorem C18_stream_view (pre mid : List Op) (n : Name) (s0 : St)
    (hreg : current (logOf pre) n = some s0)
    (hmid : ∀ op ∈ mid, op ≠ Op.drop (numWatches (logOf pre))) :
    ∃ v, view (logOf (pre ++ .watch n :: mid)) (numWatches (logOf pre)) = some v ∧
      v.name = n ∧ v.start = s0 ∧ v.evs.map (·.1) = mid.reverse := by
  have h0 : view ((Op.watch n, answer pre (.watch n)) :: logOf pre) (numWatches (logOf pre))
      = some ⟨n, s0, []⟩ := by
    rw [view_cons_watch, if_pos rfl, hreg]; rfl
  obtain ⟨v, h1, h2, h3, h4⟩ := view_log_evs h0 mid hmid
  exact ⟨v, by rw [logOf_insert]; exact h1, h2, h3, by simpa using h4⟩

/-! ## Watch: what a poll of a stream answers

In the theorems below `v` is the log's view of stream `w` after `ops` (`C18_stream_view` says
what it is in terms of `ops`); "cleared" means `Op.clear v.name` occurs among the stream's
events, i.e. after the subscription. -/

/-- The first poll of a stream always delivers, and what it delivers is the latest status of
its registration … -/
theorem C18_watch_first_poll_delivers (ops : List Op) (w : Nat) (v : View)
    (hv : view (logOf ops) w = some v) (hfirst : ∀ r, (Op.next w, r) ∉ v.evs) :
    answer ops (.next w) = .value (latest v.name v.start v.evs) := by
  have hrep : hasReported w v.evs = false := by
    cases h : hasReported w v.evs with
    | false => rfl
    | true =>
      simp only [hasReported, List.any_eq_true] at h
      obtain ⟨e, he, hr⟩ := h
      obtain ⟨s, rfl⟩ := isReport_iff.mp hr
      exact absurd he (hfirst _)
  rw [answer_spec]
  simp [expected, hv, expectedNext, hrep]

/-- … in particular the status current at subscription when no update came in between … -/
theorem C18_watch_first_report_at_subscription (pre mid : List Op) (n : Name) (s0 : St)
    (hreg : current (logOf pre) n = some s0)
    (hmid : ∀ op ∈ mid, op ≠ Op.drop (numWatches (logOf pre)) ∧
      op ≠ Op.next (numWatches (logOf pre)) ∧ (∀ st, op ≠ Op.set n st)) :
    answer (pre ++ .watch n :: mid) (.next (numWatches (logOf pre))) = .value s0 := by
  obtain ⟨v, hv, hn, hs, hevs⟩ := C18_stream_view pre mid n s0 hreg (fun op h => (hmid op h).1)
  have hmem : ∀ e ∈ v.evs, e.1 ∈ mid := by
    intro e he
    have : e.1 ∈ v.evs.map (·.1) := List.mem_map_of_mem he
    rw [hevs] at this; simpa using this
  rw [C18_watch_first_poll_delivers _ _ v hv
    (fun r hr => (hmid _ (hmem _ hr)).2.1 rfl)]
  -- no `set n` among the events: the latest status is the start
  have : ∀ l : Hist, (∀ e ∈ l, ∀ st, e.1 ≠ Op.set n st) → latest n s0 l = s0 := by
    intro l hl
    induction l with
    | nil => rfl
    | cons e l ih =>
      rw [latest_cons_other _ _ _ (hl e List.mem_cons_self)]
      exact ih (fun e' he' => hl e' (List.mem_cons_of_mem _ he'))
  rw [hn, hs, this v.evs (fun e he st => (hmid _ (hmem e he)).2.2 st)]

/-- … and otherwise (updates before the first poll are coalesced) the status the name has at
the moment of the poll, as long as it has not been cleared. -/
theorem C18_watch_first_report_coalesced (ops : List Op) (w : Nat) (v : View)
    (hv : view (logOf ops) w = some v) (hfirst : ∀ r, (Op.next w, r) ∉ v.evs)
    (hopen : Op.clear v.name ∉ v.evs.map (·.1)) :
    ∃ cur, current (logOf ops) v.name = some cur ∧ answer ops (.next w) = .value cur := by
  have hcl : closed v.name v.evs = false := by
    cases h : closed v.name v.evs with
    | false => rfl
    | true => exact absurd ((closed_iff_mem _ _).mp h) hopen
  exact ⟨_, view_latest_current hv hcl, C18_watch_first_poll_delivers ops w v hv hfirst⟩

/-- a status of the registration is the start, or was set at a moment before which (since the
subscription) the name had not been cleared (`l` is newest first: `b` is what came before) -/
private theorem mem_statuses_open {n : Name} {s0 x : St} {l : Hist} (hx : x ∈ statuses n s0 l) :
    x = s0 ∨ ∃ a r b, l = a ++ (Op.set n x, r) :: b ∧ closed n b = false := by
  induction l with
  | nil => simp [statuses] at hx; exact Or.inl hx
  | cons e l ih =>
    have lift : (x = s0 ∨ ∃ a r b, l = a ++ (Op.set n x, r) :: b ∧ closed n b = false) →
        (x = s0 ∨ ∃ a r b, e :: l = a ++ (Op.set n x, r) :: b ∧ closed n b = false) := by
      rintro (h | ⟨a, r, b, hl, hb⟩)
      · exact Or.inl h
      · exact Or.inr ⟨e :: a, r, b, by rw [hl]; rfl, hb⟩
    obtain ⟨op, r⟩ := e
    cases hcl : closed n l with
    | true => simp [statuses, hcl] at hx; exact lift (ih hx)
    | false =>
      cases op with
      | set m st =>
        by_cases hm : m = n
        · subst hm
          simp [statuses, hcl] at hx
          rcases hx with rfl | hx
          · exact Or.inr ⟨[], r, l, rfl, hcl⟩
          · exact lift (ih hx)
        · simp [statuses, hcl, hm] at hx; exact lift (ih hx)
      | clear m => simp [statuses, hcl] at hx; exact lift (ih hx)
      | check m => simp [statuses, hcl] at hx; exact lift (ih hx)
      | watch m => simp [statuses, hcl] at hx; exact lift (ih hx)
      | next m => simp [statuses, hcl] at hx; exact lift (ih hx)
      | drop m => simp [statuses, hcl] at hx; exact lift (ih hx)

/-- A stream never delivers a status that was not set for its name while its registration
lasted: whatever it delivers was either the name's status when the stream was opened, or was set
for that name afterwards at a moment before which the name had not been cleared since the
subscription (the log is newest first: `l = a ++ (set n s, r') :: b` with no `clear n` in `b`, the
events between the subscription and that `set`).  A status set only for a LATER registration of
the name (after a clear) is excluded. -/
theorem C18_watch_values_were_set (ops : List Op) (w : Nat) (s : St)
    (h : answer ops (.next w) = .value s) :
    ∃ l n r h0, logOf ops = l ++ (Op.watch n, r) :: h0 ∧ numWatches h0 = w ∧
      (current h0 n = some s ∨
        ∃ a r' b, l = a ++ (Op.set n s, r') :: b ∧ Op.clear n ∉ b.map (·.1)) := by
  rw [answer_spec] at h
  cases hv : view (logOf ops) w with
  | none => simp [expected, hv] at h
  | some v =>
    simp only [expected, hv] at h
    have hs : s = latest v.name v.start v.evs := expectedNext_value h
    obtain ⟨h0, r, hsplit, hcur, hw⟩ := view_sound hv
    refine ⟨v.evs, v.name, r, h0, hsplit, hw, ?_⟩
    rcases mem_statuses_open (hs ▸ latest_mem_statuses v.name v.start v.evs) with h1 | ⟨a, r', b, hl, hb⟩
    · exact Or.inl (by rw [h1]; exact hcur)
    · refine Or.inr ⟨a, r', b, hl, ?_⟩
      intro hmem
      rw [(closed_iff_mem _ _).mpr hmem] at hb
      cases hb

/-- The restriction in `C18_watch_values_were_set` has content: after
`set a NOT_SERVING; watch a; clear a; set a UNKNOWN` the status UNKNOWN was "set for that name after
the subscription", but only for a later registration — the stream delivers NOT_SERVING, the clause
rejects UNKNOWN, and the conclusion above does not hold for UNKNOWN (every `set a UNKNOWN` in the
stream's events has the `clear a` before it). -/
theorem C18_watch_values_were_set_excludes_later_registration :
    let ops : List Op := [.set [97] .notServing, .watch [97], .clear [97], .set [97] .unknown]
    answer ops (.next 0) = .value .notServing ∧
    allowed (logOf ops) (.next 0) (.value .unknown) = false ∧
    (∃ r', (Op.set [97] St.unknown, r') ∈ (logOf ops).take 2) ∧
    ¬ ∃ a r' b, (logOf ops).take 2 = a ++ (Op.set [97] St.unknown, r') :: b ∧
        Op.clear [97] ∉ b.map (·.1) := by
  refine ⟨by decide, by decide, ⟨.done, by decide⟩, ?_⟩
  rintro ⟨a, r', b, hl, hb⟩
  have hlog : (logOf [Op.set [97] .notServing, .watch [97], .clear [97], .set [97] .unknown]).take 2
      = [(Op.set [97] .unknown, .done), (Op.clear [97], .done)] := by decide
  rw [hlog] at hl
  match a, hl with
  | [], hl =>
    simp only [List.nil_append, List.cons.injEq] at hl
    obtain ⟨_, rfl⟩ := hl
    exact hb (by simp)
  | [_], hl => simp at hl
  | _ :: _ :: [], hl => simp at hl
  | _ :: _ :: _ :: _, hl => simp at hl

/-- Convergence: while the name stays registered, a poll either delivers the name's current
status or — only if that is what the stream delivered last — reports nothing new. -/
theorem C18_watch_converges (ops : List Op) (w : Nat) (v : View)
    (hv : view (logOf ops) w = some v) (hopen : Op.clear v.name ∉ v.evs.map (·.1)) :
    ∃ cur, current (logOf ops) v.name = some cur ∧
      (answer ops (.next w) = .value cur ∨
       (answer ops (.next w) = .pending ∧ lastReported w v.evs = some cur)) := by
  have hcl : closed v.name v.evs = false := by
    cases h : closed v.name v.evs with
    | false => rfl
    | true => exact absurd ((closed_iff_mem _ _).mp h) hopen
  refine ⟨_, view_latest_current hv hcl, ?_⟩
  rw [answer_spec]
  simp only [expected, hv, expectedNext]
  cases hrep : hasReported w v.evs with
  | false => simp
  | true =>
    cases hf : fresh v.name w v.evs with
    | true => simp
    | false =>
      have := upToDate_of_evsOK v.name v.start w v.evs
        (view_evsOK _ (wellLogged_logOf ops) w v hv) hrep hf
      simp [hcl, this]

/-- Once updates stop, one poll brings the stream up to date and from then on it stays silent:
after any poll, as long as the name is neither set nor cleared (and the stream not dropped),
every further poll is pending — whatever else happens (other names, other streams, checks). -/
theorem C18_watch_then_silent (ops q : List Op) (w : Nat) (v : View)
    (hv : view (logOf ops) w = some v) (hopen : Op.clear v.name ∉ v.evs.map (·.1))
    (hq : ∀ op ∈ q, op ≠ Op.drop w ∧ (∀ st, op ≠ Op.set v.name st) ∧ op ≠ Op.clear v.name) :
    answer (ops ++ .next w :: q) (.next w) = .pending := by
  have hcl : closed v.name v.evs = false := by
    cases h : closed v.name v.evs with
    | false => rfl
    | true => exact absurd ((closed_iff_mem _ _).mp h) hopen
  let P : View → Prop := fun v' => v'.name = v.name ∧ Settled w v' ∧ closed v.name v'.evs = false
  have h1 : view ((Op.next w, answer ops (.next w)) :: logOf ops) w
      = some (v.push (Op.next w, answer ops (.next w))) := view_push hv _ (by simp)
  have hP1 : P (v.push (Op.next w, answer ops (.next w))) := by
    refine ⟨rfl, ?_, ?_⟩
    · rw [answer_spec]; simp only [expected, hv]; exact settled_after_next w v
    · simp only [View.push]; rw [closed_cons, hcl]; simp
  obtain ⟨v', hv', hn', hs', hcl'⟩ := view_log_inv w P
    (fun op => op ≠ Op.drop w ∧ (∀ st, op ≠ Op.set v.name st) ∧ op ≠ Op.clear v.name)
    (fun op h => h.1)
    (by
      intro h v0 op hv0 ⟨hn0, hs0, hc0⟩ ⟨_, hns, hnc⟩
      refine ⟨hn0, settled_step hv0 hs0 op (Or.inr (by rw [hn0]; exact hns)), ?_⟩
      simp only [View.push]; rw [closed_cons, hc0]; simpa using hnc)
    _ _ h1 hP1 q hq
  rw [answer_spec, logOf_insert]
  simp only [expected, hv', expectedNext_settled hs', hn', hcl']
  simp

/-- Clearing a name ends its streams after any status they had not yet delivered: once the
name is cleared a poll never reports "nothing new".  Either the stream is over — and then the
last status it delivered is the latest status of its registration (the one before the clear) —
or it delivers exactly that latest status, and only if it had not delivered anything yet or an
update came after its last delivery … -/
theorem C18_clear_ends_streams (ops : List Op) (w : Nat) (v : View)
    (hv : view (logOf ops) w = some v) (hcl : Op.clear v.name ∈ v.evs.map (·.1)) :
    (answer ops (.next w) = .ended ∧ lastReported w v.evs = some (latest v.name v.start v.evs)) ∨
    (answer ops (.next w) = .value (latest v.name v.start v.evs) ∧
      (hasReported w v.evs = false ∨ fresh v.name w v.evs = true)) := by
  have hc : closed v.name v.evs = true := (closed_iff_mem _ _).mpr hcl
  rw [answer_spec]
  simp only [expected, hv, expectedNext]
  cases hrep : hasReported w v.evs with
  | false => right; simp
  | true =>
    cases hf : fresh v.name w v.evs with
    | true => right; simp
    | false =>
      left
      have := upToDate_of_evsOK v.name v.start w v.evs
        (view_evsOK _ (wellLogged_logOf ops) w v hv) hrep hf
      simp [hc, this]

/-- … and at most one status is delivered after the clear: after any poll of a cleared stream,
every further poll answers that the stream is over, whatever else happens (including the name
being registered again). -/
theorem C18_clear_then_ended (ops q : List Op) (w : Nat) (v : View)
    (hv : view (logOf ops) w = some v) (hcl : Op.clear v.name ∈ v.evs.map (·.1))
    (hq : ∀ op ∈ q, op ≠ Op.drop w) :
    answer (ops ++ .next w :: q) (.next w) = .ended := by
  have hc : closed v.name v.evs = true := (closed_iff_mem _ _).mpr hcl
  let P : View → Prop := fun v' => v'.name = v.name ∧ Settled w v' ∧ closed v.name v'.evs = true
  have h1 : view ((Op.next w, answer ops (.next w)) :: logOf ops) w
      = some (v.push (Op.next w, answer ops (.next w))) := view_push hv _ (by simp)
  have hP1 : P (v.push (Op.next w, answer ops (.next w))) := by
    refine ⟨rfl, ?_, ?_⟩
    · rw [answer_spec]; simp only [expected, hv]; exact settled_after_next w v
    · simp only [View.push]; rw [closed_cons, hc]; simp
  obtain ⟨v', hv', hn', hs', hcl'⟩ := view_log_inv w P (fun op => op ≠ Op.drop w) (fun op h => h)
    (by
      intro h v0 op hv0 ⟨hn0, hs0, hc0⟩ _
      refine ⟨hn0, settled_step hv0 hs0 op (Or.inl (by rw [hn0]; exact hc0)), ?_⟩
      simp only [View.push]; rw [closed_cons, hc0]; simp)
    _ _ h1 hP1 q hq
  rw [answer_spec, logOf_insert]
  simp only [expected, hv', expectedNext_settled hs', hn', hcl']
  simp

/-! ## awaiting watchers: no lost wake-up

A client that sits in `stream.message().await` is polled by nobody; it runs again only when the
waker it left in the watch channel is fired.  `Health.pstep` (Model/Health, "Awaiting
watchers") is the model of that: histories are lists of `Item`s — the operations above plus
`await w`, which spawns a task awaiting the next message of stream `w`; a task that finds
nothing is parked; `set` on an existing entry and `clear` notify the entry's channel and the
tasks parked on it poll again.  `pops items` is the sequential history (`step` operations,
oldest first) that `items` amounts to, `(pexec pinit items).parked` the streams held by parked
tasks afterwards. -/

/-- Transcription lemma: `pops items` is the operation-projection of the model's own event list
`pevents`, and every event `pstepFull` records is a pair (operation, `step`'s answer to it), so the
statement compares the parked layer with its own bookkeeping; it holds for ANY table semantics
`step`, any `chanOf` and any wake-up rule `notified` — also one that never wakes anybody — with the
same proof.  It says nothing about wake-ups; the no-lost-wake-up content is in
`C18_parked_has_nothing_to_deliver`, `C18_parked_may_stay_parked` and `C18_parked_watcher_is_woken`
(which do depend on `step` and `notified`), and that real tasks behave like `pstep` is carried by
the `park` cases of the correspondence run.

A history with awaiting watchers is a sequential history in which the parked layer only
decides *when* streams are polled: the table afterwards is the one `pops items` produces, and
the answers given along the way (to operations, to `await`s, to the polls of woken tasks) are
exactly the answers of `Health.run` on `pops items`.  Hence everything above — the refinement
of the oracle, the clauses — holds for every answer an awaiting task ever receives. -/
theorem C18_parked_is_sequential (items : List Item) :
    (pexec pinit items).h = exec init (pops items) ∧
    (pevents pinit items).map (·.2) = Health.run init (pops items) :=
  pexec_events pinit items

/-- No lost wake-up, as an invariant: after any history, a task that is (still) parked has
nothing to receive — a poll of its stream at that moment would deliver nothing, and its stream
is not over.  So whatever made a stream deliverable also completed the task awaiting it. -/
theorem C18_parked_has_nothing_to_deliver (items : List Item) (w : Nat)
    (hw : w ∈ (pexec pinit items).parked) : answer (pops items) (.next w) = .pending := by
  have hq := (pinv_exec pinv_init items).quiet w hw
  unfold answer
  rw [← (pexec_sim items).1]
  exact (next_pending_iff _ _).mpr hq

/-- … in the oracle's words: staying parked is always justified by the property's clauses
(`mayStayParked`: "nothing to deliver" is an acceptable answer of the stream at that moment). -/
theorem C18_parked_may_stay_parked (items : List Item) (w : Nat)
    (hw : w ∈ (pexec pinit items).parked) : mayStayParked (logOf (pops items)) w = true := by
  have h := C18_parked_has_nothing_to_deliver items w hw
  rw [answer_spec] at h
  unfold mayStayParked
  rw [← h]
  exact allowed_expected _ (wellLogged_logOf _) _

/-- A parked watcher is woken.  Let a task be parked on stream `w` after any history `pre`, and
let `v` be what the log says about that stream (`v.name` the watched name).  Then
* a `set` of that name — to a different status *or to the one the stream delivered last* —
  completes the task by itself with the new status (it is in the item's `woken` list with
  `value st`, which is what a poll after the `set` answers, and it is no longer parked);
* a `clear` of that name completes it with end-of-stream. -/
theorem C18_parked_watcher_is_woken (pre : List Item) (w : Nat) (v : View)
    (hw : w ∈ (pexec pinit pre).parked) (hv : view (logOf (pops pre)) w = some v) :
    (∀ st, (w, .value st) ∈ (pstep (pexec pinit pre) (.op (.set v.name st))).2.woken ∧
        w ∉ (pstep (pexec pinit pre) (.op (.set v.name st))).1.parked ∧
        answer (pops pre ++ [.set v.name st]) (.next w) = .value st) ∧
    ((w, .ended) ∈ (pstep (pexec pinit pre) (.op (.clear v.name))).2.woken ∧
        w ∉ (pstep (pexec pinit pre) (.op (.clear v.name))).1.parked ∧
        answer (pops pre ++ [.clear v.name]) (.next w) = .ended) := by
  have hinv := pinv_exec pinv_init pre
  obtain ⟨hex, hsim⟩ := pexec_sim pre
  obtain ⟨wt, c, hwt, hc, hseen, hcl⟩ := hinv.quiet w hw
  obtain ⟨c', v', hc', hv', k⟩ := hsim.w_some w wt hwt
  have hvv : v' = v := Option.some.inj (hv'.symm.trans hv)
  have hcc : c' = c := Option.some.inj (hc'.symm.trans hc)
  subst hvv hcc
  have hl : lookup v'.name (pexec pinit pre).h.reg = some wt.chan := k.live_reg hcl
  have hchan : chanOf (pexec pinit pre).h w = some wt.chan := by simp [chanOf, hwt]
  refine ⟨fun st => ?_, ?_⟩
  · have hnext := next_after_set hwt hc hseen v'.name st hl
    have := woken_of_update hinv hw (.set v'.name st) (by simp) (by simp) (i := wt.chan)
      (by simp [notified, hl]) hchan (by rw [hnext]; simp)
    rw [hnext] at this
    refine ⟨this.1, this.2, ?_⟩
    unfold answer
    rw [exec_append, ← hex]; exact hnext
  · have hnext := next_after_clear hwt hc hseen v'.name hl
    have := woken_of_update hinv hw (.clear v'.name) (by simp) (by simp) (i := wt.chan)
      (by simp [notified, hl]) hchan (by rw [hnext]; simp)
    rw [hnext] at this
    refine ⟨this.1, this.2, ?_⟩
    unfold answer
    rw [exec_append, ← hex]; exact hnext

/-! ## concurrent histories

The correspondence run also records histories of concurrent tasks and searches for a
linearization (`Basic/HealthLin`).  The search commits to a call whose answer is "read-only"
(a Check, a poll that delivered nothing, an operation on an empty slot) as soon as it is
enabled and accepted, instead of branching.  That is complete for the model because such a
call leaves the model state untouched, so it can be moved to the front of any linearization
(theorem below; stated for the MODEL acceptor only — for the clause acceptor `Spec.Health.accept`,
whose state is the log and does grow on such calls, completeness of the commit rule is not proved;
it concerns completeness only: a wrong commit could cause a false `not-linearizable`, never an
unfounded `ok`, which is what `C18_linearization_search_sound` excludes for both acceptors): -/

/-- A call answered in a read-only way does not change the model state. -/
theorem C18_readonly_answers_keep_state (s : H) (op : Op)
    (h : Lin.readOnly op (step s op).2 = true) : (step s op).1 = s := by
  cases op with
  | set n st => simp only [step] at h; split at h <;> simp [Lin.readOnly] at h
  | clear n => simp only [step] at h; split at h <;> simp [Lin.readOnly] at h
  | watch n => simp only [step] at h; split at h <;> simp [Lin.readOnly] at h
  | check n => simp only [step]; split <;> rfl
  | drop w =>
    simp only [step] at h ⊢
    split at h
    · simp [Lin.readOnly] at h
    · rfl
  | next w =>
    simp only [step] at h ⊢
    split
    · next wt hw =>
      simp only [hw] at h
      split
      · next c hc =>
        simp only [hc] at h
        split
        · rfl
        · next hne => simp [hne, Lin.readOnly] at h
      · rfl
    · rfl

/-- The search is sound: whenever it answers "yes" for a recorded history — against the model
(`Health.accept`) or against the property's clauses (`Spec.Health.accept`) — there is a
schedule of the recorded calls that keeps every task's own order, never places a call before the
HEAD (the oldest pending call) of another task if that head had returned before the call was
invoked (`Lin.minimal`), and along which the machine accepts every recorded answer (`Lin.Run`).
So an `ok` verdict on a concurrent history is never unfounded.  The full real-time condition —
with respect to EVERY pending call — needs the record's stamps to increase inside each task: see
`C18_linearization_respects_real_time` and `C18_linearization_needs_increasing_stamps`. -/
theorem C18_linearization_search_sound {σ : Type} (acc : σ → Op → Resp → Option σ)
    (nslots : σ → Nat) (s : σ) (ts : List Lin.Task)
    (h : Lin.linearizable acc nslots s ts = .yes) : Lin.Run acc nslots s ts :=
  Lin.linearizable_sound acc nslots s ts h

/-- **Real-time order, for records whose stamps increase.**  If inside every task the return
stamps do not decrease along the task's calls (`Lin.wellStamped`: what a task that makes its calls
one after the other and stamps them with a global clock records), then a "yes" of the search comes
with a schedule that keeps every task's own order, along which the machine accepts every recorded
answer, and that NEVER places a call before a call of another task that had returned before it was
invoked — for all pending calls, not only the heads (`Lin.RunRT`, `Lin.Enabled`).  The hypothesis is
about the record: the search does not check it, and neither does the driver. -/
theorem C18_linearization_respects_real_time {σ : Type} (acc : σ → Op → Resp → Option σ)
    (nslots : σ → Nat) (s : σ) (ts : List Lin.Task) (hw : Lin.wellStamped ts = true)
    (h : Lin.linearizable acc nslots s ts = .yes) : Lin.RunRT acc nslots s ts :=
  Lin.run_realtime acc nslots (Lin.linearizable_sound acc nslots s ts h) hw

/-- a record with inconsistent stamps: task A's first call (check `a`, [0,10]) carries a LATER return
stamp than its second (set `a` SERVING, [1,2]); task B's check `a` = NOT_FOUND runs during [5,6],
i.e. it was invoked after A's set had returned -/
def stampsBad : List Lin.Task :=
  [⟨[⟨.check [97], 5, 6, .notFound⟩], Lin.noSlot⟩,
   ⟨[⟨.check [97], 0, 10, .notFound⟩, ⟨.set [97] .serving, 1, 2, .done⟩], Lin.noSlot⟩]

/-- … and the hypothesis is needed.  On `stampsBad` (stamps that do not increase inside a task) the
search says `yes` against model and clauses — B's check is taken first because only the HEAD of
task A is looked at — although no schedule respecting real time for all pending calls exists
(`¬ RunRT`); with consistent stamps for the same calls the search says `no`. -/
theorem C18_linearization_needs_increasing_stamps :
    Lin.wellStamped stampsBad = false ∧
    Lin.linearizable Health.accept (fun s => s.watchers.length) init stampsBad = .yes ∧
    Lin.linearizable Spec.Health.accept Spec.Health.numWatches [] stampsBad = .yes ∧
    ¬ Lin.RunRT Health.accept (fun s => s.watchers.length) init stampsBad ∧
    Lin.linearizable Health.accept (fun s => s.watchers.length) init
      [⟨[⟨.check [97], 5, 6, .notFound⟩], Lin.noSlot⟩,
       ⟨[⟨.check [97], 0, 1, .notFound⟩, ⟨.set [97] .serving, 1, 2, .done⟩], Lin.noSlot⟩] = .no := by
  refine ⟨by decide, by decide, by decide, ?_, by decide⟩
  intro h
  cases h with
  | done h0 => exact absurd h0 (by decide)
  | step hp hen hacc hrest =>
    simp [Lin.picks, stampsBad] at hp
    rcases hp with ⟨rfl, rfl, rfl⟩ | ⟨rfl, rfl, rfl⟩
    · -- B's check first: A's set (not the head) had returned before it was invoked
      exact hen _ List.mem_cons_self ⟨.set [97] .serving, 1, 2, .done⟩ (by simp) (by decide)
    · -- A's check first
      have e : Health.accept init (.check [97]) .notFound = some init := rfl
      simp only [Lin.localise] at hacc
      rw [e] at hacc
      cases hacc
      cases hrest with
      | done h0 => exact absurd h0 (by decide)
      | step hp hen hacc hrest =>
        simp [Lin.picks, Lin.afterCall] at hp
        rcases hp with ⟨rfl, rfl, rfl⟩ | ⟨rfl, rfl, rfl⟩
        · -- then A's set: B's check = NOT_FOUND is no longer accepted
          simp only [Lin.localise] at hacc
          have e2 : ∃ s2, Health.accept init (.set [97] .serving) .done = some s2 ∧
              Health.accept s2 (.check [97]) .notFound = none := ⟨_, rfl, rfl⟩
          obtain ⟨s2, h2, h3⟩ := e2
          rw [h2] at hacc
          cases hacc
          cases hrest with
          | done h0 => exact absurd h0 (by decide)
          | step hp hen hacc hrest =>
            simp [Lin.picks, Lin.afterCall] at hp
            obtain ⟨rfl, rfl, rfl⟩ := hp
            simp only [Lin.localise] at hacc
            rw [h3] at hacc
            cases hacc
        · -- then B's check: A's set had returned before it was invoked
          exact hen _ List.mem_cons_self ⟨.set [97] .serving, 1, 2, .done⟩
            (by simp) (by decide)

/-! ## non-vacuity: the hypotheses above are met by concrete histories -/

-- `set a NOT_SERVING; watch a; set a SERVING; clear a; set a UNKNOWN`: stream 0 is open, its
-- view has the name, the start and the three events; its name was cleared.
example :
    view (logOf [.set [97] .notServing, .watch [97], .set [97] .serving, .clear [97], .set [97] .unknown]) 0
      = some ⟨[97], .notServing,
          [(.set [97] .unknown, .done), (.clear [97], .done), (.set [97] .serving, .done)]⟩ := by
  decide
-- on that history the first poll delivers SERVING (the status before the clear, not the later
-- UNKNOWN of the new registration), the second poll says the stream is over
example :
    Health.run init [.set [97] .notServing, .watch [97], .set [97] .serving, .clear [97],
      .set [97] .unknown, .next 0, .next 0, .check [97]]
      = [.done, .subscribed, .done, .done, .done, .value .serving, .ended, .status .unknown] := by
  decide
-- hypotheses of `C18_watch_first_report_at_subscription` (`hreg`) …
example : current (logOf [.set [97] .serving]) [97] = some .serving ∧
    numWatches (logOf [.set [97] .serving]) = 0 := by decide
-- … and the theorem instantiated with a non-trivial `mid` (another name set, the name cleared,
-- a check, a second watch: none of them a drop / poll of stream 0 or a set of the name)
example : answer ([.set [97] .serving] ++ .watch [97] :: [.set [98] .unknown, .clear [97], .check [97], .watch [97]])
      (.next 0) = .value .serving :=
  C18_watch_first_report_at_subscription [.set [97] .serving]
    [.set [98] .unknown, .clear [97], .check [97], .watch [97]] [97] .serving (by decide)
    (by intro op h; simp at h; rcases h with rfl | rfl | rfl | rfl <;> simp)
-- `C18_watch_then_silent` with a busy `q` (another name set, another stream opened and polled)
example : answer ([.watch [], .next 0, .set [] .notServing] ++ .next 0 :: [.set [97] .serving, .watch [], .next 1, .next 0])
      (.next 0) = .pending :=
  C18_watch_then_silent _ [.set [97] .serving, .watch [], .next 1, .next 0] 0
    ⟨[], .serving, [(.set [] .notServing, .done), (.next 0, .value .serving)]⟩ (by decide) (by decide)
    (by intro op h; simp at h; rcases h with rfl | rfl | rfl | rfl <;> simp)
-- `C18_clear_ends_streams`: both disjuncts are reachable
example : answer [.watch [], .next 0, .clear []] (.next 0) = .ended := by decide
example : answer [.watch [], .next 0, .set [] .unknown, .clear []] (.next 0) = .value .unknown := by decide
-- `C18_linearization_respects_real_time`: `wellStamped` holds of the recorded history below
example : Lin.wellStamped
    [⟨[⟨.set [97] .serving, 2, 5, .done⟩], Lin.noSlot⟩,
     ⟨[⟨.watch [97], 0, 1, .subscribed⟩, ⟨.next 0, 1, 4, .value .serving⟩], Lin.noSlot⟩] = true := by decide
-- hypotheses of `C18_watch_converges` / `C18_watch_then_silent` (open stream with a delivery)
example : view (logOf [.watch [], .next 0, .set [] .notServing]) 0
    = some ⟨[], .serving, [(.set [] .notServing, .done), (.next 0, .value .serving)]⟩ := by decide
-- hypotheses of `C18_parked_watcher_is_woken`: `set a NOT_SERVING; watch a; next 0; await 0`
-- leaves a task parked on stream 0 (name `a`); `set a NOT_SERVING` again completes it
example : (pexec pinit [.op (.set [97] .notServing), .op (.watch [97]), .op (.next 0), .await 0]).parked = [0] ∧
    (view (logOf (pops [.op (.set [97] .notServing), .op (.watch [97]), .op (.next 0), .await 0])) 0).map (·.name)
      = some [97] := by decide
example : prun pinit [.op (.set [97] .notServing), .op (.watch [97]), .op (.next 0), .await 0,
      .op (.set [] .unknown), .op (.set [97] .notServing), .await 0, .op (.clear [97])]
    = [⟨.plain .done, []⟩, ⟨.plain .subscribed, []⟩, ⟨.plain (.value .notServing), []⟩, ⟨.parked, []⟩,
       ⟨.plain .done, []⟩, ⟨.plain .done, [(0, .value .notServing)]⟩, ⟨.parked, []⟩,
       ⟨.plain .done, [(0, .ended)]⟩] := by decide
-- a recorded concurrent history (writer: set a 1 during [2,5]; watcher: subscribed during [0,1],
-- delivery of 1 recorded during [3,4]) is found linearizable against model and clauses
example :
    Lin.linearizable Health.accept (fun s => s.watchers.length)
      (exec init [.set [97] .notServing])
      [⟨[⟨.set [97] .serving, 2, 5, .done⟩], Lin.noSlot⟩,
       ⟨[⟨.watch [97], 0, 1, .subscribed⟩, ⟨.next 0, 1, 4, .value .serving⟩], Lin.noSlot⟩] = .yes := by
  decide
-- … and one in which the watcher's delivery had returned before the set was invoked is not
example :
    Lin.linearizable Health.accept (fun s => s.watchers.length)
      (exec init [.set [97] .notServing])
      [⟨[⟨.set [97] .serving, 5, 6, .done⟩], Lin.noSlot⟩,
       ⟨[⟨.watch [97], 0, 1, .subscribed⟩, ⟨.next 0, 1, 4, .value .serving⟩], Lin.noSlot⟩] = .no := by
  decide

/-! ## handles and independent pairs (audit aC18)

`life` histories: several `health_reporter()` pairs in one process, reporter and client handles
that are cloned, overwritten and dropped (all of them, too) between the health operations
(`Model/HealthLife`).  The process model keeps one table per pair and the set of handle
variables that hold a value; `effective p` reads, off the items addressed to pair `p` alone, the
health operations that happened on it. -/

/-- Transcription lemma: `effective p` (Model/HealthLife) reads the operations that happened on
pair `p` with the SAME handle rule `sideStep` applies (same liveness test per variable, same
refusal to drop the last handle), and `lstep` touches only the addressed pair, so the equation
holds by construction of the process model — for ANY table semantics in the place of
`Health.step` and any initial table, with the same proof; there is no independent oracle for the
handle rule.  That handles and other pairs give tonic-health no behaviour (a dropped reporter does
not clear the statuses, clones share one table, pairs share nothing) was written into `sideStep`
from the source and is established by the `life` cases of the correspondence run, not by this
theorem.

Handles and other pairs are invisible: in every `life` history, from the start of the
process, the answers pair `p` gets are exactly the answers of one fresh table to the health
operations that happened on `p` — whichever clone each went through, however many clones were
made or dropped in between (also when every reporter handle is gone: the statuses stay, Check
and the streams go on answering), whether the client a stream came from still exists, and
whatever was done to any other pair. -/
theorem C18_pair_is_own_history (p : Nat) (items : List LItem) :
    sideAnswers p (lrun linit items) = Health.run init (effective p liveInit liveInit items) :=
  (side_is_own_history p items linit).1

/-- Transcription lemma: second half of `side_is_own_history`, definitional for the same reason as
`C18_pair_is_own_history` (holds for any table semantics); assurance from the `life` cases.

… likewise the table the pair ends with. -/
theorem C18_pair_table_is_own_history (p : Nat) (items : List LItem) :
    ((lexec linit items) p).h = exec init (effective p liveInit liveInit items) :=
  (side_is_own_history p items linit).2

/-- Transcription lemma: `C18_answers_allowed` and `C18_refines_oracle` instantiated at the list
`effective p …` after rewriting with `C18_pair_is_own_history` — no content beyond those three;
the handle / pair claim itself rests on the `life` cases of the correspondence run.

Hence every pair's answers pass the property's clauses in every `life` history, and are the
log-scanning oracle's. -/
theorem C18_pair_answers_allowed (p : Nat) (items : List LItem) :
    allowedTrace [] ((effective p liveInit liveInit items).zip (sideAnswers p (lrun linit items))) = true ∧
    sideAnswers p (lrun linit items) = Spec.Health.run [] (effective p liveInit liveInit items) := by
  rw [C18_pair_is_own_history]
  exact ⟨C18_answers_allowed _, C18_refines_oracle _⟩

-- non-vacuity: pair 0 sets `a`, drops both reporter handles (a later set through an empty
-- variable does not happen), pair 1 never hears of `a`; pair 0 still answers NOT_SERVING.
example :
    lrun linit [⟨0, .rep 0 (.set [97] .notServing)⟩, ⟨0, .rdrop 0⟩, ⟨0, .rdrop 1⟩, ⟨0, .rep 1 (.set [97] .serving)⟩,
        ⟨1, .cli 0 (.check [97])⟩, ⟨0, .cli 1 (.check [97])⟩, ⟨0, .rclone 2 0⟩]
      = [(0, .eff .done), (0, .ok), (0, .ok), (0, .noh), (1, .eff .notFound), (0, .eff (.status .notServing)),
         (0, .noh)] := by
  decide
example :
    effective 0 liveInit liveInit [⟨0, .rep 0 (.set [97] .notServing)⟩, ⟨0, .rdrop 0⟩, ⟨0, .rdrop 1⟩,
        ⟨0, .rep 1 (.set [97] .serving)⟩, ⟨1, .cli 0 (.check [97])⟩, ⟨0, .cli 1 (.check [97])⟩]
      = [.set [97] .notServing, .check [97]] := by
  decide

end C18
