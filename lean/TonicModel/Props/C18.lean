import TonicModel.Model.Health
import TonicModel.Spec.Health
import TonicModel.Lemmas.HealthSpec
import TonicModel.Lemmas.Health
/-
C18 — Health service reports the latest status to Check and Watch.
Property theorems only; helper lemmas live in `Lemmas/Health*.lean`.

Vocabulary: `Health.step / exec / run / hist` are the model of tonic-health/src/server.rs
(`Model/Health`); `Spec.Health.*` is the oracle that only scans the log of past events
(`Spec/Health`).  Operation sequences `ops : List Op` are arbitrary: any interleaving of
`set`, `clear`, `check`, `watch`, `next w`, `drop w`, of any length, over any names.
-/
namespace C18
open Health Spec.Health

/-- Refinement: on every operation sequence the model of tonic-health answers exactly like the
reference interpreter, which keeps nothing but the log of past events and answers each call by
scanning it (Check = last set since the last clear; a stream delivers the latest status of its
registration when it has not delivered yet or an update came since, ends once cleared, waits
otherwise). -/
theorem C18_refines_oracle (ops : List Op) : Health.run init ops = Spec.Health.run [] ops :=
  run_eq sim_init ops

/-- Every answer the model gives, on every operation sequence, passes the property's clauses
(`Spec.Health.clauses`: Check is the latest status / NOT_FOUND; a stream's delivery is a status
that was set, is the latest one, the first poll delivers; a stream is silent only when up to
date and registered; it ends only after a clear and after the undelivered status). -/
theorem C18_answers_allowed (ops : List Op) :
    allowedTrace [] (ops.zip (Health.run init ops)) = true := by
  rw [C18_refines_oracle]; exact allowedTrace_run [] trivial ops

/-- Check, after any history: the status most recently set for that name since it was last
cleared (`Spec.Health.current` of the log), else NOT_FOUND. -/
theorem C18_check_is_current (ops : List Op) (n : Name) :
    (step (exec init ops) (.check n)).2 =
      (match current (hist init [] ops) n with
       | some s => Resp.status s
       | none => Resp.notFound) := by
  rw [answer_eq]; rfl

end C18
