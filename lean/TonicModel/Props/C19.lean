import TonicModel.Model.Reflection
import TonicModel.Spec.Reflection
import TonicModel.Lemmas.Reflection
import TonicModel.Lemmas.ReflectionWire
import TonicModel.Lemmas.ReflectionBuild
/-
C19 — Reflection resolves every registered symbol and file, and nothing else.
Property theorems only; helper lemmas live in `Lemmas/Reflection`.

Reading guide.  `c : Config` is the builder after arbitrary `register_*`, `with_service_name`
and `include_reflection_service` calls; `c.files` are all registered descriptors (any number of
sets and files, any nesting depth, packages present/absent/empty, duplicates);  `build c = .ok st`
is a successfully built service;  `assoc n st.symbols` / `assoc nm st.files` are what
`file_containing_symbol` / `file_by_filename` look up, `respond` is one step of the request loop
and `runStream` a whole call.  `Declares f n` is the oracle (`Spec/Reflection`): file `f`
declares the fully-qualified name `n`.

Duplicate file names: registering the *identical* file again is harmless; if two registered
files with one name differ, tonic serves the one it examines first (`C19_first_registration_wins`).
The order-free theorems therefore speak about `Unconflicted` files (every registered file of
that name is that very file) where they promise that a particular file is served, and about
*some* registered file otherwise.
-/
namespace C19
open Refl Reflection Spec.Reflection

/-- The service builds whenever every registered byte string decodes and every name the indexer
reads is present: no other input can make `build_v1`/`build_v1alpha` fail.  (One direction only:
the converse is false, see `C19_build_iff` for the exact condition and
`C19_build_succeeds_converse_fails`.) -/
theorem C19_build_succeeds (c : Config) (hd : c.decodable = true)
    (hw : ∀ f ∈ c.files, File.wellNamed f = true) : ∃ st, build c = .ok st := by
  rw [build_eq, if_pos hd]
  exact addFiles_ok _ _ (fun f hf => hw f (mem_procFiles.mp hf))

/-- **When exactly the service builds.**  `build_v1`/`build_v1alpha` succeed iff every registered
byte string decodes and every registered file that is the FIRST of its file name in the order the
builder examines them (`served c.procFiles`: decoded registrations before encoded ones, each in
call order, the own descriptor last) has all the names the indexer reads.  A file whose file name
is already taken is skipped (`continue`) and never examined, so missing names in it do not matter. -/
theorem C19_build_iff (c : Config) :
    (∃ st, build c = .ok st) ↔
      (c.decodable = true ∧ ∀ f ∈ served c.procFiles, File.wellNamed f = true) :=
  build_isOk_iff c

private def bn (cs : List Char) : Name := cs.map (fun c => UInt8.ofNat c.toNat)

/-- `a.p`, package `pk`, `message M { f }`, `service S { rpc G }` -/
def shadowing : File :=
  { name := some (bn ['a', '.', 'p']), package := some (bn ['p', 'k']), extra := 0
    messages := .cons (.mk (some (bn ['M'])) .nil [] [some (bn ['f'])] []) .nil
    enums := [], services := [{ name := some (bn ['S']), methods := [some (bn ['G'])] }] }

/-- the same file name, with a message WITHOUT a name: `process_file` would fail on it -/
def shadowed : File := { shadowing with messages := .cons (.mk none .nil [] [] []) .nil }

/-- both registered in one set, the well-named one first -/
def shadowCfg : Config := { regs := [.decoded [shadowing, shadowed]], chosen := none, own := none }

/-- The converse of `C19_build_succeeds` is false: `shadowCfg` decodes and builds although a
registered file (`shadowed`, behind a file of the same name) lacks a message name — so "builds
iff nothing is undecodable or unnamed" does not hold; `C19_build_iff` is the exact statement. -/
theorem C19_build_succeeds_converse_fails :
    shadowCfg.decodable = true ∧ isOk (build shadowCfg) = true ∧
    shadowed ∈ shadowCfg.files ∧ File.wellNamed shadowed = false ∧
    ¬ (∀ c : Config, (∃ st, build c = .ok st) →
        (c.decodable = true ∧ ∀ f ∈ c.files, File.wellNamed f = true)) := by
  refine ⟨by decide, by decide, by decide, by decide, fun h => ?_⟩
  have := (h shadowCfg (isOk_iff.mp (by decide))).2 shadowed (by decide)
  revert this; decide

/-- Soundness of symbol resolution ("… and nothing else"): whatever file a symbol resolves to is
a registered file that declares that symbol, and is itself the file served under its name. -/
theorem C19_symbol_sound (c : Config) (st : State) (h : build c = .ok st) (n : Name) (f : File)
    (hl : assoc n st.symbols = some f) :
    f ∈ c.files ∧ Declares f n ∧ ∃ nm, f.name = some nm ∧ assoc nm st.files = some f := by
  have hg := build_good h
  obtain ⟨hd, nm, hn, ha⟩ := hg.sym_sound n f hl
  refine ⟨?_, hd, nm, hn, ha⟩
  rw [hg.files_eq] at ha
  exact mem_procFiles.mp (List.mem_of_find?_eq_some ha)

/-- Completeness of symbol resolution: every fully-qualified name declared by a served file —
message, nested message (any depth), field, oneof, enum, enum value, service, method — resolves,
and (by soundness) to a registered file declaring it. -/
theorem C19_symbol_complete_served (c : Config) (st : State) (h : build c = .ok st) (nm : Name)
    (f : File) (hs : assoc nm st.files = some f) (n : Name) (hd : Declares f n) :
    ∃ g, assoc n st.symbols = some g ∧ g ∈ c.files ∧ Declares g n := by
  obtain ⟨g, hg⟩ := (build_good h).sym_complete nm f hs n hd
  obtain ⟨h1, h2, -⟩ := C19_symbol_sound c st h n g hg
  exact ⟨g, hg, h1, h2⟩

/-- File retrieval, soundness: a name only ever retrieves a registered file of that name. -/
theorem C19_file_sound (c : Config) (st : State) (h : build c = .ok st) (nm : Name) (g : File)
    (hl : assoc nm st.files = some g) : g ∈ c.files ∧ g.name = some nm := by
  rw [(build_good h).files_eq] at hl
  exact ⟨mem_procFiles.mp (List.mem_of_find?_eq_some hl), by simpa using List.find?_some hl⟩

/-- File retrieval, completeness: every registered file's name retrieves a registered file of
that name — the file itself unless a *different* file was registered under the same name. -/
theorem C19_file_complete (c : Config) (st : State) (h : build c = .ok st) (f : File)
    (hf : f ∈ c.files) (nm : Name) (hn : f.name = some nm) :
    ∃ g, assoc nm st.files = some g ∧ g ∈ c.files ∧ g.name = some nm ∧
      (Unconflicted c.files f → g = f) := by
  have hsome : (c.procFiles.find? (fun g => decide (g.name = some nm))).isSome = true := by
    rw [List.find?_isSome]
    exact ⟨f, mem_procFiles.mpr hf, by simp [hn]⟩
  obtain ⟨g, hg⟩ := Option.isSome_iff_exists.mp hsome
  have ha : assoc nm st.files = some g := by rw [(build_good h).files_eq]; exact hg
  obtain ⟨h1, h2⟩ := C19_file_sound c st h nm g ha
  exact ⟨g, ha, h1, h2, fun hu => hu g h1 (h2.trans hn.symm)⟩

/-- Which of several same-named files is served: the first one the builder examines (decoded
registrations before encoded ones, each in call order). -/
theorem C19_first_registration_wins (c : Config) (st : State) (h : build c = .ok st) (nm : Name) :
    assoc nm st.files = c.procFiles.find? (fun g => decide (g.name = some nm)) :=
  (build_good h).files_eq nm

/-- Completeness, order-free form: every name declared by a registered file whose file name is
not contested resolves to a registered file declaring it. -/
theorem C19_symbol_complete (c : Config) (st : State) (h : build c = .ok st) (f : File)
    (hf : f ∈ c.files) (hu : Unconflicted c.files f) (n : Name) (hd : Declares f n) :
    ∃ g, assoc n st.symbols = some g ∧ g ∈ c.files ∧ Declares g n := by
  obtain ⟨nm, hn⟩ := addFiles_named (build_ok h).2 f (mem_procFiles.mpr hf)
  obtain ⟨g, ha, -, -, hgf⟩ := C19_file_complete c st h f hf nm hn
  rw [hgf hu] at ha
  exact C19_symbol_complete_served c st h nm f ha n hd

/-- The answer to `file_containing_symbol n`: either a descriptor of a registered file declaring
`n`, or the status NOT_FOUND — and NOT_FOUND only if no uncontested registered file declares `n`. -/
theorem C19_symbol_answer (c : Config) (st : State) (h : build c = .ok st) (n : Name) :
    (∀ a, respond st (.fileContainingSymbol n) = .ok a →
      ∃ f, a = .fileDescriptor f ∧ f ∈ c.files ∧ Declares f n) ∧
    (∀ e, respond st (.fileContainingSymbol n) = .error e →
      e = Code.notFound ∧ ∀ f ∈ c.files, Unconflicted c.files f → ¬ Declares f n) := by
  simp only [respond]
  cases hl : assoc n st.symbols with
  | some f =>
    obtain ⟨h1, h2, -⟩ := C19_symbol_sound c st h n f hl
    exact ⟨fun a ha => ⟨f, by simpa using ha.symm, h1, h2⟩, fun e he => by simp at he⟩
  | none =>
    refine ⟨fun a ha => by simp at ha, fun e he => ⟨by simp at he; rw [← he], ?_⟩⟩
    intro f hf hu hd
    obtain ⟨g, hg, -⟩ := C19_symbol_complete c st h f hf hu n hd
    rw [hl] at hg
    exact absurd hg (by simp)

/-- The answer to `file_by_filename nm`: either the descriptor of a registered file named `nm`
(the registered one itself when uncontested), or NOT_FOUND — and NOT_FOUND only if no registered
file has that name. -/
theorem C19_file_answer (c : Config) (st : State) (h : build c = .ok st) (nm : Name) :
    (∀ a, respond st (.fileByFilename nm) = .ok a →
      ∃ g, a = .fileDescriptor g ∧ g ∈ c.files ∧ g.name = some nm ∧
        ∀ f ∈ c.files, f.name = some nm → Unconflicted c.files f → g = f) ∧
    (∀ e, respond st (.fileByFilename nm) = .error e →
      e = Code.notFound ∧ ∀ f ∈ c.files, f.name ≠ some nm) := by
  simp only [respond]
  cases hl : assoc nm st.files with
  | some g =>
    obtain ⟨h1, h2⟩ := C19_file_sound c st h nm g hl
    refine ⟨fun a ha => ⟨g, by simpa using ha.symm, h1, h2, ?_⟩, fun e he => by simp at he⟩
    intro f hf hn hu
    obtain ⟨g', hg', -, -, hgf⟩ := C19_file_complete c st h f hf nm hn
    rw [hl] at hg'
    rw [Option.some.inj hg', hgf hu]
  | none =>
    refine ⟨fun a ha => by simp at ha, fun e he => ⟨by simp at he; rw [← he], ?_⟩⟩
    intro f hf hn
    obtain ⟨g, hg, -⟩ := C19_file_complete c st h f hf nm hn
    rw [hl] at hg
    exact absurd hg (by simp)

/-- Unknown names get NOT_FOUND: a symbol no registered file declares, and a file name no
registered file has, are answered with that status (which ends the stream). -/
theorem C19_unknown_not_found (c : Config) (st : State) (h : build c = .ok st) :
    (∀ n, (∀ f ∈ c.files, ¬ Declares f n) →
      respond st (.fileContainingSymbol n) = .error Code.notFound) ∧
    (∀ nm, (∀ f ∈ c.files, f.name ≠ some nm) →
      respond st (.fileByFilename nm) = .error Code.notFound) := by
  constructor
  · intro n hno
    simp only [respond]
    cases hl : assoc n st.symbols with
    | some f =>
      obtain ⟨h1, h2, -⟩ := C19_symbol_sound c st h n f hl
      exact absurd h2 (hno f h1)
    | none => rfl
  · intro nm hno
    simp only [respond]
    cases hl : assoc nm st.files with
    | some g =>
      obtain ⟨h1, h2⟩ := C19_file_sound c st h nm g hl
      exact absurd h2 (hno g h1)
    | none => rfl

/-- The service list when `with_service_name` was never called: exactly the services declared by
the served files — as a list, in the order they are examined, and as a set. -/
theorem C19_services_declared (c : Config) (st : State) (h : build c = .ok st)
    (hch : c.chosen = none) (s : Name) :
    respond st (.listServices s) = .ok (.services ((served c.procFiles).flatMap serviceNames)) ∧
    ∀ n, n ∈ (served c.procFiles).flatMap serviceNames ↔
      ∃ f nm, assoc nm st.files = some f ∧ DeclaresService f n := by
  have hb := (build_ok h).2
  have hs := addFiles_services (good_init (c.chosen.getD [])) hb
  have hg := build_good h
  simp only [hch, Option.getD_none, Option.isNone_none, List.nil_append, if_true] at hs
  refine ⟨by simp only [respond, hs, served], fun n => ?_⟩
  simp only [List.mem_flatMap, served, mem_servedFrom, mem_serviceNames_iff]
  constructor
  · rintro ⟨f, ⟨-, hfind⟩, hd⟩
    obtain ⟨nm, hn⟩ := addFiles_named hb f (List.mem_of_find?_eq_some hfind)
    refine ⟨f, nm, ?_, hd⟩
    rw [hg.files_eq, ← hn]; exact hfind
  · rintro ⟨f, nm, ha, hd⟩
    rw [hg.files_eq] at ha
    have hn : f.name = some nm := by simpa using List.find?_some ha
    refine ⟨f, ⟨by simp, ?_⟩, hd⟩
    rw [hn]; exact ha

/-- Order-free form: when no file name is contested, the service list is — up to order — the
services of one copy of every registered file (a file registered twice is listed once). -/
theorem C19_services_exactly_declared (c : Config) (st : State) (h : build c = .ok st)
    (hch : c.chosen = none) (hu : ∀ f ∈ c.files, Unconflicted c.files f) (s : Name) :
    ∃ l, respond st (.listServices s) = .ok (.services l) ∧
      l.Perm ((served c.files).flatMap serviceNames) :=
  ⟨_, (C19_services_declared c st h hch s).1,
    (served_perm (procFiles_perm c) hu).flatMap_right serviceNames⟩

/-- Why the service does not build, when it does not: a registered byte string prost rejects
(reported as `DecodeError`, before anything else — first conjunct), or a missing name in a
registered file that is the first of its file name in processing order, i.e. one the builder
really examines (second conjunct; from `C19_build_iff`, so it names an examined culprit and is
more than the contrapositive of `C19_build_succeeds`). -/
theorem C19_build_error_cause (c : Config) (e : Err) (h : build c = .error e) :
    (e = .decode ↔ c.decodable = false) ∧
    (c.decodable = false ∨
      ∃ f ∈ served c.procFiles, f ∈ c.files ∧ File.wellNamed f = false) := by
  by_cases hd : c.decodable = true
  · have hnw : ∃ f ∈ served c.procFiles, f ∈ c.files ∧ File.wellNamed f = false := by
      apply Classical.byContradiction
      intro hno
      have hw : ∀ f ∈ served c.procFiles, File.wellNamed f = true := fun f hf => by
        cases hwf : File.wellNamed f with
        | true => rfl
        | false => exact absurd ⟨f, hf, mem_procFiles.mp (served_subset hf), hwf⟩ hno
      obtain ⟨st, hst⟩ := (C19_build_iff c).mpr ⟨hd, hw⟩
      rw [h] at hst; cases hst
    refine ⟨⟨fun he => ?_, fun hf => by rw [hd] at hf; cases hf⟩, Or.inr hnw⟩
    subst he
    rw [build_eq, if_pos hd] at h
    exact absurd h (addFiles_not_decode _ _)
  · have hd' : c.decodable = false := by simpa using hd
    rw [build_eq, if_neg hd] at h
    exact ⟨⟨fun _ => hd', fun _ => by cases h; rfl⟩, Or.inl hd'⟩

/-- The service list when services were chosen explicitly: exactly the chosen names, in call
order, whatever was registered. -/
theorem C19_services_chosen (c : Config) (st : State) (h : build c = .ok st) (l : List Name)
    (hch : c.chosen = some l) (s : Name) : respond st (.listServices s) = .ok (.services l) := by
  have hs := addFiles_services (good_init (c.chosen.getD [])) (build_ok h).2
  simp only [hch, Option.getD_some, Option.isNone_some] at hs
  simp only [respond, hs]
  simp

/-- One call (request stream): the answers are, in order, the answers to the first requests,
each echoing its request; the stream ends cleanly exactly when every request was answered, and
otherwise ends with the error status of the first request that failed — nothing after it is
answered. -/
theorem C19_stream_answers (st : State) (reqs : List Request) :
    (runStream st reqs).1.length ≤ reqs.length ∧
    (∀ (i : Nat) (a : Response), (runStream st reqs).1[i]? = some a →
      ∃ r, reqs[i]? = some r ∧ respond st r.messageRequest = .ok a.answer ∧
        a.validHost = r.host ∧ a.originalRequest = r) ∧
    ((runStream st reqs).2 = none → (runStream st reqs).1.length = reqs.length) ∧
    (∀ e : Code, (runStream st reqs).2 = some e →
      ∃ r : Request, reqs[(runStream st reqs).1.length]? = some r ∧
        respond st r.messageRequest = .error e) := by
  induction reqs with
  | nil => simp [runStream]
  | cons r rs ih =>
    simp only [runStream]
    cases hr : respond st r.messageRequest with
    | error e => simp [hr]
    | ok a =>
      obtain ⟨h1, h2, h3, h4⟩ := ih
      refine ⟨by simp; omega, ?_, by simpa using h3, by simpa using h4⟩
      intro i b hb
      cases i with
      | zero => simp at hb; subst hb; exact ⟨r, by simp, hr, rfl, rfl⟩
      | succ i => simp at hb; simpa using h2 i b hb

/-- v1 / v1alpha: the two services are the same code over different own descriptors.  Adding an
own descriptor set `o` (whatever it is) changes no answer about a symbol that `o` does not
declare, nor about a file name that `o` does not use — so the two versions, and a service built
without its own descriptor, agree on every such name. -/
theorem C19_own_descriptor_conservative (c : Config) (o : List File) (st0 st1 : State)
    (h0 : build { c with own := none } = .ok st0) (h1 : build { c with own := some o } = .ok st1) :
    (∀ n, (∀ g ∈ o, ¬ Declares g n) →
      respond st1 (.fileContainingSymbol n) = respond st0 (.fileContainingSymbol n)) ∧
    (∀ nm, (∀ g ∈ o, g.name ≠ some nm) →
      respond st1 (.fileByFilename nm) = respond st0 (.fileByFilename nm)) := by
  have b0 := (build_ok h0).2
  have b1 := (build_ok h1).2
  rw [procFiles_with_own, addFiles_append] at b1
  have hinit : initState { c with own := some o } = initState { c with own := none } := rfl
  have hch : ({ c with own := some o } : Config).chosen = ({ c with own := none } : Config).chosen := rfl
  rw [hinit, hch, b0] at b1
  simp only at b1
  constructor
  · intro n hno
    simp only [respond, addFiles_symbols_outside b1 hno]
  · intro nm hno
    simp only [respond, addFiles_files_outside b1 hno]

/-- Hence the two versions agree with each other outside their own descriptors — for every
configuration both versions build, with no further condition on the registered files (a service
that builds with an own descriptor builds without it: `Refl.build_without_own`). -/
theorem C19_versions_agree (c : Config) (o1 o1a : List File) (s1 s1a : State)
    (h1 : build { c with own := some o1 } = .ok s1) (h1a : build { c with own := some o1a } = .ok s1a) :
    (∀ n, (∀ g ∈ o1, ¬ Declares g n) → (∀ g ∈ o1a, ¬ Declares g n) →
      respond s1 (.fileContainingSymbol n) = respond s1a (.fileContainingSymbol n)) ∧
    (∀ nm, (∀ g ∈ o1, g.name ≠ some nm) → (∀ g ∈ o1a, g.name ≠ some nm) →
      respond s1 (.fileByFilename nm) = respond s1a (.fileByFilename nm)) := by
  obtain ⟨s0, h0⟩ := build_without_own c o1 s1 h1
  obtain ⟨a1, a2⟩ := C19_own_descriptor_conservative c o1 s0 s1 h0 h1
  obtain ⟨b1, b2⟩ := C19_own_descriptor_conservative c o1a s0 s1a h0 h1a
  exact ⟨fun n x y => (a1 n x).trans (b1 n y).symm, fun nm x y => (a2 nm x).trans (b2 nm y).symm⟩

/-- … and about the service list: adding an own descriptor set `o` only *appends* to it, and
only services that a file of `o` declares (nothing at all when service names were chosen). -/
theorem C19_own_descriptor_conservative_services (c : Config) (o : List File) (st0 st1 : State)
    (h0 : build { c with own := none } = .ok st0) (h1 : build { c with own := some o } = .ok st1) :
    ∃ x, st1.serviceNames = st0.serviceNames ++ x ∧ (c.chosen.isSome = true → x = []) ∧
      ∀ n ∈ x, ∃ g ∈ o, DeclaresService g n := by
  have b0 := (build_ok h0).2
  have b1 := (build_ok h1).2
  rw [procFiles_with_own, addFiles_append] at b1
  have hinit : initState { c with own := some o } = initState { c with own := none } := rfl
  have hch : ({ c with own := some o } : Config).chosen = ({ c with own := none } : Config).chosen := rfl
  rw [hinit, hch, b0] at b1
  simp only at b1
  have hs := addFiles_services (build_good h0) b1
  refine ⟨_, hs, ?_, ?_⟩
  · intro hsome
    have : ({ c with own := none } : Config).chosen.isNone = false := by
      show c.chosen.isNone = false
      cases hc : c.chosen with
      | none => simp [hc] at hsome
      | some l => rfl
    simp [this]
  · intro n hn
    split at hn
    · obtain ⟨g, hg, hd⟩ := List.mem_flatMap.mp hn
      exact ⟨g, List.mem_of_find?_eq_some (mem_servedFrom.mp hg).2, mem_serviceNames_iff.mp hd⟩
    · simp at hn

/-- Requests whose answer must not depend on the version: every kind of request — the absent
request, extension look-ups, extension-number listings, symbol and file look-ups, ListServices —
except a symbol that an own descriptor declares, a file name an own descriptor has, and
ListServices when no service names were chosen (then the own services are listed too, see
`C19_versions_agree_services`). -/
def OutsideOwn (chosen : Option (List Name)) (o1 o1a : List File) : Req → Prop
  | .fileContainingSymbol n => (∀ g ∈ o1, ¬ Declares g n) ∧ (∀ g ∈ o1a, ¬ Declares g n)
  | .fileByFilename nm => (∀ g ∈ o1, g.name ≠ some nm) ∧ (∀ g ∈ o1a, g.name ≠ some nm)
  | .listServices _ => chosen.isSome = true
  | _ => True

/-- The two versions agree on *every request kind* outside their own descriptors
(`file_containing_extension` and the absent request fail alike, `all_extension_numbers_of_type`
is answered alike — as the code has them — and symbol / file look-ups and the chosen service list
are the same answers). -/
theorem C19_versions_agree_every_request (c : Config) (o1 o1a : List File) (s1 s1a : State)
    (h1 : build { c with own := some o1 } = .ok s1) (h1a : build { c with own := some o1a } = .ok s1a)
    (r : Req) (hr : OutsideOwn c.chosen o1 o1a r) : respond s1 r = respond s1a r := by
  obtain ⟨s0, h0⟩ := build_without_own c o1 s1 h1
  obtain ⟨a1, a2⟩ := C19_versions_agree c o1 o1a s1 s1a h1 h1a
  cases r with
  | none => rfl
  | fileContainingExtension t k => rfl
  | allExtensionNumbersOfType t => rfl
  | fileContainingSymbol n => exact a1 n hr.1 hr.2
  | fileByFilename nm => exact a2 nm hr.1 hr.2
  | listServices t =>
    obtain ⟨x, hx, hx0, -⟩ := C19_own_descriptor_conservative_services c o1 s0 s1 h0 h1
    obtain ⟨y, hy, hy0, -⟩ := C19_own_descriptor_conservative_services c o1a s0 s1a h0 h1a
    simp only [respond, hx, hy, hx0 hr, hy0 hr]

/-- ListServices in general: the two versions list a common part (what the service lists
without any own descriptor) followed by services that their own descriptor declares. -/
theorem C19_versions_agree_services (c : Config) (o1 o1a : List File) (s1 s1a : State)
    (h1 : build { c with own := some o1 } = .ok s1) (h1a : build { c with own := some o1a } = .ok s1a)
    (t : Name) :
    ∃ base x1 x1a, respond s1 (.listServices t) = .ok (.services (base ++ x1)) ∧
      respond s1a (.listServices t) = .ok (.services (base ++ x1a)) ∧
      (∀ n ∈ x1, ∃ g ∈ o1, DeclaresService g n) ∧ (∀ n ∈ x1a, ∃ g ∈ o1a, DeclaresService g n) := by
  obtain ⟨s0, h0⟩ := build_without_own c o1 s1 h1
  obtain ⟨x, hx, -, hxd⟩ := C19_own_descriptor_conservative_services c o1 s0 s1 h0 h1
  obtain ⟨y, hy, -, hyd⟩ := C19_own_descriptor_conservative_services c o1a s0 s1a h0 h1a
  exact ⟨s0.serviceNames, x, y, by simp only [respond, hx], by simp only [respond, hy], hxd, hyd⟩

/-- Whole calls: a request stream that stays outside the own descriptors gets the same answers,
and the same final status, from both versions. -/
theorem C19_versions_agree_streams (c : Config) (o1 o1a : List File) (s1 s1a : State)
    (h1 : build { c with own := some o1 } = .ok s1) (h1a : build { c with own := some o1a } = .ok s1a)
    (reqs : List Request) (hr : ∀ r ∈ reqs, OutsideOwn c.chosen o1 o1a r.messageRequest) :
    runStream s1 reqs = runStream s1a reqs := by
  induction reqs with
  | nil => rfl
  | cons r rs ih =>
    have e := C19_versions_agree_every_request c o1 o1a s1 s1a h1 h1a r.messageRequest
      (hr r List.mem_cons_self)
    simp only [runStream, e, ih (fun r' h' => hr r' (List.mem_cons_of_mem _ h'))]

/-- … and what a call answers to a prefix of its requests does not depend on what follows: the
answers to `pre ++ rest` start with the answers to `pre`, and if `pre` already failed, that is
the whole call.  (So the previous theorem applies to every stream up to the first request that
touches an own descriptor — which is what the correspondence run compares.) -/
theorem C19_stream_prefix (st : State) (pre rest : List Request) :
    (∀ e, (runStream st pre).2 = some e → runStream st (pre ++ rest) = runStream st pre) ∧
    ((runStream st pre).2 = none →
      runStream st (pre ++ rest) = ((runStream st pre).1 ++ (runStream st rest).1, (runStream st rest).2)) := by
  induction pre with
  | nil => simp [runStream]
  | cons r rs ih =>
    simp only [List.cons_append, runStream]
    cases hr : respond st r.messageRequest with
    | error e => simp
    | ok a =>
      simp only
      constructor
      · intro e he
        rw [ih.1 e he]
      · intro hn
        rw [ih.2 hn]
        rfl

/-- "… retrievable as a descriptor that decodes to what was registered", at the level of bytes:
the bytes answered for a skeleton descriptor `f` (one that carries nothing beyond the names the
model records, `extra = 0`; `ReflWire.encFile` is tied to prost's encoder by the correspondence
run) are read back, by the oracle's own protobuf wire reader, as exactly `f` — for any nesting
depth, given a recursion limit that covers it (prost's is 100). -/
theorem C19_answer_bytes_decode (f : File) (hx : f.extra = 0) (limit : Nat)
    (hd : Spec.ReflWire.MsgList.depth f.messages ≤ limit) :
    Spec.ReflWire.decFile limit (ReflWire.encFile f) = some f :=
  ReflWire.decFile_encFile f hx limit hd

/-- The decision procedure the check evaluates on the observed answers decides the oracle
relation (so a `fail:symbol-resolves-to-declaring-file` verdict is a genuine `¬ Declares`). -/
theorem C19_verdict_decides (f : File) (n : Name) :
    (declares f n = true ↔ Declares f n) ∧ (declaresService f n = true ↔ DeclaresService f n) :=
  ⟨declares_iff, declaresService_iff⟩

/-! ### The builder as a program of calls

The theorems above speak about a `Config`.  A `Config` is what a *program* of builder calls
leaves behind; the next theorems say that nothing about the program matters except the
registrations in call order, the chosen names in call order, and the LAST
`include_reflection_service` call (on when there is none): calls of different kinds commute,
earlier `include_reflection_service` calls are forgotten, the default is "include". -/

/-- the registrations of a program, in call order -/
def regsOfOps : List BuilderOp → List Reg
  | [] => []
  | .register r :: ops => r :: regsOfOps ops
  | _ :: ops => regsOfOps ops

/-- the `with_service_name` arguments of a program, in call order -/
def namesOfOps : List BuilderOp → List Name
  | [] => []
  | .withServiceName n :: ops => n :: namesOfOps ops
  | _ :: ops => namesOfOps ops

/-- the argument of the last `include_reflection_service` call, `dflt` when there is none -/
def lastInclude (dflt : Bool) : List BuilderOp → Bool
  | [] => dflt
  | .includeReflectionService b :: ops => lastInclude b ops
  | _ :: ops => lastInclude dflt ops

private theorem foldl_step_regs (ops : List BuilderOp) (b : Builder) :
    (ops.foldl Builder.step b).regs = b.regs ++ regsOfOps ops := by
  induction ops generalizing b with
  | nil => simp [regsOfOps]
  | cons op ops ih => cases op <;> simp [List.foldl, Builder.step, regsOfOps, ih]

private theorem foldl_step_names (ops : List BuilderOp) (b : Builder) :
    (ops.foldl Builder.step b).serviceNames = b.serviceNames ++ namesOfOps ops := by
  induction ops generalizing b with
  | nil => simp [namesOfOps]
  | cons op ops ih => cases op <;> simp [List.foldl, Builder.step, namesOfOps, ih]

private theorem foldl_step_useAll (ops : List BuilderOp) (b : Builder) :
    (ops.foldl Builder.step b).useAllServiceNames = (b.useAllServiceNames && (namesOfOps ops).isEmpty) := by
  induction ops generalizing b with
  | nil => simp [namesOfOps]
  | cons op ops ih => cases op <;> simp [List.foldl, Builder.step, namesOfOps, ih]

private theorem foldl_step_include (ops : List BuilderOp) (b : Builder) :
    (ops.foldl Builder.step b).includeReflectionService = lastInclude b.includeReflectionService ops := by
  induction ops generalizing b with
  | nil => simp [lastInclude]
  | cons op ops ih => cases op <;> simp [List.foldl, Builder.step, lastInclude, ih]

/-- What ANY program of builder calls configures: every registration in call order; the chosen
names in call order iff `with_service_name` was called at all; the own descriptor iff the last
`include_reflection_service` call said so — and iff nothing said otherwise (the default). -/
theorem C19_builder_program (ops : List BuilderOp) (own : List File) :
    (Builder.run ops).config own =
      { regs := regsOfOps ops
        chosen := if (namesOfOps ops).isEmpty then none else some (namesOfOps ops)
        own := if lastInclude true ops then some own else none } := by
  simp only [Builder.run, Builder.config, foldl_step_regs, foldl_step_names, foldl_step_useAll,
    foldl_step_include, Builder.configure, List.nil_append, Bool.true_and]

/-- Hence the order of calls of different kinds, repeated `include_reflection_service` calls and
relying on the default are all invisible: two programs with the same registrations, the same
names and the same final include setting build the same service (or fail with the same error),
for v1 and for v1alpha alike (`own` is the version's descriptor). -/
theorem C19_builder_order_invisible (ops ops' : List BuilderOp) (own : List File)
    (hr : regsOfOps ops = regsOfOps ops') (hn : namesOfOps ops = namesOfOps ops')
    (hi : lastInclude true ops = lastInclude true ops') :
    build ((Builder.run ops).config own) = build ((Builder.run ops').config own) := by
  rw [C19_builder_program, C19_builder_program, hr, hn, hi]

/-- The default: a program that never calls `include_reflection_service` serves the own
descriptor, exactly like one that ends with `include_reflection_service(true)`. -/
theorem C19_builder_default_includes (ops : List BuilderOp) (own : List File)
    (h : ∀ b, BuilderOp.includeReflectionService b ∉ ops) :
    (Builder.run ops).config own = (Builder.run (ops ++ [.includeReflectionService true])).config own := by
  have hl : ∀ (d : Bool) (l : List BuilderOp), (∀ b, BuilderOp.includeReflectionService b ∉ l) →
      lastInclude d l = d := by
    intro d l
    induction l generalizing d with
    | nil => intro _; rfl
    | cons op l ih =>
      intro hl
      cases op with
      | includeReflectionService b => exact absurd List.mem_cons_self (hl b)
      | register r => exact ih d (fun b hb => hl b (List.mem_cons_of_mem _ hb))
      | withServiceName n => exact ih d (fun b hb => hl b (List.mem_cons_of_mem _ hb))
  have happ : ∀ (d : Bool) (l : List BuilderOp),
      lastInclude d (l ++ [.includeReflectionService true]) = true := by
    intro d l
    induction l generalizing d with
    | nil => rfl
    | cons op l ih => cases op <;> simp [lastInclude, ih]
  have hregs : ∀ l : List BuilderOp, regsOfOps (l ++ [.includeReflectionService true]) = regsOfOps l := by
    intro l; induction l with
    | nil => rfl
    | cons op l ih => cases op <;> simp [regsOfOps, ih]
  have hnames : ∀ l : List BuilderOp, namesOfOps (l ++ [.includeReflectionService true]) = namesOfOps l := by
    intro l; induction l with
    | nil => rfl
    | cons op l ih => cases op <;> simp [namesOfOps, ih]
  rw [C19_builder_program, C19_builder_program, hregs, hnames, happ, hl true ops h]

/-! ### Non-vacuity -/

section Examples

private def b (cs : List Char) : Name := cs.map (fun c => UInt8.ofNat c.toNat)

/-- `a.proto`: `package pk; message Ou { message In { enum E { V = 0; } string f = 1; } oneof o {} }
    enum To { T = 0; } service Sv { rpc Get(..) }` -/
private def exFile : File :=
  { name := some (b ['a', '.', 'p']), package := some (b ['p', 'k']), extra := 0
    messages := .cons (.mk (some (b ['O', 'u']))
        (.cons (.mk (some (b ['I', 'n'])) .nil [{ name := some (b ['E']), values := [some (b ['V'])] }]
          [some (b ['f'])] []) .nil)
        [] [] [some (b ['o'])]) .nil
    enums := [{ name := some (b ['T', 'o']), values := [some (b ['T'])] }]
    services := [{ name := some (b ['S', 'v']), methods := [some (b ['G', 'e', 't'])] }] }

/-- same file name, different content -/
private def exFile' : File := { exFile with package := some (b ['o', 't']) }

/-- another file: `z.p`, package `zz`, one message -/
private def exFile'' : File :=
  { name := some (b ['z', '.', 'p']), package := some (b ['z', 'z']), extra := 0
    messages := .cons (.mk (some (b ['Q'])) .nil [] [] []) .nil, enums := [], services := [] }

private def exCfg : Config :=
  { regs := [.encoded (some [exFile]), .decoded [exFile', exFile']], chosen := none, own := none }

-- a builder program: names before registrations, include toggled off and on again
private def exOps : List BuilderOp :=
  [.withServiceName (b ['p', 'k', '.', 'S', 'v']), .includeReflectionService false,
   .register (.encoded (some [exFile])), .includeReflectionService true, .register (.decoded [exFile''])]
private def exOps' : List BuilderOp :=
  [.register (.encoded (some [exFile])), .register (.decoded [exFile'']),
   .withServiceName (b ['p', 'k', '.', 'S', 'v'])]
example : regsOfOps exOps = regsOfOps exOps' ∧ namesOfOps exOps = namesOfOps exOps'
    ∧ lastInclude true exOps = lastInclude true exOps' := ⟨rfl, rfl, rfl⟩
example : isOk (build ((Builder.run exOps).config [exFile'])) = true := by decide
example : ∀ x, BuilderOp.includeReflectionService x ∉ exOps' := by
  intro x h; simp [exOps'] at h

-- the hypotheses of the theorems are satisfiable by a non-trivial configuration
example : exCfg.decodable = true ∧ (∀ f ∈ exCfg.files, File.wellNamed f = true) := by decide
example : isOk (build exCfg) = true := by decide
-- a depth-2 enum value is declared (tonic's `Enum.VALUE` naming) …
example : Declares exFile (b ['p', 'k', '.', 'O', 'u', '.', 'I', 'n', '.', 'E', '.', 'V']) :=
  declares_iff.mp (by decide)
-- … and the sibling-scoped spelling is not
example : ¬ Declares exFile (b ['p', 'k', '.', 'O', 'u', '.', 'I', 'n', '.', 'V']) := fun h => by
  have := declares_iff.mpr h; revert this; decide
-- the decoded registration is examined first, so the *later registered* `exFile'` wins the name
example : (match build exCfg with
    | .ok st => decide (assoc (b ['a', '.', 'p']) st.files = some exFile')
    | .error _ => false) = true := by decide
-- `exFile` is contested, `exFile'` (registered twice, identically) is too; an uncontested file:
example : Unconflicted [exFile, exFile] exFile := by decide
-- … and the hypotheses `Unconflicted c.files f` (`C19_symbol_complete`) resp. `∀ f ∈ c.files, …`
-- (`C19_services_exactly_declared`) on a BUILT configuration: an identical duplicate registration,
-- an encoded set and an own descriptor; every registered file is uncontested, a field name is declared
private def exCfgU : Config :=
  { regs := [.decoded [exFile, exFile], .encoded (some [exFile''])], chosen := none,
    own := some [{ exFile'' with name := some (b ['r', '1']), package := some (b ['r', '1']) }] }
example : isOk (build exCfgU) = true ∧ (∀ f ∈ exCfgU.files, Unconflicted exCfgU.files f)
    ∧ declares exFile (b ['p', 'k', '.', 'O', 'u', '.', 'I', 'n', '.', 'f']) = true := by decide
-- a skeleton descriptor of depth 2: the hypotheses of `C19_answer_bytes_decode` hold
example : exFile.extra = 0 ∧ Spec.ReflWire.MsgList.depth exFile.messages ≤ 100 := by decide
example : ¬ Unconflicted exCfg.files exFile := by decide

-- hypotheses of `C19_versions_agree_every_request` / `_streams`: two different own descriptor
-- sets (`exFile`, `exFile'` in that role), a registered file, both services build; a symbol that
-- neither own set declares and a file name neither has are `OutsideOwn`, and so is every
-- extension request
private def exCfgOwn (o : File) : Config := { regs := [.decoded [exFile'']], chosen := none, own := some [o] }
example : isOk (build (exCfgOwn exFile)) = true ∧ isOk (build (exCfgOwn exFile')) = true := by decide
-- the versions-agree family also covers configurations with an ill-named file shadowed by an
-- earlier file of the same name (both versions build; the former side condition excluded them)
example : isOk (build { shadowCfg with own := some [exFile''] }) = true ∧
    isOk (build { shadowCfg with own := some [exFile] }) = true ∧
    ¬ (∀ f ∈ ({ shadowCfg with own := none } : Config).files, File.wellNamed f = true) := by decide
example : OutsideOwn none [exFile] [exFile'] (.fileContainingSymbol (b ['z', 'z', '.', 'Q'])) :=
  ⟨fun g hg hd => by
      have : g = exFile := by simpa using hg
      subst this; have := declares_iff.mpr hd; revert this; decide,
   fun g hg hd => by
      have : g = exFile' := by simpa using hg
      subst this; have := declares_iff.mpr hd; revert this; decide⟩
example : OutsideOwn none [exFile] [exFile'] (.fileByFilename (b ['z', '.', 'p'])) := by
  constructor <;> intro g hg <;> simp at hg <;> subst hg <;> decide
example : OutsideOwn none [exFile] [exFile'] (.fileContainingExtension (b ['x']) 3) := trivial

end Examples

end C19
