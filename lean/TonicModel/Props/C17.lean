import TonicModel.Model.WebClient
import TonicModel.Spec.GrpcWeb
import TonicModel.Lemmas.GrpcWeb
import TonicModel.Lemmas.WebServer
import TonicModel.Lemmas.WebClient
/-
C17 — grpc-web client layer recovers messages and full trailers under any chunking.
Property theorems only; helper lemmas live in `Lemmas/WebClient` (and `Lemmas/GrpcWeb`).

`WebClient.Fixed` is the client decode loop of tonic-web with fixes/fix-C17-1..4 applied (that
is what the correspondence run drives); `WebClient.AsIs` is the loop at the pinned commit, kept
for the `_fails` witnesses of DESIGN §5.8.  A body is the list of events its `poll_frame`
produces; `observe` is the list of frames the caller gets until the first `None` / error.
-/
namespace C17
open WebClient WebClientLemmas
open WebServer (BodyEv Out flat notPending)
open Spec.GrpcWeb (WellFramed framesBytes trailersFrame trailersBlock lowerNameOk plainValueOk Item)
open TMap (Pair str)

/-- **Lossless, full statement.**  For every list of message frames, every trailer list —
values may contain colons and spaces, names may repeat — written by the server in either
customary style (`name:value` or `name: value`), every way of cutting the encoded body into
chunks (inside a frame header, inside the trailers frame, message and trailers in one chunk,
empty chunks) and every interleaving of `Pending`s: the caller receives data frames whose
concatenation is exactly the message frames, then ONE trailers frame with every name and its
full value in the original order, then the end. -/
theorem C17_lossless (sp : Bool) (frames : List (Bool × Bytes)) (trailers : List Pair)
    (chunks : List Bytes) (evs : List BodyEv)
    (hsched : evs.filter notPending = chunks.map BodyEv.data)
    (hbody : chunks.flatten = framesBytes frames ++ trailersFrame sp trailers)
    (hframes : ∀ f ∈ frames, f.2.length < 4294967296)
    (htr : ∀ p ∈ trailers, lowerNameOk p.1 = true ∧ plainValueOk p.2 = true)
    (hlen : (trailersBlock sp trailers).length < 4294967296) :
    ∃ datas : List Bytes,
      Fixed.observe evs = datas.map Out.data ++ [Out.trailers trailers, Out.eos] ∧
      datas.flatten = framesBytes frames := by
  unfold Fixed.observe
  rw [run_filter, hsched]
  exact run_valid sp trailers trailers (decode_trailersFrame sp trailers htr) hlen chunks frames []
    hframes (by simpa using hbody)

/-- `C17_lossless` for servers that write trailer names in any case (`Grpc-Status: 0`): the
names arrive in lower case (field names are case-insensitive), everything else as above. -/
theorem C17_lossless_any_case (sp : Bool) (frames : List (Bool × Bytes)) (trailers : List Pair)
    (chunks : List Bytes) (evs : List BodyEv)
    (hsched : evs.filter notPending = chunks.map BodyEv.data)
    (hbody : chunks.flatten = framesBytes frames ++ trailersFrame sp trailers)
    (hframes : ∀ f ∈ frames, f.2.length < 4294967296)
    (htr : ∀ p ∈ trailers, Spec.GrpcWeb.anyCaseNameOk p.1 = true ∧ plainValueOk p.2 = true)
    (hlen : (trailersBlock sp trailers).length < 4294967296) :
    ∃ datas : List Bytes,
      Fixed.observe evs = datas.map Out.data ++
        [Out.trailers (trailers.map (fun p => (Spec.GrpcWeb.lowerName p.1, p.2))), Out.eos] ∧
      datas.flatten = framesBytes frames := by
  unfold Fixed.observe
  rw [run_filter, hsched]
  exact run_valid sp trailers _ (decode_trailersFrame_any sp trailers htr) hlen chunks frames []
    hframes (by simpa using hbody)

/-- The input domain of `C17_lossless` is what the independent grpc-web reader reads as
"these message frames, then exactly one trailers frame with these entries" (shown for the
style tonic's own server writes). -/
theorem C17_domain_is_readers (frames : List (Bool × Bytes)) (trailers : List Pair)
    (hframes : ∀ f ∈ frames, f.2.length < 4294967296)
    (htr : ∀ p ∈ trailers, lowerNameOk p.1 = true ∧ plainValueOk p.2 = true)
    (hlen : (trailersBlock false trailers).length < 4294967296) :
    Spec.GrpcWeb.read false (framesBytes frames ++ trailersFrame false trailers) =
      some (frames.map (fun f => Item.msg f.1 f.2) ++ [Item.trailers trailers]) := by
  have hok : ∀ p ∈ trailers, Spec.GrpcWeb.nameOk p.1 ∧ Spec.GrpcWeb.valueOk p.2 := by
    intro p hp
    have h := htr p hp
    have hv := h.2
    simp only [plainValueOk, Bool.and_eq_true] at hv
    exact ⟨name_no_sep p.1 h.1, value_no_cr p.2 hv.1⟩
  have hblk : Spec.GrpcWeb.parseBlock (trailersBlock false trailers) = some trailers := by
    have := GrpcWebLemmas.parseBlock_lines trailers hok
    have hfun : Spec.GrpcWeb.lineOfSp false = Spec.GrpcWeb.lineOf := by
      funext p; simp [Spec.GrpcWeb.lineOfSp, Spec.GrpcWeb.lineOf]
    have e : trailersBlock false trailers = trailers.flatMap Spec.GrpcWeb.lineOf := by
      simp [trailersBlock, hfun]
    rw [e]; exact this
  have hl5 := GrpcWebLemmas.framesBytes_length frames
  simp only [Spec.GrpcWeb.read, Bool.false_eq_true, if_false, Spec.GrpcWeb.parseItems]
  have hfuel : (framesBytes frames ++ trailersFrame false trailers).length + 1 =
      frames.length + ((framesBytes frames ++ trailersFrame false trailers).length + 1
        - frames.length - 2 + 2) := by
    simp only [List.length_append, trailersFrame, rawFrame_length]
    omega
  rw [hfuel, GrpcWebLemmas.parseItemsAux_frames _ hframes]
  simp only [trailersFrame, Spec.GrpcWeb.rawFrame]
  rw [GrpcWebLemmas.parseItemsAux_trailers _ _ _ hblk hlen]
  simp

/-- **Cut-off or malformed bodies end in an error, full statement.**  For every body — any
events, any chunking — whose data bytes are NOT a sequence of complete frames with known
flags (that is: the body stops inside a frame header or inside a payload, at any byte, or
carries an unknown frame type), the caller's stream ends with an error: never a clean end. -/
theorem C17_truncation_is_error (evs : List BodyEv) (h : ¬ WellFramed (flat evs)) :
    (Fixed.observe evs).getLast? = some Out.err := by
  unfold Fixed.observe
  exact run_not_wf evs {} (by simpa using h)

/-- **Truncation at every byte.**  Take any sequence of complete frames (messages, trailers)
and cut its wire form after `k` bytes, where `k` is not a frame boundary (`hk`: the prefix is
not the wire form of the first `j` frames, for any `j`) — i.e. strictly inside a frame header
or payload.  However the truncated body is chunked, the caller's stream ends with an error. -/
theorem C17_truncated_body_is_error (items : List (UInt8 × Bytes))
    (hitems : ∀ i ∈ items, Spec.GrpcWeb.flagOk i.1 ∧ i.2.length < 4294967296) (k : Nat)
    (hk : ∀ j, (Spec.GrpcWeb.encItems items).take k ≠ Spec.GrpcWeb.encItems (items.take j))
    (evs : List BodyEv) (hflat : flat evs = (Spec.GrpcWeb.encItems items).take k) :
    (Fixed.observe evs).getLast? = some Out.err := by
  apply C17_truncation_is_error
  rw [hflat]
  intro hw
  obtain ⟨j, hj⟩ := wf_prefix_boundary items hitems _ ((Spec.GrpcWeb.encItems items).drop k)
    (List.take_append_drop _ _) hw
  exact hk j hj

/-- **Totality / no busy loop.**  Every run of the repaired loop — any events, also hostile
ones — is a finite list of data/trailers frames followed by exactly one terminal frame
(`None` or an error).  (Termination of the loop itself is Lean's termination check of
`Fixed.run`/`Fixed.drain`: the recursion consumes one inner event per pass and, once the inner
body has ended, buffered bytes; the inner body is not polled after it has ended.) -/
theorem C17_total (evs : List BodyEv) :
    ∃ (os : List Out) (t : Out), Fixed.observe evs = os ++ [t] ∧
      (t = Out.eos ∨ t = Out.err) ∧ ∀ o ∈ os, o ≠ Out.eos ∧ o ≠ Out.err := by
  obtain ⟨os, t, h1, h2, h3⟩ := run_endsOnce evs {}
  refine ⟨os, t, h1, ?_, ?_⟩
  · cases t <;> simp [isTerminal] at h2 ⊢
  · intro o ho
    have := h3 o ho
    cases o <;> simp [isTerminal] at this ⊢

/-- **A clean end is always faithful** (any body, any events, any chunking — also outside
the domain of `C17_lossless`: no trailers frame, several of them, messages after it): if the
caller's stream ends cleanly, then the body's data bytes were a sequence of complete frames
and the data frames the caller received are, concatenated, exactly the message frames among
them — none dropped, duplicated, reordered or altered. -/
theorem C17_clean_end_is_faithful (evs : List BodyEv)
    (h : (Fixed.observe evs).getLast? = some Out.eos) :
    ∃ items : List (UInt8 × Bytes),
      (∀ i ∈ items, Spec.GrpcWeb.flagOk i.1 ∧ i.2.length < 4294967296) ∧
      flat evs = Spec.GrpcWeb.encItems items ∧
      WebServer.dataOf (Fixed.observe evs) =
        Spec.GrpcWeb.encItems (items.filter (fun i => i.1 != 128)) := by
  obtain ⟨its, hv, hd, hdata⟩ := run_clean evs {} h
  exact ⟨its, hv, by simpa using hd, hdata⟩

/-- A message-only body (no trailers frame) ends cleanly only if it is a sequence of complete
frames: contrapositive of `C17_truncation_is_error`, the form used by the check's verdict. -/
theorem C17_clean_end_implies_well_framed (evs : List BodyEv)
    (h : (Fixed.observe evs).getLast? = some Out.eos) : WellFramed (flat evs) := by
  by_cases hw : WellFramed (flat evs)
  · exact hw
  · have := C17_truncation_is_error evs hw
    rw [this] at h
    cases h

/-- Request wrapping (`GrpcWebClientService::call` → `client_request`): the gRPC request
bytes reach the inner HTTP service chunk for chunk. -/
theorem C17_request_passthrough (chunks : List Bytes) (evs : List BodyEv)
    (hsched : evs.filter notPending = chunks.map BodyEv.data) :
    WebServer.respRun WebServer.Enc.none evs = chunks.map Out.data ++ [Out.eos] := by
  rw [WebServerLemmas.respRun_filter, hsched]
  have := WebServerLemmas.respRun_data WebServer.Enc.none chunks []
  simpa [WebServer.respRun, WebServer.wrap] using this

/-! ### the code at the pinned commit violates all three targets (DESIGN §5.8) -/

private def msg : Bytes := [0, 0, 0, 0, 2, 9, 9]
private def tf0 : Bytes := 128 :: u32be 15 ++ str "grpc-status:0\r\n"

/-- (a) message and trailers frame in one chunk: the data arrives, then a clean end — the
trailers (the server's status) never surface. -/
theorem C17_lossless_fails_same_chunk :
    AsIs.observe 1000 [.data (msg ++ tf0)] = ([.data msg, .eos], false, 0) := by
  decide +kernel

/-- (b) trailers frame split across chunks inside its block: an empty trailers frame, then
an "Invalid header bit" error. -/
theorem C17_lossless_fails_split_trailers :
    AsIs.observe 1000 [.data (tf0.take 9), .data (tf0.drop 9)] = ([.trailers [], .err], false, 0) := by
  decide +kernel

/-- (b') … split inside its 5-byte header: clean end, trailers lost. -/
theorem C17_lossless_fails_split_trailers_header :
    AsIs.observe 1000 [.data msg, .data (tf0.take 3), .data (tf0.drop 3)] =
      ([.data msg, .eos], false, 0) := by
  decide +kernel

/-- (c) a value containing a colon is cut at the colon; a repeated name keeps only the last
value. -/
theorem C17_lossless_fails_colon_value :
    AsIs.observe 1000 [.data (128 :: u32be 18 ++ str "grpc-message:a:b\r\n")] =
      ([.trailers [(str "grpc-message", str "a")], .eos], false, 0) := by
  decide +kernel

theorem C17_lossless_fails_repeated_name :
    AsIs.observe 1000 [.data (128 :: u32be 10 ++ str "x:1\r\nx:2\r\n")] =
      ([.trailers [(str "x", str "2")], .eos], false, 0) := by
  decide +kernel

/-- (d) a body cut inside a frame header ends cleanly — even when the rest is still to come. -/
theorem C17_truncation_fails_header :
    AsIs.observe 1000 [.data [0, 0, 0]] = ([.eos], false, 0) ∧
    AsIs.observe 1000 [.data [0, 0], .data ([0, 0, 2, 9, 9] ++ tf0)] = ([.eos], false, 0) := by
  decide +kernel

/-- (e) a body cut inside a payload: the loop never returns; the ended inner body is polled
again and again (the harness body gives up after 1000 polls past its end). -/
theorem C17_total_fails_busy_loop :
    AsIs.observe 1000 [.data [0, 0, 0, 0, 2, 9]] = ([], true, 1001) := by
  decide +kernel

/-- … and the repaired loop on the same witnesses. -/
theorem C17_witnesses_repaired :
    Fixed.observe [.data (msg ++ tf0)] = [.data msg, .trailers [(str "grpc-status", str "0")], .eos] ∧
    Fixed.observe [.data msg, .data (tf0.take 3), .data (tf0.drop 3)] =
      [.data msg, .trailers [(str "grpc-status", str "0")], .eos] ∧
    Fixed.observe [.data (128 :: u32be 18 ++ str "grpc-message:a:b\r\n")] =
      [.trailers [(str "grpc-message", str "a:b")], .eos] ∧
    Fixed.observe [.data (128 :: u32be 10 ++ str "x:1\r\nx:2\r\n")] =
      [.trailers [(str "x", str "1"), (str "x", str "2")], .eos] ∧
    Fixed.observe [.data [0, 0, 0]] = [.err] ∧
    Fixed.observe [.data [0, 0, 0, 0, 2, 9]] = [.err] := by
  decide +kernel

/-! Non-vacuity: hypotheses are satisfiable by non-trivial values. -/

example :
    let frames : List (Bool × Bytes) := [(false, [9, 9]), (true, [])]
    let trailers : List Pair := [(str "grpc-status", str "0"), (str "grpc-message", str "a: b:c"),
      (str "x", str "1"), (str "x", str "2")]
    let body := framesBytes frames ++ trailersFrame true trailers
    let chunks : List Bytes := [body.take 3, body.drop 3 |>.take 11, [], (body.drop 14)]
    chunks.flatten = body ∧
    (∀ p ∈ trailers, lowerNameOk p.1 = true ∧ plainValueOk p.2 = true) ∧
    Fixed.observe [.data (body.take 3), .pending, .data ((body.drop 3).take 11), .data [], .data (body.drop 14)] =
      [.data [0, 0, 0, 0, 2, 9, 9, 1, 0, 0, 0, 0], .trailers trailers, .eos] := by
  decide +kernel

example : ¬ WellFramed [0, 0, 0] := by decide
example : ¬ WellFramed [0, 0, 0, 0, 2, 9] := by decide
example : ¬ WellFramed [7, 0, 0, 0, 0] := by decide
example : WellFramed ([0, 0, 0, 0, 2, 9, 9] ++ [128, 0, 0, 0, 0]) := by decide

end C17
