import TonicModel.Model.WebClient
import TonicModel.Spec.GrpcWeb
import TonicModel.Lemmas.GrpcWeb
import TonicModel.Lemmas.WebServer
import TonicModel.Lemmas.WebClient
import TonicModel.Lemmas.WebClientBlock
import TonicModel.Lemmas.WebCaller
import TonicModel.Lemmas.WebClientHead
import TonicModel.Lemmas.WebClientHints
import TonicModel.Lemmas.WebClientFuel
import TonicModel.Lemmas.WebClientHintsGen
import TonicModel.Props.C04
/-
C17 — grpc-web client layer recovers messages and full trailers under any chunking.
Property theorems only; helper lemmas live in `Lemmas/WebClient` (and `Lemmas/GrpcWeb`).

`WebClient.Fixed` is the client decode loop of tonic-web with the five `fix:` commits applied
(known_findings.json "fixed: property=C17"; that is what the correspondence run drives);
`WebClient.AsIs` is the loop at the pinned commit, kept for the `_fails` witnesses of DESIGN
§5.8.  `WebCaller` composes the loop with tonic's status codec (`Model/Status`): what the caller
of `client::Grpc` sees.  A body is the list of events its `poll_frame`
produces; `observe` is the list of frames the caller gets until the first `None` / error.
-/
namespace C17
open WebClient WebClientLemmas
open WebServer (BodyEv Out flat notPending)
open Spec.GrpcWeb (WellFramed framesBytes trailersFrame trailersBlock lowerNameOk plainValueOk Item)
open TMap (Pair str)

/-- **Lossless, full statement.**  For every list of message frames, every trailer list —
values may contain colons and spaces, names may repeat — written by the server in either
customary style (`name:value` or `name: value`), every way of cutting the encoded body into
chunks (inside a frame header, inside the trailers frame, message and trailers in one chunk,
empty chunks) and every interleaving of `Pending`s: the caller receives data frames whose
concatenation is exactly the message frames, then ONE trailers frame with every name and its
full value in the original order, then the end. -/
theorem C17_lossless (sp : Bool) (frames : List (Bool × Bytes)) (trailers : List Pair)
    (chunks : List Bytes) (evs : List BodyEv)
    (hsched : evs.filter notPending = chunks.map BodyEv.data)
    (hbody : chunks.flatten = framesBytes frames ++ trailersFrame sp trailers)
    (hframes : ∀ f ∈ frames, f.2.length < 4294967296)
    (htr : ∀ p ∈ trailers, lowerNameOk p.1 = true ∧ plainValueOk p.2 = true)
    (hlen : (trailersBlock sp trailers).length < 4294967296) :
    ∃ datas : List Bytes,
      Fixed.observe evs = datas.map Out.data ++ [Out.trailers trailers, Out.eos] ∧
      datas.flatten = framesBytes frames := by
  unfold Fixed.observe
  rw [run_filter, hsched]
  exact run_valid (trailersBlock sp trailers) trailers (decode_trailersFrame sp trailers htr) hlen
    chunks frames [] hframes (by simpa [trailersFrame] using hbody)

/-- `C17_lossless` for servers that write trailer names in any case (`Grpc-Status: 0`): the
names arrive in lower case (field names are case-insensitive), everything else as above. -/
theorem C17_lossless_any_case (sp : Bool) (frames : List (Bool × Bytes)) (trailers : List Pair)
    (chunks : List Bytes) (evs : List BodyEv)
    (hsched : evs.filter notPending = chunks.map BodyEv.data)
    (hbody : chunks.flatten = framesBytes frames ++ trailersFrame sp trailers)
    (hframes : ∀ f ∈ frames, f.2.length < 4294967296)
    (htr : ∀ p ∈ trailers, Spec.GrpcWeb.anyCaseNameOk p.1 = true ∧ plainValueOk p.2 = true)
    (hlen : (trailersBlock sp trailers).length < 4294967296) :
    ∃ datas : List Bytes,
      Fixed.observe evs = datas.map Out.data ++
        [Out.trailers (trailers.map (fun p => (Spec.GrpcWeb.lowerName p.1, p.2))), Out.eos] ∧
      datas.flatten = framesBytes frames := by
  unfold Fixed.observe
  rw [run_filter, hsched]
  exact run_valid (trailersBlock sp trailers) _ (decode_trailersFrame_any sp trailers htr) hlen
    chunks frames [] hframes (by simpa [trailersFrame] using hbody)

/-- **The caller sees the server's real status.**  Under the hypotheses of `C17_lossless` (any
message frames, any trailers the server wrote — status, message, details, custom metadata, in
any order, names repeated —, either style, any chunking, any `Pending`s): the trailers map the
layer hands to tonic's `Streaming` is the server's, so the status tonic reads from it
(`Status::from_header_map`, percent-decoding, base64 details, code table: `Model/Status`) is the
status read from the server's trailers, and the call ends for the caller exactly as
`infer_grpc_status(server's trailers, 200)` says — with that status if it is a failing one,
cleanly with the trailers retrievable otherwise. -/
theorem C17_caller_sees_status (sp : Bool) (frames : List (Bool × Bytes)) (trailers : List Pair)
    (chunks : List Bytes) (evs : List BodyEv)
    (hsched : evs.filter notPending = chunks.map BodyEv.data)
    (hbody : chunks.flatten = framesBytes frames ++ trailersFrame sp trailers)
    (hframes : ∀ f ∈ frames, f.2.length < 4294967296)
    (htr : ∀ p ∈ trailers, lowerNameOk p.1 = true ∧ plainValueOk p.2 = true)
    (hlen : (trailersBlock sp trailers).length < 4294967296) :
    ∃ t, WebCaller.trailersOf (Fixed.observe evs) = some t ∧
      Status.fromHeaderMap .fixed t = Status.fromHeaderMap .fixed trailers ∧
      WebCaller.endOf (Fixed.observe evs) =
        (match Status.inferGrpcStatus .fixed (some trailers) 200 with
         | .done => WebCaller.End.ok (some trailers)
         | .noStatus => WebCaller.End.ok (some trailers)
         | .err st => WebCaller.End.status st
         | .panic => WebCaller.End.panic) := by
  obtain ⟨datas, hobs, _⟩ :=
    C17_lossless sp frames trailers chunks evs hsched hbody hframes htr hlen
  obtain ⟨_, h2, h3⟩ := WebCallerLemmas.view_of_clean datas trailers
  refine ⟨trailers, by rw [hobs, h2], rfl, ?_⟩
  have hne : ((List.map Out.data datas ++ [Out.trailers trailers, Out.eos]).getLast? == some Out.err) = false := by
    rw [h3]; rfl
  simp only [WebCaller.endOf, hobs, hne, Bool.false_eq_true, if_false, h2]
  cases Status.inferGrpcStatus .fixed (some trailers) 200 <;> rfl


/-- **… and that status is the INDEPENDENT oracle's reading of the server's trailers.**
`C17_caller_sees_status` compares two applications of the model's own status reader; composed with
`C04_read_is_spec` the caller's status is what `Spec.Status.read` — the oracle written from the gRPC
documents, sharing only the byte-level decoders with the model — reads from the trailers the server
wrote: the code the spec's table gives, the percent-decoded message, the base64-decoded details; an
error status (UNKNOWN) when one of them is undecodable; no status iff the server wrote no
`grpc-status`. -/
theorem C17_caller_status_is_the_spec_reading (sp : Bool) (frames : List (Bool × Bytes)) (trailers : List Pair)
    (chunks : List Bytes) (evs : List BodyEv)
    (hsched : evs.filter notPending = chunks.map BodyEv.data)
    (hbody : chunks.flatten = framesBytes frames ++ trailersFrame sp trailers)
    (hframes : ∀ f ∈ frames, f.2.length < 4294967296)
    (htr : ∀ p ∈ trailers, lowerNameOk p.1 = true ∧ plainValueOk p.2 = true)
    (hlen : (trailersBlock sp trailers).length < 4294967296) :
    ∃ t, WebCaller.trailersOf (Fixed.observe evs) = some t ∧
      match Spec.Status.read trailers, Status.fromHeaderMap .fixed t with
      | none, none => True
      | some r, some (.status st) =>
          (∀ m d, r.message = some m → r.details = some d →
            st.code.num = r.code ∧ st.message = m ∧ st.details = d) ∧
          ((r.message = none ∨ r.details = none) → st.code = .unknown)
      | _, _ => False := by
  obtain ⟨t, h1, h2, _⟩ := C17_caller_sees_status sp frames trailers chunks evs hsched hbody hframes htr hlen
  refine ⟨t, h1, ?_⟩
  rw [h2]
  have := C04.C04_read_is_spec trailers
  revert this
  cases Spec.Status.read trailers with
  | none =>
    cases Status.fromHeaderMap .fixed trailers with
    | none => intro _; trivial
    | some o => intro h; exact h.elim
  | some r =>
    cases Status.fromHeaderMap .fixed trailers with
    | none => intro h; exact h.elim
    | some o =>
      cases o with
      | status st => intro h; exact ⟨h.2.1, h.2.2⟩
      | panic => intro h; exact h.elim

/-- … and the messages the caller's `Streaming` cuts out of the delivered data are the
payloads the server framed (uncompressed frames, as a client without `grpc-encoding` gets). -/
theorem C17_caller_sees_messages (sp : Bool) (frames : List (Bool × Bytes)) (trailers : List Pair)
    (chunks : List Bytes) (evs : List BodyEv)
    (hsched : evs.filter notPending = chunks.map BodyEv.data)
    (hbody : chunks.flatten = framesBytes frames ++ trailersFrame sp trailers)
    (hframes : ∀ f ∈ frames, f.1 = false ∧ f.2.length < 4294967296)
    (htr : ∀ p ∈ trailers, lowerNameOk p.1 = true ∧ plainValueOk p.2 = true)
    (hlen : (trailersBlock sp trailers).length < 4294967296) :
    (WebCaller.streaming (Fixed.observe evs)).msgs = frames.map (·.2) := by
  obtain ⟨datas, hobs, hflat⟩ :=
    C17_lossless sp frames trailers chunks evs hsched hbody (fun f hf => (hframes f hf).2) htr hlen
  obtain ⟨h1, _, _⟩ := WebCallerLemmas.view_of_clean datas trailers
  simp only [WebCaller.streaming, hobs, h1, hflat]
  exact WebCallerLemmas.messages_frames frames hframes

/-- **Through both layers.**  The inner gRPC service of a tonic-web SERVER ends its response
with the trailers map `h` (built by appending, names may repeat); the server layer writes its
binary-mode body (`WebServer.respRun`, C16); that body reaches a tonic-web CLIENT cut into
chunks in any way.  Then the client layer hands out the message frames and one trailers map
that has, under every name, exactly the values of `h` in their order — so the status tonic reads
on the client (`Status::from_header_map`) has the code, message and details the service set,
and the same further metadata name by name. -/
theorem C17_status_through_both_layers (frames : List (Bool × Bytes)) (h : List Pair)
    (chunks : List Bytes) (evs : List BodyEv) (cchunks : List Bytes) (cevs : List BodyEv)
    (hsched : evs.filter notPending = chunks.map BodyEv.data ++ [BodyEv.trailers h])
    (hchunks : chunks.flatten = framesBytes frames)
    (hcsched : cevs.filter notPending = cchunks.map BodyEv.data)
    (hwire : cchunks.flatten = WebServer.dataOf (WebServer.respRun WebServer.Enc.none evs))
    (hframes : ∀ f ∈ frames, f.2.length < 4294967296)
    (htr : ∀ p ∈ h, lowerNameOk p.1 = true ∧ plainValueOk p.2 = true)
    (hlen : (WebServer.encodeTrailers h).length < 4294967296) :
    ∃ (datas : List Bytes) (t : List Pair),
      Fixed.observe cevs = datas.map Out.data ++ [Out.trailers t, Out.eos] ∧
      datas.flatten = framesBytes frames ∧
      (∀ k, TMap.getAll k t = TMap.getAll k h) ∧
      WebCallerLemmas.SameStatus (Status.fromHeaderMap .fixed t) (Status.fromHeaderMap .fixed h) := by
  -- what the server layer wrote
  have hblock : trailersBlock false (TMap.group h) = WebServer.encodeTrailers h := by
    simp only [WebServer.encodeTrailers, trailersBlock]
    congr 1
  have hframe : WebServer.makeTrailersFrame h = trailersFrame false (TMap.group h) := by
    simp only [WebServer.makeTrailersFrame, trailersFrame, Spec.GrpcWeb.rawFrame, hblock]
  have hserver : WebServer.dataOf (WebServer.respRun WebServer.Enc.none evs) =
      framesBytes frames ++ trailersFrame false (TMap.group h) := by
    rw [WebServerLemmas.respRun_filter, hsched, WebServerLemmas.respRun_data]
    have : (fun c => Out.data (WebServer.wrap WebServer.Enc.none c)) = Out.data := by
      funext c; rfl
    rw [this, WebCallerLemmas.dataOf_datas, hchunks]
    simp [WebServer.respRun, WebServer.dataOf, WebServer.wrap, hframe]
  have htr' : ∀ p ∈ TMap.group h, lowerNameOk p.1 = true ∧ plainValueOk p.2 = true :=
    fun p hp => htr p ((TMap.group_mem p h).1 hp)
  obtain ⟨datas, hobs, hflat⟩ := C17_lossless false frames (TMap.group h) cchunks cevs hcsched
    (by rw [hwire, hserver]) hframes htr' (by rw [hblock]; exact hlen)
  refine ⟨datas, TMap.group h, hobs, hflat, fun k => TMap.getAll_group k h, ?_⟩
  apply WebCallerLemmas.fromHeaderMap_ext
  intro k
  rw [WebCallerLemmas.hmap_getAll_eq_tmap, WebCallerLemmas.hmap_getAll_eq_tmap, TMap.getAll_group]

/-- **Malformed trailer blocks: an error, or nothing dropped.**  The body is any message frames
followed by a trailers frame whose block is ARBITRARY bytes (lines without a colon, bytes no
field may carry, a last line without CRLF, bare CRs, …), cut into chunks in any way.  Then the
caller's stream either ends in an error, or it hands out the message frames and ONE trailers map
that lists every line of the block — CRLF-separated, the last one possibly unterminated — with
its name (lower case) and its full value (only the one optional space after the colon removed):
never a clean end that hides a line (a status line in particular) that was present. -/
theorem C17_malformed_block_error_or_complete (frames : List (Bool × Bytes)) (blk : Bytes)
    (chunks : List Bytes) (evs : List BodyEv)
    (hsched : evs.filter notPending = chunks.map BodyEv.data)
    (hbody : chunks.flatten = framesBytes frames ++ Spec.GrpcWeb.rawFrame 128 blk)
    (hframes : ∀ f ∈ frames, f.2.length < 4294967296)
    (hlen : blk.length < 4294967296) :
    (Fixed.observe evs).getLast? = some Out.err ∨
    ∃ (datas : List Bytes) (raw : List Pair),
      Fixed.observe evs =
        datas.map Out.data ++ [Out.trailers (Spec.GrpcWeb.exactPairs raw), Out.eos] ∧
      datas.flatten = framesBytes frames ∧
      Spec.GrpcWeb.readBlockLoose blk = some raw := by
  unfold Fixed.observe
  rw [run_filter, hsched]
  cases hdec : decodeTrailersFrame true (Spec.GrpcWeb.rawFrame 128 blk) with
  | none =>
    exact Or.inl (run_bad_block blk hdec hlen chunks frames [] hframes (by simpa using hbody))
  | some r =>
    cases r with
    | none => exact absurd hdec (decode_rawFrame_ne_none blk)
    | some t =>
      obtain ⟨raw, hraw, ht⟩ := decode_lists_every_line blk t hdec
      obtain ⟨datas, hrun, hflat⟩ :=
        run_valid blk t hdec hlen chunks frames [] hframes (by simpa using hbody)
      exact Or.inr ⟨datas, raw, by rw [hrun, ht], hflat, hraw⟩

/-- The input domain of `C17_lossless` is what the independent grpc-web reader reads as
"these message frames, then exactly one trailers frame with these entries" (shown for the
style tonic's own server writes). -/
theorem C17_domain_is_readers (frames : List (Bool × Bytes)) (trailers : List Pair)
    (hframes : ∀ f ∈ frames, f.2.length < 4294967296)
    (htr : ∀ p ∈ trailers, lowerNameOk p.1 = true ∧ plainValueOk p.2 = true)
    (hlen : (trailersBlock false trailers).length < 4294967296) :
    Spec.GrpcWeb.read false (framesBytes frames ++ trailersFrame false trailers) =
      some (frames.map (fun f => Item.msg f.1 f.2) ++ [Item.trailers trailers]) := by
  have hok : ∀ p ∈ trailers, Spec.GrpcWeb.nameOk p.1 ∧ Spec.GrpcWeb.valueOk p.2 := by
    intro p hp
    have h := htr p hp
    have hv := h.2
    simp only [plainValueOk, Bool.and_eq_true] at hv
    exact ⟨name_no_sep p.1 h.1, value_no_cr p.2 hv.1⟩
  have hblk : Spec.GrpcWeb.parseBlock (trailersBlock false trailers) = some trailers := by
    have := GrpcWebLemmas.parseBlock_lines trailers hok
    have hfun : Spec.GrpcWeb.lineOfSp false = Spec.GrpcWeb.lineOf := by
      funext p; simp [Spec.GrpcWeb.lineOfSp, Spec.GrpcWeb.lineOf]
    have e : trailersBlock false trailers = trailers.flatMap Spec.GrpcWeb.lineOf := by
      simp [trailersBlock, hfun]
    rw [e]; exact this
  have hl5 := GrpcWebLemmas.framesBytes_length frames
  simp only [Spec.GrpcWeb.read, Bool.false_eq_true, if_false, Spec.GrpcWeb.parseItems]
  have hfuel : (framesBytes frames ++ trailersFrame false trailers).length + 1 =
      frames.length + ((framesBytes frames ++ trailersFrame false trailers).length + 1
        - frames.length - 2 + 2) := by
    simp only [List.length_append, trailersFrame, rawFrame_length]
    omega
  rw [hfuel, GrpcWebLemmas.parseItemsAux_frames _ hframes]
  simp only [trailersFrame, Spec.GrpcWeb.rawFrame]
  rw [GrpcWebLemmas.parseItemsAux_trailers _ _ _ hblk hlen]
  simp

/-- **Cut-off or malformed bodies end in an error, full statement.**  For every body — any
events, any chunking — whose data bytes are NOT a sequence of complete frames with known
flags (that is: the body stops inside a frame header or inside a payload, at any byte, or
carries an unknown frame type), the caller's stream ends with an error: never a clean end.
(The error is one the loop's own branches return: by `C17_fuel_never_exhausted` the frames of
`Fixed.observe` are those of the loop run without fuel.) -/
theorem C17_truncation_is_error (evs : List BodyEv) (h : ¬ WellFramed (flat evs)) :
    (Fixed.observe evs).getLast? = some Out.err := by
  unfold Fixed.observe
  exact run_not_wf evs {} (by simpa using h)

/-- **Truncation at every byte.**  Take any sequence of complete frames (messages, trailers)
and cut its wire form after `k` bytes, where `k` is not a frame boundary (`hk`: the prefix is
not the wire form of the first `j` frames, for any `j`) — i.e. strictly inside a frame header
or payload.  However the truncated body is chunked, the caller's stream ends with an error. -/
theorem C17_truncated_body_is_error (items : List (UInt8 × Bytes))
    (hitems : ∀ i ∈ items, Spec.GrpcWeb.flagOk i.1 ∧ i.2.length < 4294967296) (k : Nat)
    (hk : ∀ j, (Spec.GrpcWeb.encItems items).take k ≠ Spec.GrpcWeb.encItems (items.take j))
    (evs : List BodyEv) (hflat : flat evs = (Spec.GrpcWeb.encItems items).take k) :
    (Fixed.observe evs).getLast? = some Out.err := by
  apply C17_truncation_is_error
  rw [hflat]
  intro hw
  obtain ⟨j, hj⟩ := wf_prefix_boundary items hitems _ ((Spec.GrpcWeb.encItems items).drop k)
    (List.take_append_drop _ _) hw
  exact hk j hj

/-- **The loop's fuel is never exhausted.**  `Fixed.drain` (the loop once the inner body has
ended) is written with a fuel argument whose exhausted case returns an error frame.  That case is
never reached: `WebClientLemmas.Runs` / `Drains` are the loop WITHOUT fuel (inductive big-step
relations built from `Fixed.afterPoll` alone — one constructor per branch of `Fixed.run` /
`Fixed.drain`, none for "out of fuel"; a loop that kept passing without reaching a `stop` would
have no derivation), and for every event list, also hostile ones, what `Fixed.observe` computes is
THE result of that fuel-free loop (it has at most one).  Any fuel above the number of buffered
bytes plus one gives the same frames.  The progress argument: after the end of the inner body every
pass that does not stop takes at least one buffered byte, or the stored trailers
(`WebClientHintsLemmas.afterPoll_mu`). -/
theorem C17_fuel_never_exhausted (evs : List BodyEv) :
    Runs {} evs (Fixed.observe evs) ∧
    (∀ os, Runs {} evs os → os = Fixed.observe evs) ∧
    (∀ (st : St) (f : Nat), st.decoded.length + 1 < f →
      Drains st (Fixed.drain f st) ∧ Fixed.drain f st = Fixed.drain (st.decoded.length + 3) st) := by
  refine ⟨run_runs evs {}, fun os h => h.unique (run_runs evs {}), fun st f hf => ?_⟩
  have hm := WebClientHintsLemmas.mu_le st
  exact ⟨drain_drains f st (by omega),
    drain_fuel_irrelevant f _ st (by omega) (by omega)⟩

/-- **Totality / no busy loop.**  Every run of the repaired loop — any events, also hostile
ones — is a finite list of data/trailers frames followed by exactly one terminal frame
(`None` or an error), and that list is the result of the loop run WITHOUT fuel
(`WebClientLemmas.Runs`, see `C17_fuel_never_exhausted`): the terminal frame is one the code's
own branches produced after finitely many passes, never the model's out-of-fuel default.  (Once
the inner body has ended it is not polled again: `Runs.ended` hands over to `Drains`, which only
works on what is buffered.) -/
theorem C17_total (evs : List BodyEv) :
    ∃ (os : List Out) (t : Out), Fixed.observe evs = os ++ [t] ∧ Runs {} evs (os ++ [t]) ∧
      (t = Out.eos ∨ t = Out.err) ∧ ∀ o ∈ os, o ≠ Out.eos ∧ o ≠ Out.err := by
  obtain ⟨os, t, h1, h2, h3⟩ := run_endsOnce evs {}
  refine ⟨os, t, h1, ?_, ?_, ?_⟩
  · have := run_runs evs {}
    rwa [h1] at this
  · cases t <;> simp [isTerminal] at h2 ⊢
  · intro o ho
    have := h3 o ho
    cases o <;> simp [isTerminal] at this ⊢

/-- **A clean end is always faithful** (any body, any events, any chunking — also outside
the domain of `C17_lossless`: no trailers frame, several of them, messages after it): if the
caller's stream ends cleanly, then the body's data bytes were a sequence of complete frames
and the data frames the caller received are, concatenated, exactly the message frames among
them — none dropped, duplicated, reordered or altered. -/
theorem C17_clean_end_is_faithful (evs : List BodyEv)
    (h : (Fixed.observe evs).getLast? = some Out.eos) :
    ∃ items : List (UInt8 × Bytes),
      (∀ i ∈ items, Spec.GrpcWeb.flagOk i.1 ∧ i.2.length < 4294967296) ∧
      flat evs = Spec.GrpcWeb.encItems items ∧
      WebServer.dataOf (Fixed.observe evs) =
        Spec.GrpcWeb.encItems (items.filter (fun i => i.1 != 128)) := by
  obtain ⟨its, hv, hd, hdata⟩ := run_clean evs {} h
  exact ⟨its, hv, by simpa using hd, hdata⟩

/-- A message-only body (no trailers frame) ends cleanly only if it is a sequence of complete
frames: contrapositive of `C17_truncation_is_error`, the form used by the check's verdict. -/
theorem C17_clean_end_implies_well_framed (evs : List BodyEv)
    (h : (Fixed.observe evs).getLast? = some Out.eos) : WellFramed (flat evs) := by
  by_cases hw : WellFramed (flat evs)
  · exact hw
  · have := C17_truncation_is_error evs hw
    rw [this] at h
    cases h

/-- Request wrapping (`GrpcWebClientService::call` → `client_request`): the gRPC request
bytes reach the inner HTTP service chunk for chunk. -/
theorem C17_request_passthrough (chunks : List Bytes) (evs : List BodyEv)
    (hsched : evs.filter notPending = chunks.map BodyEv.data) :
    WebServer.respRun WebServer.Enc.none evs = chunks.map Out.data ++ [Out.eos] := by
  rw [WebServerLemmas.respRun_filter, hsched]
  have := WebServerLemmas.respRun_data WebServer.Enc.none chunks []
  simpa [WebServer.respRun, WebServer.wrap] using this

/-! ### the code at the pinned commit violates all three targets (DESIGN §5.8) -/

private def msg : Bytes := [0, 0, 0, 0, 2, 9, 9]
private def tf0 : Bytes := 128 :: u32be 15 ++ str "grpc-status:0\r\n"

/-- (a) message and trailers frame in one chunk: the data arrives, then a clean end — the
trailers (the server's status) never surface. -/
theorem C17_lossless_fails_same_chunk :
    AsIs.observe 1000 [.data (msg ++ tf0)] = ([.data msg, .eos], false, 0) := by
  decide +kernel

/-- (b) trailers frame split across chunks inside its block: an empty trailers frame, then
an "Invalid header bit" error. -/
theorem C17_lossless_fails_split_trailers :
    AsIs.observe 1000 [.data (tf0.take 9), .data (tf0.drop 9)] = ([.trailers [], .err], false, 0) := by
  decide +kernel

/-- (b') … split inside its 5-byte header: clean end, trailers lost. -/
theorem C17_lossless_fails_split_trailers_header :
    AsIs.observe 1000 [.data msg, .data (tf0.take 3), .data (tf0.drop 3)] =
      ([.data msg, .eos], false, 0) := by
  decide +kernel

/-- (c) a value containing a colon is cut at the colon; a repeated name keeps only the last
value. -/
theorem C17_lossless_fails_colon_value :
    AsIs.observe 1000 [.data (128 :: u32be 18 ++ str "grpc-message:a:b\r\n")] =
      ([.trailers [(str "grpc-message", str "a")], .eos], false, 0) := by
  decide +kernel

theorem C17_lossless_fails_repeated_name :
    AsIs.observe 1000 [.data (128 :: u32be 10 ++ str "x:1\r\nx:2\r\n")] =
      ([.trailers [(str "x", str "2")], .eos], false, 0) := by
  decide +kernel

/-- (d) a body cut inside a frame header ends cleanly — even when the rest is still to come. -/
theorem C17_truncation_fails_header :
    AsIs.observe 1000 [.data [0, 0, 0]] = ([.eos], false, 0) ∧
    AsIs.observe 1000 [.data [0, 0], .data ([0, 0, 2, 9, 9] ++ tf0)] = ([.eos], false, 0) := by
  decide +kernel

/-- (e) a body cut inside a payload: the loop never returns; the ended inner body is polled
again and again (the harness body gives up after 1000 polls past its end). -/
theorem C17_total_fails_busy_loop :
    AsIs.observe 1000 [.data [0, 0, 0, 0, 2, 9]] = ([], true, 1001) := by
  decide +kernel

private def unterminated : Bytes := 128 :: u32be 14 ++ str "grpc-status:13"
private def bareCr : Bytes := 128 :: u32be 36 ++ str "grpc-status:0\r\nx: v\rgrpc-status:13\r\n"

/-- (f) found by the second review round, in the tree with repairs (a)–(e): a last trailer line
without its CRLF was dropped.  `decode_trailers_frame` as found (`whole := false`) turns a
trailers frame that says `grpc-status:13` into an EMPTY map — and for the caller a stream that
ends with empty trailers is a success (the loop at the pinned commit does the same). -/
theorem C17_unterminated_line_fails :
    decodeTrailersFrame true unterminated false = some (some []) ∧
    WebCaller.endOf [Out.trailers [], Out.eos] = WebCaller.End.ok (some []) ∧
    AsIs.observe 1000 [.data unterminated] = ([.trailers [], .eos], false, 0) := by
  decide +kernel

/-- (g) likewise: in a value that starts with the optional space, everything after a bare CR
was cut off — here a second status line. -/
theorem C17_bare_cr_fails :
    decodeTrailersFrame true bareCr false =
      some (some [(str "grpc-status", str "0"), (str "x", str "v")]) := by
  decide +kernel

/-- … repaired (fix 1bfb22e3): the unterminated line is read, the caller gets INTERNAL; the bare
CR makes the block an error. -/
theorem C17_block_witnesses_repaired :
    Fixed.observe [.data unterminated] = [.trailers [(str "grpc-status", str "13")], .eos] ∧
    WebCaller.endOf (Fixed.observe [.data unterminated]) =
      WebCaller.End.status { code := .internal, message := [], details := [], metadata := [] } ∧
    Fixed.observe [.data bareCr] = [.err] := by
  decide +kernel

/-- … and the repaired loop on the same witnesses. -/
theorem C17_witnesses_repaired :
    Fixed.observe [.data (msg ++ tf0)] = [.data msg, .trailers [(str "grpc-status", str "0")], .eos] ∧
    Fixed.observe [.data msg, .data (tf0.take 3), .data (tf0.drop 3)] =
      [.data msg, .trailers [(str "grpc-status", str "0")], .eos] ∧
    Fixed.observe [.data (128 :: u32be 18 ++ str "grpc-message:a:b\r\n")] =
      [.trailers [(str "grpc-message", str "a:b")], .eos] ∧
    Fixed.observe [.data (128 :: u32be 10 ++ str "x:1\r\nx:2\r\n")] =
      [.trailers [(str "x", str "1"), (str "x", str "2")], .eos] ∧
    Fixed.observe [.data [0, 0, 0]] = [.err] ∧
    Fixed.observe [.data [0, 0, 0, 0, 2, 9]] = [.err] := by
  decide +kernel


/-! ### the response head: content-type, status, version, headers (`ResponseFuture::poll`) -/

/-- Transcription lemma: the first two conjuncts are `rfl` and the third is `C17_lossless` verbatim,
because the model function `WebClient.respond head evs := (head, Fixed.observe evs)` does not read
`head` and `responseEncoding _ := .none` by definition — "for every head" holds by construction of
the model.  That tonic-web's `ResponseFuture::poll` really ignores the response head is carried by
the correspondence run (`cl` / `st` cases with an `rp <status> <version> <headers>` head: 36
content-type values, 21 statuses, 5 versions, random heads; the head the caller gets is compared
token for token), not by this theorem.

**Response content-type variants.**  `head` is the head of the inner service's response — ANY
status, version and header list, in particular any `content-type` value: absent, one of the four
literals tonic-web knows, another message format (`application/grpc-web+json`, `+thrift`), with
parameters (`application/grpc-web+proto; charset=utf-8`), in any letter case
(`Application/GRPC-Web+Proto`), or anything else.  The client layer hands the head on untouched
(nothing is rewritten, `content-type` included), decodes the body with `Encoding::None`
whatever the head says, and `C17_lossless` applies unchanged: for all message frames, trailers,
either style, all chunkings and `Pending`s the caller gets the message bytes, ONE trailers frame
with every name and full value, then the end.  (The head is universally quantified: the
statement covers the responses the independent classifier `Spec.GrpcWeb.respKind` calls binary
grpc-web — media type `application/grpc-web[+format]` in any case, parameters ignored, or no
content-type — and equally the text kind and everything else: the code does not distinguish
them.  For a body in the text form see `C17_text_response_is_an_error`.) -/
theorem C17_response_content_type_variants (head : RespHead) (sp : Bool)
    (frames : List (Bool × Bytes)) (trailers : List Pair) (chunks : List Bytes) (evs : List BodyEv)
    (hsched : evs.filter notPending = chunks.map BodyEv.data)
    (hbody : chunks.flatten = framesBytes frames ++ trailersFrame sp trailers)
    (hframes : ∀ f ∈ frames, f.2.length < 4294967296)
    (htr : ∀ p ∈ trailers, lowerNameOk p.1 = true ∧ plainValueOk p.2 = true)
    (hlen : (trailersBlock sp trailers).length < 4294967296) :
    (respond head evs).1 = head ∧ responseEncoding head = WebServer.Enc.none ∧
    ∃ datas : List Bytes,
      (respond head evs).2 = datas.map Out.data ++ [Out.trailers trailers, Out.eos] ∧
      datas.flatten = framesBytes frames :=
  ⟨rfl, rfl, C17_lossless sp frames trailers chunks evs hsched hbody hframes htr hlen⟩

/-- **Text-mode responses are not decoded — but never end cleanly.**  The client layer does not
select base64 decoding by the response's content-type (`client_response` is `Encoding::None`;
the client never asks for the text form: it sends `content-type: application/grpc-web` and no
`accept`).  If a server answers in the text form all the same — the body's data bytes are a
non-empty base64 text the independent reader (`Spec.GrpcWeb.b64StreamDecode`) accepts, under any
head, in any chunking — the caller's stream ends with an error: neither messages nor a status
are made up, and there is no clean end hiding the server's status. -/
theorem C17_text_response_is_an_error (head : RespHead) (evs : List BodyEv) (raw : Bytes)
    (hne : flat evs ≠ []) (htext : Spec.GrpcWeb.b64StreamDecode (flat evs) = some raw) :
    (respond head evs).2.getLast? = some Out.err :=
  C17_truncation_is_error evs (WebClientHeadLemmas.text_not_wellFramed (flat evs) raw hne htext)

/-- Transcription lemma: `(respond head evs).2` is `Fixed.observe evs` by definition and
`WebCaller.streamingAt` reads nothing of the head but `head.status`, so the statement holds by
construction of the two model functions; the assurance that `client::Grpc` over the layer behaves so
is the `st` cases with an `rp` head in the correspondence run.

**The caller's view of a 200 response does not depend on the rest of the head**: with
`client::Grpc` over the layer, the messages and the end of a server-streaming call are those of
`C17_caller_sees_status` / `C17_caller_sees_messages`, whatever content-type, version and further
headers the response carries (headers tonic interprets itself — `grpc-status`, `grpc-encoding` —
excluded: Model/WebCaller). -/
theorem C17_caller_view_ignores_head (head : RespHead) (h200 : head.status = 200)
    (evs : List BodyEv) :
    WebCaller.streamingAt (respond head evs).1 (respond head evs).2 =
      WebCaller.streaming (Fixed.observe evs) :=
  WebClientHeadLemmas.streamingAt_200 head h200 (Fixed.observe evs)

/-- witnesses: the body of `C17_witnesses_repaired` under the content-types an independent
adversary's gate let through undecoded (seeded/C17d), and its text form -/
theorem C17_response_witnesses :
    (respond { headers := [(str "content-type", str "application/grpc-web+json")] }
      [.data (msg ++ tf0)]).2 = [.data msg, .trailers [(str "grpc-status", str "0")], .eos] ∧
    (respond { headers := [(str "content-type", str "Application/GRPC-Web+Proto")] }
      [.data (msg ++ tf0)]).2 = [.data msg, .trailers [(str "grpc-status", str "0")], .eos] ∧
    (respond { status := 503, version := .h2,
               headers := [(str "content-type", str "application/grpc-web-text")] }
      [.data (str "AAAAAAIJCYAAAAAPZ3JwYy1zdGF0dXM6MA0K")]) =
      ({ status := 503, version := .h2,
         headers := [(str "content-type", str "application/grpc-web-text")] }, [.err]) ∧
    Spec.GrpcWeb.b64StreamDecode (str "AAAAAAIJCYAAAAAPZ3JwYy1zdGF0dXM6MA0K") = some (msg ++ tf0) := by
  decide +kernel

/-! Non-vacuity: hypotheses are satisfiable by non-trivial values. -/

example :
    let frames : List (Bool × Bytes) := [(false, [9, 9]), (true, [])]
    let trailers : List Pair := [(str "grpc-status", str "0"), (str "grpc-message", str "a: b:c"),
      (str "x", str "1"), (str "x", str "2")]
    let body := framesBytes frames ++ trailersFrame true trailers
    let chunks : List Bytes := [body.take 3, body.drop 3 |>.take 11, [], (body.drop 14)]
    chunks.flatten = body ∧
    (∀ p ∈ trailers, lowerNameOk p.1 = true ∧ plainValueOk p.2 = true) ∧
    Fixed.observe [.data (body.take 3), .pending, .data ((body.drop 3).take 11), .data [], .data (body.drop 14)] =
      [.data [0, 0, 0, 0, 2, 9, 9, 1, 0, 0, 0, 0], .trailers trailers, .eos] := by
  decide +kernel

-- the caller's view of a failing call: status 5 with a percent-encoded message containing ':',
-- base64 details and a repeated custom name, in `name: value` style, cut inside the trailers frame
example :
    let trailers : List Pair := [(str "x-a", str "1"), (str "grpc-message", str "not%20found: a%3Ab"),
      (str "grpc-status", str "5"), (str "grpc-status-details-bin", str "AQID"), (str "x-a", str "2")]
    let body := framesBytes [(false, [7, 8])] ++ trailersFrame true trailers
    (∀ p ∈ trailers, lowerNameOk p.1 = true ∧ plainValueOk p.2 = true) ∧
    WebCaller.streaming (Fixed.observe [.data (body.take 20), .pending, .data (body.drop 20)]) =
      { msgs := [[7, 8]],
        fin := .status { code := .notFound, message := str "not found: a:b", details := [1, 2, 3],
                         metadata := [(str "x-a", str "1"), (str "x-a", str "2")] } } := by
  decide +kernel

example : ¬ WellFramed [0, 0, 0] := by decide
example : ¬ WellFramed [0, 0, 0, 0, 2, 9] := by decide
example : ¬ WellFramed [7, 0, 0, 0, 0] := by decide
example : WellFramed ([0, 0, 0, 0, 2, 9, 9] ++ [128, 0, 0, 0, 0]) := by decide

-- the independent classifier of response content-types (`Spec.GrpcWeb.respKind`)
example : Spec.GrpcWeb.respKind none = .binary := by decide
example : Spec.GrpcWeb.respKind (some (str "application/grpc-web+json")) = .binary := by decide
example : Spec.GrpcWeb.respKind (some (str "application/grpc-web+proto; charset=utf-8")) = .binary := by decide
example : Spec.GrpcWeb.respKind (some (str "Application/GRPC-Web+Proto")) = .binary := by decide
example : Spec.GrpcWeb.respKind (some (str "application/grpc-web-text+proto")) = .text := by decide
example : Spec.GrpcWeb.respKind (some (str "APPLICATION/GRPC-WEB-TEXT; charset=utf-8")) = .text := by decide
example : Spec.GrpcWeb.respKind (some (str "application/grpc")) = .other := by decide
example : Spec.GrpcWeb.respKind (some (str "application/grpc-webx")) = .other := by decide
example : Spec.GrpcWeb.respKind (some (str "text/html")) = .other := by decide

-- `C17_text_response_is_an_error`: hypotheses satisfiable (the text form of message + trailers frame)
example : (str "AAAAAAIJCYAAAAAPZ3JwYy1zdGF0dXM6MA0K") ≠ [] ∧
    (Spec.GrpcWeb.b64StreamDecode (str "AAAAAAIJCYAAAAAPZ3JwYy1zdGF0dXM6MA0K")).isSome = true := by
  decide +kernel

/-! ### the hints of the returned body (`Body::is_end_stream`, `Body::size_hint`) — audit aC17

`Hints.observeH hf evs` is `Fixed.observe evs` with, in front of every frame, what the returned
body answered to `is_end_stream()` / `size_hint()` right before the `poll_frame` call that produced
the frame.  `Hints.outerHint bits` is `GrpcWebCall`'s answer in client/Decode mode after
`fix: grpc-web client response body no longer reports the inner body's … hints as its own`;
`Hints.delegated bits` is the code as found (both methods handed on the inner body's answer).
`bits` says which hints the INNER body gives (exact size, end of stream). -/

open WebClient.Hints in
/-- Transcription lemma: `Hints.runH` is `Fixed.run` copied clause by clause with a hint paired to
every frame and never branches on a hint, so projecting the hints away gives `Fixed.run` by
construction; that the REAL body's frames do not depend on the hints the inner body gives is
carried by the `clh` / `sth` cases of the correspondence run.

**Hints are invisible in the frames.**  Whatever the inner body answers to `size_hint` /
`is_end_stream`, and whatever the returned body answers, the frames are those of
`Fixed.observe` — `C17_lossless`, `C17_truncation_is_error`, `C17_total` apply unchanged. -/
theorem C17_hints_invisible (hf : HintFn) (evs : List BodyEv) :
    (observeH hf evs).map Prod.snd = Fixed.observe evs :=
  WebClientHintsLemmas.runH_frames hf evs {} _

open WebClient.Hints in
/-- **`is_end_stream()` is true only right before the `None`**, for every body, chunking and
`Pending` pattern and each of the four hint behaviours of the harness's scripted inner body
(`bits % 4`: exact `size_hint` or none, `is_end_stream` once nothing is left or never): never while
message bytes are buffered or the trailers are still to be handed out, never before an error.
For an arbitrary inner body see `C17_end_stream_hint_sound_any_inner`. -/
theorem C17_end_stream_hint_sound (bits : Nat) (evs : List BodyEv) :
    endHintOk (observeH (outerHint bits) evs) = true :=
  WebClientHintsLemmas.runH_end bits evs {} _ (WebClientHintsLemmas.quietR_outer bits {} evs)

open WebClient.Hints WebClientHintsLemmas in
/-- **… over ANY inner body that keeps `http_body`'s contract.**  `outerHintOf inner` is the
repaired `is_end_stream` expression (`decoded` empty ∧ no trailers held ∧ (inner body done ∨ inner
body says end-of-stream)) over an arbitrary inner hint function `inner` (events still to come ↦
hint; `outerHint bits = outerHintOf (innerHint bits)` by `rfl`).  If the inner body says
`is_end_stream() == true` only when nothing is left (`InnerEndHonest`: the contract of
`http_body::Body`), the returned body says it only right before its `None` — every body, chunking
and `Pending` pattern.  The hypothesis is needed: over an inner body that claims its end while a
trailers frame is still to come, the returned body repeats the false claim (second conjunct). -/
theorem C17_end_stream_hint_sound_any_inner :
    (∀ (inner : List BodyEv → Hint), InnerEndHonest inner → ∀ evs : List BodyEv,
      endHintOk (observeH (outerHintOf inner) evs) = true) ∧
    endHintOk (observeH (outerHintOf (fun _ => ⟨true, 0, none⟩)) [.data tf0]) = false :=
  ⟨fun _ hi evs => observeH_end_of (outerHintOf_endSound hi) evs, by decide +kernel⟩

open WebClient.Hints in
/-- Transcription lemma: `Hints.outerHint` has `lower := 0, upper := none` by definition (the
repaired `size_hint` returns `SizeHint::default()`), and `sizeHintOk` is true of EVERY frame list
that carries only such hints — nothing about `Fixed.run` enters.  What carries the assurance that
the real `size_hint()` claims no bounds (and that the delegated one was unsound) is the
`size-hint-is-sound` clause of the `clh` cases in the correspondence run and
`C17_hints_fail_when_delegated`.

**`size_hint()` claims nothing, hence is sound**: at every frame, `lower = 0 ≤ data bytes from
here on`, and there is no upper bound to exceed. -/
theorem C17_size_hint_sound (bits : Nat) (evs : List BodyEv) :
    sizeHintOk (observeH (outerHint bits) evs) = true :=
  WebClientHintsLemmas.runH_size bits evs {} _
    (by simpa using WebClientHintsLemmas.covers_outer bits {} false evs)

open WebClient.Hints in
/-- **A consumer that honours the end-of-stream hint loses nothing**: asking `is_end_stream`
before every poll and stopping when told `true` yields exactly the frames of a consumer that
polls to the `None` — so `C17_lossless` (messages, then the complete trailers) holds for it too. -/
theorem C17_lossless_for_consumers_honouring_the_hint (bits : Nat) (evs : List BodyEv) :
    honour (observeH (outerHint bits) evs) = Fixed.observe evs := by
  rw [← C17_hints_invisible (outerHint bits) evs]
  apply WebClientHintsLemmas.honour_eq _ (C17_end_stream_hint_sound bits evs)
  right
  rw [C17_hints_invisible]
  exact run_endsOnce evs {}

open WebClient.Hints in
/-- The code as found (hints handed on from the inner body) fails all three: with an inner body
that reports its end (hyper's `Incoming`, `Full`), message and trailers frame in one chunk — the
returned body says `is_end_stream() == true` while it still holds the trailers, and a consumer that
honours the hint never sees the server's status; with an inner body of exact size the trailers
frame is announced as data. -/
theorem C17_hints_fail_when_delegated :
    endHintOk (observeH (delegated 2) [.data (msg ++ tf0)]) = false ∧
    honour (observeH (delegated 2) [.data (msg ++ tf0)]) = [.data msg, .eos] ∧
    sizeHintOk (observeH (delegated 1) [.data (msg ++ tf0)]) = false := by
  decide +kernel

/-- … repaired. -/
theorem C17_hint_witness_repaired :
    Hints.honour (Hints.observeH (Hints.outerHint 2) [.data (msg ++ tf0)]) =
      [.data msg, .trailers [(str "grpc-status", str "0")], .eos] := by
  decide +kernel

example : (Hints.observeH (Hints.outerHint 3) [.data (msg ++ tf0)]).map Prod.fst =
    [⟨false, 0, none⟩, ⟨false, 0, none⟩, ⟨true, 0, none⟩] := by decide +kernel

end C17
