import TonicModel.Model.WebClient
import TonicModel.Spec.GrpcWeb
namespace C17
end C17
