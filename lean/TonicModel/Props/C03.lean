import TonicModel.Lemmas.FramingWire
import TonicModel.Model.Interceptor
import TonicModel.Lemmas.Interceptor
/-
C03 — Requests and responses on the wire are spec-conformant gRPC.
Body part: judged by `Spec.Framing.split`, a batch parser that shares nothing with the model.
-/
namespace C03
open Framing Spec.Framing
variable {α : Type}

/-- what the independent parser must find in a body carrying messages `ms` -/
def expectedFrames (cd : Codec α) (cfg : EncCfg) (ms : List α) : List (UInt8 × Bytes) :=
  ms.map (fun m => (flagByte cfg, Framing.payload cd cfg m))

private theorem okPrefix_encodable (cd : Codec α) (cfg : EncCfg) (evs : List (SrcEv α)) :
    ∀ m ∈ okPrefix cd cfg evs, encodeErr cd cfg m = none := by
  induction evs with
  | nil => simp [okPrefix]
  | cons ev r ih =>
    cases ev with
    | pending => simpa [okPrefix] using ih
    | err st => simp [okPrefix]
    | item m =>
      simp only [okPrefix]
      cases he : encodeErr cd cfg m with
      | some st => simp
      | none =>
        intro x hx
        rcases List.mem_cons.mp hx with rfl | hx
        · exact he
        · exact ih x hx

private theorem payload_lt_of_encodable (cd : Codec α) (cfg : EncCfg) (m : α) (h : encodeErr cd cfg m = none) :
    (Framing.payload cd cfg m).length < 4294967296 := by
  simp only [encodeErr] at h
  cases hsf : cd.serFail m with
  | true => simp [hsf] at h
  | false =>
  simp only [hsf, Bool.false_eq_true, ↓reduceIte] at h
  cases hm : cfg.maxSize with
  | none => simp [hm, u32Max] at h; omega
  | some l =>
    simp only [hm] at h
    by_cases h1 : (Framing.payload cd cfg m).length > l
    · simp [h1] at h
    · simp [h1, u32Max] at h; omega

/-- **A server response body is well-formed gRPC, for every source schedule and outcome.**
Polling the body to exhaustion (and beyond) yields data chunks, then exactly one trailers frame,
then nothing.  The concatenated data, parsed by the independent splitter, is exactly one frame
per message produced before the first failure: flag 1 with the compressed serialization when
compression is in effect, flag 0 with the plain serialization otherwise, a 4-byte big-endian
length equal to the payload length, and no byte left over. -/
theorem C03_server_body_wellformed (cd : Codec α) (cfg : EncCfg) (hs : cfg.server = true)
    (evs : List (SrcEv α)) (n : Nat) (hn : evs.length + 1 < n) :
    ∃ pre st k, Enc.run cd cfg n Enc.init evs = pre ++ [.trailers st] ++ List.replicate k .none ∧
      (∀ o ∈ pre, o = .pending ∨ ∃ d, o = .data d) ∧
      Spec.Framing.split (dataConcat pre) = (expectedFrames cd cfg (okPrefix cd cfg evs), []) ∧
      Spec.Framing.wellFormed (dataConcat pre) = true := by
  obtain ⟨pre, hrun, hgood, hdata, _⟩ := run_server cd cfg hs n none evs (by simp; omega)
  have hsplit : Spec.Framing.split (dataConcat pre) = (expectedFrames cd cfg (okPrefix cd cfg evs), []) := by
    rw [hdata, owedData, framesOf_eq_spec]
    apply split_frames
    intro fp hfp
    simp only [List.mem_map] at hfp
    obtain ⟨m, hm, rfl⟩ := hfp
    exact payload_lt_of_encodable cd cfg m (okPrefix_encodable cd cfg evs m hm)
  refine ⟨pre, _, _, by simpa [Enc.init] using hrun, ?_, hsplit, ?_⟩
  · intro o ho
    rcases hgood o ho with h | ⟨d, h, _⟩
    · exact Or.inl h
    · exact Or.inr ⟨d, h⟩
  · simp only [Spec.Framing.wellFormed, hsplit, List.isEmpty_nil, Bool.true_and, expectedFrames,
      List.all_map, List.all_eq_true]
    intro m _
    simp [flagByte]; cases cfg.comp <;> simp

/-- **The flag tells the truth about the payload.** -/
theorem C03_flag_iff_compressed (cd : Codec α) (cfg : EncCfg) (ms : List α) :
    ∀ fp ∈ expectedFrames cd cfg ms, ∃ m ∈ ms,
      (fp.1 = 1 ∧ ∃ e, cfg.comp = some e ∧ fp.2 = cd.cz e (cd.ser m)) ∨
      (fp.1 = 0 ∧ cfg.comp = none ∧ fp.2 = cd.ser m) := by
  intro fp hfp
  simp only [expectedFrames, List.mem_map] at hfp
  obtain ⟨m, hm, rfl⟩ := hfp
  refine ⟨m, hm, ?_⟩
  cases hc : cfg.comp with
  | none => right; simp [flagByte, Framing.payload, hc]
  | some e => left; simp [flagByte, Framing.payload, hc]

/-- **A client request body carries no trailers**, delivers whole frames of the messages before
the first failure, and then ends or fails. -/
theorem C03_client_body_wellformed (cd : Codec α) (cfg : EncCfg) (hs : cfg.server = false)
    (evs : List (SrcEv α)) (n : Nat) (hn : evs.length + 1 < n) :
    ∃ pre, (∀ o ∈ pre, o = .pending ∨ ∃ d, o = .data d) ∧
      Spec.Framing.split (dataConcat pre) = (expectedFrames cd cfg (okPrefix cd cfg evs), []) ∧
      ((∃ st post, Enc.run cd cfg n Enc.init evs = pre ++ .err st :: post) ∨
       Enc.run cd cfg n Enc.init evs = pre ++ List.replicate (n - pre.length) .none) := by
  obtain ⟨pre, hgood, hdata, _, hrun⟩ := run_client cd cfg hs n none evs (by simp; omega)
  refine ⟨pre, ?_, ?_, ?_⟩
  · intro o ho
    rcases hgood o ho with h | ⟨d, h, _⟩
    · exact Or.inl h
    · exact Or.inr ⟨d, h⟩
  · rw [hdata, owedData, framesOf_eq_spec]
    apply split_frames
    intro fp hfp
    simp only [List.mem_map] at hfp
    obtain ⟨m, hm, rfl⟩ := hfp
    exact payload_lt_of_encodable cd cfg m (okPrefix_encodable cd cfg evs m hm)
  · cases hf : owedSt cd cfg none evs with
    | some st => rw [hf] at hrun; obtain ⟨post, hp⟩ := hrun; exact Or.inl ⟨st, post, by simpa [Enc.init] using hp⟩
    | none => rw [hf] at hrun; exact Or.inr (by simpa [Enc.init] using hrun)


/-- **`is_end_stream()` is true only after the trailers frame (server) and never for a client
body.**  Whatever the source does and however often the body is polled: if `is_end_stream()`
observed before poll `i` (or after the last poll) is true, then the body is a server body, one of
the polls before `i` produced the trailers frame (so hyper, which stops polling a body whose
`is_end_stream` is true, has already been handed the grpc-status), and every poll from `i` on
yields `None`. -/
theorem C03_end_stream_only_after_trailers (cd : Codec α) (cfg : EncCfg) (n : Nat) (evs : List (SrcEv α))
    (i : Nat) (h : (Enc.endFlags cd cfg n Enc.init evs)[i]? = some true) :
    cfg.server = true ∧
    (∃ (j : Nat) (st : St), j < i ∧ (Enc.run cd cfg n Enc.init evs)[j]? = some (FrameOut.trailers st)) ∧
    ∀ (j : Nat) (o : FrameOut), i ≤ j → (Enc.run cd cfg n Enc.init evs)[j]? = some o → o = FrameOut.none :=
  endFlags_sound cd cfg n Enc.init evs rfl i h

/-- `size_hint()` is sound in every state: its lower bound is 0 and it claims no upper bound. -/
theorem C03_size_hint_sound (b : BodySt) : Enc.sizeHint b = (0, none) := rfl

/-- **An `Encoder::encode` failure at any position** (outcome "encode failure" of the property):
if the encoder fails on a message that follows any number of `Pending`s and encodable messages,
nothing of that message is on the wire — the body carries exactly the frames of the messages
before it (`C03_server_body_wellformed` / `C03_client_body_wellformed` with this `okPrefix`) —
and the status is INTERNAL. -/
theorem C03_encode_failure_any_position (cd : Codec α) (cfg : EncCfg) (pre rest : List (SrcEv α)) (m : α)
    (hpre : AllOk cd cfg pre) (hm : cd.serFail m = true) :
    okPrefix cd cfg (pre ++ .item m :: rest) = itemsOfEvs pre ∧
    finalSt cd cfg (pre ++ .item m :: rest) = some ⟨13, .encode⟩ := by
  obtain ⟨h1, h2⟩ := okPrefix_append cd cfg pre (.item m :: rest) hpre
  rw [h1, h2]
  simp [okPrefix, finalSt, serFail_encodeErr cd cfg m hm]

/-! ### Header clauses (request line, trailers-only response)

These are theorems about `Model/Interceptor.lean`'s model of `client::Grpc::prepare_request`
and `Status::into_http` (tied to the code by C12's correspondence and by C03's own
whole-request / whole-response oracle cases). -/
section Headers
open HMapLite HttpLite

/-- **Every call is an HTTP/2 POST with `content-type: application/grpc` and `te: trailers`** —
exactly one value each, whatever the caller's metadata contains (a forged `te` or
`content-type` cannot survive) — to the method path joined onto the origin's path, with the
body untouched. -/
theorem C03_request_line {β : Type} (originPrefix originPath path : Bytes) (q : Bool)
    (t : Interceptor.TRequest β) :
    let r := Interceptor.prepareRequest originPrefix originPath q path t
    r.method = str "POST" ∧ r.version = 2 ∧
    getAll (str "te") r.headers = [(str "trailers", false)] ∧
    getAll Interceptor.nameContentType r.headers = [(Interceptor.grpcContentType, false)] ∧
    r.body = t.message ∧
    r.uri = originPrefix ++ (if originPath.isEmpty || (originPath == str "/" && !q) then path
                             else originPath ++ path) := by
  have hne : str "te" ≠ Interceptor.nameContentType := by decide
  simp only [Interceptor.prepareRequest, Interceptor.intoHttp, true_and, and_true]
  refine ⟨?_, getAll_insert_self _ _ _⟩
  rw [getAll_insert_ne _ _ _ _ hne, getAll_insert_self]

/-- **A trailers-only response carries `content-type: application/grpc`, is HTTP 200, has an
empty body and exactly one `grpc-status`, in its headers**: `Status::into_http` never fails, and
the response it builds has status 200, the body it was given (`Body::empty()`), exactly one
`content-type` value — `application/grpc` — and exactly one `grpc-status` value, the status's
code, whatever metadata the status carries (a forged `grpc-status` or `content-type` entry in
the status's metadata cannot add a second value). -/
theorem C03_trailers_only_response {ρ : Type} (dflt : ρ) (st : GStatus) :
    ∃ r, Interceptor.statusIntoHttp dflt st = some r ∧
      r.status = 200 ∧ r.body = dflt ∧
      getAll Interceptor.nameContentType r.headers = [(Interceptor.grpcContentType, false)] ∧
      getAll Interceptor.nameGrpcStatus r.headers = [(Interceptor.codeHeaderValue st.code, false)] := by
  obtain ⟨H, h, hct, hgs, _⟩ := Interceptor.statusIntoHttp_headers dflt st
  exact ⟨_, h, rfl, rfl, hct, hgs⟩

end Headers

/- Non-vacuity: a schedule with a source error in the middle. -/
def idCodec : Codec Bytes := { ser := id, de := some, deErr := 13, cz := fun _ b => b, dz := fun _ b => some b }

example : Enc.run idCodec { comp := none, yieldThr := 0, maxSize := none, server := true } 5 Enc.init
      [.item [1, 2], .err ⟨5, .user⟩, .item [3]]
    = [.data [0, 0, 0, 0, 2, 1, 2], .trailers ⟨5, .user⟩, .none, .none, .none] := by decide

end C03
