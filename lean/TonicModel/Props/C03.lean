import TonicModel.Lemmas.FramingWire
import TonicModel.Lemmas.FramingEncAfter
import TonicModel.Lemmas.Interceptor
import TonicModel.Model.Interceptor
import TonicModel.Model.RecoverError
import TonicModel.Model.GrpcWire
import TonicModel.Spec.GrpcResponse
/-
C03 — Requests and responses on the wire are spec-conformant gRPC.
Body part: judged by `Spec.Framing.split`, a batch parser that imports nothing of the model (Spec/Framing.lean
imports `Basic.Bytes` only and does its own big-endian arithmetic; the type `Bytes` is all they have in common).
-/
namespace C03
open Framing Spec.Framing
variable {α : Type}

/-- what the independent parser must find in a body carrying messages `ms` -/
def expectedFrames (cd : Codec α) (cfg : EncCfg) (ms : List α) : List (UInt8 × Bytes) :=
  ms.map (fun m => (flagByte cfg, Framing.payload cd cfg m))

private theorem okPrefix_encodable (cd : Codec α) (cfg : EncCfg) (evs : List (SrcEv α)) :
    ∀ m ∈ okPrefix cd cfg evs, encodeErr cd cfg m = none := by
  induction evs with
  | nil => simp [okPrefix]
  | cons ev r ih =>
    cases ev with
    | pending => simpa [okPrefix] using ih
    | err st => simp [okPrefix]
    | item m =>
      simp only [okPrefix]
      cases he : encodeErr cd cfg m with
      | some st => simp
      | none =>
        intro x hx
        rcases List.mem_cons.mp hx with rfl | hx
        · exact he
        · exact ih x hx

private theorem payload_lt_of_encodable (cd : Codec α) (cfg : EncCfg) (m : α) (h : encodeErr cd cfg m = none) :
    (Framing.payload cd cfg m).length < 4294967296 := by
  simp only [encodeErr] at h
  cases hsf : cd.serFail m with
  | true => simp [hsf] at h
  | false =>
  simp only [hsf, Bool.false_eq_true, ↓reduceIte] at h
  cases hm : cfg.maxSize with
  | none => simp [hm, u32Max] at h; omega
  | some l =>
    simp only [hm] at h
    by_cases h1 : (Framing.payload cd cfg m).length > l
    · simp [h1] at h
    · simp [h1, u32Max] at h; omega

/-- **A server response body is well-formed gRPC, for every source schedule and outcome.**
Polling the body to exhaustion (and beyond) yields data chunks, then exactly one trailers frame,
then nothing.  The concatenated data, parsed by the independent splitter, is exactly one frame
per message produced before the first failure: flag 1 with the compressed serialization when
compression is in effect, flag 0 with the plain serialization otherwise, a 4-byte big-endian
length equal to the payload length, and no byte left over. -/
theorem C03_server_body_wellformed (cd : Codec α) (cfg : EncCfg) (hs : cfg.server = true)
    (evs : List (SrcEv α)) (n : Nat) (hn : evs.length + 1 < n) :
    ∃ pre st k, Enc.run cd cfg n Enc.init evs = pre ++ [.trailers st] ++ List.replicate k .none ∧
      (∀ o ∈ pre, o = .pending ∨ ∃ d, o = .data d) ∧
      Spec.Framing.split (dataConcat pre) = (expectedFrames cd cfg (okPrefix cd cfg evs), []) ∧
      Spec.Framing.wellFormed (dataConcat pre) = true := by
  obtain ⟨pre, hrun, hgood, hdata, _⟩ := run_server cd cfg hs n none evs (by simp; omega)
  have hsplit : Spec.Framing.split (dataConcat pre) = (expectedFrames cd cfg (okPrefix cd cfg evs), []) := by
    rw [hdata, owedData, framesOf_eq_spec]
    apply split_frames
    intro fp hfp
    simp only [List.mem_map] at hfp
    obtain ⟨m, hm, rfl⟩ := hfp
    exact payload_lt_of_encodable cd cfg m (okPrefix_encodable cd cfg evs m hm)
  refine ⟨pre, _, _, by simpa [Enc.init] using hrun, ?_, hsplit, ?_⟩
  · intro o ho
    rcases hgood o ho with h | ⟨d, h, _⟩
    · exact Or.inl h
    · exact Or.inr ⟨d, h⟩
  · simp only [Spec.Framing.wellFormed, hsplit, List.isEmpty_nil, Bool.true_and, expectedFrames,
      List.all_map, List.all_eq_true]
    intro m _
    simp [flagByte]; cases cfg.comp <;> simp

/-- **The flag tells the truth about the payload.** (Transcription lemma: it holds by unfolding the model's definition, so it pins the model's shape for the correspondence run — its assurance about tonic is the tie, not this proof.) -/
theorem C03_flag_iff_compressed (cd : Codec α) (cfg : EncCfg) (ms : List α) :
    ∀ fp ∈ expectedFrames cd cfg ms, ∃ m ∈ ms,
      (fp.1 = 1 ∧ ∃ e, cfg.comp = some e ∧ fp.2 = cd.cz e (cd.ser m)) ∨
      (fp.1 = 0 ∧ cfg.comp = none ∧ fp.2 = cd.ser m) := by
  intro fp hfp
  simp only [expectedFrames, List.mem_map] at hfp
  obtain ⟨m, hm, rfl⟩ := hfp
  refine ⟨m, hm, ?_⟩
  cases hc : cfg.comp with
  | none => right; simp [flagByte, Framing.payload, hc]
  | some e => left; simp [flagByte, Framing.payload, hc]

/-- **A client request body carries no trailers — ever**: in whatever state, for every source
schedule and however often it is polled (also past an error or its end), a client-role body never
yields a trailers frame.  (`C03_client_body_wellformed` below says what the polls after an error are: a
fresh body's run over the rest of the source — which, by this theorem, contains no trailers either.) -/
theorem C03_client_body_never_trailers (cd : Codec α) (cfg : EncCfg) (hs : cfg.server = false) (n : Nat) :
    ∀ (b : BodySt) (evs : List (SrcEv α)) (st : St), FrameOut.trailers st ∉ Enc.run cd cfg n b evs := by
  have step : ∀ (b : BodySt) (evs : List (SrcEv α)) (st : St),
      (Enc.pollFrame cd cfg b evs).2.2 ≠ .trailers st := by
    intro b evs st
    unfold Enc.pollFrame
    split
    · simp
    · split <;> simp [hs]
  induction n with
  | zero => intro b evs st; simp [Enc.run]
  | succ n ih =>
    intro b evs st
    simp only [Enc.run, List.mem_cons, not_or]
    exact ⟨fun h => step b evs st h.symm, ih _ _ st⟩

/-- **A client request body** delivers whole frames of the messages before
the first failure, and then ends (`None` for ever) or fails with that failure's status as its FIRST error
(`pre` holds `Pending`s and data only).  A body polled again after the error — hyper does not do that — resumes
as a fresh body over the rest of the source (`rest`, a suffix of `evs`): the tail is stated, not left open. -/
theorem C03_client_body_wellformed (cd : Codec α) (cfg : EncCfg) (hs : cfg.server = false)
    (evs : List (SrcEv α)) (n : Nat) (hn : evs.length + 1 < n) :
    ∃ pre, (∀ o ∈ pre, o = .pending ∨ ∃ d, o = .data d) ∧
      Spec.Framing.split (dataConcat pre) = (expectedFrames cd cfg (okPrefix cd cfg evs), []) ∧
      ((∃ st done rest, finalSt cd cfg evs = some st ∧ evs = done ++ rest ∧
          Enc.run cd cfg n Enc.init evs = pre ++ .err st :: Enc.run cd cfg (n - pre.length - 1) Enc.init rest) ∨
       (finalSt cd cfg evs = none ∧
          Enc.run cd cfg n Enc.init evs = pre ++ List.replicate (n - pre.length) .none)) := by
  obtain ⟨pre, hgood, hdata, _, hrun⟩ := run_client cd cfg hs n none evs (by simp; omega)
  refine ⟨pre, ?_, ?_, ?_⟩
  · intro o ho
    rcases hgood o ho with h | ⟨d, h, _⟩
    · exact Or.inl h
    · exact Or.inr ⟨d, h⟩
  · rw [hdata, owedData, framesOf_eq_spec]
    apply split_frames
    intro fp hfp
    simp only [List.mem_map] at hfp
    obtain ⟨m, hm, rfl⟩ := hfp
    exact payload_lt_of_encodable cd cfg m (okPrefix_encodable cd cfg evs m hm)
  · cases hf : owedSt cd cfg none evs with
    | some st =>
      rw [hf] at hrun
      obtain ⟨post, hp⟩ := hrun
      obtain ⟨done, rest, hev, hpost⟩ :=
        run_client_err_resumes cd cfg hs n ⟨⟨[], none⟩, false⟩ evs rfl rfl pre post st hp
      exact Or.inl ⟨st, done, rest, by simpa [owedSt] using hf, hev, by rw [← hpost]; simpa [Enc.init] using hp⟩
    | none => rw [hf] at hrun; exact Or.inr ⟨by simpa [owedSt] using hf, by simpa [Enc.init] using hrun⟩


/-- **`is_end_stream()` is true only after the trailers frame (server) and never for a client
body.**  Whatever the source does and however often the body is polled: if `is_end_stream()`
observed before poll `i` (or after the last poll) is true, then the body is a server body, one of
the polls before `i` produced the trailers frame (so hyper, which stops polling a body whose
`is_end_stream` is true, has already been handed the grpc-status), and every poll from `i` on
yields `None`. -/
theorem C03_end_stream_only_after_trailers (cd : Codec α) (cfg : EncCfg) (n : Nat) (evs : List (SrcEv α))
    (i : Nat) (h : (Enc.endFlags cd cfg n Enc.init evs)[i]? = some true) :
    cfg.server = true ∧
    (∃ (j : Nat) (st : St), j < i ∧ (Enc.run cd cfg n Enc.init evs)[j]? = some (FrameOut.trailers st)) ∧
    ∀ (j : Nat) (o : FrameOut), i ≤ j → (Enc.run cd cfg n Enc.init evs)[j]? = some o → o = FrameOut.none :=
  endFlags_sound cd cfg n Enc.init evs rfl i h

/-- `size_hint()` is sound in every state: its lower bound is 0 and it claims no upper bound. (Transcription lemma: it holds by unfolding the model's definition, so it pins the model's shape for the correspondence run — its assurance about tonic is the tie, not this proof.) -/
theorem C03_size_hint_sound (b : BodySt) : Enc.sizeHint b = (0, none) := rfl

/-- **An `Encoder::encode` failure at any position** (outcome "encode failure" of the property), at the level
of the polled body (`Enc.run`): if the encoder fails on a message that follows any number of `Pending`s and
encodable messages, then — whatever follows it in the source — the polls yield `Pending`s and data chunks whose
concatenation the independent splitter reads as exactly one frame per message BEFORE the failing one, nothing
left over (nothing of the failing message is on the wire), and then: a server body yields exactly one
trailers frame with INTERNAL (class `encode`) and `None` for ever; a client body yields that status as an
error.  (What a client body would yield if it were polled again after that error is not claimed — hyper does
not poll a body again after an error; `C03_client_body_wellformed` / `C06_no_collateral_loss_client` say what
the model does then, `C06_client_polled_after_error_continues` is an instance.)  The ghost functions
`okPrefix` / `finalSt`, about which the earlier form of this theorem spoke alone, are the last two conjuncts. -/
theorem C03_encode_failure_any_position (cd : Codec α) (cfg : EncCfg) (pre rest : List (SrcEv α)) (m : α)
    (hpre : AllOk cd cfg pre) (hm : cd.serFail m = true)
    (n : Nat) (hn : (pre ++ .item m :: rest).length + 1 < n) :
    (∃ out, (∀ o ∈ out, o = .pending ∨ ∃ d, o = .data d) ∧
      Spec.Framing.split (dataConcat out) = (expectedFrames cd cfg (itemsOfEvs pre), []) ∧
      (cfg.server = true → ∃ k, Enc.run cd cfg n Enc.init (pre ++ .item m :: rest)
          = out ++ [.trailers ⟨13, .encode⟩] ++ List.replicate k .none) ∧
      (cfg.server = false → ∃ post, Enc.run cd cfg n Enc.init (pre ++ .item m :: rest)
          = out ++ .err ⟨13, .encode⟩ :: post)) ∧
    okPrefix cd cfg (pre ++ .item m :: rest) = itemsOfEvs pre ∧
    finalSt cd cfg (pre ++ .item m :: rest) = some ⟨13, .encode⟩ := by
  obtain ⟨h1, h2⟩ := okPrefix_append cd cfg pre (.item m :: rest) hpre
  have hok : okPrefix cd cfg (pre ++ .item m :: rest) = itemsOfEvs pre := by
    rw [h1]; simp [okPrefix, serFail_encodeErr cd cfg m hm]
  have hfin : finalSt cd cfg (pre ++ .item m :: rest) = some ⟨13, .encode⟩ := by
    rw [h2]; simp [finalSt, serFail_encodeErr cd cfg m hm]
  refine ⟨?_, hok, hfin⟩
  have hsplit : ∀ out, dataConcat out = owedData cd cfg none (pre ++ .item m :: rest) →
      Spec.Framing.split (dataConcat out) = (expectedFrames cd cfg (itemsOfEvs pre), []) := by
    intro out hdata
    rw [hdata, owedData, framesOf_eq_spec, ← hok]
    apply split_frames
    intro fp hfp
    simp only [List.mem_map] at hfp
    obtain ⟨x, hx, rfl⟩ := hfp
    exact payload_lt_of_encodable cd cfg x (okPrefix_encodable cd cfg _ x hx)
  have hshape : ∀ out : List FrameOut, (∀ o ∈ out, GoodChunk cd cfg o) →
      ∀ o ∈ out, o = .pending ∨ ∃ d, o = .data d := by
    intro out hgood o ho
    rcases hgood o ho with h | ⟨d, h, _⟩
    · exact Or.inl h
    · exact Or.inr ⟨d, h⟩
  cases hs : cfg.server with
  | true =>
    obtain ⟨out, hrun, hgood, hdata, _⟩ := run_server cd cfg hs n none (pre ++ .item m :: rest) (by simp at hn ⊢; omega)
    refine ⟨out, hshape out hgood, hsplit out hdata, fun _ => ⟨n - out.length - 1, ?_⟩, fun h => by simp at h⟩
    simpa [Enc.init, owedSt, hfin] using hrun
  | false =>
    obtain ⟨out, hgood, hdata, _, hrun⟩ := run_client cd cfg hs n none (pre ++ .item m :: rest) (by simp at hn ⊢; omega)
    refine ⟨out, hshape out hgood, hsplit out hdata, fun h => by simp at h, fun _ => ?_⟩
    simp only [owedSt, hfin] at hrun
    obtain ⟨post, hp⟩ := hrun
    exact ⟨post, by simpa [Enc.init] using hp⟩

/-! ### Header clauses (request line, trailers-only response)

These are theorems about `Model/Interceptor.lean`'s model of `client::Grpc::prepare_request`
and `Status::into_http` (tied to the code by C12's correspondence and by C03's own
whole-request / whole-response oracle cases). -/
section Headers
open HMapLite HttpLite

/-- **Every call is an HTTP/2 POST with `content-type: application/grpc` and `te: trailers`** —
exactly one value each, whatever the caller's metadata contains (a forged `te` or
`content-type` cannot survive) — to the method path joined onto the origin's path, with the
body untouched.  (The proof obligation is in the two `getAll` conjuncts — exactly one value each over
ARBITRARY caller metadata; the conjuncts for method, version, body and URI restate the literals of the model
function `prepareRequest` and hold by unfolding it: for those four the assurance about tonic is the
correspondence — C12's `prepare_request` cases and C03's oracle-only `req` / `wreq` cases.) -/
theorem C03_request_line {β : Type} (originPrefix originPath path : Bytes) (q : Bool)
    (t : Interceptor.TRequest β) :
    let r := Interceptor.prepareRequest originPrefix originPath q path t
    r.method = str "POST" ∧ r.version = 2 ∧
    getAll (str "te") r.headers = [(str "trailers", false)] ∧
    getAll Interceptor.nameContentType r.headers = [(Interceptor.grpcContentType, false)] ∧
    r.body = t.message ∧
    r.uri = originPrefix ++ (if originPath.isEmpty || originPath == str "/" then path
                             else originPath ++ path) := by
  have hne : str "te" ≠ Interceptor.nameContentType := by decide
  simp only [Interceptor.prepareRequest, Interceptor.intoHttp, true_and, and_true]
  refine ⟨?_, getAll_insert_self _ _ _⟩
  rw [getAll_insert_ne _ _ _ _ hne, getAll_insert_self]

/-- The path join as found at the pinned commit was wrong for an origin whose path is `/` and that
has a query (`http://host/?x=1`): the request went to `//pkg.Svc/Method` instead of the method's
path.  (Witness of the defect repaired by the `fix:` commit "an origin whose path is / adds no prefix
…"; the case `req g - 3f71 …` — origin `?q` — is in C03's generated cases.) -/
theorem C03_request_path_root_origin_with_query_asis_fails :
    Interceptor.pathJoinAsFound (str "/") true (str "/pkg.Svc/Method") = str "//pkg.Svc/Method" ∧
    Interceptor.pathJoinAsFound (str "/") true (str "/pkg.Svc/Method") ≠ str "/pkg.Svc/Method" := by
  decide

/-- **A trailers-only response carries `content-type: application/grpc`, is HTTP 200, has an
empty body and exactly one `grpc-status`, in its headers**: `Status::into_http` never fails, and
the response it builds has status 200, the body it was given (`Body::empty()`), exactly one
`content-type` value — `application/grpc` — and exactly one `grpc-status` value, the status's
code, whatever metadata the status carries (a forged `grpc-status` or `content-type` entry in
the status's metadata cannot add a second value). -/
theorem C03_trailers_only_response {ρ : Type} (dflt : ρ) (st : GStatus) :
    ∃ r, Interceptor.statusIntoHttp dflt st = some r ∧
      r.status = 200 ∧ r.body = dflt ∧
      getAll Interceptor.nameContentType r.headers = [(Interceptor.grpcContentType, false)] ∧
      getAll Interceptor.nameGrpcStatus r.headers = [(Interceptor.codeHeaderValue st.code, false)] := by
  obtain ⟨H, h, hct, hgs, _⟩ := Interceptor.statusIntoHttp_headers dflt st
  exact ⟨_, h, rfl, rfl, hct, hgs⟩

end Headers


/-! ### Synthesised responses (`RecoverError`, `Routes` fallback, generated default arm,
interceptor rejection): every one of them is a conformant trailers-only response

Theorems about `Model/RecoverError.lean` and `Model/Interceptor.lean`, judged by the independent
oracle `Spec/GrpcResponse.lean`; tied to the code by C03's `prod …` correspondence cases. -/
section Producers
open HMapLite HttpLite RecoverError

private theorem codeOk_codeHeaderValue (n : Nat) :
    Spec.GrpcResponse.codeOk (Interceptor.codeHeaderValue n) = true := by
  unfold Interceptor.codeHeaderValue
  split <;> decide

private theorem names_eq :
    str "content-type" = Interceptor.nameContentType ∧ str "grpc-status" = Interceptor.nameGrpcStatus :=
  ⟨rfl, rfl⟩

private theorem eos_all (n : Nat) : (List.replicate (n + 1) Fr.eos).all Spec.GrpcResponse.isEos = true := by
  simp [Spec.GrpcResponse.isEos]

/-- the oracle accepts a body-less response whose headers are what `Status::into_http` writes -/
private theorem conformant_of_headers (H : Hdrs) (c : Nat) (extra : Nat)
    (hct : getAll Interceptor.nameContentType H = [(Interceptor.grpcContentType, false)])
    (hgs : getAll Interceptor.nameGrpcStatus H = [(Interceptor.codeHeaderValue c, false)]) :
    Spec.GrpcResponse.conformant
      { status := 200, headers := H, frames := List.replicate (extra + 1) Fr.eos } = true := by
  have h1 : Spec.GrpcResponse.contentTypeOk H = true := by
    simp only [Spec.GrpcResponse.contentTypeOk, names_eq.1, hct]
    decide
  have h2 : Spec.GrpcResponse.noStatus H = false := by
    simp [Spec.GrpcResponse.noStatus, names_eq.2, hgs]
  have h3 : Spec.GrpcResponse.oneStatus H = true := by
    simp only [Spec.GrpcResponse.oneStatus, names_eq.2, hgs]
    exact codeOk_codeHeaderValue c
  have h4 : Spec.GrpcResponse.bodyLess (List.replicate (extra + 1) Fr.eos) = true := by
    simp [Spec.GrpcResponse.bodyLess, Spec.GrpcResponse.isEos]
  simp [Spec.GrpcResponse.conformant, Spec.GrpcResponse.clauses, h1, h2, h3, h4]

/-- **Every response `RecoverError` synthesises from a failed service stack is a conformant
trailers-only gRPC response.**  Whatever error the stack failed with — a `Status` with any code,
message, details and metadata (forged `content-type` / `grpc-status` metadata included), an error
wrapping one anywhere in its source chain, an expired `Server::timeout` / `grpc-timeout`, a
connect error, an HTTP/2 error — if `Status::try_from_error` finds a status `st` in it, the caller
gets a response (never a panic, never the error): HTTP 200, exactly one
`content-type: application/grpc`, exactly one `grpc-status` (the code of `st`), and an empty body
that stays ended however often it is polled; the independent oracle accepts it. -/
theorem C03_recovered_error_response {ρ ε : Type} (chain : ε → List Link) (e : ε) (st : GStatus)
    (h : tryFromError (chain e) = some st) :
    ∃ r, recoverError (ρ := ρ) chain (.error e) = .response r ∧
      r.status = 200 ∧
      getAll Interceptor.nameContentType r.headers = [(Interceptor.grpcContentType, false)] ∧
      getAll Interceptor.nameGrpcStatus r.headers = [(Interceptor.codeHeaderValue st.code, false)] ∧
      r.body = none ∧
      ∀ (inner : ρ → Nat → List Fr) (extra : Nat),
        bodyPolled inner r.body extra = List.replicate (extra + 1) Fr.eos ∧
        Spec.GrpcResponse.conformant
          { status := r.status, headers := r.headers, frames := bodyPolled inner r.body extra } = true := by
  obtain ⟨H, hH, hct, hgs, _⟩ := Interceptor.statusIntoHttp_headers () st
  refine ⟨{ status := 200, version := 11, headers := H, ext := [], body := none }, ?_, rfl, hct, hgs, rfl, ?_⟩
  · simp [recoverError, h, hH]
  · intro inner extra
    exact ⟨rfl, conformant_of_headers H st.code extra hct hgs⟩

/-- **The rest of the status travels too**: message (percent-encoded, absent iff empty), details
(base64, absent iff empty) and every custom metadata entry whose name is not one of tonic's
reserved names. -/
theorem C03_recovered_error_carries_status {ρ ε : Type} (chain : ε → List Link) (e : ε) (st : GStatus)
    (h : tryFromError (chain e) = some st) :
    ∃ r, recoverError (ρ := ρ) chain (.error e) = .response r ∧
      getAll Interceptor.nameGrpcMessage r.headers =
        (if st.message.isEmpty = false then [(Interceptor.percentEncode st.message, false)] else []) ∧
      getAll Interceptor.nameGrpcDetails r.headers =
        (if st.details.isEmpty = false then [(B64.encode false st.details, false)] else []) ∧
      ∀ k, k ≠ Interceptor.nameContentType → k ≠ Interceptor.nameGrpcStatus →
        k ≠ Interceptor.nameGrpcMessage → k ≠ Interceptor.nameGrpcDetails →
        getAll k r.headers = if k ∈ Interceptor.reservedHeaders then [] else getAll k st.metadata := by
  obtain ⟨H, hH, _, _, hm, hd, hk⟩ := Interceptor.statusIntoHttp_headers () st
  exact ⟨{ status := 200, version := 11, headers := H, ext := [], body := none },
    by simp [recoverError, h, hH], hm, hd, hk⟩

/-- **A response of the inner service passes through `RecoverError` unchanged** (status, version,
headers, extensions; the body is wrapped and delegates every poll). (Transcription lemma: it holds by unfolding the model's definition, so it pins the model's shape for the correspondence run — its assurance about tonic is the tie, not this proof.) -/
theorem C03_recover_ok_passthrough {ρ ε : Type} (chain : ε → List Link) (res : Response ρ)
    (inner : ρ → Nat → List Fr) (extra : Nat) :
    ∃ r, recoverError (ε := ε) chain (.ok res) = .response r ∧
      r.status = res.status ∧ r.version = res.version ∧ r.headers = res.headers ∧ r.ext = res.ext ∧
      bodyPolled inner r.body extra = inner res.body extra :=
  ⟨_, rfl, rfl, rfl, rfl, rfl, rfl⟩

/-- **An error in which no status can be found stays an error** (the connection layer then
resets the stream); nothing is invented. -/
theorem C03_recover_unconvertible_stays_error {ρ ε : Type} (chain : ε → List Link) (e : ε)
    (h : tryFromError (chain e) = none) :
    recoverError (ρ := ρ) chain (.error e) = .error e := by
  simp [recoverError, h]

/-- **Which status is found**: below any number of wrapper errors of unknown type, the first
`Status` is taken as it is, an expired timeout is CANCELLED "Timeout expired", a connect error
is UNAVAILABLE with its text; a chain of unknown errors only yields nothing. -/
theorem C03_try_from_error_chain (pre post : List Link) (hp : ∀ l ∈ pre, l = Link.opaque) :
    (∀ st, tryFromError (pre ++ Link.status st :: post) = some st) ∧
    tryFromError (pre ++ Link.timeout :: post) = some timeoutStatus ∧
    (∀ d, tryFromError (pre ++ Link.connect d :: post) = some (connectStatus d)) ∧
    tryFromError pre = none := by
  induction pre with
  | nil => exact ⟨fun _ => rfl, rfl, fun _ => rfl, rfl⟩
  | cons l pre ih =>
    have hl : l = Link.opaque := hp l List.mem_cons_self
    subst hl
    obtain ⟨a, b, c, d⟩ := ih (fun l hl => hp l (List.mem_cons_of_mem _ hl))
    have hstep : ∀ rest, tryFromError (Link.opaque :: rest) = findStatus rest := fun _ => rfl
    -- `tryFromError` and `findStatus` agree except on a top-level h2 error
    have hagree : ∀ rest : List Link, (∀ l ∈ pre, l = Link.opaque) →
        ∀ x, (x = Link.timeout ∨ (∃ st, x = Link.status st) ∨ ∃ d, x = Link.connect d) →
        findStatus (pre ++ x :: rest) = tryFromError (pre ++ x :: rest) := by
      intro rest hpre x hx
      cases pre with
      | nil => rcases hx with rfl | ⟨st, rfl⟩ | ⟨d, rfl⟩ <;> rfl
      | cons y ys =>
        have : y = Link.opaque := hpre y List.mem_cons_self
        subst this; rfl
    have hpre : ∀ l ∈ pre, l = Link.opaque := fun l hl => hp l (List.mem_cons_of_mem _ hl)
    have hnone : findStatus pre = tryFromError pre := by
      cases pre with
      | nil => rfl
      | cons y ys =>
        have : y = Link.opaque := hpre y List.mem_cons_self
        subst this; rfl
    refine ⟨fun st => ?_, ?_, fun dd => ?_, ?_⟩
    · rw [List.cons_append, hstep, hagree post hpre _ (Or.inr (Or.inl ⟨st, rfl⟩))]; exact a st
    · rw [List.cons_append, hstep, hagree post hpre _ (Or.inl rfl)]; exact b
    · rw [List.cons_append, hstep, hagree post hpre _ (Or.inr (Or.inr ⟨dd, rfl⟩))]; exact c dd
    · rw [hstep, hnone]; exact d

/-- **An expired server timeout is answered with a conformant trailers-only CANCELLED** — the
instance of `C03_recovered_error_response` that `Server::timeout` / `grpc-timeout` produce. -/
theorem C03_timeout_response {ρ ε : Type} (chain : ε → List Link) (e : ε) (pre post : List Link)
    (hp : ∀ l ∈ pre, l = Link.opaque) (hc : chain e = pre ++ Link.timeout :: post) :
    ∃ r, recoverError (ρ := ρ) chain (.error e) = .response r ∧ r.status = 200 ∧
      getAll Interceptor.nameContentType r.headers = [(Interceptor.grpcContentType, false)] ∧
      getAll Interceptor.nameGrpcStatus r.headers = [(str "1", false)] ∧ r.body = none := by
  have h : tryFromError (chain e) = some timeoutStatus := by
    rw [hc]; exact (C03_try_from_error_chain pre post hp).2.1
  obtain ⟨r, h1, h2, h3, h4, h5, _⟩ := C03_recovered_error_response (ρ := ρ) chain e timeoutStatus h
  exact ⟨r, h1, h2, h3, h4, h5⟩

/-- **Every trailers-only response written by `Status::into_http`** — the interceptor's
rejection, `Routes`' fallback, `RecoverError` — is accepted by the oracle, for every status. -/
theorem C03_status_into_http_conformant (st : GStatus) (extra : Nat) :
    ∃ r, Interceptor.statusIntoHttp () st = some r ∧
      Spec.GrpcResponse.conformant
        { status := r.status, headers := r.headers, frames := List.replicate (extra + 1) Fr.eos } = true := by
  obtain ⟨H, hH, hct, hgs, _⟩ := Interceptor.statusIntoHttp_headers () st
  exact ⟨_, hH, conformant_of_headers H st.code extra hct hgs⟩

/-- **An interceptor's rejection is a conformant trailers-only response** (`InterceptedService`
with the rejecting status `st`). -/
theorem C03_interceptor_rejection_conformant {ρ ε : Type} (st : GStatus) (extra : Nat) :
    ∃ r, Interceptor.rejectOutcomeWith Interceptor.addHeader (ρ := ρ) (ε := ε) st = .response r ∧
      r.body = Interceptor.RespBody.empty ∧
      Spec.GrpcResponse.conformant
        { status := r.status, headers := r.headers, frames := List.replicate (extra + 1) Fr.eos } = true := by
  obtain ⟨H, hH, hct, hgs, _⟩ := Interceptor.statusIntoHttp_headers () st
  have hH' : Interceptor.statusIntoHttpWith Interceptor.addHeader () st =
      some { status := 200, version := 11, headers := H, ext := [], body := () } := hH
  refine ⟨{ status := 200, version := 11, headers := H, ext := [], body := Interceptor.RespBody.empty }, ?_, rfl, ?_⟩
  · simp [Interceptor.rejectOutcomeWith, hH']
  · exact conformant_of_headers H st.code extra hct hgs

/-- **Unknown paths and unknown methods are answered with a conformant trailers-only
UNIMPLEMENTED**: `Routes`' fallback (also after axum added `content-length: 0`) and the default
arm of a generated server. -/
theorem C03_unimplemented_responses (extra : Nat) :
    (∃ r, routesFallback = some r ∧
      Spec.GrpcResponse.conformant
        { status := r.status, headers := r.headers, frames := List.replicate (extra + 1) Fr.eos } = true ∧
      Spec.GrpcResponse.conformant
        { status := (axumEmpty r).status, headers := (axumEmpty r).headers,
          frames := List.replicate (extra + 1) Fr.eos } = true ∧
      getAll Interceptor.nameGrpcStatus r.headers = [(str "12", false)]) ∧
    Spec.GrpcResponse.conformant
      { status := generatedUnimplemented.status, headers := generatedUnimplemented.headers,
        frames := List.replicate (extra + 1) Fr.eos } = true ∧
    Spec.GrpcResponse.conformant
      { status := (axumEmpty generatedUnimplemented).status, headers := (axumEmpty generatedUnimplemented).headers,
        frames := List.replicate (extra + 1) Fr.eos } = true ∧
    getAll Interceptor.nameGrpcStatus generatedUnimplemented.headers = [(str "12", false)] := by
  have hb : Spec.GrpcResponse.bodyLess (List.replicate (extra + 1) Fr.eos) = true := by
    simp [Spec.GrpcResponse.bodyLess, Spec.GrpcResponse.isEos]
  have key : ∀ (s : Nat) (H : Hdrs), s = 200 → Spec.GrpcResponse.contentTypeOk H = true →
      Spec.GrpcResponse.noStatus H = false → Spec.GrpcResponse.oneStatus H = true →
      Spec.GrpcResponse.conformant { status := s, headers := H, frames := List.replicate (extra + 1) Fr.eos } = true := by
    intro s H hs h1 h2 h3
    subst hs
    simp [Spec.GrpcResponse.conformant, Spec.GrpcResponse.clauses, h1, h2, h3, hb]
  refine ⟨⟨_, rfl, ?_, ?_, by decide⟩, ?_, ?_, by decide⟩
  all_goals exact key _ _ (by decide) (by decide) (by decide) (by decide)

/-- the seeded defect C03c as a model: `RecoverError` writing the status with `add_header` into a
fresh `Response::new` (no content-type) is rejected by the oracle, for every status.  (Witness
that the oracle clause is not vacuous.) -/
theorem C03_recover_without_into_http_fails (st : GStatus) (extra : Nat) :
    ∃ H, Interceptor.addHeader st [] = some H ∧
      Spec.GrpcResponse.conformant
        { status := 200, headers := H, frames := List.replicate (extra + 1) Fr.eos } = false := by
  obtain ⟨H, hH, hget⟩ := Interceptor.addHeader_getAll st []
  refine ⟨H, hH, ?_⟩
  obtain ⟨n1, n2, n3, n4, n5, n6⟩ := Interceptor.names_ne
  have hct : getAll Interceptor.nameContentType H = [] := by
    rw [hget Interceptor.nameContentType]
    have hmem : Interceptor.nameContentType ∈ Interceptor.reservedHeaders := by decide
    have : contains Interceptor.nameContentType (Interceptor.statusMetadataHeaders st) = false := by
      rw [contains_eq_false_iff, Interceptor.statusMetadataHeaders_getAll]
      simp [hmem]
    simp [n4, n5, n6, getAll_extend, this, getAll_nil]
  have : Spec.GrpcResponse.contentTypeOk H = false := by
    simp [Spec.GrpcResponse.contentTypeOk, names_eq.1, hct]
  simp [Spec.GrpcResponse.conformant, Spec.GrpcResponse.clauses, this]

end Producers

/- Non-vacuity: a schedule with a source error in the middle. -/
def idCodec : Codec Bytes := { ser := id, de := some, deErr := 13, cz := fun _ b => b, dz := fun _ b => some b }

example : Enc.run idCodec { comp := none, yieldThr := 0, maxSize := none, server := true } 5 Enc.init
      [.item [1, 2], .err ⟨5, .user⟩, .item [3]]
    = [.data [0, 0, 0, 0, 2, 1, 2], .trailers ⟨5, .user⟩, .none, .none, .none] := by decide

/- Non-vacuity of `C03_encode_failure_any_position`: an encoder failing on the third source event, with a
`Pending` and an encodable message before it and a message after it; both roles. -/
def failCodec : Codec Bytes := { idCodec with serFail := fun b => b.head? == some 255 }

example : AllOk failCodec { comp := none, yieldThr := 0, maxSize := none, server := true } [.item [1], .pending] ∧
    failCodec.serFail [255] = true := by
  refine ⟨?_, by decide⟩
  simp only [AllOk, and_true]
  decide
example : Enc.run failCodec { comp := none, yieldThr := 0, maxSize := none, server := true } 5 Enc.init
      [.item [1], .pending, .item [255], .item [2]]
    = [.data [0, 0, 0, 0, 1, 1], .pending, .trailers ⟨13, .encode⟩, .none, .none] := by decide
example : (Enc.run failCodec { comp := none, yieldThr := 0, maxSize := none, server := false } 5 Enc.init
      [.item [1], .pending, .item [255], .item [2]]).take 3
    = [.data [0, 0, 0, 0, 1, 1], .pending, .err ⟨13, .encode⟩] := by decide

/- Non-vacuity of the producer theorems: a wrapped status with forged metadata is found and
answered; a chain of unknown errors is not. -/
open HMapLite HttpLite RecoverError in
example : tryFromError [.opaque, .opaque, .status ⟨7, str "no", [1], [(str "content-type", (str "text/html", false))]⟩, .timeout]
    = some ⟨7, str "no", [1], [(str "content-type", (str "text/html", false))]⟩ := by decide
open RecoverError in
example : tryFromError [.opaque, .h2 8 [], .opaque] = none := by decide
open RecoverError in
example : (tryFromError [.h2 8 []]).map (·.code) = some 1 := by decide

end C03

/-! ### Dimension audit (builder aC03): the head of a NORMAL response, and `client::Grpc` as a value with a
history.  Correspondence: case kinds `wresp` (handler metadata `HM` with reserved names, all four entry points)
and `wreq` (`nth = 2`, `clone = 1`) of `harness/src/c03_wire.rs`.  Both kinds are ORACLE-ONLY: `Model/GrpcWire.lean`
is imported by this file alone, it predicts no case.  `C03_normal_response_head` is a genuine fact about that
model (sanitising + insertion over arbitrary metadata); the two history theorems are transcription lemmas. -/
namespace C03
section Wire
open HMapLite HttpLite Interceptor GrpcWire

private theorem ct_ne_enc : nameContentType ≠ nameGrpcEncoding := by decide
private theorem st_ne_enc : nameGrpcStatus ≠ nameGrpcEncoding := by decide
private theorem st_ne_ct : nameGrpcStatus ≠ nameContentType := by decide
private theorem st_reserved : nameGrpcStatus ∈ reservedHeaders := by decide

/-- **The head of a normal (not trailers-only) response is HTTP 200 with exactly one content-type,
`application/grpc`, and NO `grpc-status`** — whatever metadata the handler put on its `Response` (a forged
`grpc-status`, `content-type`, `te` … entry cannot reach the head: the one `grpc-status` of such a response is
the one in the trailers block, `C03_server_body_wellformed`) and whether or not an encoding is announced. -/
theorem C03_normal_response_head {ρ : Type} (metadata : Hdrs) (ext : Ext) (enc : Option Bytes) (b : ρ) :
    let r := mapResponseOk metadata ext enc b
    r.status = 200 ∧ r.body = b ∧
    getAll nameContentType r.headers = [(grpcContentType, false)] ∧
    getAll nameGrpcStatus r.headers = [] ∧
    getAll nameGrpcEncoding r.headers = (match enc with | some e => [(e, false)] | none => getAll nameGrpcEncoding metadata) := by
  have hs : getAll nameGrpcStatus (intoSanitizedHeaders metadata) = [] :=
    getAll_removeAll_mem _ _ _ st_reserved
  have he : getAll nameGrpcEncoding (intoSanitizedHeaders metadata) = getAll nameGrpcEncoding metadata :=
    getAll_removeAll_not_mem _ _ _ (by decide)
  cases enc with
  | none =>
    simp only [mapResponseOk, responseIntoHttp, true_and]
    refine ⟨getAll_insert_self _ _ _, ?_, ?_⟩
    · rw [getAll_insert_ne _ _ _ _ st_ne_ct]; exact hs
    · rw [getAll_insert_ne _ _ _ _ (Ne.symm ct_ne_enc)]; exact he
  | some e =>
    simp only [mapResponseOk, responseIntoHttp, true_and]
    refine ⟨?_, ?_, getAll_insert_self _ _ _⟩
    · rw [getAll_insert_ne _ _ _ _ ct_ne_enc]; exact getAll_insert_self _ _ _
    · rw [getAll_insert_ne _ _ _ _ st_ne_enc, getAll_insert_ne _ _ _ _ st_ne_ct]; exact hs

example : getAll nameGrpcStatus (mapResponseOk [(str "grpc-status", (str "0", false)), (str "x-user", (str "1", false))] [] none ()).headers = [] := by
  decide

/-- The slip of mutant aC03-2 (`Response::into_http` taking the metadata as it is): a handler whose response
metadata contains `grpc-status: 0` gets a `grpc-status` into the HEADERS of a response that also ends with a
trailers block — two `grpc-status` (corpus line `wresp u g … HM 1 677270632d737461747573 30 …`). -/
theorem C03_normal_response_head_unsanitized_fails :
    getAll nameGrpcStatus
      (mapResponseOkUnsanitized [(str "grpc-status", (str "0", false))] [] none ()).headers ≠ [] := by
  decide

/-- Transcription lemma: `GrpcWire.callOnce` returns its configuration argument unchanged BY DEFINITION, `run` is the
fold over it and `clone` is structure eta, so this statement holds for any request builder whatsoever put in
the place of `prepareRequest` — "the value has no memory" is built into the model, not proved of tonic.  What
it records: in the model, after every history of calls the value is what it was, a clone of it is the same
value, and the request of the next call — on the value or on a clone — is `prepare_request` of the
configuration, this call's path and this call's request alone (so `C03_request_line` applies to every call of a
history of THE MODEL).  That the real `client::Grpc` keeps nothing between calls is carried by the
correspondence run alone: the oracle-only case kind `wreq` with `nth = 2` / `clone = 1`
(`harness/src/c03_wire.rs`, verdict `Driver/C03Wire.lean`; `Model/GrpcWire.lean` is not the prediction of any
case kind — no driver imports it). -/
theorem C03_request_line_every_call {β : Type} (c : Cfg) (hist : List (Bytes × TRequest β))
    (path : Bytes) (t : TRequest β) :
    (run c hist).1 = c ∧ clone (run c hist).1 = c ∧
    (callOnce (clone (run c hist).1) path t).2 = prepareRequest c.originPrefix c.originPath c.originHasQuery path t := by
  have h : (run c hist).1 = c := by
    induction hist with
    | nil => rfl
    | cons x rest ih => obtain ⟨p, t'⟩ := x; simpa [run, callOnce] using ih
  refine ⟨h, ?_, ?_⟩
  · rw [h]; rfl
  · rw [h]; rfl

/-- Transcription lemma: same remark as `C03_request_line_every_call` — `run` threads the unchanged configuration
through `callOnce` by definition, so "every request a history sends is the one `prepare_request` builds for
that call alone" holds for any request builder; the assurance about the real value is the `wreq` (`nth = 2`,
`clone = 1`) oracle cases. -/
theorem C03_history_requests {β : Type} (c : Cfg) (hist : List (Bytes × TRequest β)) :
    (run c hist).2 = hist.map (fun pt => prepareRequest c.originPrefix c.originPath c.originHasQuery pt.1 pt.2) := by
  induction hist with
  | nil => rfl
  | cons x rest ih => obtain ⟨p, t'⟩ := x; simp [run, callOnce, ih]

/-- The slip of mutant aC03-3 (the value caches the first URI it built), as a second hand-written model: there the
second call of a history goes to the FIRST call's path (corpus: `wreq … <nth = 2> …`, first call
`/first.Svc/Other`).  This shows that the request-line clause would notice such a cache (the clause is not
vacuous over histories); it does not show that tonic has none — that is the `wreq` correspondence. -/
theorem C03_request_line_fails_with_cached_uri :
    let t : TRequest Unit := { metadata := [], message := (), extensions := [] }
    let s0 : CachedSt := { cfg := { originPrefix := str "http://h", originPath := [], originHasQuery := false }, uri := none }
    let s1 := (callCached s0 (str "/first.Svc/Other") t).1
    (callCached s1 (str "/pkg.Svc/Method") t).2.uri = str "http://h/first.Svc/Other" ∧
    (callCached s1 (str "/pkg.Svc/Method") t).2.uri ≠ str "http://h/pkg.Svc/Method" := by
  decide

end Wire
end C03
