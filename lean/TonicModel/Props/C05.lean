import TonicModel.Model.Compression
import TonicModel.Spec.Compression
namespace C05
open CompObs Compression

/-- The code as found at the pinned commit picks an encoding the server was not configured to
send: send = {gzip}, `grpc-accept-encoding: zstd,gzip` ⇒ zstd (DESIGN §5.4). -/
theorem C05_server_choice_fails_before_fix :
    ¬ (∀ (s : Slots) (vals : List Bytes) (e : Enc),
        Orig.fromAcceptEncodingHeader vals s = some e → isEnabled s e = true) := by
  intro h
  have := h (runCalls [.en .gzip]) [zstdName ++ [44] ++ gzipName] .zstd (by decide)
  revert this
  decide

end C05
