import TonicModel.Lemmas.Compression
import TonicModel.Lemmas.CompressionHttp
/-
C05 — Compression is used only as negotiated and configured.
Property theorems only; helper lemmas live in `Lemmas/Compression`.

Reading guide.  `Compression.*` is the model of the code (after
`fixes/fix-C05-accept-encoding-enabled.patch`; the code as found is `Compression.Orig.*`);
`Spec.Compression.*` is the oracle.  `configure direct cs` is the 3-slot array a server ends up
with after the configuration calls `cs` (either route), `enabledAfter cs` the naive set those
calls denote.  Every theorem quantifies over all call sequences, all header byte strings, all
frame lists, all four call shapes and all handler scripts; none has a size bound.
-/
namespace C05
open CompObs Compression Spec.Compression

/-! ### what "configured" and "offers" mean -/

/-- Whatever the order, repetition and `pop`s of the configuration calls, and on both routes
(builder calls on `server::Grpc`, or a generated server's stored set copied by
`apply_compression_config`), an encoding is enabled iff the calls enabled it: the 3-slot array
never overflows and never drops or invents an entry. -/
theorem C05_configuration (direct : Bool) (cs : List Call) (e : Enc) :
    isEnabled (configure direct cs) e = (enabledAfter cs).contains e :=
  configure_agree direct cs e

/-- The executable test used by the oracle (`offersB`: split on commas, strip SP/HTAB, compare)
decides exactly the declarative reading of "the header value offers `e`". -/
theorem C05_offers_decidable (v : Bytes) (e : Enc) : offersB v e = true ↔ Offers v e :=
  offersB_iff v e

/-! ### sentence 1: the server's choice -/

/-- A server compresses only with an encoding it was configured to send and that the request's
`grpc-accept-encoding` offers — for every state of the enabled set and every list of header
values (any bytes). -/
theorem C05_server_choice (s : Slots) (vals : List Bytes) (e : Enc)
    (h : fromAcceptEncodingHeader vals s = some e) :
    isEnabled s e = true ∧ ∃ v rest, vals = v :: rest ∧ Offers v e := by
  obtain ⟨hen, v, rest, hv, ho⟩ := fromAccept_some vals s e h
  exact ⟨hen, v, rest, hv, (offersB_iff v e).mp ho⟩

/-- … and it is the client's first listed encoding among those the server may send (so a
mutually acceptable encoding is never passed over), for every visible-ASCII value. -/
theorem C05_server_choice_first_mutual (direct : Bool) (cs : List Call) (v : Bytes)
    (rest : List Bytes) (hv : v.all Ascii.isVisible = true) :
    fromAcceptEncodingHeader (v :: rest) (configure direct cs) = firstMutual (enabledAfter cs) v :=
  fromAccept_spec _ _ (configure_agree direct cs) v rest hv

/-- Completeness: if some configured encoding is offered, the server does compress. -/
theorem C05_server_choice_complete (direct : Bool) (cs : List Call) (v : Bytes) (rest : List Bytes)
    (e : Enc) (hv : v.all Ascii.isVisible = true) (he : (enabledAfter cs).contains e = true)
    (ho : Offers v e) : fromAcceptEncodingHeader (v :: rest) (configure direct cs) ≠ none := by
  rw [C05_server_choice_first_mutual direct cs v rest hv]
  intro hn
  unfold firstMutual at hn
  rw [List.findSome?_eq_none_iff] at hn
  have hmem : name e ∈ tokens v := by
    have := (offersB_iff v e).mpr ho
    simpa [offersB] using this
  have := hn _ hmem
  rw [← asStr_eq_name, nameOf_asStr] at this
  have hm : e ∈ enabledAfter cs := by simpa using he
  simp [Option.filter, hm] at this

/-- A value that is not visible ASCII offers nothing: identity is sent. -/
theorem C05_server_choice_non_ascii (s : Slots) (v : Bytes) (rest : List Bytes)
    (hv : v.all Ascii.isVisible = false) : fromAcceptEncodingHeader (v :: rest) s = none := by
  unfold fromAcceptEncodingHeader toStrOk
  simp [hv]

/-- The code as found at the pinned commit violates sentence 1: send = {gzip},
`grpc-accept-encoding: zstd,gzip` ⇒ zstd is chosen (DESIGN §5.4).  Replayed on the real code by
the first corpus case of `harness/src/c05.rs`. -/
theorem C05_server_choice_fails_before_fix :
    ¬ (∀ (s : Slots) (vals : List Bytes) (e : Enc),
        Orig.fromAcceptEncodingHeader vals s = some e → isEnabled s e = true) := by
  intro h
  have := h (configure true [.en .gzip]) [zstdName ++ [44] ++ gzipName] .zstd (by decide)
  revert this
  decide

/-! ### the server as observed (all shapes, all requests, all handler scripts) -/

/-- Observable form of sentence 1: every `grpc-encoding` the response carries names an encoding
configured for sending and offered by the request; there is at most one.  (Guard: the handler
does not itself put `grpc-encoding` into the response metadata — see
`C05_server_choice_fails_with_forged_metadata`.) -/
theorem C05_server_response_choice (direct : Bool) (acc snd : List Call) (req : SrvReq)
    (h : Handler) (hmd : h.forges = false) :
    srvChoice (enabledAfter snd) req
      (serve (configure direct acc) (configure direct snd) req h) = true :=
  serve_choice _ _ _ (configure_agree direct snd) req h hmd

/-- Without the guard the statement is false of the code: `grpc-encoding` is not a reserved
metadata name and `map_response` inserts its own value only when an encoding was chosen, so a
handler's own `grpc-encoding: gzip` reaches the wire on a server configured to send nothing
(known finding C05-F1; the witness is in the harness corpus). -/
theorem C05_server_choice_fails_with_forged_metadata :
    ¬ (∀ (direct : Bool) (acc snd : List Call) (req : SrvReq) (h : Handler),
        srvChoice (enabledAfter snd) req
          (serve (configure direct acc) (configure direct snd) req h) = true) := by
  intro h
  have := h true [] [] ⟨.unary, [], [gzipName], [⟨0, .raw⟩]⟩ (.reply 1 false [gzipName])
  revert this
  decide

/-- "announces it in grpc-encoding exactly when one is chosen": every response other than a
trailers-only error (i.e. every response that can carry messages, `grpc-status` in the trailers)
announces precisely the chosen encoding — nothing if none was chosen.  (A trailers-only error
response carries no message and no `grpc-encoding`: `C05_server_response_choice`.) -/
theorem C05_server_announces_iff_chosen (direct : Bool) (acc snd : List Call) (req : SrvReq)
    (h : Handler) (hmd : h.forges = false) :
    let o := serve (configure direct acc) (configure direct snd) req h
    o.stWhere = .trl →
      o.enc = ((fromAcceptEncodingHeader req.accVals (configure direct snd)).map name).toList :=
  serve_enc_trl _ _ req h hmd

/-- "… and otherwise sends identity": every message of every response is either flag 0 with the
message bytes themselves, or flag 1 compressed with exactly the announced encoding. -/
theorem C05_server_compresses_only_as_announced (direct : Bool) (acc snd : List Call)
    (req : SrvReq) (h : Handler) :
    srvAnnounce (serve (configure direct acc) (configure direct snd) req h) = true :=
  serve_announce _ _ req h

/-! ### sentence 2: refusing what was not enabled for receiving; flag without encoding -/

/-- A request whose `grpc-encoding` is not enabled for receiving is refused with UNIMPLEMENTED
before the handler runs, answering with a `grpc-accept-encoding` that lists precisely the enabled
encodings; no other request is refused on those grounds. -/
theorem C05_reject_unsupported (direct : Bool) (acc snd : List Call) (req : SrvReq) (h : Handler) :
    srvReject (enabledAfter acc) req
      (serve (configure direct acc) (configure direct snd) req h) = true :=
  serve_reject _ _ _ (configure_agree direct acc) req h

/-- What `recv … = refuse` says: there is a `grpc-encoding` value, it is not `identity`, and it
is not the name of an enabled encoding. -/
theorem C05_refuse_meaning (enabled : List Enc) (vals : List Bytes) :
    recv enabled vals = .refuse ↔
      ∃ v rest, vals = v :: rest ∧ v ≠ identity ∧ ∀ e, enabled.contains e = true → v ≠ name e :=
  recv_refuse_iff enabled vals

/-- What `acceptListOk` says: one value, and an encoding's name is among its elements iff the
encoding is enabled (every other element is `identity`). -/
theorem C05_accept_list_meaning (enabled : List Enc) (vals : List Bytes)
    (h : acceptListOk enabled vals = true) :
    ∃ v, vals = [v] ∧ (∀ e, Offers v e ↔ enabled.contains e = true) ∧
      ∀ t ∈ tokens v, t = identity ∨ ∃ e, t = name e := by
  obtain ⟨v, hv, h1, h2⟩ := acceptListOk_meaning enabled vals h
  exact ⟨v, hv, fun e => by rw [← offersB_iff]; exact h1 e, h2⟩

/-- One frame header: a message flagged as compressed is decoded with the negotiated encoding
and with nothing else; with no negotiated encoding it is the INTERNAL "compressed-flag but no
grpc-encoding" error; flag 0 is never decompressed; any other flag is an error. -/
theorem C05_flag_header (neg : Option Enc) (flag : UInt8) :
    (decodeFlag neg flag = .error .noEncoding ↔ flag = 1 ∧ neg = none) ∧
    (∀ c, decodeFlag neg flag = .ok c ↔ (flag = 0 ∧ c = none) ∨ (flag = 1 ∧ c = neg ∧ neg ≠ none)) := by
  unfold decodeFlag
  by_cases h0 : flag = 0
  · subst h0; simp [eq_comm]
  · by_cases h1 : flag = 1
    · subst h1; cases neg <;> simp [eq_comm]
    · simp [h0, h1]

/-- A message flagged as compressed when no encoding was negotiated is rejected with INTERNAL:
the call fails with status 13 (class "compressed-flag but no grpc-encoding"), that message and
all later ones never reach the handler, nothing is sent back — at any position in the request
stream, for all shapes. -/
theorem C05_flag_without_encoding (direct : Bool) (acc snd : List Call) (req : SrvReq)
    (h : Handler) :
    srvFlag (enabledAfter acc) req
      (serve (configure direct acc) (configure direct snd) req h) = true :=
  serve_flag _ _ _ (configure_agree direct acc) req h

/-- Conversely an acceptable request that is well-formed for the negotiated encoding reaches the
handler, each message decoded with exactly that encoding (flag 1) or untouched (flag 0). -/
theorem C05_acceptable_request_delivered (direct : Bool) (acc snd : List Call) (req : SrvReq)
    (h : Handler) :
    srvDeliver (enabledAfter acc) req
      (serve (configure direct acc) (configure direct snd) req h) = true :=
  serve_deliver _ _ _ (configure_agree direct acc) req h

/-! ### sentence 3: the client -/

/-- the `send_compressed` calls of a client: the last one wins -/
def sendOf (cs : List Enc) : Option Enc := cs.getLast?

/-- A client compresses every request message with exactly the encoding it was told to send and
says so in `grpc-encoding`; told nothing, it sends identity and no `grpc-encoding`.  (Guard: the
caller's own metadata carries no `grpc-encoding`.) -/
theorem C05_client_sends_configured (send : List Enc) (acc : List Call) (shape : Shape)
    (umdAcc : List Bytes) (k : Nat) (resp : CliResp) :
    cliSend (sendOf send)
      (call { send := sendOf send, accept := configure true acc } shape [] umdAcc k resp) = true :=
  call_send { send := sendOf send, accept := configure true acc } shape umdAcc k resp

/-- Without the guards the two client statements are false of the code: the caller's own
`grpc-encoding` / `grpc-accept-encoding` metadata pass through `prepare_request` when the
corresponding setting was never configured (known findings C05-F2, C05-F3). -/
theorem C05_client_headers_fail_with_forged_metadata :
    ¬ (∀ (umdEnc umdAcc : List Bytes) (resp : CliResp),
        cliSend none (call { send := none, accept := configure true [] } .unary umdEnc umdAcc 1 resp) = true ∧
        cliAdvertise [] (call { send := none, accept := configure true [] } .unary umdEnc umdAcc 1 resp) = true) := by
  intro h
  have := h [gzipName] [gzipName] { encVals := [], hdrStatus := none, frames := [⟨0, .raw⟩], trlStatus := some 0 }
  revert this
  decide

/-- A client advertises exactly the encodings it accepts: no header if it accepts none,
otherwise one value listing precisely them (plus `identity`).  (Guard: the caller's own metadata
carries no `grpc-accept-encoding`.) -/
theorem C05_client_advertises_accepted (send : Option Enc) (acc : List Call) (shape : Shape)
    (umdEnc : List Bytes) (k : Nat) (resp : CliResp) :
    cliAdvertise (enabledAfter acc)
      (call { send, accept := configure true acc } shape umdEnc [] k resp) = true :=
  call_advertise _ _ (configure_agree true acc) shape umdEnc k resp

/-- A response whose `grpc-encoding` is not enabled for receiving is refused with
UNIMPLEMENTED; no other response is (guard: the peer's own status, which the client passes on
verbatim, is not itself such a refusal). -/
theorem C05_client_refuses_unsupported (send : Option Enc) (acc : List Call) (shape : Shape)
    (umdEnc umdAcc : List Bytes) (k : Nat) (resp : CliResp) (hp : resp.peerCls ≠ .unsupported) :
    cliRefuse (enabledAfter acc) resp
      (call { send, accept := configure true acc } shape umdEnc umdAcc k resp) = true :=
  call_refuse _ _ (configure_agree true acc) shape umdEnc umdAcc k resp hp

/-- Client side of "flag without negotiated encoding ⇒ INTERNAL". -/
theorem C05_client_flag_without_encoding (send : Option Enc) (acc : List Call) (shape : Shape)
    (umdEnc umdAcc : List Bytes) (k : Nat) (resp : CliResp) :
    cliFlag (enabledAfter acc) resp
      (call { send, accept := configure true acc } shape umdEnc umdAcc k resp) = true :=
  call_flag _ _ (configure_agree true acc) shape umdEnc umdAcc k resp

/-- An acceptable, well-formed, successful response is delivered decoded by exactly the
negotiated encoding. -/
theorem C05_client_response_delivered (send : Option Enc) (acc : List Call) (shape : Shape)
    (umdEnc umdAcc : List Bytes) (k : Nat) (resp : CliResp) :
    cliDeliver (enabledAfter acc) shape resp
      (call { send, accept := configure true acc } shape umdEnc umdAcc k resp) = true :=
  call_deliver _ _ (configure_agree true acc) shape umdEnc umdAcc k resp

/-! ### the response's HTTP status (dimension audit) -/

/-- Whatever the HTTP status of the response (200 or not; `callHttp` follows `create_response`,
`Streaming::new_response` and `infer_grpc_status` for the others): a response whose
`grpc-encoding` is not enabled for receiving is refused with UNIMPLEMENTED, and — UNDER THE GUARD `hp`, the
same as in `C05_client_refuses_unsupported`: the peer's own status, which the client passes on verbatim, is not
itself such a refusal — no other response is.  The encoding check comes before anything the HTTP status
decides.  Without the guard the "no other" half is false: `C05_client_refusal_needs_the_peer_guard`. -/
theorem C05_client_refuses_unsupported_any_http_status (send : Option Enc) (acc : List Call)
    (shape : Shape) (umdEnc umdAcc : List Bytes) (k http : Nat) (resp : CliResp)
    (hp : resp.peerCls ≠ .unsupported) :
    cliRefuse (enabledAfter acc) resp
      (callHttp { send, accept := configure true acc } shape umdEnc umdAcc k http resp) = true :=
  callHttp_refuse _ _ (configure_agree true acc) shape umdEnc umdAcc k http resp hp

/-- The guard `hp` of the two refusal theorems is needed: a peer (another tonic, say) whose own trailers carry
the refusal status — UNIMPLEMENTED of class `unsupported` — for a response the client has no reason to refuse
(`grpc-encoding` absent) makes the caller see that status, which the clause "no other response is refused"
cannot tell from the client's own refusal. -/
theorem C05_client_refusal_needs_the_peer_guard :
    ¬ (∀ (http : Nat) (resp : CliResp),
        cliRefuse [.gzip] resp
          (callHttp { send := none, accept := configure true [.en .gzip] } .unary [] [] 1 http resp) = true) := by
  intro h
  have := h 200 { encVals := [], hdrStatus := none, frames := [], trlStatus := some 12, peerCls := .unsupported }
  revert this
  decide

/-- What the client sends and advertises does not depend on how the peer's answer looks (its HTTP
status included): the two client statements hold for every HTTP status UNDER THE SAME GUARDS as their
HTTP-200 forms `C05_client_sends_configured` / `C05_client_advertises_accepted` — the caller's own metadata
carries no `grpc-encoding` (first conjunct; its `grpc-accept-encoding` values `umdAcc` are arbitrary), resp. no
`grpc-accept-encoding` (second conjunct; its `grpc-encoding` values `umdEnc` are arbitrary).  Without these
guards both statements are false for every status: `C05_client_headers_fail_with_forged_metadata`. -/
theorem C05_client_request_any_http_status (send : List Enc) (acc : List Call) (shape : Shape)
    (umdEnc umdAcc : List Bytes) (k http : Nat) (resp : CliResp) :
    cliSend (sendOf send)
      (callHttp { send := sendOf send, accept := configure true acc } shape [] umdAcc k http resp) = true ∧
    cliAdvertise (enabledAfter acc)
      (callHttp { send := sendOf send, accept := configure true acc } shape umdEnc [] k http resp) = true := by
  constructor
  · obtain ⟨h1, _, h3⟩ := callHttp_request { send := sendOf send, accept := configure true acc } shape [] umdAcc k http resp
    rw [cliSend_congr _ _ _ h1 h3]
    exact call_send { send := sendOf send, accept := configure true acc } shape umdAcc k resp
  · obtain ⟨_, h2, _⟩ := callHttp_request { send := sendOf send, accept := configure true acc } shape umdEnc [] k http resp
    rw [cliAdvertise_congr _ _ _ h2]
    exact call_advertise _ _ (configure_agree true acc) shape umdEnc k resp

/-- A client that looked at the HTTP status first (skipping the encoding check for a non-200
response, `callHttpLax`) would violate the refusal clause: accept = {gzip}, a 503 whose head says
`grpc-encoding: deflate` is then reported as UNAVAILABLE instead of UNIMPLEMENTED. -/
theorem C05_client_refusal_fails_if_http_status_is_consulted_first :
    ¬ (∀ (http : Nat) (resp : CliResp), resp.peerCls ≠ .unsupported →
        cliRefuse [.gzip] resp
          (callHttpLax { send := none, accept := configure true [.en .gzip] } .unary [] [] 1 http resp) = true) := by
  intro h
  have := h 503 { encVals := [deflateName], hdrStatus := none, frames := [], trlStatus := none } (by decide)
  revert this
  decide

/-! ### both together: any tonic client against any tonic server -/

/-- Whatever the two configurations (any call sequences on either side, either server route),
shape, stream length and handler script: the call is refused with UNIMPLEMENTED — the server's
accept list reaching the caller — exactly when the client sends an encoding the server does not
accept; otherwise every request message reaches the handler intact, the response is compressed
with the first encoding in the client's advertised order that the server may send (identity if
there is none), and the caller receives every response message intact: a tonic client never
refuses or garbles what a tonic server chooses to send it.  (`pairOk` is evaluated on the real
pair for the full 4 × 16 × 16 × 16 matrix of ordered subsets on every run.) -/
theorem C05_tonic_pair (send : Option Enc) (cacc : List Call) (direct : Bool) (sacc ssnd : List Call)
    (shape : Shape) (k : Nat) (h : Handler) (hmd : h.forges = false) :
    let r := pair { send, accept := configure true cacc } (configure direct sacc)
      (configure direct ssnd) shape k h
    pairOk send (enabledAfter cacc) (enabledAfter sacc) (enabledAfter ssnd) shape k h r.1 r.2 = true :=
  pair_ok { send, accept := configure true cacc } _ (configure_agree true cacc)
    (enabledList_configure cacc) _ _ _ _ (configure_agree direct sacc) (configure_agree direct ssnd)
    shape k h hmd

/-! ### non-vacuity -/

-- "deflate ,\tgzip" offers gzip (declaratively), "gzipp, GZIP" does not
example : Offers [100, 101, 102, 108, 97, 116, 101, 32, 44, 9, 103, 122, 105, 112] .gzip :=
  (offersB_iff _ _).mp (by decide)
example : ¬ Offers [103, 122, 105, 112, 112, 44, 32, 71, 90, 73, 80] .gzip :=
  fun h => absurd ((offersB_iff _ _).mpr h) (by decide)
-- the §5.4 witness on the fixed model: send = {gzip}, "zstd,gzip" ⇒ gzip
example : fromAcceptEncodingHeader [zstdName ++ [44] ++ gzipName] (configure true [.en .gzip]) = some .gzip := by
  decide
-- call sequences with repeats and pops satisfy the hypotheses of the configuration theorem
example : enabledAfter [.en .zstd, .en .gzip, .en .zstd, .pop, .en .deflate] = [.zstd, .deflate] := by decide
example : recv [.gzip] [name .deflate] = .refuse ∧ recv [.gzip] [identity] = .identity := by decide
-- a request refused: accept = {zstd, gzip}, `grpc-encoding: deflate`
example : (serve (configure false [.en .zstd, .en .gzip]) (configure false []) ⟨.unary, [deflateName], [], [⟨1, .z .deflate⟩]⟩
    (.reply 1 false [])).acc = [gzipName ++ [44] ++ zstdName ++ [44] ++ identityName] := by decide
-- a flagged message without negotiated encoding, second in a client stream
example : (serve (configure true []) (configure true []) ⟨.bidi, [], [], [⟨0, .raw⟩, ⟨1, .z .gzip⟩]⟩
    (.reply 2 false [])).saw = [.ok .raw, .err 13 .flagNoEnc] := by decide

-- a pair that is refused, and one that negotiates deflate (client prefers zstd, server cannot send it)
example : (pair { send := some .zstd, accept := configure true [] } (configure true [.en .gzip])
    (configure true []) .unary 1 (.reply 1 false [])).2.result = [.err 12 .unsupported] := by decide
example : (pair { send := none, accept := configure true [.en .zstd, .en .deflate, .en .gzip] }
    (configure false []) (configure false [.en .gzip, .en .deflate]) .serverStreaming 1
    (.reply 2 false [])).1.frames = [⟨1, .z .deflate⟩, ⟨1, .z .deflate⟩] := by decide

end C05
