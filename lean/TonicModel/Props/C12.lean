import TonicModel.Model.Interceptor
import TonicModel.Spec.Interceptor
import TonicModel.Lemmas.Interceptor
import TonicModel.Lemmas.InterceptorSched
/-
C12 — Interceptors change only what they change and can veto a call.
Property theorems only; helper lemmas live in `Lemmas/Interceptor.lean` and `Basic/HMapLite.lean`.

Throughout: `f` is an arbitrary stateful interceptor (any function on metadata × extensions),
`inner` an arbitrary stateful wrapped service, `β`/`ρ` arbitrary body types, `req` an arbitrary
request (any method / version / URI tokens, any header list, any extensions).
-/
namespace C12
open HMapLite HttpLite Interceptor

variable {σ ι β ρ ε : Type}

/-- The observable part of a response, for the oracle.  The wrapped body's own end-of-stream
flag and frames are parameters (a rejection never consults them). -/
def viewOf (innerEos : ρ → Bool) (innerFrames : ρ → Body) (r : Response (RespBody ρ)) :
    Spec.Interceptor.RespView :=
  { status := r.status, headers := r.headers,
    endStream := RespBody.isEndStream innerEos r.body,
    frames := (RespBody.frames innerFrames r.body).chunks.length +
              (if (RespBody.frames innerFrames r.body).trailers.isSome then 1 else 0) }

/-- The interceptor is given exactly the request's header map and extensions, and nothing else
of the call depends on it: two interceptors that answer alike on that input give the same call. -/
theorem C12_interceptor_input (f g : Icpt σ) (inner : Inner ι β ρ ε) (s : σ) (i : ι) (req : Request β)
    (h : f s (req.headers, req.ext) = g s (req.headers, req.ext)) :
    call f inner s i req = call g inner s i req := by
  simp only [call, callWith, fromHttp, intoParts, fromParts, metadataFromHeaders]
  rw [h]

/-- Said with a recording interceptor: during one call the interceptor is invoked exactly once,
on exactly the request's header map (every header, reserved names included) and extensions. -/
theorem C12_interceptor_invoked_once (f : Icpt σ) (inner : Inner ι β ρ ε) (s : σ) (i : ι) (req : Request β) :
    (call (logged f) inner (s, []) i req).icpt.2 =
      [((req.headers, req.ext), (f s (req.headers, req.ext)).2)] := by
  simp only [call, callWith, fromHttp, intoParts, fromParts, metadataFromHeaders, logged]
  cases hf : f s (req.headers, req.ext) with
  | mk s' d =>
    cases d with
    | error st => simp
    | ok p =>
      obtain ⟨md, x⟩ := p
      simp only [intoHttp, metadataIntoHeaders]
      cases inner i { method := req.method, version := req.version, uri := req.uri, headers := md,
                      ext := x, body := req.body } with
      | mk i' r => cases r <;> simp

/-- Accept: the wrapped service is invoked, and the request it receives is the original one
with the header map and extensions replaced by the interceptor's — same URI, method, version
and body (the literal record, so every header the interceptor left in its map is there, reserved
names included). -/
theorem C12_accept (f : Icpt σ) (inner : Inner ι β ρ ε) (s s' : σ) (i : ι) (req : Request β)
    (md' : Hdrs) (ext' : Ext) (h : f s (req.headers, req.ext) = (s', .ok (md', ext'))) :
    (call f inner s i req).innerSaw = some { req with headers := md', ext := ext' } ∧
    (call f inner s i req).icpt = s' := by
  simp only [call, callWith, fromHttp, intoParts, fromParts, metadataFromHeaders, h, intoHttp,
    metadataIntoHeaders]
  cases inner i { method := req.method, version := req.version, uri := req.uri, headers := md',
                  ext := ext', body := req.body } with
  | mk i' r => cases r <;> simp

/-- What a server handler sees after `Request::from_http` of the request the wrapped service got:
the interceptor's metadata and extensions (the documented way to hand data from an interceptor
to an RPC: `extensions_mut().insert(..)` then `extensions().get()`), and the original message. -/
theorem C12_handler_view (f : Icpt σ) (inner : Inner ι β ρ ε) (s s' : σ) (i : ι) (req : Request β)
    (md' : Hdrs) (ext' : Ext) (h : f s (req.headers, req.ext) = (s', .ok (md', ext'))) :
    (call f inner s i req).innerSaw.map fromHttp =
      some { metadata := md', message := req.body, extensions := ext' } := by
  rw [(C12_accept f inner s s' i req md' ext' h).1]
  rfl

/-- Back-pressure: readiness of the intercepted service is the wrapped service's — pending stays
pending, a readiness error is passed on, and the interceptor plays no part. (Transcription lemma: it holds by unfolding the model's definition, so it pins the model's shape for the correspondence run — its assurance about tonic is the tie, not this proof.) -/
theorem C12_poll_ready (innerReady : ι → Poll ε) (i : ι) : pollReady innerReady i = innerReady i := rfl

/-- Accept, as the oracle judges it: all accept clauses of `Spec.Interceptor` hold of what the
wrapped service saw. -/
theorem C12_accept_spec [BEq β] [ReflBEq β] (f : Icpt σ) (inner : Inner ι β ρ ε) (s s' : σ) (i : ι)
    (req : Request β) (md' : Hdrs) (ext' : Ext)
    (h : f s (req.headers, req.ext) = (s', .ok (md', ext'))) :
    Spec.Interceptor.allOk
      (Spec.Interceptor.acceptClauses req md' ext' (call f inner s i req).innerSaw) = true := by
  rw [(C12_accept f inner s s' i req md' ext' h).1]
  simp [Spec.Interceptor.allOk, Spec.Interceptor.acceptClauses, hdrsEq_refl, extEq_refl]

/-- Accept: the caller gets the wrapped service's answer untouched — same status, version,
headers, extensions, the body merely wrapped; an error of the wrapped service is passed on. -/
theorem C12_response_passthrough (f : Icpt σ) (inner : Inner ι β ρ ε) (s s' : σ) (i : ι)
    (req : Request β) (md' : Hdrs) (ext' : Ext)
    (h : f s (req.headers, req.ext) = (s', .ok (md', ext'))) :
    (call f inner s i req).inner = (inner i { req with headers := md', ext := ext' }).1 ∧
    (call f inner s i req).out =
      (match (inner i { req with headers := md', ext := ext' }).2 with
       | .ok res => .response { status := res.status, version := res.version, headers := res.headers,
                                ext := res.ext, body := RespBody.wrap res.body }
       | .error e => .error e) := by
  simp only [call, callWith, fromHttp, intoParts, fromParts, metadataFromHeaders, h, intoHttp,
    metadataIntoHeaders]
  cases inner i { method := req.method, version := req.version, uri := req.uri, headers := md',
                  ext := ext', body := req.body } with
  | mk i' r => cases r <;> simp

/-- The wrapped body is delegated to: end-of-stream flag, size hint and frames of the response
body are the wrapped service's. (Transcription lemma: it holds by unfolding the model's definition, so it pins the model's shape for the correspondence run — its assurance about tonic is the tie, not this proof.) -/
theorem C12_response_body_delegates (eos : ρ → Bool) (size : ρ → Nat) (frames : ρ → Body) (b : ρ) :
    RespBody.isEndStream eos (RespBody.wrap b) = eos b ∧
    RespBody.sizeHint size (RespBody.wrap b) = size b ∧
    RespBody.frames frames (RespBody.wrap b) = frames b := ⟨rfl, rfl, rfl⟩

/-! ### reject -/

/-- Reject: the wrapped service is not invoked (its state is untouched), the response future
does not panic, and the response is a trailers-only gRPC response that the spec's own decoder
reads back as precisely the interceptor's status: HTTP 200, `application/grpc`, `grpc-status` =
the code, `grpc-message` percent-decoding to the message (absent iff empty), details base64-
decoding to the details (absent iff empty), every non-reserved metadata name with exactly the
status's values, and an empty body that reports end-of-stream.  For every status (any code
0..16, any message bytes, any details, any metadata — reserved and repeated names included). -/
theorem C12_reject (f : Icpt σ) (inner : Inner ι β ρ ε) (s s' : σ) (i : ι) (req : Request β)
    (st : GStatus) (hcode : st.code ≤ 16)
    (h : f s (req.headers, req.ext) = (s', .error st))
    (eos : ρ → Bool) (frames : ρ → Body) :
    (call f inner s i req).innerSaw = none ∧ (call f inner s i req).inner = i ∧
    (call f inner s i req).icpt = s' ∧
    ∃ r, (call f inner s i req).out = .response r ∧
      Spec.Interceptor.allOk (Spec.Interceptor.rejectClauses st false (viewOf eos frames r)) = true := by
  obtain ⟨H, hH, hct, hst, hmsg, hdet, hrest⟩ := statusIntoHttp_headers () st
  obtain ⟨r1, r2, r3, r4, r5⟩ := reserved_names
  refine ⟨?_, ?_, ?_, ?_⟩
  · simp [call, callWith, fromHttp, intoParts, fromParts, metadataFromHeaders, h]
  · simp [call, callWith, fromHttp, intoParts, fromParts, metadataFromHeaders, h]
  · simp [call, callWith, fromHttp, intoParts, fromParts, metadataFromHeaders, h]
  · refine ⟨{ status := 200, version := 11, headers := H, ext := [], body := RespBody.empty }, ?_, ?_⟩
    · simp only [statusIntoHttp] at hH
      simp [call, callWith, fromHttp, intoParts, fromParts, metadataFromHeaders, h, rejectOutcomeWith, hH]
    · have hcode := code_table ⟨st.code, by omega⟩
      have e1 : str "content-type" = nameContentType := rfl
      have e2 : str "grpc-status" = nameGrpcStatus := rfl
      have e3 : str "grpc-message" = nameGrpcMessage := rfl
      have e4 : str "grpc-status-details-bin" = nameGrpcDetails := rfl
      simp only [Spec.Interceptor.allOk, Spec.Interceptor.rejectClauses, viewOf, List.all_cons,
        List.all_nil, Bool.and_true, Bool.and_eq_true]
      refine ⟨by simp, by simp, ?_, ?_, ?_, ?_, ?_, ?_⟩
      · rw [e1, hct]; decide
      · rw [e2, hst]; simp [hcode.1, hcode.2.1, hcode.2.2]
      · rw [e3, hmsg]
        cases hm : st.message.isEmpty
        · simp [percentDecode_percentEncode]
        · simp
      · rw [e4, hdet]
        cases hd : st.details.isEmpty
        · simp [B64.decode_encode]
        · simp
      · simp only [List.all_eq_true, Bool.or_eq_true, beq_iff_eq]
        intro k _
        cases hr : Spec.Interceptor.reserved k
        · right
          have k1 : k ≠ nameGrpcDetails := fun e => by rw [e, r1] at hr; cases hr
          have k2 : k ≠ nameGrpcMessage := fun e => by rw [e, r2] at hr; cases hr
          have k3 : k ≠ nameGrpcStatus := fun e => by rw [e, r3] at hr; cases hr
          have k4 : k ≠ nameContentType := fun e => by rw [e, r4] at hr; cases hr
          have k5 : k ∉ reservedHeaders := fun e => by rw [r5 k e] at hr; cases hr
          rw [hrest k k4 k3 k2 k1]
          simp [k5]
        · left; rfl
      · simp [RespBody.isEndStream, RespBody.frames]

/-- The defect in the code as found: a status whose *metadata* names `grpc-status-details-bin`
while its `details` are empty is not delivered "precisely": the decoded details are not the
status's.  (Witness kept in the harness corpus; repaired by `fix-C12-status-details-metadata`.) -/
theorem C12_reject_asfound_fails :
    let st : GStatus := { code := 7, message := str "no", details := [],
                          metadata := [(str "grpc-status-details-bin", (str "AAAA", false))] }
    let f : Icpt Unit := fun _ _ => ((), .error st)
    let inner : Inner Unit Unit Unit Unit := fun _ _ => ((), .error ())
    let req : Request Unit := { method := str "POST", version := 2, uri := str "/", headers := [], ext := [], body := () }
    ∃ r, (callAsFound f inner () () req).out = .response r ∧
      Spec.Interceptor.allOk (Spec.Interceptor.rejectClauses st false
        (viewOf (fun _ => true) (fun _ => { chunks := [], trailers := none }) r)) = false := by
  refine ⟨_, rfl, ?_⟩
  decide

/-! ### "only what they change": scripted interceptors -/

private theorem apply_untouched (count : Nat) (op : Op) (mx : Hdrs × Ext) (k : Bytes)
    (h : op.mentions k = false) : getAll k (op.apply count mx).1 = getAll k mx.1 := by
  obtain ⟨m, x⟩ := mx
  cases op <;> simp only [Op.mentions, beq_eq_false_iff_ne, ne_eq] at h <;>
    simp only [Op.apply] <;>
    first
      | rfl
      | exact getAll_insert_ne _ _ _ _ (fun e => h e.symm)
      | exact getAll_append_ne _ _ _ _ (fun e => h e.symm)
      | exact getAll_remove_ne _ _ _ (fun e => h e.symm)
      | (exact absurd h (by simp))

/-- Frame property of the metadata API as interceptors use it: whatever sequence of inserts,
appends, removes (ASCII, binary or raw) and extension operations a script performs, every header
name it does not mention — reserved names included — keeps exactly its values, in order. -/
theorem C12_untouched (count : Nat) (ops : List Op) (mx : Hdrs × Ext) (k : Bytes)
    (h : ∀ op ∈ ops, op.mentions k = false) :
    getAll k (applyOps count ops mx).1 = getAll k mx.1 := by
  induction ops generalizing mx with
  | nil => rfl
  | cons op ops ih =>
    simp only [applyOps, List.foldl_cons]
    have := ih (op.apply count mx) (fun o ho => h o (List.mem_cons_of_mem _ ho))
    simp only [applyOps] at this
    rw [this, apply_untouched count op mx k (h op List.mem_cons_self)]

/-- End to end for a scripted interceptor that accepts: at the wrapped service every name the
script does not mention has the original request's values (so nothing is lost, reordered or
invented under it). -/
theorem C12_scripted_frame (scripts : List Script) (sc : Script) (c : Nat) (inner : Inner ι β ρ ε)
    (i : ι) (req : Request β) (hsc : scripts[c % scripts.length]? = some sc) (hacc : sc.reject = none)
    (k : Bytes) (hk : ∀ op ∈ sc.ops, op.mentions k = false) :
    ∃ r, (call (scripted scripts) inner c i req).innerSaw = some r ∧
      r.uri = req.uri ∧ r.method = req.method ∧ r.version = req.version ∧ r.body = req.body ∧
      getAll k r.headers = getAll k req.headers := by
  have hf : scripted scripts c (req.headers, req.ext) =
      (c + 1, .ok (applyOps c sc.ops (req.headers, req.ext))) := by
    simp [scripted, hsc, hacc]
  have := (C12_accept (scripted scripts) inner c (c + 1) i req _ _ hf).1
  refine ⟨_, this, rfl, rfl, rfl, rfl, ?_⟩
  exact C12_untouched c sc.ops (req.headers, req.ext) k hk

/-- The same, as the oracle judges it on an observation: `Spec.Interceptor.untouchedOk` holds of
the original headers and the headers the wrapped service saw, with "touched" = mentioned by the
script. -/
theorem C12_scripted_frame_spec (count : Nat) (ops : List Op) (md : Hdrs) (x : Ext) :
    Spec.Interceptor.untouchedOk (fun k => ops.any (Op.mentions k)) md (applyOps count ops (md, x)).1 = true := by
  simp only [Spec.Interceptor.untouchedOk, List.all_eq_true, Bool.or_eq_true, beq_iff_eq]
  intro k _
  cases h : ops.any (Op.mentions k)
  · right
    apply C12_untouched count ops (md, x) k
    intro op hop
    have := List.any_eq_false.mp h op hop
    simpa using this
  · left; rfl

/-- What the interceptor *does* change arrives as changed: after a script ending in an insert /
append / remove of `n`, the wrapped service sees under `n` exactly `[v]` / the previous values
followed by `v` / nothing. -/
theorem C12_last_op_effect (count : Nat) (ops : List Op) (mx : Hdrs × Ext) (n : Bytes) (v : HVal) :
    getAll (normName n) (applyOps count (ops ++ [.hins n v]) mx).1 = [v] ∧
    getAll (normName n) (applyOps count (ops ++ [.happ n v]) mx).1 =
      getAll (normName n) (applyOps count ops mx).1 ++ [v] ∧
    getAll (normName n) (applyOps count (ops ++ [.hrem n]) mx).1 = [] := by
  simp only [applyOps, List.foldl_append, List.foldl_cons, List.foldl_nil]
  generalize List.foldl (fun acc op => op.apply count acc) mx ops = r
  obtain ⟨m, x⟩ := r
  exact ⟨getAll_insert_self _ _ _, getAll_append_self _ _ _, getAll_remove_self _ _⟩

/-! ### sequences of calls on one service value (the interceptor is `FnMut`) -/

/-- What the wrapped service must see over a sequence of calls, defined from the interceptor's
decisions alone (no mention of the wrapped service): the accepted requests, rebuilt. -/
def expectedSaw (f : Icpt σ) : σ → List (Request β) → List (Option (Request β))
  | _, [] => []
  | s, r :: rs =>
    match f s (r.headers, r.ext) with
    | (s', .ok (md, x)) => some { r with headers := md, ext := x } :: expectedSaw f s' rs
    | (s', .error _) => none :: expectedSaw f s' rs

/-- For every sequence of requests, every stateful interceptor and every wrapped service: call
by call, the wrapped service is invoked exactly for the accepted requests — with the
interceptor's metadata/extensions on the original request — and never for a rejected one; and
its final state is the one reached by serving only those, in order. -/
theorem C12_sequence (f : Icpt σ) (inner : Inner ι β ρ ε) (s : σ) (i : ι) (reqs : List (Request β)) :
    (runCalls f inner s i reqs).2.2.map (·.1) = expectedSaw f s reqs ∧
    (runCalls f inner s i reqs).2.1 =
      ((expectedSaw f s reqs).filterMap id).foldl (fun st r => (inner st r).1) i := by
  induction reqs generalizing s i with
  | nil => simp [runCalls, expectedSaw]
  | cons r rs ih =>
    simp only [runCalls, expectedSaw]
    cases hf : f s (r.headers, r.ext) with
    | mk s' d =>
      cases d with
      | ok p =>
        obtain ⟨md, x⟩ := p
        have ha := C12_accept f inner s s' i r md x hf
        have hp := C12_response_passthrough f inner s s' i r md x hf
        have := ih s' (inner i { r with headers := md, ext := x }).1
        rw [ha.2, hp.1, ha.1]
        simp [this.1, this.2]
      | error st =>
        have h1 : (call f inner s i r).innerSaw = none := by
          simp [call, callWith, fromHttp, intoParts, fromParts, metadataFromHeaders, hf]
        have h2 : (call f inner s i r).inner = i := by
          simp [call, callWith, fromHttp, intoParts, fromParts, metadataFromHeaders, hf]
        have h3 : (call f inner s i r).icpt = s' := by
          simp [call, callWith, fromHttp, intoParts, fromParts, metadataFromHeaders, hf]
        have := ih s' i
        rw [h1, h2, h3]
        simp [this.1, this.2]

/-- Every element of a sequence run *is* a single call from SOME pair of states (existential: which
states — those reached by the earlier calls — is what `C12_sequence` says, not this lemma), so the
single-call theorems (`C12_accept`, `C12_reject`, `C12_response_passthrough`) apply to each call
of any sequence. -/
theorem C12_sequence_each (f : Icpt σ) (inner : Inner ι β ρ ε) (s : σ) (i : ι) (reqs : List (Request β))
    (k : Nat) (hk : k < reqs.length) :
    ∃ sk ik, (runCalls f inner s i reqs).2.2[k]? =
      some ((call f inner sk ik reqs[k]).innerSaw, (call f inner sk ik reqs[k]).out) := by
  induction reqs generalizing s i k with
  | nil => cases hk
  | cons r rs ih =>
    cases k with
    | zero => exact ⟨s, i, by simp [runCalls]⟩
    | succ k =>
      have hk' : k < rs.length := by simpa using hk
      obtain ⟨sk, ik, h⟩ := ih (call f inner s i r).icpt (call f inner s i r).inner k hk'
      exact ⟨sk, ik, by simpa [runCalls] using h⟩

/-! ### the `tonic::Request` ⇄ `http::Request` conversions used on the way (request.rs) -/

/-- `into_http(.., SanitizeHeaders::No)` after `from_http` gives back the request (so the path
through `tonic::Request` loses nothing when method / URI / version are re-supplied) … (Transcription lemma: it holds by unfolding the model's definition, so it pins the model's shape for the correspondence run — its assurance about tonic is the tie, not this proof.) -/
theorem C12_from_into_http_no (req : Request β) :
    intoHttp (fromHttp req) req.uri req.method req.version .no = req := by
  cases req; rfl

/-- … whereas `SanitizeHeaders::Yes` (used by the client when it builds the outgoing request,
*not* by the interceptor) drops exactly the six reserved names and keeps every other name. -/
theorem C12_into_http_yes (req : Request β) (k : Bytes) :
    getAll k (intoHttp (fromHttp req) req.uri req.method req.version .yes).headers =
      if k ∈ reservedHeaders then [] else getAll k req.headers := by
  simp only [intoHttp, fromHttp, metadataFromHeaders, intoSanitizedHeaders]
  by_cases h : k ∈ reservedHeaders
  · simp [h, getAll_removeAll_mem _ _ _ h]
  · simp [h, getAll_removeAll_not_mem _ _ _ h]

/-! ### client side: `Grpc<InterceptedService<T, F>>` (prepare_request → interceptor → transport) -/

/-- What a client-side interceptor is shown: the request `prepare_request` built — `POST`,
HTTP/2, `te: trailers`, `content-type: application/grpc`, the caller's extensions and body, and
under every other name the caller's metadata except tonic's six reserved names (which
`SanitizeHeaders::Yes` drops *before* the interceptor; what the interceptor then adds under such
a name is kept, see `C12_accept`). -/
theorem C12_client_prepare (pre op : Bytes) (q : Bool) (path : Bytes) (t : TRequest β) (k : Bytes) :
    (prepareRequest pre op q path t).method = str "POST" ∧
    (prepareRequest pre op q path t).version = 2 ∧
    (prepareRequest pre op q path t).ext = t.extensions ∧
    (prepareRequest pre op q path t).body = t.message ∧
    getAll k (prepareRequest pre op q path t).headers =
      if k = nameContentType then [(grpcContentType, false)]
      else if k = str "te" then [(str "trailers", false)]
      else if k ∈ reservedHeaders then [] else getAll k t.metadata := by
  refine ⟨rfl, rfl, rfl, rfl, ?_⟩
  simp only [prepareRequest, intoHttp, intoSanitizedHeaders]
  by_cases h1 : k = nameContentType
  · subst h1; simp [getAll_insert_self]
  · rw [getAll_insert_ne _ _ _ _ h1]
    by_cases h2 : k = str "te"
    · subst h2; simp [getAll_insert_self, h1]
    · rw [getAll_insert_ne _ _ _ _ h2]
      by_cases h3 : k ∈ reservedHeaders
      · simp [h1, h2, h3, getAll_removeAll_mem _ _ _ h3]
      · simp [h1, h2, h3, getAll_removeAll_not_mem _ _ _ h3]

/-- Client side, reject, end to end through tonic's own response handling: when the interceptor
rejects with a non-OK status, the transport is never invoked and `Grpc::server_streaming`
returns `Err(status')` where `status'` has the same code, message and details, and the same
values under every non-reserved metadata name.  Hypotheses: the message is what Rust calls
UTF-8 (it is a `String`), and the status metadata does not use the name `grpc-encoding` (the
client would take it for a compressed response; see the report). -/
theorem C12_client_reject (utf8 : Bytes → Bool) (f : Icpt σ) (inner : Inner ι β ρ ε) (s s' : σ) (i : ι)
    (pre op : Bytes) (q : Bool) (path : Bytes) (t : TRequest β) (st : GStatus)
    (hcode : 1 ≤ st.code ∧ st.code ≤ 16) (hutf : utf8 st.message = true)
    (henc : getAll (str "grpc-encoding") st.metadata = [])
    (h : f s ((prepareRequest pre op q path t).headers, (prepareRequest pre op q path t).ext) = (s', .error st)) :
    (clientCall utf8 f inner s i pre op q path t).1.innerSaw = none ∧
    (clientCall utf8 f inner s i pre op q path t).1.inner = i ∧
    ∃ st', (clientCall utf8 f inner s i pre op q path t).2 = .err st' ∧
      st'.code = st.code ∧ st'.message = st.message ∧ st'.details = st.details ∧
      ∀ k, Spec.Interceptor.reserved k = false → getAll k st'.metadata = getAll k st.metadata := by
  obtain ⟨H, hH, hct, hst, hmsg, hdet, hrest⟩ := statusIntoHttp_headers () st
  obtain ⟨r1, r2, r3, r4, r5⟩ := reserved_names
  obtain ⟨n1, n2, n3, n4, n5, n6⟩ := names_ne
  have hcall : (call f inner s i (prepareRequest pre op q path t)).out =
      .response { status := 200, version := 11, headers := H, ext := [], body := RespBody.empty } := by
    simp only [statusIntoHttp] at hH
    simp [call, callWith, fromHttp, intoParts, fromParts, metadataFromHeaders, h, rejectOutcomeWith, hH]
  refine ⟨?_, ?_, ?_⟩
  · simp [clientCall, call, callWith, fromHttp, intoParts, fromParts, metadataFromHeaders, h]
  · simp [clientCall, call, callWith, fromHttp, intoParts, fromParts, metadataFromHeaders, h]
  · have henc' : getAll (str "grpc-encoding") H = [] := by
      rw [hrest _ (by decide) (by decide) (by decide) (by decide)]
      have : str "grpc-encoding" ∉ reservedHeaders := by decide
      simp [this, henc]
    have hc := codeFromBytes_codeHeaderValue ⟨st.code, by omega⟩
    simp only at hc
    have hmsg' : messageFromHeaders utf8 H = some st.message := by
      rw [messageFromHeaders, hmsg]
      cases hm : st.message.isEmpty
      · simp [percentDecodeLenient_percentEncode, hutf]
      · simp [List.isEmpty_iff.mp hm]
    have hdet' : detailsFromHeaders H = some st.details := by
      rw [detailsFromHeaders, hdet]
      cases hd : st.details.isEmpty
      · simp [B64.decode_encode]
      · simp [List.isEmpty_iff.mp hd]
    have hne : (st.code != 0) = true := by simp; omega
    refine ⟨{ code := st.code, message := st.message, details := st.details,
              metadata := remove nameGrpcDetails (remove nameGrpcMessage (remove nameGrpcStatus H)) }, ?_, rfl, rfl, rfl, ?_⟩
    · simp only [clientCall, hcall, createResponse, henc', List.head?_nil, createResponse.go,
        statusFromHeaderMap, hst, List.head?_cons, hmsg', hdet', metadataFromHeaders, hc, hne, if_true]
    · intro k hk
      have k1 : k ≠ nameGrpcDetails := fun e => by rw [e, r1] at hk; cases hk
      have k2 : k ≠ nameGrpcMessage := fun e => by rw [e, r2] at hk; cases hk
      have k3 : k ≠ nameGrpcStatus := fun e => by rw [e, r3] at hk; cases hk
      have k4 : k ≠ nameContentType := fun e => by rw [e, r4] at hk; cases hk
      have k5 : k ∉ reservedHeaders := fun e => by rw [r5 k e] at hk; cases hk
      simp only
      rw [getAll_remove_ne _ _ _ k1, getAll_remove_ne _ _ _ k2, getAll_remove_ne _ _ _ k3,
        hrest k k4 k3 k2 k1]
      simp [k5]

/-! ### server side: `Routes::add_service(InterceptedService<S, F>)` (`NAME = S::NAME`) -/

/-- A request whose path names the intercepted service (`/NAME/…`, gRPC's path grammar) is
exactly a call on the `InterceptedService` — so every theorem above holds through the router —
and a request whose path does not name it leaves interceptor and wrapped service untouched
(the `Routed` value carries no new states) … -/
theorem C12_routed (name other : Bytes) (hn : ∀ c ∈ name, c ≠ 47) (f : Icpt σ) (inner : Inner ι β ρ ε)
    (s : σ) (i : ι) (path : Bytes) (req : Request β) :
    (Spec.Interceptor.pathNamesService name path = true →
      routesCall name other f inner s i path req = .service (call f inner s i req)) ∧
    (Spec.Interceptor.pathNamesService name path = false →
      routesCall name other f inner s i path req = .other ∨
      routesCall name other f inner s i path req = .fallback unimplementedResponse) := by
  rw [← routeMatches_eq_spec name path hn]
  constructor
  · intro h; simp [routesCall, h]
  · intro h
    simp only [routesCall, h, Bool.false_eq_true, if_false]
    cases routeMatches other path <;> simp

/-- … and the fallback answer is a trailers-only UNIMPLEMENTED response for the spec's decoder
(ignoring the HTTP framing header `content-length: 0` the router adds). -/
theorem C12_unrouted_unimplemented :
    ∃ r, unimplementedResponse = some r ∧
      Spec.Interceptor.allOk (Spec.Interceptor.rejectClauses
        { code := 12, message := [], details := [], metadata := [] } false
        { status := r.status, headers := r.headers.filter (fun e => !Spec.Interceptor.httpFraming e.1),
          endStream := true, frames := 0 }) = true := by
  refine ⟨_, rfl, ?_⟩
  decide

/-! ### non-vacuity -/

private def exReq : Request Nat :=
  { method := str "OPTIONS", version := 11, uri := str "/a?b",
    headers := [(str "user-agent", (str "ua", false)), (str "te", (str "trailers", false)),
                (str "x-a", (str "1", false)), (str "x-a", (str "2", false))],
    ext := [(0, [1])], body := 42 }

private def exScript : Script :=
  { ops := [.mins (str "X-A") (str "9"), .happ (str "te") (str "x", true)], reject := none }

private def exInner : Inner Nat Nat Unit Unit := fun n _ => (n + 1, .error ())

/-- a script that rewrites `x-a`, appends to `te`, and leaves `user-agent` alone: hypotheses of
`C12_accept` / `C12_scripted_frame` are met and the conclusion is not trivial -/
example :
    (call (scripted [exScript]) exInner 0 0 exReq).innerSaw.map (fun q => (q.method, q.version, q.body)) =
      some (str "OPTIONS", 11, 42) := by decide
example :
    (call (scripted [exScript]) exInner 0 0 exReq).innerSaw.map (fun q =>
        (getAll (str "x-a") q.headers, getAll (str "te") q.headers, getAll (str "user-agent") q.headers)) =
      some ([(str "9", false)], [(str "trailers", false), (str "x", true)], [(str "ua", false)]) := by decide
example : (call (scripted [exScript]) exInner 0 0 exReq).inner = 1 := by decide

private def exStatus : GStatus :=
  { code := 16, message := [104, 195, 169, 37, 32], details := [251, 255],
    metadata := [(str "grpc-status", (str "0", false)), (str "x-a", (str "1", false)),
                 (str "grpc-status-details-bin", (str "AAAA", false)), (str "x-a", (str "2", false))] }

/-- the hypotheses of `C12_reject` are met by a status with a non-ASCII message, details and
metadata that tries to forge reserved names -/
example :
    exStatus.code ≤ 16 ∧
    (match statusIntoHttp () exStatus with
     | some r => (getAll (str "grpc-status") r.headers, getAll (str "grpc-message") r.headers,
                  getAll (str "x-a") r.headers, getAll (str "grpc-status-details-bin") r.headers)
     | none => ([], [], [], [])) =
      ([(str "16", false)], [(str "h%C3%A9%25%20", false)], [(str "1", false), (str "2", false)],
       [(str "+/8", false)]) := by decide

/-- the hypotheses of `C12_client_reject` are met (code 7, UTF-8 message, no `grpc-encoding`), and
the client-side decoding is exercised on a concrete status with forged names in its metadata -/
example :
    (clientCall (fun _ => true) (fun (_ : Unit) _ => ((), .error { exStatus with code := 7 }))
        (fun (n : Nat) (_ : Request Nat) => (n + 1, (.error () : Except Unit (Response Unit)))) () 0
        (str "http://h") [] false (str "/s/m")
        { metadata := [(str "user-agent", (str "ua", false)), (str "x-a", (str "1", false))],
          message := 5, extensions := [] }).2 =
      .err { code := 7, message := [104, 195, 169, 37, 32], details := [251, 255],
             metadata := [(str "content-type", (str "application/grpc", false)),
                          (str "x-a", (str "1", false)), (str "x-a", (str "2", false))] } := by decide

/-! ### futures polled later, in any order; pending wrapped futures; hints of the wrapped body
(dimension audit: `async` cases) -/

private theorem resolve_future (d : Nat) (res : Except ε (Response ρ)) :
    RespFuture.resolveWith addHeader (d + 1) (.future d res) = some (wrapResult res, d) := by
  induction d with
  | zero => simp [RespFuture.resolveWith, RespFuture.pollWith]
  | succ n ih =>
    show RespFuture.resolveWith addHeader (n + 1 + 1) (.future (n + 1) res) = _
    rw [RespFuture.resolveWith]
    simp only [RespFuture.pollWith]
    rw [ih]
    rfl

/-- Polling a `ResponseFuture` until it is ready gives the value it stands for, after exactly the
wrapped future's own number of `Pending`s (none at all for a rejection) — for EVERY future value.
(ONE future, polled alone until ready; polls interleaved with those of other kept futures are the
subject of `C12_poll_order_invisible`.) -/
theorem C12_future_resolves (fut : RespFuture ρ ε) (h : fut ≠ .status none) :
    RespFuture.resolveWith addHeader (fut.pendingPolls + 1) fut =
      some (fut.outcomeWith addHeader, fut.pendingPolls) := by
  cases fut with
  | future d res => exact resolve_future d res
  | status st =>
    cases st with
    | none => exact absurd rfl h
    | some st => simp [RespFuture.resolveWith, RespFuture.pollWith, RespFuture.outcomeWith, RespFuture.pendingPolls]

/-- `InterceptedService::call` with a wrapped service whose futures complete later does, BEFORE the
returned future is polled, everything `call` does (interceptor run once, wrapped service invoked or
not, same states, same request handed on), and the future stands for exactly `call`'s outcome with
an at-once wrapped service; a rejection is never `Pending`. -/
theorem C12_future_resolves_to_call (f : Icpt σ) (inner : InnerD ι β ρ ε) (s : σ) (i : ι) (req : Request β) :
    let cf := callFut f inner s i req
    let c := call f inner.now s i req
    cf.icpt = c.icpt ∧ cf.inner = c.inner ∧ cf.innerSaw = c.innerSaw ∧
    cf.fut.outcomeWith addHeader = c.out ∧ cf.fut ≠ .status none ∧
    (cf.innerSaw = none → cf.fut.pendingPolls = 0) := by
  simp only [callFut, call, callWith, InnerD.now, intoParts, fromParts, fromHttp]
  split
  · rename_i s' md' ext' hf
    split <;> rename_i i' res hi <;>
      simp_all [RespFuture.outcomeWith, wrapResult]
  · rename_i s' st hf
    simp [RespFuture.outcomeWith, RespFuture.pendingPolls]

private theorem runCallsFut_futs_ne (f : Icpt σ) (inner : InnerD ι β ρ ε) (reqs : List (Request β)) :
    ∀ (s : σ) (i : ι), ∀ p ∈ (runCallsFut f inner s i reqs).2.2, p.2 ≠ .status none := by
  induction reqs with
  | nil => intro s i p hp; simp [runCallsFut] at hp
  | cons r rs ih =>
    intro s i p hp
    simp only [runCallsFut, List.mem_cons] at hp
    rcases hp with rfl | hp
    · exact (C12_future_resolves_to_call f inner s i r).2.2.2.2.1
    · exact ih _ _ p hp

/-- The calls' effects happen in `call`, not in `poll`: make ALL calls of a sequence first and keep
the futures — the wrapped service saw exactly what it sees when every future is awaited before the
next call, the final states are the same, and every future stands for (`outcomeWith`) the outcome of
its own call.  (No poll occurs in this statement; the polling itself is `C12_poll_order_invisible`.) -/
theorem C12_calls_made_first_same_effects (f : Icpt σ) (inner : InnerD ι β ρ ε) (s : σ) (i : ι) (reqs : List (Request β)) :
    runCalls f inner.now s i reqs =
      ((runCallsFut f inner s i reqs).1, (runCallsFut f inner s i reqs).2.1,
       (runCallsFut f inner s i reqs).2.2.map (fun p => (p.1, p.2.outcomeWith addHeader))) := by
  induction reqs generalizing s i with
  | nil => simp [runCalls, runCallsFut]
  | cons r rs ih =>
    have h := C12_future_resolves_to_call f inner s i r
    simp only at h
    obtain ⟨h1, h2, h3, h4, _, _⟩ := h
    simp only [runCalls, runCallsFut]
    rw [← h1, ← h2, ih]
    simp [h3, h4]

/-- The moment and the order of polling are invisible: make ALL calls of a sequence first, keep the
futures and poll them afterwards by ANY schedule (`pollSchedule`: a list saying which kept future is
polled next — any interleaving, any number of polls of each, the service value no longer involved).
First conjunct: the wrapped service saw exactly what it sees when every future is awaited before
the next call, and the final states are the same (`C12_calls_made_first_same_effects`).  Second
conjunct, for EVERY schedule and every call `k` of the sequence: the owner of future `k` gets exactly
the outcome call `k` has in the sequential run as soon as the schedule has polled that future more
often than the wrapped future stays `Pending` — and nothing before that — whichever other futures
are polled in between, however often.
What is and is not proved: that one `poll` touches nothing but the future polled is how
`pollSchedule` is WRITTEN (it transcribes `ResponseFuture::poll(self: Pin<&mut Self>, cx)`, which has
no service and no sibling future in hand) — the theorem adds the quantifier over all schedules and
the link to the sequential run on top of that; that the real futures share nothing is what the
`async` cases (futures kept, polled in permuted order, after the service was dropped) establish. -/
theorem C12_poll_order_invisible (f : Icpt σ) (inner : InnerD ι β ρ ε) (s : σ) (i : ι) (reqs : List (Request β)) :
    runCalls f inner.now s i reqs =
      ((runCallsFut f inner s i reqs).1, (runCallsFut f inner s i reqs).2.1,
       (runCallsFut f inner s i reqs).2.2.map (fun p => (p.1, p.2.outcomeWith addHeader))) ∧
    ∀ (sched : List Nat) (k : Nat) (p : Option (Request β) × RespFuture ρ ε),
      (runCallsFut f inner s i reqs).2.2[k]? = some p →
      firstReady k (pollSchedule addHeader ((runCallsFut f inner s i reqs).2.2.map (·.2)) sched) =
        if p.2.pendingPolls < sched.count k then
          ((runCalls f inner.now s i reqs).2.2[k]?).map (·.2)
        else none := by
  refine ⟨C12_calls_made_first_same_effects f inner s i reqs, ?_⟩
  intro sched k p hk
  have hne : p.2 ≠ .status none :=
    runCallsFut_futs_ne f inner reqs s i p (List.mem_of_getElem? hk)
  rw [firstReady_pollSchedule addHeader sched _ k p.2 (by simp [hk]) hne,
    C12_calls_made_first_same_effects]
  simp [hk]

/-- Transcription lemma (definitional, `⟨rfl, rfl, rfl, rfl⟩`): `RespBody.isEndStream` / `sizeHintRange`
are written with one arm that hands the wrapped body to the caller's function and one constant arm, as
`ResponseBody`'s `Body` impl is — this unfolds the model; that the real `ResponseBody` delegates its
hints is established by the correspondence run (`async` cases with non-exact hints and bodies that
never report end-of-stream).  Twin of `C12_response_body_delegates`.
The wrapped body's hints are the caller's hints, whatever they are (non-exact bounds, a body that
never says "end"): `ResponseBody::Wrap` delegates; the rejection's body is exactly empty and at its end. -/
theorem C12_response_body_hints_delegate (eos : ρ → Bool) (hint : ρ → Nat × Option Nat) (b : ρ) :
    RespBody.isEndStream eos (RespBody.wrap b) = eos b ∧
    RespBody.sizeHintRange hint (RespBody.wrap b) = hint b ∧
    RespBody.isEndStream eos (RespBody.empty : RespBody ρ) = true ∧
    RespBody.sizeHintRange hint (RespBody.empty : RespBody ρ) = (0, some 0) := ⟨rfl, rfl, rfl, rfl⟩

/-- non-vacuity: a wrapped future that is `Pending` twice; three polls, two `Pending`s, then the answer -/
example :
    RespFuture.resolveWith addHeader 3
      (callFut (fun (_ : Unit) mx => ((), .ok mx))
        (fun (n : Nat) (_ : Request Nat) => (n + 1, 2, (.error 7 : Except Nat (Response Unit)))) () 0
        { method := str "POST", version := 2, uri := str "/s/m", headers := [], ext := [], body := 5 }).fut
      = some (.error 7, 2) := by rfl


/-- non-vacuity of the schedule half of `C12_poll_order_invisible`: three calls made first (the
second one rejected), the futures polled in the order 2, 0, 2, 1, 0, 0, 2 — future 0 (Pending
twice) is ready at its third poll, future 1 (a rejection) at its first, future 2 (Pending once) at
its second; each owner gets its own call's outcome -/
example :
    let inner : InnerD Nat Nat Unit Nat := fun n q => (n + 1, (if q.body = 0 then 2 else 1), .error (q.body + 10))
    let f : Icpt Nat := fun n mx => (n + 1, if n = 1 then .error { code := 7, message := [], details := [], metadata := [] } else .ok mx)
    let rq (b : Nat) : Request Nat := { method := str "POST", version := 2, uri := str "/s/m", headers := [], ext := [], body := b }
    let futs := (runCallsFut f inner 0 0 [rq 0, rq 1, rq 2]).2.2.map (·.2)
    (pollSchedule addHeader futs [2, 0, 2, 1, 0, 0, 2]).map (·.1) = [2, 1, 0, 2] ∧
    firstReady 0 (pollSchedule addHeader futs [2, 0, 2, 1, 0, 0, 2]) = some (.error 10) ∧
    firstReady 2 (pollSchedule addHeader futs [2, 0, 2, 1, 0, 0, 2]) = some (.error 12) ∧
    firstReady 0 (pollSchedule addHeader futs [2, 0, 2, 1, 0]) = none := by
  refine ⟨by rfl, by rfl, by rfl, by rfl⟩


end C12
