import TonicModel.Model.Router
import TonicModel.Spec.Router
import TonicModel.Lemmas.Router
/-
C10 — Requests reach exactly the method named by the path, else UNIMPLEMENTED.
Property theorems only; helper lemmas live in `Lemmas/Router`.
-/
namespace C10
open Router

/-- The spec's view of a model registry: what the user declared. -/
def decl (reg : List Svc) : Spec.Router.Decl := reg.map (fun s => (s.name, s.methods))

/-- Hypotheses on a registry: names are protobuf-like (no `/`, `{`, `}`, non-empty), method
names are non-empty, and the services form a *set* (distinct names). -/
def WellFormed (reg : List Svc) : Prop :=
  (∀ x ∈ reg, validName x.name = true) ∧ (∀ x ∈ reg, ∀ m ∈ x.methods, m ≠ []) ∧
  (reg.map Svc.name).Nodup

private theorem pathOf_eq (s m : Bytes) : Spec.Router.pathOf s m = routePrefix s ++ m := by
  simp [Spec.Router.pathOf, routePrefix, slash]

private theorem declares_iff (reg : List Svc) (s m : Bytes) :
    Spec.Router.Declares (decl reg) s m ↔ ∃ x ∈ reg, x.name = s ∧ m ∈ x.methods := by
  simp only [Spec.Router.Declares, decl, List.mem_map, Prod.mk.injEq]
  constructor
  · rintro ⟨ms, ⟨x, hx, rfl, rfl⟩, hm⟩; exact ⟨x, hx, rfl, hm⟩
  · rintro ⟨x, hx, rfl, hm⟩; exact ⟨x.methods, ⟨x, hx, rfl, rfl⟩, hm⟩

private theorem find_route (reg : List Svc) (hwf : WellFormed reg) (x : Svc) (hx : x ∈ reg)
    (path : Bytes) (h : routeMatches x.name path = true) :
    reg.find? (fun s => routeMatches s.name path) = some x := by
  apply find?_eq_some_of_unique _ _ _ _ hx h
  intro y hy hpy
  have hn : y.name = x.name :=
    routeMatches_unique _ _ path (noSlash_of_valid (hwf.1 y hy)) (noSlash_of_valid (hwf.1 x hx)) hpy h
  exact eq_of_nodup_map Svc.name reg hwf.2.2 y hy x hx hn

/-- **Dispatch iff exact path.**  For every set of registered services and every request path:
the handler of method `m` of service `s` runs if and only if `(s, m)` is declared and the path is
literally `"/" ++ s ++ "/" ++ m`. -/
theorem C10_dispatch_iff (reg : List Svc) (hwf : WellFormed reg) (path s m : Bytes) :
    dispatch reg path = .handler s m ↔
      Spec.Router.Declares (decl reg) s m ∧ path = Spec.Router.pathOf s m := by
  have hnd : hasDup (reg.map Svc.name) = false := (hasDup_false_iff _).mpr hwf.2.2
  rw [declares_iff, pathOf_eq]
  unfold dispatch
  simp only [hnd, Bool.false_eq_true, if_false]
  constructor
  · intro h
    cases hf : reg.find? (fun s => routeMatches s.name path) with
    | none => simp [hf] at h
    | some x =>
      simp only [hf] at h
      obtain ⟨rfl, hm, hp⟩ := (call_eq_handler_iff x path m s).mp h
      exact ⟨⟨x, List.mem_of_find?_eq_some hf, rfl, hm⟩, hp⟩
  · rintro ⟨⟨x, hx, rfl, hm⟩, rfl⟩
    have hmatch := routeMatches_self x.name m (hwf.2.1 x hx m hm)
    rw [find_route reg hwf x hx _ hmatch]
    exact (call_eq_handler_iff x _ m x.name).mpr ⟨rfl, hm, rfl⟩

/-- **Else UNIMPLEMENTED, no handler.**  Whatever the path, the outcome is either a handler
(then, by `C10_dispatch_iff`, the one the path names) or an answer with grpc-status 12 produced
by the routing layer with no handler run; registration of a set never panics. -/
theorem C10_else_unimplemented (reg : List Svc) (hwf : WellFormed reg) (path : Bytes)
    (hno : ¬ ∃ s m, Spec.Router.Declares (decl reg) s m ∧ path = Spec.Router.pathOf s m) :
    (dispatch reg path).handlerRan = none ∧ (dispatch reg path).routerStatus = some 12 := by
  have hnd : hasDup (reg.map Svc.name) = false := (hasDup_false_iff _).mpr hwf.2.2
  have key : ∀ s m, dispatch reg path ≠ .handler s m := fun s m h =>
    hno ⟨s, m, (C10_dispatch_iff reg hwf path s m).mp h⟩
  revert key
  unfold dispatch
  simp only [hnd, Bool.false_eq_true, if_false]
  cases reg.find? (fun s => routeMatches s.name path) with
  | none => intro _; exact ⟨rfl, rfl⟩
  | some x =>
    intro key
    dsimp only at key ⊢
    rcases call_cases x path with ⟨m, hm⟩ | hd
    · exact absurd hm (key _ _)
    · rw [hd]; exact ⟨rfl, rfl⟩

/-- The observation the model predicts satisfies the executable spec predicate
(`Spec.Router.allowed`, the one the driver evaluates on the real implementation's output):
the handler the model says ran, the grpc-status of the routing layer where it answered itself
and the handler's own status `hs` otherwise, HTTP 200, `application/grpc`. -/
theorem C10_model_allowed (reg : List Svc) (hwf : WellFormed reg) (path : Bytes) (hs : Nat) :
    Spec.Router.allowed (decl reg) path hs
      ⟨(dispatch reg path).handlerRan,
        (match (dispatch reg path).routerStatus with | some c => some c | none => some hs),
        200, true⟩ = true := by
  unfold Spec.Router.allowed Spec.Router.handlerOk Spec.Router.answerOk
  cases ht : Spec.Router.targets (decl reg) path with
  | nil =>
    have hno : ¬ ∃ s m, Spec.Router.Declares (decl reg) s m ∧ path = Spec.Router.pathOf s m := by
      rintro ⟨s, m, h⟩
      have := (Spec.Router.mem_targets (decl reg) path s m).mpr h
      rw [ht] at this; cases this
    obtain ⟨h1, h2⟩ := C10_else_unimplemented reg hwf path hno
    simp [h1, h2]
  | cons t ts =>
    obtain ⟨s, m⟩ := t
    have hmem : (s, m) ∈ Spec.Router.targets (decl reg) path := by rw [ht]; exact List.mem_cons_self
    have hd := (C10_dispatch_iff reg hwf path s m).mpr ((Spec.Router.mem_targets _ _ _ _).mp hmem)
    simp [hd, Outcome.handlerRan, Outcome.routerStatus]

/-- **Registration order does not matter.** -/
theorem C10_order_irrelevant (reg reg' : List Svc) (hperm : reg.Perm reg') (hwf : WellFormed reg)
    (path : Bytes) : dispatch reg path = dispatch reg' path := by
  have hnd : hasDup (reg.map Svc.name) = false := (hasDup_false_iff _).mpr hwf.2.2
  have hnd' : hasDup (reg'.map Svc.name) = false :=
    (hasDup_false_iff _).mpr ((hperm.map Svc.name).nodup_iff.mp hwf.2.2)
  unfold dispatch
  simp only [hnd, hnd', Bool.false_eq_true, if_false]
  rw [find?_perm_of_unique _ reg reg' hperm]
  intro x hx y hy hpx hpy
  have hn : x.name = y.name :=
    routeMatches_unique _ _ path (noSlash_of_valid (hwf.1 x hx)) (noSlash_of_valid (hwf.1 y hy)) hpx hpy
  exact eq_of_nodup_map Svc.name reg hwf.2.2 x hx y hy hn

/-- The order of the methods inside a service (the order of the generated `match` arms) does
not matter either. -/
theorem C10_method_order_irrelevant (n : Bytes) (ms ms' : List Bytes) (h : ms.Perm ms')
    (path : Bytes) : (Svc.mk n ms).call path = (Svc.mk n ms').call path :=
  call_perm n ms ms' h path

private theorem wrapped_call (w : Wrapped) (p : Bytes) : w.call p = w.base.call p := by
  induction w with
  | gen s => rfl
  | intercepted _ w ih => exact ih
  | layered w ih => exact ih

private theorem wrapped_name (w : Wrapped) : w.name = w.base.name := by
  induction w with
  | gen s => rfl
  | intercepted _ w ih => exact ih
  | layered w ih => exact ih

/-- **NAME propagation** — *transcription lemma (definitional)*: `Wrapped.name` / `Wrapped.call`
are written to forward to the inner service, exactly as the three-line `NamedService` /
`Service` impls of `InterceptedService` and `Layered` do (the interceptor's returned request,
including any `http::Uri` it put into the extensions, is ignored), so this unfolds the model and adds no
assurance of its own; that the real wrappers forward NAME and the URI is established by the
correspondence run (wrapper stacks `icept`, `layer`, `both`, and the interceptors that return a
fresh request, clear the extensions, plant a URI of their own, rewrite metadata).  Wrapping services in any nesting of `InterceptedService` / `Layered`
changes nothing about routing: the wrapped registry dispatches like the bare one. -/
theorem C10_wrappers_transparent (reg : List Wrapped) (path : Bytes) :
    dispatchW reg path = dispatch (reg.map Wrapped.base) path := by
  unfold dispatchW dispatch
  have hn : reg.map Wrapped.name = (reg.map Wrapped.base).map Svc.name := by
    simp [List.map_map, Function.comp_def, wrapped_name]
  rw [hn]
  split
  · rfl
  · rw [List.find?_map]
    simp only [Function.comp_def, ← wrapped_name]
    cases reg.find? (fun s => routeMatches s.name path) with
    | none => rfl
    | some w => exact wrapped_call w path

/-- *Transcription lemma (definitional)*: restates the first line of `dispatch` (the model of
axum's "conflicting route" panic).  A registry that is *not* a set (same name twice) is rejected
at registration time; that axum really panics is a tie-only fact (corpus cases with a repeated
service). -/
theorem C10_duplicate_panics (reg : List Svc) (path : Bytes) (h : ¬ (reg.map Svc.name).Nodup) :
    dispatch reg path = .panic := by
  have : hasDup (reg.map Svc.name) = true := by
    cases hd : hasDup (reg.map Svc.name) with
    | true => rfl
    | false => exact absurd ((hasDup_false_iff _).mp hd) h
  simp [dispatch, this]

/-! ### Every way of building the router -/

/-- The handler an `Answer` stands for. -/
def answerHandler : Answer → Option (Bytes × Bytes)
  | .tonic o => o.handlerRan
  | _ => none

/-- **Every construction is the plain registry.**  Start with `Routes::new`, `Routes::default`,
`Routes::builder`, `Server::add_service`, `Server::add_optional_service(Some | None)`; continue
with any sequence of `add_service`, `add_optional_service(Some | None)`, `prepare`,
`into_axum_router` and back, `RoutesBuilder::from`, `RoutesBuilder::routes`,
`Server::add_routes` — in any order, any number of times.  The finished router holds exactly
the services mounted on the way, no other route, and tonic's UNIMPLEMENTED fallback. -/
theorem C10_every_construction (start : Start) (ops : List Op)
    (hs : start.tonicOnly = true) (ho : ∀ op ∈ ops, op.tonicOnly = true) :
    (build start ops).table = ⟨mounted start ops, [], .unimplemented⟩ := by
  have h1 : (build start ops).table.svcs = mounted start ops := by
    unfold build mounted; rw [foldl_svcs, start_svcs]
  have h2 : (build start ops).table.fb = .unimplemented := by
    unfold build; rw [foldl_fb]; exact (start_rest start hs).1
  have h3 : (build start ops).table.user = [] := by
    unfold build; rw [foldl_user ops ho]; exact (start_rest start hs).2
  cases h : (build start ops).table with
  | mk a b c => rw [h] at h1 h2 h3; simp only at h1 h2 h3; rw [h1, h2, h3]

/-- … hence every construction answers every path as `dispatch` does on the list of mounted
services, to which `C10_dispatch_iff`, `C10_else_unimplemented` and `C10_order_irrelevant`
apply. -/
theorem C10_construction_dispatch (start : Start) (ops : List Op)
    (hs : start.tonicOnly = true) (ho : ∀ op ∈ ops, op.tonicOnly = true) (path : Bytes) :
    (build start ops).table.serve path = .tonic (dispatch (mounted start ops) path) := by
  rw [C10_every_construction start ops hs ho]
  unfold Table.serve dispatch
  simp only [hasDup, Bool.or_false]
  split
  · rfl
  · simp only [List.contains_nil, Bool.false_eq_true, if_false]
    cases (mounted start ops).find? (fun s => routeMatches s.name path) <;> rfl

/-- **A user-made `axum::Router` underneath** (`Routes::from(axum::Router)`,
`RoutesBuilder::from(axum::Router)`, routes added through `axum_router_mut`): for every
request path that is not one of the user's own routes (which are distinct: axum refuses the
same route twice), the handler that runs (if any) is still
the one `dispatch` names on the mounted services — the user's router can change the answer to
unrouted paths, never which tonic handler runs. -/
theorem C10_user_router_handlers (start : Start) (ops : List Op) (path : Bytes)
    (hu : hasDup (build start ops).table.user = false)
    (hp : ((build start ops).table.user.contains path) = false) :
    answerHandler ((build start ops).table.serve path) =
      (dispatch (mounted start ops) path).handlerRan := by
  have h1 : (build start ops).table.svcs = mounted start ops := by
    unfold build mounted; rw [foldl_svcs, start_svcs]
  unfold Table.serve dispatch
  rw [h1, hp, hu, Bool.or_false]
  split
  · rfl
  · simp only [Bool.false_eq_true, if_false]
    cases (mounted start ops).find? (fun s => routeMatches s.name path) with
    | some s => rfl
    | none => cases (build start ops).table.fb <;> rfl

/-- … and the fallback of such a router is the one the user's router came with, whatever is
called afterwards (`From<axum::Router> for Routes` adds nothing). -/
theorem C10_user_router_fallback (u : UserRouter) (ops : List Op) :
    (build (.fromAxum u) ops).table.fb = (if u.ownFallback then .user else .axumNotFound) ∧
    (build (.builderFromAxum u) ops).table.fb = (if u.ownFallback then .user else .axumNotFound) := by
  unfold build
  rw [foldl_fb, foldl_fb]
  exact ⟨rfl, rfl⟩

/-- The full statement over *all* constructions — "a path that names no declared method is
answered UNIMPLEMENTED by the routing layer" — is **false of the code as found**: a service
mounted on `Routes::from(axum::Router::new())` leaves axum's bare `404 Not Found` (no
grpc-status) as the answer to unknown paths.  `C10_construction_dispatch` is the statement
under the exact guard (no user-made `axum::Router` involved). -/
theorem C10_else_unimplemented_any_construction_fails :
    ¬ (∀ (start : Start) (ops : List Op) (path : Bytes),
        (∀ op ∈ ops, op.tonicOnly = true) → WellFormed (mounted start ops) →
        (¬ ∃ s m, Spec.Router.Declares (decl (mounted start ops)) s m ∧
          path = Spec.Router.pathOf s m) →
        ∃ o, (build start ops).table.serve path = .tonic o ∧ o.routerStatus = some 12) := by
  intro h
  have := h (.fromAxum ⟨[], false⟩) [] [47, 120] (by simp)
    (by refine ⟨?_, ?_, ?_⟩ <;> simp [mounted, Start.services])
    (by rintro ⟨s, m, ⟨ms, hm, _⟩, _⟩; simp [decl, mounted, Start.services] at hm)
  obtain ⟨o, ho, _⟩ := this
  have hw : (build (.fromAxum ⟨[], false⟩) []).table.serve [47, 120] = .axumNotFound := by decide
  rw [hw] at ho
  cases ho

/-! ### Histories, server configuration, constructors (dimension audit) -/

private theorem answers_inv (t : Table) (uses : List Use) :
    ∀ (p : Proc), (∀ x ∈ p.vals, x = t) → ∀ pa ∈ Proc.answers p uses, pa.2 = t.serve pa.1 := by
  induction uses with
  | nil => intro p _ pa h; simp [Proc.answers] at h
  | cons u us ih =>
    intro p hp pa h
    cases u with
    | call v path =>
      simp only [Proc.answers, List.mem_append] at h
      rcases h with h | h
      · cases hv : p.vals[v]? with
        | none => rw [hv] at h; simp at h
        | some t' =>
          rw [hv] at h
          simp only [List.mem_singleton] at h
          have : t' = t := hp t' (List.mem_of_getElem? hv)
          rw [h, this]
      · exact ih p hp pa h
    | clone v =>
      simp only [Proc.answers] at h
      refine ih (p.clone v) ?_ pa h
      intro x hx
      unfold Proc.clone at hx
      cases hv : p.vals[v]? with
      | none => rw [hv] at hx; exact hp x hx
      | some t' =>
        rw [hv] at hx
        simp only [List.mem_append, List.mem_singleton] at hx
        rcases hx with hx | hx
        · exact hp x hx
        · rw [hx]; exact hp t' (List.mem_of_getElem? hv)

/-- Transcription lemma (definitional): `Proc.answers` is WRITTEN so that a call reads the value it is
made on and writes nothing (`Proc.answers p (.call v path :: us) = … ++ Proc.answers p us` by `rfl`)
and a clone appends a copy, so the invariant "every live value is the built table" cannot break — this
unfolds the model and carries no assurance of its own.  That `Routes::call`, `Clone` and the
per-connection stack of `transport::Server` really keep no state is established by the correspondence
run (`seq` cases: one router used 1–50 times, through clones made before and after use, on one or
several connections, each request judged separately).
**A router has no memory** (as modelled).  Take the router a construction yields and use it any way at
all — any number of calls on the value itself, on clones of it, on clones of clones (what every
accepted connection of a `transport::Server` gets), in any interleaving: every request of the
history is answered exactly as if it were the only request the freshly built router ever saw.
(Invariant over the history, no bound on its length.) -/
theorem C10_history_has_no_memory (t : Table) (uses : List Use) :
    ∀ pa ∈ Proc.answers ⟨[t]⟩ uses, pa.2 = t.serve pa.1 :=
  answers_inv t uses ⟨[t]⟩ (by intro x hx; simpa using hx)

/-- … hence, for a router built without a user-made `axum::Router` over a set of services,
every request of every history satisfies the property's executable predicate: the handler of
`(S, M)` ran iff the path of *that* request is literally `/S/M`, every other request got
UNIMPLEMENTED from the routing layer. -/
theorem C10_every_request_of_a_history (start : Start) (ops : List Op)
    (hs : start.tonicOnly = true) (ho : ∀ op ∈ ops, op.tonicOnly = true)
    (hwf : WellFormed (mounted start ops)) (uses : List Use) (hst : Nat) :
    ∀ pa ∈ Proc.answers ⟨[(build start ops).table]⟩ uses,
      pa.2 = .tonic (dispatch (mounted start ops) pa.1) ∧
      Spec.Router.allowed (decl (mounted start ops)) pa.1 hst
        ⟨(dispatch (mounted start ops) pa.1).handlerRan,
          (match (dispatch (mounted start ops) pa.1).routerStatus with
            | some c => some c | none => some hst),
          200, true⟩ = true := by
  intro pa h
  refine ⟨?_, C10_model_allowed _ hwf pa.1 hst⟩
  rw [C10_history_has_no_memory _ uses pa h]
  exact C10_construction_dispatch start ops hs ho pa.1

/-- The table of round `k` of a reconfiguration history: the built table after the first `k`
`add_service` calls of the history. -/
def tableAt (t : Table) (rounds : List (List Use × Svc)) (k : Nat) : Table :=
  (rounds.take k).foldl (fun t r => t.addService r.2) t

/-- The uses made in round `k` (round `rounds.length` is the last one, after the last `add_service`). -/
def usesAt (rounds : List (List Use × Svc)) (last : List Use) (k : Nat) : List Use :=
  (rounds.map (·.1) ++ [last]).getD k []

/-- **Reconfigured after use.**  A router that has already answered requests (itself and through
clones) and is then given more services, any number of times: the answers of the whole history are,
round by round and in order, exactly the answers a process that starts with the table of THAT round
(the services registered up to then — `tableAt … k`, no earlier and no later table) gives to the
uses of that round alone; and within a round every request is answered by that round's table as if it
were the only request it ever saw.  (An EQUATION on the whole answer list, indexed by round: a process
that applies `add_service` late, early or never does not satisfy it — `C10_reconfigured_stale_process_fails`.
The second conjunct is the transcription fact `C10_history_has_no_memory` applied per round.) -/
theorem C10_reconfigured_after_use (rounds : List (List Use × Svc)) (last : List Use) (t : Table) :
    Proc.rounds t rounds last =
      ((List.range (rounds.length + 1)).flatMap fun k =>
        Proc.answers ⟨[tableAt t rounds k]⟩ (usesAt rounds last k)) ∧
    ∀ k, ∀ pa ∈ Proc.answers ⟨[tableAt t rounds k]⟩ (usesAt rounds last k),
      pa.2 = (tableAt t rounds k).serve pa.1 := by
  refine ⟨?_, fun k pa h => C10_history_has_no_memory _ _ pa h⟩
  induction rounds generalizing t with
  | nil => simp [Proc.rounds, tableAt, usesAt]
  | cons r rest ih =>
    obtain ⟨us, s⟩ := r
    rw [List.range_succ_eq_map, List.flatMap_cons, List.flatMap_map]
    simp only [Proc.rounds, List.length_cons]
    rw [ih (t.addService s)]
    congr 1

/-- The membership form (what this theorem stated before review round 4, kept as a corollary —
it is WEAKER than `C10_reconfigured_after_use`: it forgets which round an answer belongs to, so a
process that never applies `add_service` satisfies it too): every answer of the history is the
answer of the table of SOME round. -/
theorem C10_reconfigured_after_use_some_round_partial (rounds : List (List Use × Svc)) (last : List Use)
    (t : Table) : ∀ pa ∈ Proc.rounds t rounds last, ∃ k, k ≤ rounds.length ∧
      pa.2 = ((rounds.take k).foldl (fun t r => t.addService r.2) t).serve pa.1 := by
  intro pa h
  rw [(C10_reconfigured_after_use rounds last t).1, List.mem_flatMap] at h
  obtain ⟨k, hk, hpa⟩ := h
  exact ⟨k, by have := List.mem_range.mp hk; omega,
    (C10_reconfigured_after_use rounds last t).2 k pa hpa⟩

/-- NOT the code: a process that keeps answering from the table it was built with — the
`add_service` between the rounds is lost (what a `Routes::add_service` that rebuilt a copy and
dropped it would do). -/
def roundsStale (t : Table) : List (List Use × Svc) → List Use → List (Bytes × Answer)
  | [], last => Proc.answers ⟨[t]⟩ last
  | (us, _) :: rest, last => Proc.answers ⟨[t]⟩ us ++ roundsStale t rest last

/-- The stale process does NOT satisfy the equation of `C10_reconfigured_after_use` (so that
statement does tell the two apart). Witness: `A` registered, a round without requests, `S` added,
then `/S/M` is called: the stale process answers UNIMPLEMENTED from the fallback. -/
theorem C10_reconfigured_stale_process_fails :
    ¬ ∀ (rounds : List (List Use × Svc)) (last : List Use) (t : Table),
      roundsStale t rounds last =
        ((List.range (rounds.length + 1)).flatMap fun k =>
          Proc.answers ⟨[tableAt t rounds k]⟩ (usesAt rounds last k)) := by
  intro h
  have := h [([], ⟨[83], [[77]]⟩)] [.call 0 [47, 83, 47, 77]] ⟨[⟨[65], [[77]]⟩], [], .unimplemented⟩
  revert this
  decide

/-- Transcription lemma (definitional): an instance of `C10_history_has_no_memory`, which holds because
the model's `call` writes no value and `clone` copies one; that a real clone answers like its original
is established by the `seq` cases (clones made before and after use, clone of a dropped original).
A clone answers like the value it was cloned from, before and after either was used. -/
theorem C10_clone_answers_alike (t : Table) (pre post : List Use) (path : Bytes) :
    ∀ pa ∈ Proc.answers ⟨[t]⟩ (pre ++ [.clone 0] ++ post ++ [.call 0 path, .call 1 path]),
      pa.1 = path → pa.2 = t.serve path := by
  intro pa h hp
  rw [← hp]
  exact C10_history_has_no_memory t _ pa h

/-- *Transcription lemma (definitional; the fact is tie-only — `ctor` cases)*: the public
constructors / setters of a generated server and the generator switches that do not touch names
give the same `NAME` and the same `match` arms, so a registry of servers made any of these ways
dispatches as the plain registry. -/
theorem C10_constructors_transparent (reg : List Svc) (how : Svc → Ctor) (path : Bytes) :
    dispatch (reg.map (fun s => s.made (how s))) path = dispatch reg path := by
  simp [Svc.made]

/-- A service without methods (the generated `match` has the default arm only): every path
below it is answered UNIMPLEMENTED by that service, no handler exists to run. -/
theorem C10_empty_service (reg : List Svc) (hwf : WellFormed reg) (s : Svc) (hs : s ∈ reg)
    (hm : s.methods = []) (path : Bytes) (h : routeMatches s.name path = true) :
    dispatch reg path = .svcDefault s.name := by
  unfold dispatch
  have hd : hasDup (reg.map Svc.name) = false := (hasDup_false_iff _).mpr hwf.2.2
  rw [hd, find_route reg hwf s hs path h]
  simp [Svc.call, hm]

/- Non-vacuity and the shapes the property text lists, on a registry with names that are
prefixes of one another, with and without package, differing only in case. -/
private def bs (s : String) : Bytes := s.toList.map (fun c => c.toNat.toUInt8)
private def reg0 : List Svc :=
  [⟨bs "a.S", [bs "M", bs "Mx", bs "m"]⟩, ⟨bs "a.Sv", [bs "M"]⟩, ⟨bs "S", [bs "M"]⟩,
   ⟨bs "a.S.x", [bs "M"]⟩, ⟨bs "a", [bs "S"]⟩]

example : WellFormed reg0 := by
  refine ⟨by decide, by decide, by decide⟩
example : dispatch reg0 (bs "/a.S/M") = .handler (bs "a.S") (bs "M") := by decide
example : dispatch reg0 (bs "/a.Sv/M") = .handler (bs "a.Sv") (bs "M") := by decide
example : dispatch reg0 (bs "/a.S/Mx") = .handler (bs "a.S") (bs "Mx") := by decide
-- unknown service / unknown method / shared prefix / extra, empty segments / letter case
example : dispatch reg0 (bs "/b.S/M") = .fallback := by decide
example : dispatch reg0 (bs "/a.S/Z") = .svcDefault (bs "a.S") := by decide
example : dispatch reg0 (bs "/a.Svc/M") = .fallback := by decide
example : dispatch reg0 (bs "/a.S/My") = .svcDefault (bs "a.S") := by decide
example : dispatch reg0 (bs "/a.S/M/") = .svcDefault (bs "a.S") := by decide
example : dispatch reg0 (bs "/a.S//M") = .svcDefault (bs "a.S") := by decide
example : dispatch reg0 (bs "//a.S/M") = .fallback := by decide
example : dispatch reg0 (bs "/a.S/") = .fallback := by decide
example : dispatch reg0 (bs "/a.S") = .fallback := by decide
example : dispatch reg0 (bs "/A.S/M") = .fallback := by decide
example : dispatch reg0 (bs "/a.S/M") ≠ dispatch reg0 (bs "/a.S/m") := by decide
example : dispatch reg0 (bs "/a/S") = .handler (bs "a") (bs "S") := by decide
example : dispatch reg0 (bs "/a.S/%4D") = .svcDefault (bs "a.S") := by decide
example : dispatch (reg0 ++ [⟨bs "S", []⟩]) (bs "/S/M") = .panic := by decide

-- constructions: the first call adds nothing (`add_optional_service(None)`), services arrive
-- later through a builder and a server router, with `prepare` and an axum round trip between
private def s0 : Svc := ⟨bs "a.S", [bs "M"]⟩
private def s1 : Svc := ⟨bs "S", [bs "M"]⟩
example : (build (.serverAddOptional none) [.addOptional none, .addService s0, .addOptional (some s1)]).table.serve (bs "/S/M")
    = .tonic (.handler (bs "S") (bs "M")) := by decide
example : (build (.serverAddOptional none) []).table.serve (bs "/S/M") = .tonic .fallback := by decide
example : (build .routesBuilder [.addService s0, .builderRoutes, .prepare, .axumRoundTrip, .intoBuilderViaAxum,
    .addService s1, .serverAddRoutes]).table.serve (bs "/a.S/M") = .tonic (.handler (bs "a.S") (bs "M")) := by decide
example : (build (.fromAxum ⟨[bs "/u/hello"], true⟩) [.addService s0]).table.serve (bs "/a.S/M")
    = .tonic (.handler (bs "a.S") (bs "M")) := by decide
example : (build (.fromAxum ⟨[bs "/u/hello"], true⟩) [.addService s0]).table.serve (bs "/a.S/x") = .tonic (.svcDefault (bs "a.S")) := by decide
example : (build (.fromAxum ⟨[bs "/u/hello"], true⟩) [.addService s0]).table.serve (bs "/u/hello") = .userRoute (bs "/u/hello") := by decide
example : (build (.fromAxum ⟨[bs "/u/hello"], true⟩) [.addService s0]).table.serve (bs "/zz") = .userFallback := by decide
example : (build (.builderFromAxum ⟨[], false⟩) [.addService s0, .serverAddRoutes]).table.serve (bs "/zz") = .axumNotFound := by decide

-- histories: the value, a clone made before and one made after a use, calls interleaved
example : (Proc.answers ⟨[⟨reg0, [], .unimplemented⟩]⟩
    [.call 0 (bs "/a.S/M"), .clone 0, .call 1 (bs "/a.Sv/M"), .call 0 (bs "/a.S/Z"), .clone 1, .call 2 (bs "/a.S/M"),
     .call 7 (bs "/a.S/M")]).map (·.2)
    = [.tonic (.handler (bs "a.S") (bs "M")), .tonic (.handler (bs "a.Sv") (bs "M")), .tonic (.svcDefault (bs "a.S")),
       .tonic (.handler (bs "a.S") (bs "M"))] := by decide
example : (Proc.rounds ⟨[s0], [], .unimplemented⟩ [([.call 0 (bs "/S/M")], s1)] [.call 0 (bs "/S/M")]).map (·.2)
    = [.tonic .fallback, .tonic (.handler (bs "S") (bs "M"))] := by decide
example : dispatch (reg0 ++ [⟨bs "x.Empty", []⟩]) (bs "/x.Empty/M") = .svcDefault (bs "x.Empty") := by decide

end C10
