import TonicModel.Model.Router
import TonicModel.Spec.Router
import TonicModel.Lemmas.Router
/-
C10 — Requests reach exactly the method named by the path, else UNIMPLEMENTED.
Property theorems only; helper lemmas live in `Lemmas/Router`.
-/
namespace C10
open Router

/-- The spec's view of a model registry: what the user declared. -/
def decl (reg : List Svc) : Spec.Router.Decl := reg.map (fun s => (s.name, s.methods))

/-- Hypotheses on a registry: names are protobuf-like (no `/`, `{`, `}`, non-empty), method
names are non-empty, and the services form a *set* (distinct names). -/
def WellFormed (reg : List Svc) : Prop :=
  (∀ x ∈ reg, validName x.name = true) ∧ (∀ x ∈ reg, ∀ m ∈ x.methods, m ≠ []) ∧
  (reg.map Svc.name).Nodup

private theorem pathOf_eq (s m : Bytes) : Spec.Router.pathOf s m = routePrefix s ++ m := by
  simp [Spec.Router.pathOf, routePrefix, slash]

private theorem declares_iff (reg : List Svc) (s m : Bytes) :
    Spec.Router.Declares (decl reg) s m ↔ ∃ x ∈ reg, x.name = s ∧ m ∈ x.methods := by
  simp only [Spec.Router.Declares, decl, List.mem_map, Prod.mk.injEq]
  constructor
  · rintro ⟨ms, ⟨x, hx, rfl, rfl⟩, hm⟩; exact ⟨x, hx, rfl, hm⟩
  · rintro ⟨x, hx, rfl, hm⟩; exact ⟨x.methods, ⟨x, hx, rfl, rfl⟩, hm⟩

private theorem find_route (reg : List Svc) (hwf : WellFormed reg) (x : Svc) (hx : x ∈ reg)
    (path : Bytes) (h : routeMatches x.name path = true) :
    reg.find? (fun s => routeMatches s.name path) = some x := by
  apply find?_eq_some_of_unique _ _ _ _ hx h
  intro y hy hpy
  have hn : y.name = x.name :=
    routeMatches_unique _ _ path (noSlash_of_valid (hwf.1 y hy)) (noSlash_of_valid (hwf.1 x hx)) hpy h
  exact eq_of_nodup_map Svc.name reg hwf.2.2 y hy x hx hn

/-- **Dispatch iff exact path.**  For every set of registered services and every request path:
the handler of method `m` of service `s` runs if and only if `(s, m)` is declared and the path is
literally `"/" ++ s ++ "/" ++ m`. -/
theorem C10_dispatch_iff (reg : List Svc) (hwf : WellFormed reg) (path s m : Bytes) :
    dispatch reg path = .handler s m ↔
      Spec.Router.Declares (decl reg) s m ∧ path = Spec.Router.pathOf s m := by
  have hnd : hasDup (reg.map Svc.name) = false := (hasDup_false_iff _).mpr hwf.2.2
  rw [declares_iff, pathOf_eq]
  unfold dispatch
  simp only [hnd, Bool.false_eq_true, if_false]
  constructor
  · intro h
    cases hf : reg.find? (fun s => routeMatches s.name path) with
    | none => simp [hf] at h
    | some x =>
      simp only [hf] at h
      obtain ⟨rfl, hm, hp⟩ := (call_eq_handler_iff x path m s).mp h
      exact ⟨⟨x, List.mem_of_find?_eq_some hf, rfl, hm⟩, hp⟩
  · rintro ⟨⟨x, hx, rfl, hm⟩, rfl⟩
    have hmatch := routeMatches_self x.name m (hwf.2.1 x hx m hm)
    rw [find_route reg hwf x hx _ hmatch]
    exact (call_eq_handler_iff x _ m x.name).mpr ⟨rfl, hm, rfl⟩

/-- **Else UNIMPLEMENTED, no handler.**  Whatever the path, the outcome is either a handler
(then, by `C10_dispatch_iff`, the one the path names) or an answer with grpc-status 12 produced
by the routing layer with no handler run; registration of a set never panics. -/
theorem C10_else_unimplemented (reg : List Svc) (hwf : WellFormed reg) (path : Bytes)
    (hno : ¬ ∃ s m, Spec.Router.Declares (decl reg) s m ∧ path = Spec.Router.pathOf s m) :
    (dispatch reg path).handlerRan = none ∧ (dispatch reg path).routerStatus = some 12 := by
  have hnd : hasDup (reg.map Svc.name) = false := (hasDup_false_iff _).mpr hwf.2.2
  have key : ∀ s m, dispatch reg path ≠ .handler s m := fun s m h =>
    hno ⟨s, m, (C10_dispatch_iff reg hwf path s m).mp h⟩
  revert key
  unfold dispatch
  simp only [hnd, Bool.false_eq_true, if_false]
  cases reg.find? (fun s => routeMatches s.name path) with
  | none => intro _; exact ⟨rfl, rfl⟩
  | some x =>
    intro key
    dsimp only at key ⊢
    rcases call_cases x path with ⟨m, hm⟩ | hd
    · exact absurd hm (key _ _)
    · rw [hd]; exact ⟨rfl, rfl⟩

/-- The observation the model predicts satisfies the executable spec predicate
(`Spec.Router.allowed`, the one the driver evaluates on the real implementation's output). -/
theorem C10_model_allowed (reg : List Svc) (hwf : WellFormed reg) (path : Bytes)
    (hst : Option Nat) :
    Spec.Router.allowed (decl reg) path
      ⟨(dispatch reg path).handlerRan,
        match (dispatch reg path).routerStatus with | some c => some c | none => hst⟩ = true := by
  unfold Spec.Router.allowed
  cases ht : Spec.Router.targets (decl reg) path with
  | nil =>
    have hno : ¬ ∃ s m, Spec.Router.Declares (decl reg) s m ∧ path = Spec.Router.pathOf s m := by
      rintro ⟨s, m, h⟩
      have := (Spec.Router.mem_targets (decl reg) path s m).mpr h
      rw [ht] at this; cases this
    obtain ⟨h1, h2⟩ := C10_else_unimplemented reg hwf path hno
    simp [h1, h2]
  | cons t ts =>
    obtain ⟨s, m⟩ := t
    have hmem : (s, m) ∈ Spec.Router.targets (decl reg) path := by rw [ht]; exact List.mem_cons_self
    have hd := (C10_dispatch_iff reg hwf path s m).mpr ((Spec.Router.mem_targets _ _ _ _).mp hmem)
    simp [hd, Outcome.handlerRan]

/-- **Registration order does not matter.** -/
theorem C10_order_irrelevant (reg reg' : List Svc) (hperm : reg.Perm reg') (hwf : WellFormed reg)
    (path : Bytes) : dispatch reg path = dispatch reg' path := by
  have hnd : hasDup (reg.map Svc.name) = false := (hasDup_false_iff _).mpr hwf.2.2
  have hnd' : hasDup (reg'.map Svc.name) = false :=
    (hasDup_false_iff _).mpr ((hperm.map Svc.name).nodup_iff.mp hwf.2.2)
  unfold dispatch
  simp only [hnd, hnd', Bool.false_eq_true, if_false]
  rw [find?_perm_of_unique _ reg reg' hperm]
  intro x hx y hy hpx hpy
  have hn : x.name = y.name :=
    routeMatches_unique _ _ path (noSlash_of_valid (hwf.1 x hx)) (noSlash_of_valid (hwf.1 y hy)) hpx hpy
  exact eq_of_nodup_map Svc.name reg hwf.2.2 x hx y hy hn

/-- The order of the methods inside a service (the order of the generated `match` arms) does
not matter either. -/
theorem C10_method_order_irrelevant (n : Bytes) (ms ms' : List Bytes) (h : ms.Perm ms')
    (path : Bytes) : (Svc.mk n ms).call path = (Svc.mk n ms').call path :=
  call_perm n ms ms' h path

private theorem wrapped_call (w : Wrapped) (p : Bytes) : w.call p = w.base.call p := by
  induction w with
  | gen s => rfl
  | intercepted w ih => exact ih
  | layered w ih => exact ih

private theorem wrapped_name (w : Wrapped) : w.name = w.base.name := by
  induction w with
  | gen s => rfl
  | intercepted w ih => exact ih
  | layered w ih => exact ih

/-- **NAME propagation.**  Wrapping services in any nesting of `InterceptedService` / `Layered`
changes nothing about routing: the wrapped registry dispatches like the bare one. -/
theorem C10_wrappers_transparent (reg : List Wrapped) (path : Bytes) :
    dispatchW reg path = dispatch (reg.map Wrapped.base) path := by
  unfold dispatchW dispatch
  have hn : reg.map Wrapped.name = (reg.map Wrapped.base).map Svc.name := by
    simp [List.map_map, Function.comp_def, wrapped_name]
  rw [hn]
  split
  · rfl
  · rw [List.find?_map]
    simp only [Function.comp_def, ← wrapped_name]
    cases reg.find? (fun s => routeMatches s.name path) with
    | none => rfl
    | some w => exact wrapped_call w path

/-- A registry that is *not* a set (same name twice) is rejected at registration time. -/
theorem C10_duplicate_panics (reg : List Svc) (path : Bytes) (h : ¬ (reg.map Svc.name).Nodup) :
    dispatch reg path = .panic := by
  have : hasDup (reg.map Svc.name) = true := by
    cases hd : hasDup (reg.map Svc.name) with
    | true => rfl
    | false => exact absurd ((hasDup_false_iff _).mp hd) h
  simp [dispatch, this]

/- Non-vacuity and the shapes the property text lists, on a registry with names that are
prefixes of one another, with and without package, differing only in case. -/
private def bs (s : String) : Bytes := s.toList.map (fun c => c.toNat.toUInt8)
private def reg0 : List Svc :=
  [⟨bs "a.S", [bs "M", bs "Mx", bs "m"]⟩, ⟨bs "a.Sv", [bs "M"]⟩, ⟨bs "S", [bs "M"]⟩,
   ⟨bs "a.S.x", [bs "M"]⟩, ⟨bs "a", [bs "S"]⟩]

example : WellFormed reg0 := by
  refine ⟨by decide, by decide, by decide⟩
example : dispatch reg0 (bs "/a.S/M") = .handler (bs "a.S") (bs "M") := by decide
example : dispatch reg0 (bs "/a.Sv/M") = .handler (bs "a.Sv") (bs "M") := by decide
example : dispatch reg0 (bs "/a.S/Mx") = .handler (bs "a.S") (bs "Mx") := by decide
-- unknown service / unknown method / shared prefix / extra, empty segments / letter case
example : dispatch reg0 (bs "/b.S/M") = .fallback := by decide
example : dispatch reg0 (bs "/a.S/Z") = .svcDefault (bs "a.S") := by decide
example : dispatch reg0 (bs "/a.Svc/M") = .fallback := by decide
example : dispatch reg0 (bs "/a.S/My") = .svcDefault (bs "a.S") := by decide
example : dispatch reg0 (bs "/a.S/M/") = .svcDefault (bs "a.S") := by decide
example : dispatch reg0 (bs "/a.S//M") = .svcDefault (bs "a.S") := by decide
example : dispatch reg0 (bs "//a.S/M") = .fallback := by decide
example : dispatch reg0 (bs "/a.S/") = .fallback := by decide
example : dispatch reg0 (bs "/a.S") = .fallback := by decide
example : dispatch reg0 (bs "/A.S/M") = .fallback := by decide
example : dispatch reg0 (bs "/a.S/M") ≠ dispatch reg0 (bs "/a.S/m") := by decide
example : dispatch reg0 (bs "/a/S") = .handler (bs "a") (bs "S") := by decide
example : dispatch reg0 (bs "/a.S/%4D") = .svcDefault (bs "a.S") := by decide
example : dispatch (reg0 ++ [⟨bs "S", []⟩]) (bs "/S/M") = .panic := by decide

end C10
