import TonicModel.Lemmas.FramingWire
/-
C07 — Hostile or truncated input ends a stream with one error, never a hang or panic.
All theorems quantify over *arbitrary* event lists: any bytes in any chunking, `Pending`s,
body errors and trailers at any position.
-/
namespace C07
open Framing Spec.Framing
variable {α : Type}

/-- **Every poll completes with a value; the model has no panic branch.**  `Dec.pollNext` is a
total function (Lean's termination checker accepted its recursion over the events still to
come, so a poll cannot spin without consuming an event), hence `n` polls give `n` results. -/
theorem C07_every_poll_completes (cd : Codec α) (cfg : DecCfg) (n : Nat) (evs : List BodyEv) :
    (Dec.run cd cfg n Dec.init evs).length = n := by
  generalize Dec.init = s
  induction n generalizing s evs with
  | zero => rfl
  | succ n ih => simp [Dec.run, ih]

/-- **Every message yielded is a correctly framed message of the input.**  Whatever the body
delivers, the messages the stream yields over any number of polls are, in order, an initial
segment of what the reference batch decoder reads from the delivered bytes — the frames that
have a legal flag, a length within the limit, a complete, decompressible and decodable payload,
up to the first frame that has not. -/
theorem C07_messages_are_valid_prefix (cd : Codec α) (cfg : DecCfg) (n : Nat) (evs : List BodyEv) :
    msgsOf (Dec.run cd cfg n Dec.init evs) <+: (batch (recvOf cd cfg) (dataOf evs)).1 := by
  have := run_msgs_prefix cd cfg n Dec.init evs (by simp [PhaseOk, Dec.init])
  cases hs : cfg.skipsBody with
  | false => simpa [specFrom, Dec.init, accepted_keep hs] using this
  | true =>
    -- a response with a non-200 HTTP status: its body is not read, no message is yielded at all
    have hnil : msgsOf (Dec.run cd cfg n Dec.init evs) = [] := by
      simpa [specFrom, Dec.init, accepted_skip hs, batch_nil] using this
    rw [hnil]; exact List.nil_prefix

/-- **The first error is final.**  After the stream has yielded an error, every later poll
yields `None`. -/
theorem C07_first_error_final (cd : Codec α) (cfg : DecCfg) (n : Nat) (evs : List BodyEv)
    (pre post : List (Item α)) (e : St)
    (h : Dec.run cd cfg n Dec.init evs = pre ++ .err e :: post) : ∀ o ∈ post, o = .none :=
  run_first_error_final cd cfg n Dec.init evs pre post e (by intro len comp h; simp [Dec.init] at h) h

/-- **A caller that drains the stream always terminates.**  Within `#events + #messages + 1`
polls the stream reports the end of the stream or an error. -/
theorem C07_drain_terminates (cd : Codec α) (cfg : DecCfg) (evs : List BodyEv) (n : Nat)
    (hn : evs.length + (batch (recvOf cd cfg) (dataOf evs)).1.length < n) :
    ∃ o ∈ Dec.run cd cfg n Dec.init evs, o.isTerminal = true := by
  refine run_reaches_end cd cfg n Dec.init evs (by simp [PhaseOk, Dec.init]) ?_
  cases hs : cfg.skipsBody with
  | false => simpa [specFrom, Dec.init, accepted_keep hs] using hn
  | true => simp [specFrom, Dec.init, accepted_skip hs, batch_nil]; omega

/-- **Which inputs are refused, and how** (the reference decoder's verdicts are the stream's
errors): if the delivered bytes contain, after `k` valid frames, a frame with an illegal flag, a
compressed flag without a negotiated encoding, an over-limit length, undecompressible or
undecodable payload, no more than those `k` messages are ever yielded. -/
theorem C07_nothing_after_bad_frame (cd : Codec α) (cfg : DecCfg) (n : Nat) (evs : List BodyEv)
    (ms : List α) (b : Bad) (h : batch (recvOf cd cfg) (dataOf evs) = (ms, .bad b)) :
    (msgsOf (Dec.run cd cfg n Dec.init evs)).length ≤ ms.length := by
  have := C07_messages_are_valid_prefix cd cfg n evs
  rw [h] at this
  exact this.length_le

/- Non-vacuity: the DESIGN §5.5 witness — a bad flag followed by bytes that look like frames. -/
def idCodec : Codec Bytes := { ser := id, de := some, deErr := 13, cz := fun _ b => b, dz := fun _ b => some b }

example : Dec.run idCodec { enc := none, maxSize := none, dir := .request } 4 Dec.init
      [.data [7, 0, 0, 0, 0, 1, 9, 0, 0, 0, 0, 2, 9, 9]]
    = [.err ⟨13, .badFlag⟩, .none, .none, .none] := by decide

end C07
