import TonicModel.Lemmas.FramingWire
import TonicModel.Lemmas.FramingDecLimit
import TonicModel.Lemmas.FramingOps
/-
C07 — Hostile or truncated input ends a stream with one error, never a hang or panic.
All theorems quantify over *arbitrary* event lists: any bytes in any chunking, `Pending`s,
body errors and trailers at any position.
-/
namespace C07
open Framing Spec.Framing
variable {α : Type}

/-- **Every poll completes with a value; the model has no panic branch.**  `Dec.pollNext` is a
total function (Lean's termination checker accepted its recursion over the events still to
come, so a poll cannot spin without consuming an event), hence `n` polls give `n` results. (Transcription lemma: it holds by unfolding the model's definition, so it pins the model's shape for the correspondence run — its assurance about tonic is the tie, not this proof.) -/
theorem C07_every_poll_completes (cd : Codec α) (cfg : DecCfg) (n : Nat) (evs : List BodyEv) :
    (Dec.run cd cfg n Dec.init evs).length = n := by
  generalize Dec.init = s
  induction n generalizing s evs with
  | zero => rfl
  | succ n ih => simp [Dec.run, ih]

/-- **Every message yielded is a correctly framed message of the input.**  Whatever the body
delivers, the messages the stream yields over any number of polls are, in order, an initial
segment of what the reference batch decoder reads from the delivered bytes — the frames that
have a legal flag, a length within the limit, a complete, decompressible and decodable payload,
up to the first frame that has not. -/
theorem C07_messages_are_valid_prefix (cd : Codec α) (cfg : DecCfg) (n : Nat) (evs : List BodyEv) :
    msgsOf (Dec.run cd cfg n Dec.init evs) <+: (batch (recvOf cd cfg) (dataOf evs)).1 := by
  have := run_msgs_prefix cd cfg n Dec.init evs (by simp [PhaseOk, Dec.init])
  cases hs : cfg.skipsBody with
  | false => simpa [specFrom, Dec.init, accepted_keep hs] using this
  | true =>
    -- a response with a non-200 HTTP status: its body is not read, no message is yielded at all
    have hnil : msgsOf (Dec.run cd cfg n Dec.init evs) = [] := by
      simpa [specFrom, Dec.init, accepted_skip hs, batch_nil] using this
    rw [hnil]; exact List.nil_prefix

/-- **The first error is final.**  After the stream has yielded an error, every later poll
yields `None`. -/
theorem C07_first_error_final (cd : Codec α) (cfg : DecCfg) (n : Nat) (evs : List BodyEv)
    (pre post : List (Item α)) (e : St)
    (h : Dec.run cd cfg n Dec.init evs = pre ++ .err e :: post) : ∀ o ∈ post, o = .none :=
  run_first_error_final cd cfg n Dec.init evs pre post e (by intro len comp h; simp [Dec.init] at h) h

/-- **A caller that drains the stream always terminates.**  Within `#events + #messages + 1`
polls the stream reports the end of the stream or an error. -/
theorem C07_drain_terminates (cd : Codec α) (cfg : DecCfg) (evs : List BodyEv) (n : Nat)
    (hn : evs.length + (batch (recvOf cd cfg) (dataOf evs)).1.length < n) :
    ∃ o ∈ Dec.run cd cfg n Dec.init evs, o.isTerminal = true := by
  refine run_reaches_end cd cfg n Dec.init evs (by simp [PhaseOk, Dec.init]) ?_
  cases hs : cfg.skipsBody with
  | false => simpa [specFrom, Dec.init, accepted_keep hs] using hn
  | true => simp [specFrom, Dec.init, accepted_skip hs, batch_nil]; omega

/-- **Which inputs are refused, and how** (the reference decoder's verdicts are the stream's
errors): if the delivered bytes contain, after `k` valid frames, a frame with an illegal flag, a
compressed flag without a negotiated encoding, an over-limit length, undecompressible or
undecodable payload, no more than those `k` messages are ever yielded. -/
theorem C07_nothing_after_bad_frame (cd : Codec α) (cfg : DecCfg) (n : Nat) (evs : List BodyEv)
    (ms : List α) (b : Bad) (h : batch (recvOf cd cfg) (dataOf evs) = (ms, .bad b)) :
    (msgsOf (Dec.run cd cfg n Dec.init evs)).length ≤ ms.length := by
  have := C07_messages_are_valid_prefix cd cfg n evs
  rw [h] at this
  exact this.length_le

/-! ### What a malformed or truncated body yields (content, not just totality)

For a body that delivers its bytes — any bytes, in chunks cut anywhere, `Pending`s anywhere — and
then simply ends (no trailers, no body error), the stream's results are *exactly* determined by
the reference batch decoder's reading of those bytes. -/

/-- **A plain body is drained to exactly the reference decoder's reading.**  If the reference
decoder reads the delivered bytes as messages `ms` and then stops as `stop`, the stream yields
exactly `ms`, in order, then: the error of the refused frame if `stop` is a refusal; `Unexpected
EOF` (INTERNAL) if the input ends inside a frame of which the receiver holds at least one byte;
otherwise the end of the stream (or, for a response, the error `infer_grpc_status` derives from
the HTTP status); then `None` for ever.  (`hk`: the stream is a gRPC message stream — a request, or a response with
HTTP status 200; the body of any other response is dropped unread, `C04_http_table_any_body`.) -/
theorem C07_plain_body_exact (cd : Codec α) (cfg : DecCfg) (hk : cfg.skipsBody = false) (evs : List BodyEv) (hplain : PlainEvs evs = true)
    (ms : List α) (stop : Stop) (h : batch (recvOf cd cfg) (dataOf evs) = (ms, stop))
    (n : Nat) (hn : evs.length + ms.length < n) :
    ∃ k, nonPending (Dec.run cd cfg n Dec.init evs) = ms.map .msg ++
      plainEnd (plainTail cd cfg none stop (held (recvOf cd cfg) (dataOf evs))) k := by
  have := run_plain cd cfg hk n Dec.init evs ms stop _ (by simp [PhaseOk, Dec.init]) hplain
    (by simpa [specFrom, Dec.init] using h) rfl hn
  simpa [heldFrom, Dec.init] using this

/-- **A malformed frame yields an error, not a clean end — for every chunking.**  If the delivered
bytes contain, after valid frames carrying `ms`, a frame the reference decoder refuses — flag
other than 0/1, flag 1 without a negotiated encoding, declared length over the limit, payload
the decompressor or the message decoder rejects — then the stream yields exactly `ms`, then that
refusal's error (INTERNAL; OUT_OF_RANGE for the length; the decoder's own code for an undecodable
payload), then `None` for ever. -/
theorem C07_malformed_frame_yields_error (cd : Codec α) (cfg : DecCfg) (hsk : cfg.skipsBody = false) (evs : List BodyEv)
    (hplain : PlainEvs evs = true) (ms : List α) (b : Bad)
    (h : batch (recvOf cd cfg) (dataOf evs) = (ms, .bad b)) (n : Nat) (hn : evs.length + ms.length < n) :
    ∃ k, nonPending (Dec.run cd cfg n Dec.init evs)
      = ms.map .msg ++ .err (stOfBad cd b) :: List.replicate k .none := by
  obtain ⟨k, hk⟩ := C07_plain_body_exact cd cfg hsk evs hplain ms (.bad b) h n hn
  exact ⟨k, by simpa [plainTail, plainEnd] using hk⟩

/-- the codes of the refusals (Transcription lemma: it holds by unfolding the model's definition, so it pins the model's shape for the correspondence run — its assurance about tonic is the tie, not this proof.) -/
theorem C07_refusal_codes (cd : Codec α) :
    stOfBad cd .flag = ⟨13, .badFlag⟩ ∧ stOfBad cd .noEncoding = ⟨13, .noEncoding⟩ ∧
    stOfBad cd .tooLarge = ⟨11, .tooLargeDec⟩ ∧ stOfBad cd .decompress = ⟨13, .decompress⟩ ∧
    stOfBad cd .codec = ⟨cd.deErr, .codec⟩ := ⟨rfl, rfl, rfl, rfl, rfl⟩

/-- **A body truncated inside a frame yields `Unexpected EOF`, not a clean end — for every
chunking** — whenever the receiver holds at least one byte of the unfinished frame (part of a
5-byte prefix, or part of a payload).  (When it holds none — the body ends right after a complete
prefix — tonic ends the stream cleanly: `C07_plain_body_exact`, DESIGN §9.2.) -/
theorem C07_truncated_frame_yields_error (cd : Codec α) (cfg : DecCfg) (hsk : cfg.skipsBody = false) (evs : List BodyEv)
    (hplain : PlainEvs evs = true) (ms : List α)
    (h : batch (recvOf cd cfg) (dataOf evs) = (ms, .incomplete))
    (hheld : held (recvOf cd cfg) (dataOf evs) ≠ [])
    (n : Nat) (hn : evs.length + ms.length < n) :
    ∃ k, nonPending (Dec.run cd cfg n Dec.init evs)
      = ms.map .msg ++ .err ⟨13, .eof⟩ :: List.replicate k .none := by
  obtain ⟨k, hk⟩ := C07_plain_body_exact cd cfg hsk evs hplain ms .incomplete h n hn
  exact ⟨k, by simpa [plainTail, plainEnd, hheld] using hk⟩

/- Non-vacuity: the DESIGN §5.5 witness — a bad flag followed by bytes that look like frames. -/
def idCodec : Codec Bytes := { ser := id, de := some, deErr := 13, cz := fun _ b => b, dz := fun _ b => some b }

example : Dec.run idCodec { enc := none, maxSize := none, dir := .request } 4 Dec.init
      [.data [7, 0, 0, 0, 0, 1, 9, 0, 0, 0, 0, 2, 9, 9]]
    = [.err ⟨13, .badFlag⟩, .none, .none, .none] := by decide

/- Non-vacuity of the hypotheses of `C07_malformed_frame_yields_error` (an undecodable payload
after a valid frame, cut inside the second prefix, with a `Pending`) and of
`C07_truncated_frame_yields_error` (two of five payload bytes delivered). -/
def ffCodec : Codec Bytes :=
  { ser := id, de := fun b => if b.head? = some 255 then none else some b, deErr := 13,
    cz := fun _ b => b, dz := fun _ b => some b }

example :
    let cfg : DecCfg := { enc := none, maxSize := none, dir := .request }
    let evs : List BodyEv := [.data [0, 0, 0, 0, 1, 9, 0, 0], .pending, .data [0, 0, 2, 255, 1, 0, 0, 0, 0, 0]]
    PlainEvs evs = true ∧ batch (recvOf ffCodec cfg) (dataOf evs) = ([[9]], .bad .codec) := by
  simp [PlainEvs, dataOf, batch_cons5, batch_nil, header, recvOf, batchBody, Spec.Framing.payload, ffCodec, be32,
    DecCfg.limit, defaultMaxRecv]

example :
    let cfg : DecCfg := { enc := none, maxSize := none, dir := .request }
    let evs : List BodyEv := [.data [0, 0, 0, 0, 5, 1], .data [2]]
    PlainEvs evs = true ∧ batch (recvOf ffCodec cfg) (dataOf evs) = ([], .incomplete) ∧
      held (recvOf ffCodec cfg) (dataOf evs) = [1, 2] := by
  simp [PlainEvs, dataOf, batch_cons5, held_cons5, header, recvOf, batchBody, heldBody, Spec.Framing.payload,
    ffCodec, be32, DecCfg.limit, defaultMaxRecv]

/-! ### Consumers that use `Streaming::message()` and `Streaming::trailers()` (audit aC07)

The property speaks of "a caller that drains it".  tonic's own draining callers (`Grpc::unary`,
`client_streaming`, `map_request_unary`) and most user code do not call `poll_next` directly: they
call `message()` and `trailers()`.  `Dec.runOps` is a consumer making any sequence of these calls
on the one stream. -/

/-- Transcription lemma: `Op.next` and `Op.message` are ONE match arm of `Dec.stepOp` (`| .next | .message => …`,
`Dec.stepOp cd cfg fuel s evs .next = Dec.stepOp cd cfg fuel s evs .message` is `rfl`), so "`message()` is
`poll_next`" is true by construction of the model and this induction has nothing to discover.  What it
records: in the model, a consumer that never calls `trailers()` — any mixture of `poll_next` and polls of
`message()` futures, each dropped after one poll — sees exactly the results of that many `poll_next` calls, so
the theorems above apply to it.  That the REAL `Streaming::message()` is one `poll_next` (a `poll_fn` holding no
state of its own, nothing lost when the future is dropped after `Pending`) is carried by the correspondence
run: the `xdec` cases with `message()` consumers (`O…` op strings, C07 and C01), predicted by `Dec.runOps`. -/
theorem C07_message_is_poll_next (cd : Codec α) (cfg : DecCfg) (fuel : Nat) (ops : List Op) (evs : List BodyEv)
    (h : ∀ op ∈ ops, op.isPoll = true) :
    Dec.runOps cd cfg fuel ops Dec.init evs = (Dec.run cd cfg ops.length Dec.init evs).map .item :=
  runOps_polls cd cfg fuel ops Dec.init evs h

/- why the lemma above is a transcription lemma: the two ops are the same step, definitionally -/
example (cd : Codec α) (cfg : DecCfg) (fuel : Nat) (s : DecSt) (evs : List BodyEv) :
    Dec.stepOp cd cfg fuel s evs .next = Dec.stepOp cd cfg fuel s evs .message := rfl

/-- **Every state a consumer can reach is a good one** (a `ReadBody` state remembers identity or
the negotiated encoding): the invariant the next three theorems are stated over holds initially
and after every call, `trailers()` included. -/
theorem C07_consumer_states_ok (cd : Codec α) (cfg : DecCfg) (fuel : Nat) (s : DecSt) (evs : List BodyEv) (op : Op) :
    StateOk cfg Dec.init ∧ (StateOk cfg s → StateOk cfg (Dec.stepOp (α := α) cd cfg fuel s evs op).1) :=
  ⟨by intro len comp h; simp [Dec.init] at h, fun hs => (stepOp_stateOk cd cfg fuel s evs op hs).1⟩

/-- **`trailers()` always returns.**  From every reachable state its drain loop
(`while self.message().await?.is_some() {}`) ends within `#events + #messages + 1` polls — for any
bytes, any chunking, any `Pending`s, body errors and trailers still to come. -/
theorem C07_trailers_call_terminates (cd : Codec α) (cfg : DecCfg) (fuel : Nat) (s : DecSt) (evs : List BodyEv)
    (hs : StateOk cfg s) (hn : evs.length + (specFrom cd cfg s (accepted cfg evs)).1.length < fuel) :
    (Dec.trailersCall cd cfg fuel s evs).2.2 ≠ .fuel := by
  unfold Dec.trailersCall
  cases s.trailers with
  | some t => simp
  | none =>
    have := drain_terminates cd cfg fuel s evs 0 hs hn
    cases hd : Dec.drain cd cfg fuel s evs 0 with
    | none => simp [hd] at this
    | some q =>
      obtain ⟨s', evs', k, r⟩ := q
      cases r <;> simp

/-- **`trailers()` reports the stream's own end — no error swallowed, none invented.**  When no
trailers are cached, what `trailers()` returns is decided by the first terminal result `poll_next`
would have given: `Err(e)` exactly when that is the error `e` (which is thereby consumed), `Ok`
exactly when it is the end of the stream; before it only messages and `Pending`s went by. -/
theorem C07_trailers_reports_the_streams_end (cd : Codec α) (cfg : DecCfg) (fuel : Nat) (s : DecSt) (evs : List BodyEv)
    (ht : s.trailers = none) (hfuel : (Dec.trailersCall cd cfg fuel s evs).2.2 ≠ .fuel) :
    ∃ j pre, j ≤ fuel ∧ (∀ o ∈ pre, o.isTerminal = false) ∧
      ((∃ e, (Dec.trailersCall cd cfg fuel s evs).2.2 = .err (pendingsOf pre) e ∧
            Dec.run cd cfg j s evs = pre ++ [.err e]) ∨
       (∃ t, (Dec.trailersCall cd cfg fuel s evs).2.2 = .ok (pendingsOf pre) t ∧
            Dec.run cd cfg j s evs = pre ++ [.none])) := by
  unfold Dec.trailersCall at hfuel ⊢
  simp only [ht] at hfuel ⊢
  cases hd : Dec.drain cd cfg fuel s evs 0 with
  | none => simp [hd] at hfuel
  | some q =>
    obtain ⟨s', evs', k, r⟩ := q
    obtain ⟨j, pre, hj, hrun, hpre, hk⟩ := drain_spec cd cfg fuel s evs 0 s' evs' k r hd
    refine ⟨j, pre, hj, hpre, ?_⟩
    cases r with
    | some e => left; exact ⟨e, by simp [hk], by simpa [endItem] using hrun⟩
    | none => right; exact ⟨s'.trailers, by simp [hk], by simpa [endItem] using hrun⟩

/-- **The first error is final for every consumer.**  Whichever call returns the stream's error —
`poll_next`, `message()`, or `trailers()` — every later call is answered quietly: `None` to a
poll, and `trailers()` returns `Ok` at once without touching the body. -/
theorem C07_first_error_final_any_consumer (cd : Codec α) (cfg : DecCfg) (fuel : Nat) (hf : 0 < fuel)
    (ops : List Op) (evs : List BodyEv) (pre post : List (OpOut α)) (o : OpOut α)
    (h : Dec.runOps cd cfg fuel ops Dec.init evs = pre ++ o :: post) (he : o.isErr = true) :
    ∀ x ∈ post, x.isQuiet = true :=
  runOps_first_error_final cd cfg fuel hf ops Dec.init evs pre post o
    (by intro len comp h; simp [Dec.init] at h) h he

/-- **tonic's own draining callers are consumers of this kind.**  `client::Grpc::unary` /
`client_streaming` and `server::Grpc::unary` (`map_request_unary`) do `try_next().await` and then
`trailers().await?` on the stream they have just built.  Whatever such a call returns is read off
the consumer `message()ʲ⁺¹ ; trailers()`: a message only if it is the stream's first result (hence,
by `C07_messages_are_valid_prefix`, the first valid message of the input) and the drain after it
met no error; the stream's own error otherwise — from the first result or from the drain; and
"missing message" exactly when the stream ends before any message.  So the theorems above (valid
prefix, first error final, `trailers()` terminates and reports the stream's own end) are about
these calls too. -/
theorem C07_unary_call_is_a_consumer (cd : Codec α) (cfg : DecCfg) (fuel : Nat) (evs : List BodyEv)
    (h : Dec.unaryCall cd cfg fuel Dec.init evs ≠ .fuel) :
    ∃ j o x, Dec.runOps cd cfg fuel (List.replicate (j + 1) .message ++ [.trailers]) Dec.init evs
        = List.replicate j (.item .pending) ++ [.item o, x] ∧
      UnaryView (Dec.unaryCall cd cfg fuel Dec.init evs) j o x :=
  unaryCall_view cd cfg fuel Dec.init evs h

example : Dec.unaryCall idCodec { enc := none, maxSize := none, dir := .response 200 } 9 Dec.init
      [.pending, .data [0, 0, 0, 0, 1, 9], .pending, .data [0, 0, 0, 0, 5, 1]] = .err 2 ⟨13, .eof⟩ := by decide

/- Non-vacuity: `trailers()` called mid-stream consumes the stream's error (a bad flag after one
message), after which a poll yields `None` and a second `trailers()` returns `Ok(None)` at once;
and a `trailers()` that drains past a message to OK trailers. -/
example : Dec.runOps idCodec { enc := none, maxSize := none, dir := .request } 9 [.trailers, .next, .trailers] Dec.init
      [.data [0, 0, 0, 0, 1, 9], .pending, .data [7, 0, 0, 0, 0]]
    = [.tr (.err 1 ⟨13, .badFlag⟩), .item .none, .tr (.ok 0 none)] := by decide

example : Dec.runOps idCodec { enc := none, maxSize := none, dir := .response 200 } 9 [.message, .trailers, .trailers] Dec.init
      [.data [0, 0, 0, 0, 1, 9, 0, 0, 0, 0, 1, 8], .trailers (some 0)]
    = [.item (.msg [9]), .tr (.ok 0 (some (some 0))), .tr (.ok 0 none)] := by decide

/- the scope hypothesis `skipsBody = false` holds for every request and every 200 response -/
example : ({ enc := none, maxSize := none, dir := .request } : DecCfg).skipsBody = false := by decide
example : ({ enc := none, maxSize := none, dir := .response 200 } : DecCfg).skipsBody = false := by decide

end C07
