import TonicModel.Model.Call
import TonicModel.Spec.Call
namespace C02
theorem C02_placeholder : True := trivial
end C02
