import TonicModel.Lemmas.CallEnd
import TonicModel.Lemmas.CallKnobs
/-
C02 — Client observes exactly the messages, metadata and status the server produced; the
handler receives exactly the request the caller sent; under any transport fragmentation.

Property theorems only.  The model is `Model/Call.lean` (a composition of the framing, status
and metadata models of C01/C03/C04/C06/C07/C08); the oracle is `Spec/Call.lean` (no model
import); the work is in `Lemmas/Call.lean`, `CallWire.lean`, `CallEnd.lean`.

Reading guide.  `Call.Cfg` = codec + encoder yield threshold + `fuel` (how many polls a side
waits before the model calls it a hang).  `Call.clientRequest c nc r` is the HTTP request the
client's `Grpc` hands to the transport for caller request `r` (body polled `nc` times).
`Call.serve c ns q s sc rd` is what the server's `Grpc` entry point (`q`: takes a request
stream, `s`: returns a response stream) does with request delivery `rd` and handler script `sc`:
what the handler saw, and the HTTP response.  `Call.clientReceive c s d` is what the client API
returns for response delivery `d`.

THE TRANSPORT ASSUMPTION is the pair of relations `Call.ReqTransports sent got` /
`Call.RespTransports sent got` (hypotheses `htq` / `htr` below): headers (and status) arrive
intact; the data bytes arrive as ANY list of chunks with ANY `Pending`s in between whose
concatenation is the bytes sent; the trailers frame arrives intact after all data (built into
the type `RespDelivery`).  Every theorem quantifies over all deliveries satisfying it.  This is
what is assumed of hyper/h2; flow control, RST_STREAM and GOAWAY are outside the model — C02 is
*partial* in that sense.
-/
namespace C02
open Call Framing
variable {α : Type}

/-! ### model values as the oracle's values -/

def specSt (st : FSt) : Spec.Call.St := ⟨st.code.num, st.message, st.details, st.metadata⟩

/-- what the handler did, abstractly -/
def didOf (sc : Script α) : Spec.Call.Did α :=
  match sc.early with
  | some st => .failed (specSt st)
  | none => .responded sc.initMd sc.body.msgs (sc.final.map specSt)

/-- what the client API returned, abstractly -/
def sawOf : ClientObs α → Spec.Call.Saw α
  | .err st => .failed (specSt st)
  | .single md m => .single md m
  | .stream md ms e _ => .stream md ms (e.map specSt)
  | .hang => .other

/-- what the handler was given, abstractly -/
def gotOf : Seen α → Spec.Call.Got α
  | .notCalled => .notCalled
  | .unary md m => .unary md m
  | .stream md ms e => .stream md ms (e.map Option.isNone)

/-- What is asked of the caller: messages both ends can carry, and no metadata entry named
`grpc-encoding` (not reserved by tonic; the server would take it for the compression header). -/
structure RequestOk (cd : Codec α) (r : CallReq α) : Prop where
  msgs : ∀ m ∈ r.msgs.msgs, MsgOk cd m
  md : noEncodingName r.md

/-- poll budgets: the transports poll the bodies to their end; nobody gives up early -/
structure Budget (c : Cfg α) (r : CallReq α) (sc : Script α) (nc ns : Nat) (rd : ReqDelivery) (d : RespDelivery) : Prop where
  client : r.msgs.length + 1 < nc
  server : sc.body.length + 2 < ns
  reqFuel : rd.chunks.length < c.fuel
  respFuel : d.chunks.length + 1 + sc.body.msgs.length < c.fuel

private theorem handlerSrc_len (respStream : Bool) (sc : Script α) : (handlerSrc respStream sc).length ≤ sc.body.length + 1 := by
  cases respStream with
  | true => simp only [handlerSrc, ↓reduceIte, List.length_append, srcOf, List.length_map]; cases sc.final <;> simp
  | false =>
    simp only [handlerSrc, Bool.false_eq_true, ↓reduceIte, List.length_map, List.length_take, Sched.msgs]
    have := List.length_filterMap_le id sc.body
    omega

private theorem sameStatus_spec (want got : FSt) (h : SameStatus want got) :
    Spec.Call.sameStatus (specSt want) (specSt got) = true := by
  obtain ⟨h1, h2, h3, h4⟩ := h
  simp [Spec.Call.sameStatus, specSt, h1, h2, h3, carried_of _ _ h4]

private theorem code_ne_zero (st : FSt) (h : st.code ≠ .ok) : ((specSt st).code != 0) = true := by
  simp [specSt, num_eq_zero, h]

/-! ## request direction -/

/-- **The handler of a unary-request method receives exactly the caller's message and
metadata** — for every caller metadata map, every message, every yield threshold, and EVERY
delivery of the request allowed by the transport relation (any cut of the 5-byte prefix or the
payload, any `Pending` pattern); whatever the handler then does (`sc`), and for both response
shapes (`s`: unary, server-streaming). -/
theorem C02_handler_sees_request_unary [BEq α] [LawfulBEq α] (c : Cfg α) (laws : CodecLaws c.cd)
    (r : CallReq α) (m : α) (hone : r.msgs.msgs = [m]) (rok : RequestOk c.cd r)
    (nc : Nat) (hnc : r.msgs.length + 1 < nc)
    (rd : ReqDelivery) (htq : ReqTransports (clientRequest c nc r) rd) (hfuel : rd.chunks.length < c.fuel)
    (ns : Nat) (s : Bool) (sc : Script α) :
    Spec.Call.handlerOk false sc.reads ⟨r.md, r.msgs.msgs⟩ (gotOf (serve c ns false s sc rd).1) = true ∧
    (serve c ns false s sc rd).2 = handlerResponse c ns s sc := by
  have hm : MsgOk c.cd m := rok.msgs m (by rw [hone]; simp)
  rw [serve_unary_sees c laws r m hone hm rok.md nc hnc rd htq hfuel ns s sc]
  refine ⟨?_, rfl⟩
  simp only [gotOf, Spec.Call.handlerOk, hone, Bool.not_false, Bool.true_and, beq_self_eq_true]
  exact exactly_of _ _ (fun k hk => C08.C08_preserved_request r.md k (protocolNames_reserved k hk).1)

/-- **The handler of a streaming-request method receives exactly the caller's messages, in
order, then the clean end of the stream, and the caller's metadata** — for every request
schedule (any number of messages, `Pending`s anywhere), every delivery allowed by the transport
relation, and every number `sc.reads` of `message()` calls the handler chooses to make (if it
stops early it has seen the corresponding prefix). -/
theorem C02_handler_sees_request_streaming [BEq α] [LawfulBEq α] (c : Cfg α) (laws : CodecLaws c.cd)
    (r : CallReq α) (rok : RequestOk c.cd r)
    (nc : Nat) (hnc : r.msgs.length + 1 < nc)
    (rd : ReqDelivery) (htq : ReqTransports (clientRequest c nc r) rd) (hfuel : rd.chunks.length < c.fuel)
    (ns : Nat) (s : Bool) (sc : Script α) :
    Spec.Call.handlerOk true sc.reads ⟨r.md, r.msgs.msgs⟩ (gotOf (serve c ns true s sc rd).1) = true ∧
    (serve c ns true s sc rd).2 = handlerResponse c ns s sc := by
  rw [serve_stream_sees c laws r rok.msgs rok.md nc hnc rd htq hfuel ns s sc]
  refine ⟨?_, rfl⟩
  have hc : Spec.Call.exactly r.md (Metadata.requestWire r.md) = true :=
    exactly_of _ _ (fun k hk => C08.C08_preserved_request r.md k (protocolNames_reserved k hk).1)
  by_cases hk : sc.reads ≤ r.msgs.msgs.length <;>
    simp [gotOf, Spec.Call.handlerOk, hc, hk]

/-! ## response direction -/

/-- **Streaming-response methods: the client sees the script.**  For every handler script —
`Err(status)` at once, or any initial metadata, any `k ≥ 0` messages with any `Pending` pattern,
ended normally or by any error status (any non-OK code, any message text, any details bytes, any
metadata) — and EVERY delivery of the server's response allowed by the transport relation:
`Grpc::streaming` / `server_streaming` return the initial metadata; `message()` yields exactly
the script's messages in order; then `None` iff the handler's stream ended normally, otherwise
`Err` with the handler's code, message, details and every custom metadata entry (names in order
of values); and an `Err(status)` handler makes the call itself fail with that status. -/
theorem C02_client_sees_script_response_stream [BEq α] [LawfulBEq α] (c : Cfg α) (laws : CodecLaws c.cd)
    (sc : Script α) (ok : ScriptOk c.cd sc)
    (ns : Nat) (hns : sc.body.length + 2 < ns)
    (d : RespDelivery) (htr : RespTransports (handlerResponse c ns true sc) d)
    (hfuel : d.chunks.length + 1 + sc.body.msgs.length < c.fuel) :
    Spec.Call.clientOk true (didOf sc) (sawOf (clientReceive c true d)) = true := by
  have hlen := handlerSrc_len true sc
  cases he : sc.early with
  | some st =>
    obtain ⟨st', hobs, hsame⟩ := client_sees_early c true sc st he ok ns d htr true
    simp [didOf, he, hobs, sawOf, Spec.Call.clientOk, sameStatus_spec _ _ hsame, code_ne_zero st (ok.early st he).1]
  | none =>
    obtain ⟨ended, tr, hobs, hend⟩ := clientStream_sees c laws sc he ok ns (by omega) d htr hfuel
    have hc : Spec.Call.carried sc.initMd (Metadata.responseWire sc.initMd) = true :=
      carried_of _ _ (fun k hk => (C08.C08_preserved_response sc.initMd k (protocolNames_reserved k hk).1).1)
    simp only [clientReceive, ↓reduceIte, hobs, didOf, he, sawOf, Spec.Call.clientOk, Bool.true_and,
      beq_self_eq_true, hc]
    cases hf : sc.final with
    | none => rw [hf] at hend; simp [hend.1]
    | some st =>
      rw [hf] at hend
      obtain ⟨_, st', rfl, _, hsame⟩ := hend
      simp [sameStatus_spec _ _ hsame, code_ne_zero st (ok.final st hf).1]

/-- **Unary-response methods: the client sees the script.**  The handler returns `Err(status)`
or one message with any metadata; for EVERY delivery of the server's response allowed by the
transport relation, `Grpc::unary` / `client_streaming` return `Ok` with that message and that
metadata iff the handler returned `Ok`, and otherwise `Err` with the handler's code, message,
details and custom metadata. -/
theorem C02_client_sees_script_response_single [BEq α] [LawfulBEq α] (c : Cfg α) (laws : CodecLaws c.cd)
    (sc : Script α) (ok : ScriptOk c.cd sc) (m : α) (hone : sc.body.msgs = [m]) (hfin : sc.final = none)
    (ns : Nat) (hns : sc.body.length + 2 < ns)
    (d : RespDelivery) (htr : RespTransports (handlerResponse c ns false sc) d)
    (hfuel : d.chunks.length + 1 + sc.body.msgs.length < c.fuel) :
    Spec.Call.clientOk false (didOf sc) (sawOf (clientReceive c false d)) = true := by
  have hlen := handlerSrc_len false sc
  cases he : sc.early with
  | some st =>
    obtain ⟨st', hobs, hsame⟩ := client_sees_early c false sc st he ok ns d htr false
    simp [didOf, he, hobs, sawOf, Spec.Call.clientOk, sameStatus_spec _ _ hsame, code_ne_zero st (ok.early st he).1]
  | none =>
    have hobs := clientSingle_sees c laws sc m he hone ok ns (by omega) d htr hfuel
    have hc : Spec.Call.carried sc.initMd (Metadata.clientUnaryMetadata sc.initMd) = true :=
      carried_of _ _ (fun k hk => (C08.C08_preserved_response sc.initMd k (protocolNames_reserved k hk).1).2)
    simp [clientReceive, hobs, didOf, he, sawOf, Spec.Call.clientOk, hone, hfin, hc]

/-- **A single-response client facing a handler that streams: the final error is not lost.**  A server may
answer a unary / client-streaming call with HEADERS, any number of messages and then an ERROR status in the
TRAILERS (what a tonic streaming handler produces, and what other gRPC servers produce for a unary call that
fails after writing output).  For EVERY such script (any initial metadata, `k ≥ 0` messages, any non-OK code,
message text, details, metadata) and EVERY delivery allowed by the transport relation, `Grpc::unary` /
`client_streaming` fail with the handler's code, message and details and every custom metadata entry of the
status — when no message preceded the error, apart from the names the response headers also carry (the client
merges the headers into the status there: C08's subject, finding C08-F1).  `body.trailers().await?` — the
drain after the first message — is where the error surfaces; a `trailers()` that swallows the stream's error
(seed C02f) turns the call into a success. -/
theorem C02_single_client_sees_streamed_error [BEq α] [LawfulBEq α] (c : Cfg α) (laws : CodecLaws c.cd)
    (sc : Script α) (ok : ScriptOk c.cd sc) (he : sc.early = none) (st : FSt) (hf : sc.final = some st)
    (ns : Nat) (hns : sc.body.length + 2 < ns)
    (d : RespDelivery) (htr : RespTransports (handlerResponse c ns true sc) d)
    (hfuel : d.chunks.length + 1 + sc.body.msgs.length < c.fuel) :
    Spec.Call.clientOkMixed (didOf sc) (sawOf (clientReceive c false d)) = true := by
  have hlen := handlerSrc_len true sc
  obtain ⟨st', _, hsame, hobs⟩ := clientSingle_sees_streamed_error c laws sc st he hf ok ns (by omega) d htr hfuel
  obtain ⟨h1, h2, h3, h4⟩ := hsame
  have hcode := code_ne_zero st (ok.final st hf).1
  simp only [clientReceive, Bool.false_eq_true, ↓reduceIte, hobs, didOf, he, hf, Option.map_some, sawOf,
    Spec.Call.clientOkMixed, hcode, Bool.true_and, Bool.and_eq_true, beq_iff_eq, List.all_eq_true,
    Bool.or_eq_true, List.contains_iff_mem, Bool.not_eq_true']
  by_cases hnil : sc.body.msgs = []
  · simp only [hnil, ↓reduceIte, specSt, h1, h2, h3, true_and, List.isEmpty_nil, and_true]
    intro k _
    by_cases hk : k ∈ Spec.Call.protocolNames
    · exact Or.inl (Or.inl hk)
    · have hw : HMap.getAll k (Metadata.responseWire sc.initMd) = HMap.getAll k sc.initMd :=
        (C08.C08_preserved_response sc.initMd k (protocolNames_reserved k hk).1).1
      by_cases hem : HMap.getAll k sc.initMd = []
      · refine Or.inr ?_
        rw [Status.getAll_extend', hw, hem]
        simpa using h4 k hk
      · refine Or.inl (Or.inr ?_)
        cases hh : HMap.getAll k sc.initMd with
        | nil => exact absurd hh hem
        | cons _ _ => rfl
  · simp only [hnil, ↓reduceIte, specSt, h1, h2, h3, true_and]
    intro k _
    by_cases hk : k ∈ Spec.Call.protocolNames
    · exact Or.inl (Or.inl hk)
    · exact Or.inr (h4 k hk)

/-! ## the four call shapes, end to end

caller → client `Grpc` → ANY request delivery → server `Grpc` → handler script → ANY response
delivery → client API result.  One theorem per shape; each concludes both halves of the
property: the handler was given the caller's request, and the client was given the handler's
response. -/

/-- **Unary call.** -/
theorem C02_client_sees_script_unary [BEq α] [LawfulBEq α] (c : Cfg α) (laws : CodecLaws c.cd)
    (r : CallReq α) (mq : α) (hq : r.msgs.msgs = [mq]) (rok : RequestOk c.cd r)
    (sc : Script α) (ok : ScriptOk c.cd sc) (mr : α) (hr : sc.body.msgs = [mr]) (hfin : sc.final = none)
    (nc ns : Nat) (rd : ReqDelivery) (d : RespDelivery) (b : Budget c r sc nc ns rd d)
    (htq : ReqTransports (clientRequest c nc r) rd)
    (htr : RespTransports (serve c ns false false sc rd).2 d) :
    Spec.Call.handlerOk false sc.reads ⟨r.md, r.msgs.msgs⟩ (gotOf (serve c ns false false sc rd).1) = true ∧
    Spec.Call.clientOk false (didOf sc) (sawOf (clientReceive c false d)) = true := by
  obtain ⟨h1, h2⟩ := C02_handler_sees_request_unary c laws r mq hq rok nc b.client rd htq b.reqFuel ns false sc
  rw [h2] at htr
  exact ⟨h1, C02_client_sees_script_response_single c laws sc ok mr hr hfin ns b.server d htr b.respFuel⟩

/-- **Client-streaming call.** -/
theorem C02_client_sees_script_client_streaming [BEq α] [LawfulBEq α] (c : Cfg α) (laws : CodecLaws c.cd)
    (r : CallReq α) (rok : RequestOk c.cd r)
    (sc : Script α) (ok : ScriptOk c.cd sc) (mr : α) (hr : sc.body.msgs = [mr]) (hfin : sc.final = none)
    (nc ns : Nat) (rd : ReqDelivery) (d : RespDelivery) (b : Budget c r sc nc ns rd d)
    (htq : ReqTransports (clientRequest c nc r) rd)
    (htr : RespTransports (serve c ns true false sc rd).2 d) :
    Spec.Call.handlerOk true sc.reads ⟨r.md, r.msgs.msgs⟩ (gotOf (serve c ns true false sc rd).1) = true ∧
    Spec.Call.clientOk false (didOf sc) (sawOf (clientReceive c false d)) = true := by
  obtain ⟨h1, h2⟩ := C02_handler_sees_request_streaming c laws r rok nc b.client rd htq b.reqFuel ns false sc
  rw [h2] at htr
  exact ⟨h1, C02_client_sees_script_response_single c laws sc ok mr hr hfin ns b.server d htr b.respFuel⟩

/-- **Server-streaming call.** -/
theorem C02_client_sees_script_server_streaming [BEq α] [LawfulBEq α] (c : Cfg α) (laws : CodecLaws c.cd)
    (r : CallReq α) (mq : α) (hq : r.msgs.msgs = [mq]) (rok : RequestOk c.cd r)
    (sc : Script α) (ok : ScriptOk c.cd sc)
    (nc ns : Nat) (rd : ReqDelivery) (d : RespDelivery) (b : Budget c r sc nc ns rd d)
    (htq : ReqTransports (clientRequest c nc r) rd)
    (htr : RespTransports (serve c ns false true sc rd).2 d) :
    Spec.Call.handlerOk false sc.reads ⟨r.md, r.msgs.msgs⟩ (gotOf (serve c ns false true sc rd).1) = true ∧
    Spec.Call.clientOk true (didOf sc) (sawOf (clientReceive c true d)) = true := by
  obtain ⟨h1, h2⟩ := C02_handler_sees_request_unary c laws r mq hq rok nc b.client rd htq b.reqFuel ns true sc
  rw [h2] at htr
  exact ⟨h1, C02_client_sees_script_response_stream c laws sc ok ns b.server d htr b.respFuel⟩

/-- **Bidirectional-streaming call.** -/
theorem C02_client_sees_script_bidi [BEq α] [LawfulBEq α] (c : Cfg α) (laws : CodecLaws c.cd)
    (r : CallReq α) (rok : RequestOk c.cd r)
    (sc : Script α) (ok : ScriptOk c.cd sc)
    (nc ns : Nat) (rd : ReqDelivery) (d : RespDelivery) (b : Budget c r sc nc ns rd d)
    (htq : ReqTransports (clientRequest c nc r) rd)
    (htr : RespTransports (serve c ns true true sc rd).2 d) :
    Spec.Call.handlerOk true sc.reads ⟨r.md, r.msgs.msgs⟩ (gotOf (serve c ns true true sc rd).1) = true ∧
    Spec.Call.clientOk true (didOf sc) (sawOf (clientReceive c true d)) = true := by
  obtain ⟨h1, h2⟩ := C02_handler_sees_request_streaming c laws r rok nc b.client rd htq b.reqFuel ns true sc
  rw [h2] at htr
  exact ⟨h1, C02_client_sees_script_response_stream c laws sc ok ns b.server d htr b.respFuel⟩

/-! ## corollaries -/

/-- the response delivered with the whole body in one data frame, immediately followed by the
trailers, no `Pending` anywhere: everything "arrives in one read" -/
def oneRead (resp : HttpResp) : RespDelivery :=
  { status := resp.status, headers := resp.headers,
    chunks := [some (respData resp.body)], trailers := (respTrailers resp.body).head? }

/-- **A status is not lost when it shares a read with the last message.**  Even if all `k`
messages and the trailers are available to the client in the same poll, it yields all `k`
messages first and then the handler's status (what integration tests over loopback cannot
force). -/
theorem C02_status_not_lost_when_sharing_a_read [BEq α] [LawfulBEq α] (c : Cfg α) (laws : CodecLaws c.cd)
    (sc : Script α) (ok : ScriptOk c.cd sc) (st : FSt) (hearly : sc.early = none) (hf : sc.final = some st)
    (ns : Nat) (hns : sc.body.length + 2 < ns) (hfuel : 2 + sc.body.msgs.length < c.fuel) :
    ∃ md st' tr, clientReceive c true (oneRead (handlerResponse c ns true sc)) = .stream md sc.body.msgs (some st') tr ∧
      SameStatus st st' := by
  have hlen := handlerSrc_len true sc
  have ht : RespTransports (handlerResponse c ns true sc) (oneRead (handlerResponse c ns true sc)) := by
    simp [RespTransports, oneRead, chunkData]
  obtain ⟨ended, tr, hobs, hend⟩ := clientStream_sees c laws sc hearly ok ns (by omega) _ ht
    (by simpa [oneRead] using hfuel)
  rw [hf] at hend
  obtain ⟨_, st', rfl, _, hsame⟩ := hend
  exact ⟨Metadata.responseWire sc.initMd, st', tr, by simp [clientReceive, hobs], hsame⟩

/-- **The result does not depend on the delivery at all**: any two deliveries of the same
response allowed by the transport relation give the client API the same result (streaming
shapes; messages, end of stream, error status, trailers). -/
theorem C02_independent_of_fragmentation (c : Cfg α) (laws : CodecLaws c.cd)
    (sc : Script α) (hearly : sc.early = none) (ok : ScriptOk c.cd sc)
    (ns : Nat) (hns : sc.body.length + 2 < ns)
    (d1 d2 : RespDelivery)
    (h1 : RespTransports (handlerResponse c ns true sc) d1) (h2 : RespTransports (handlerResponse c ns true sc) d2)
    (f1 : d1.chunks.length + 1 + sc.body.msgs.length < c.fuel)
    (f2 : d2.chunks.length + 1 + sc.body.msgs.length < c.fuel) :
    sawOf (clientReceive c true d1) = sawOf (clientReceive c true d2) := by
  have hlen := handlerSrc_len true sc
  obtain ⟨e1, t1, o1, x1⟩ := clientStream_sees c laws sc hearly ok ns (by omega) d1 h1 f1
  obtain ⟨e2, t2, o2, x2⟩ := clientStream_sees c laws sc hearly ok ns (by omega) d2 h2 f2
  simp only [clientReceive, ↓reduceIte, o1, o2, sawOf]
  cases hf : sc.final with
  | none => rw [hf] at x1 x2; rw [x1.1, x2.1]
  | some st =>
    rw [hf] at x1 x2
    obtain ⟨_, s1, rfl, r1, _⟩ := x1
    obtain ⟨_, s2, rfl, r2, _⟩ := x2
    -- both are the status read from the same trailers block
    rw [r1] at r2
    cases r2
    rfl

/-- **The projection the composition rests on is faithful** (simulation lemma): the framing
model sees a trailers block only as its `grpc-status` code and reports a code and a class; put
back into full statuses by the call model, that is exactly `infer_grpc_status` on the full
trailers and HTTP status — same decision, same status — for EVERY trailers block and status. -/
theorem C02_status_views_agree (deMsg : Bytes) (d : RespDelivery) :
    match Status.inferGrpcStatus .fixed d.trailers d.status with
    | .done => Framing.inferStatus (d.trailers.map trOf) d.status = none
    | .noStatus => Framing.inferStatus (d.trailers.map trOf) d.status = none
    | .err st => ∃ e, Framing.inferStatus (d.trailers.map trOf) d.status = some e ∧ respErr deMsg d e = st
    | .panic => False :=
  inferStatus_agrees deMsg d

/-! ## non-vacuity

A bidirectional call that satisfies every hypothesis of `C02_client_sees_script_bidi`: caller
metadata with a reserved name, three request events, a request delivery cut inside both length
prefixes with an empty chunk and `Pending`s; a handler that sends repeated initial metadata, two
messages (one empty) around a `Pending`, then DATA_LOSS with `%`, newline and non-ASCII in the
message, binary details, repeated / reserved / binary metadata; a response delivery cut inside
the first prefix and between prefix and payload. -/

def idCodec : Codec Bytes := { ser := id, de := some, deErr := 13, cz := fun _ b => b, dz := fun _ b => some b }
def exCfg : Cfg Bytes := { cd := idCodec, deMsg := [], yieldThr := 6, fuel := 40 }

def exSt : FSt :=
  { code := .dataLoss, message := [37, 10, 195, 169], details := [0, 255],
    metadata := [(HMap.name "x-a", [49]), (HMap.name "te", [120]), (HMap.name "x-a", [50]), (HMap.name "t-bin", [81, 81])] }

def exScript : Script Bytes :=
  { early := none, initMd := [(HMap.name "x-r", [97]), (HMap.name "x-r", [98])],
    body := [some [1, 2], none, some []], final := some exSt, reads := 5 }

def exReq : CallReq Bytes :=
  { md := [(HMap.name "x-q", [49]), (HMap.name "content-type", [120])], msgs := [some [7], none, some [8, 9]] }

def exRd : ReqDelivery :=
  { headers := Metadata.requestWire exReq.md,
    chunks := [some [0, 0], none, some [0, 0, 1, 7, 0], some [], some [0, 0, 0, 2, 8], none, some [9]] }

def exD : RespDelivery :=
  { status := 200, headers := Metadata.responseWire exScript.initMd,
    chunks := [some [0, 0, 0], none, some [0, 2, 1], some [2, 0, 0, 0, 0, 0]],
    trailers := some (Status.wire .fixed exSt []) }

theorem exLaws : CodecLaws exCfg.cd := ⟨fun _ => rfl, fun _ _ => rfl⟩

theorem exRequestOk : RequestOk exCfg.cd exReq :=
  { msgs := by
      intro m hm; simp [exReq, Sched.msgs] at hm
      rcases hm with rfl | rfl <;> simp [MsgOk, exCfg, idCodec, defaultMaxRecv]
    md := by unfold noEncodingName; decide }

theorem exScriptOk : ScriptOk exCfg.cd exScript :=
  { msgs := by
      intro m hm; simp [exScript, Sched.msgs] at hm
      rcases hm with rfl | rfl <;> simp [MsgOk, exCfg, idCodec, defaultMaxRecv]
    early := by intro st h; simp [exScript] at h
    final := by intro st h; simp [exScript] at h; subst h; exact ⟨by decide, by decide⟩
    initMd := by unfold noEncodingName; decide }

/- the transport relation holds of these deliveries (it is decidable) … -/
theorem exReqT : ReqTransports (clientRequest exCfg 5 exReq) exRd := by decide
theorem exRespT : RespTransports (serve exCfg 6 true true exScript exRd).2 exD := by decide
theorem exBudget : Budget exCfg exReq exScript 5 6 exRd exD := ⟨by decide, by decide, by decide, by decide⟩

/- … and it REJECTS deliveries that lose, reorder or invent bytes, or drop / alter the trailers -/
example : ¬ RespTransports (serve exCfg 6 true true exScript exRd).2 { exD with chunks := [some [0, 0, 0, 0, 2, 1]] } := by decide
example : ¬ RespTransports (serve exCfg 6 true true exScript exRd).2 { exD with trailers := none } := by decide
example : ¬ RespTransports (serve exCfg 6 true true exScript exRd).2 { exD with trailers := some [] } := by decide

/- a handler that fails at once (trailers-only response) meets `ScriptOk` too -/
example : ScriptOk idCodec { exScript with early := some exSt, final := none } :=
  { msgs := by
      intro m hm; simp [exScript, Sched.msgs] at hm
      rcases hm with rfl | rfl <;> simp [MsgOk, exCfg, idCodec, defaultMaxRecv]
    early := by intro st h; simp at h; subst h; exact ⟨by decide, by decide, by unfold noEncodingName; decide⟩
    final := by intro st h; simp at h
    initMd := by unfold noEncodingName; decide }

/- the oracle is not vacuous: it rejects a lost message, a wrong code, a lost metadata value and a
success reported for a failed stream -/
example : Spec.Call.clientOk true (didOf exScript) (.stream exD.headers [[1, 2]] (some (specSt exSt))) = false := by decide
example : Spec.Call.clientOk true (didOf exScript) (.stream exD.headers [[1, 2], []] (some { specSt exSt with code := 2 })) = false := by decide
example : Spec.Call.clientOk true (didOf exScript) (.stream exD.headers [[1, 2], []]
    (some { specSt exSt with metadata := [(HMap.name "x-a", [50])] })) = false := by decide
example : Spec.Call.clientOk true (didOf exScript) (.stream exD.headers [[1, 2], []] none) = false := by decide
/- all hypotheses of the bidi theorem together, on this example -/
example : Spec.Call.handlerOk true exScript.reads ⟨exReq.md, exReq.msgs.msgs⟩ (gotOf (serve exCfg 6 true true exScript exRd).1) = true ∧
    Spec.Call.clientOk true (didOf exScript) (sawOf (clientReceive exCfg true exD)) = true :=
  C02_client_sees_script_bidi exCfg exLaws exReq exRequestOk exScript exScriptOk 5 6 exRd exD exBudget exReqT exRespT

/- the hypotheses of the mixed-shape theorem hold of the same script and delivery (two messages, then
DATA_LOSS with details and metadata), and the oracle is not trivially true: success, another code, or a
status that lost an entry are all rejected -/
example : Spec.Call.clientOkMixed (didOf exScript) (sawOf (clientReceive exCfg false exD)) = true :=
  C02_single_client_sees_streamed_error exCfg exLaws exScript exScriptOk rfl exSt rfl 6 (by decide) exD
    (by decide) (by decide)
example : Spec.Call.clientOkMixed (didOf exScript) (.single exD.headers [1, 2]) = false := by decide
example : Spec.Call.clientOkMixed (didOf exScript) (.failed { specSt exSt with code := 2 }) = false := by decide
example : Spec.Call.clientOkMixed (didOf exScript) (.failed { specSt exSt with metadata := [] }) = false := by decide

/-! ## what fails without the `grpc-encoding` guard

tonic reserves six metadata names; `grpc-encoding` is not among them (the root cause recorded as
C05-F1/F2).  A handler or caller that attaches an entry of that name gets it onto the wire in the
HEADERS frame, and the peer takes it for the compression announcement and refuses the call with
UNIMPLEMENTED.  So the property as literally stated ("any … metadata") is false of the code; the
theorems above are the statement under the exact guard (`noEncodingName` in `ScriptOk` /
`RequestOk`), and here are the two witnesses.  They are in the harness corpus and are listed in
known_findings.json (C02-F1). -/

/-- `ScriptOk` without its two `grpc-encoding` conditions -/
structure ScriptOkAnyMetadata (cd : Codec α) (sc : Script α) : Prop where
  msgs : ∀ m ∈ sc.body.msgs, MsgOk cd m
  early : ∀ st, sc.early = some st → st.code ≠ .ok ∧ Utf8.valid st.message = true
  final : ∀ st, sc.final = some st → st.code ≠ .ok ∧ Utf8.valid st.message = true

def forgedScript : Script Bytes :=
  { early := none, initMd := [(HMap.name "grpc-encoding", HMap.name "gzip")], body := [some [1]], final := none, reads := 0 }

/-- Handler metadata `grpc-encoding: gzip` on a successful response: the client fails the call
with UNIMPLEMENTED although the handler succeeded. -/
theorem C02_client_sees_script_any_metadata_fails :
    ¬ ∀ (sc : Script Bytes), ScriptOkAnyMetadata exCfg.cd sc →
      ∀ d, RespTransports (handlerResponse exCfg 6 true sc) d →
        Spec.Call.clientOk true (didOf sc) (sawOf (clientReceive exCfg true d)) = true := by
  intro h
  have := h forgedScript
    { msgs := by intro m hm; simp [forgedScript, Sched.msgs] at hm; subst hm; simp [MsgOk, exCfg, idCodec, defaultMaxRecv]
      early := by intro st h; simp [forgedScript] at h
      final := by intro st h; simp [forgedScript] at h }
    (oneRead (handlerResponse exCfg 6 true forgedScript)) (by decide)
  revert this
  decide

/-- `RequestOk` without its `grpc-encoding` condition -/
structure RequestOkAnyMetadata (cd : Codec α) (r : CallReq α) : Prop where
  msgs : ∀ m ∈ r.msgs.msgs, MsgOk cd m

def forgedReq : CallReq Bytes :=
  { md := [(HMap.name "x-a", [49]), (HMap.name "grpc-encoding", HMap.name "gzip")], msgs := [some [1]] }

/-- Caller metadata `grpc-encoding: gzip`: the server answers UNIMPLEMENTED without calling the
handler, so the handler does not receive the request. -/
theorem C02_handler_sees_request_any_metadata_fails :
    ¬ ∀ (r : CallReq Bytes), RequestOkAnyMetadata exCfg.cd r →
      ∀ rd, ReqTransports (clientRequest exCfg 5 r) rd →
        Spec.Call.handlerOk false 0 ⟨r.md, r.msgs.msgs⟩ (gotOf (serve exCfg 6 false false exScript rd).1) = true := by
  intro h
  have := h forgedReq
    { msgs := by intro m hm; simp [forgedReq, Sched.msgs] at hm; subst hm; simp [MsgOk, exCfg, idCodec, defaultMaxRecv] }
    { headers := (clientRequest exCfg 5 forgedReq).headers, chunks := [some (reqData (clientRequest exCfg 5 forgedReq).body)] }
    (by decide)
  revert this
  decide

/-! ## outside the contract: no request message

A unary-request method called with an empty request stream: `map_request_unary` answers
INTERNAL "Missing request message." as a trailers-only response without calling the handler, and
either client entry point reports exactly that status — for every delivery of both directions. -/

theorem C02_missing_request_message [BEq α] [LawfulBEq α] (c : Cfg α) (laws : CodecLaws c.cd)
    (r : CallReq α) (hnone : r.msgs.msgs = []) (hmd : noEncodingName r.md)
    (nc : Nat) (hnc : r.msgs.length + 1 < nc)
    (rd : ReqDelivery) (htq : ReqTransports (clientRequest c nc r) rd) (hfuel : rd.chunks.length < c.fuel)
    (ns : Nat) (s : Bool) (sc : Script α)
    (d : RespDelivery) (htr : RespTransports (serve c ns false s sc rd).2 d) (cs : Bool) :
    (serve c ns false s sc rd).1 = .notCalled ∧
    ∃ st', clientReceive c cs d = .err st' ∧ SameStatus missingRequest st' := by
  have hms : ∀ m ∈ r.msgs.msgs, MsgOk c.cd m := by intro m h; rw [hnone] at h; cases h
  obtain ⟨hh, hp, hc, hx, he, hl⟩ := request_delivered c laws r hms nc hnc rd htq
  rw [hnone] at hx
  obtain ⟨hne, hend⟩ := nextItem_end c.cd reqDecCfg c.fuel Dec.init (reqEvs rd) [] hp hc hx (by omega)
  have hmap : mapRequestUnary c rd = .error missingRequest := by
    simp only [mapRequestUnary, hh, encodingCheck_requestWire r.md hmd]
    generalize nextItem c.cd reqDecCfg c.fuel Dec.init (reqEvs rd) = x at hne hend
    obtain ⟨s1, evs1, o⟩ := x
    cases o with
    | pending => exact absurd rfl hne
    | none => rfl
    | err e =>
      have := hend.2
      simp [respTr, reqDecCfg] at this
    | msg m' => obtain ⟨ms', a1, _⟩ := hend; simp at a1
  have hserve : serve c ns false s sc rd = (.notCalled, statusIntoHttp missingRequest) := by
    simp [serve, hmap]
  rw [hserve] at htr ⊢
  refine ⟨rfl, ?_⟩
  obtain ⟨st', hcr, hsame⟩ := createResponse_trailersOnly d missingRequest (by decide) (by decide)
    (by unfold noEncodingName; decide) htr.2.1
  exact ⟨st', by cases cs <;> simp [clientReceive, clientStream, clientSingle, hcr], hsame⟩

/-! ## configuration that must not show

The correspondence run drives the real pair with message-size limits set to exactly the largest
message of each direction (`+lim` cases), with the server configured as generated code does it,
with a cloned / re-used client, other constructors, pass-through middleware and hinting bodies
(harness/src/c02.rs, "flags"): the prediction for all of them is the model WITHOUT the knob.  For
the sending-side limit that is a theorem about the model with the knob: -/

private theorem fits_srcOf (cd : Framing.Codec α) (cfg : Framing.EncCfg) (hc : cfg.comp = none) (l : Nat) (s : Sched α)
    (h : ∀ m ∈ s.msgs, (cd.ser m).length ≤ l) : Framing.Fits cd cfg l (srcOf s) := by
  intro m hm
  simp only [srcOf, List.mem_map] at hm
  obtain ⟨x, hx, hxe⟩ := hm
  cases x with
  | none => cases hxe
  | some m' =>
    cases hxe
    have : m ∈ s.msgs := by simp only [Sched.msgs, List.mem_filterMap, id]; exact ⟨some m, hx, rfl⟩
    simpa [Framing.payload, hc] using h m this

/-- **A client-side `max_encoding_message_size` that every request message fits — the boundary
`length = limit` included — is invisible**: the HTTP request handed to the transport (headers and
every poll of the body) is the one of a client without the limit, for every caller request, every
yield threshold and any number of polls.  All C02 theorems therefore hold for such a client. -/
theorem C02_client_encoding_limit_invisible (c : Cfg α) (l nc : Nat) (r : CallReq α)
    (hfit : ∀ m ∈ r.msgs.msgs, (c.cd.ser m).length ≤ l) :
    clientRequestLim c l nc r = clientRequest c nc r := by
  unfold clientRequestLim clientRequest encCfgLim
  rw [Framing.run_limit c.cd (encCfg c false) l nc Enc.init (srcOf r.msgs)
    (fits_srcOf c.cd (encCfg c false) rfl l r.msgs hfit)]
  rfl

/-- **A server-side `max_encoding_message_size` that every response message of the script fits is
invisible**: the HTTP response (status, headers, every poll of the body incl. the trailers) is the
one of a server without the limit — for both response shapes, every script (early error, any
messages and `Pending`s, any final status), every yield threshold and any number of polls. -/
theorem C02_server_encoding_limit_invisible (c : Cfg α) (l ns : Nat) (s : Bool) (sc : Script α)
    (hfit : ∀ m ∈ sc.body.msgs, (c.cd.ser m).length ≤ l) :
    handlerResponseLim c l ns s sc = handlerResponse c ns s sc := by
  unfold handlerResponseLim handlerResponse encCfgLim
  have hf : Framing.Fits c.cd (encCfg c true) l (handlerSrc s sc) := by
    cases s with
    | true =>
      intro m hm
      simp only [handlerSrc, ↓reduceIte, List.mem_append] at hm
      rcases hm with hm | hm
      · exact fits_srcOf c.cd (encCfg c true) rfl l sc.body hfit m hm
      · cases hfin : sc.final <;> simp [hfin] at hm
    | false =>
      intro m hm
      simp only [handlerSrc, Bool.false_eq_true, ↓reduceIte, List.mem_map] at hm
      obtain ⟨m', hm', he⟩ := hm
      cases he
      simpa [Framing.payload, encCfg] using hfit m (List.mem_of_mem_take hm')
  cases sc.early with
  | some st => rfl
  | none =>
    simp only
    rw [Framing.run_limit c.cd (encCfg c true) l ns Enc.init (handlerSrc s sc) hf]
    rfl

/-- the hypotheses are satisfiable at the boundary: a limit equal to the longest message -/
example : ∀ m ∈ exReq.msgs.msgs, (exCfg.cd.ser m).length ≤ 2 := by decide
example : (clientRequestLim exCfg 2 5 exReq).body = (clientRequest exCfg 5 exReq).body := by decide

/-- … and the limit is not vacuous in the model: one byte less and the request body fails -/
example : (clientRequestLim exCfg 1 5 exReq).body ≠ (clientRequest exCfg 5 exReq).body := by decide

end C02
