import TonicModel.Lemmas.FramingWire
import TonicModel.Lemmas.RichErrorWire
import TonicModel.Lemmas.FramingOps
import TonicModel.Model.FramingBuf
/-
C01 — Message streams survive encode/decode unchanged under any chunking.
Property theorems only; the invariants are in Lemmas/Framing*.lean.
-/
namespace C01
open Framing Spec.Framing
variable {α : Type}

/-- the messages of a schedule (its `item` events), in order -/
def itemsOf : List (SrcEv α) → List α
  | [] => []
  | .item m :: r => m :: itemsOf r
  | _ :: r => itemsOf r

/-- a schedule for the success path: items and `Pending`s only, every item encodable -/
def Successful (cd : Codec α) (cfg : EncCfg) : List (SrcEv α) → Prop
  | [] => True
  | .pending :: r => Successful cd cfg r
  | .item m :: r => encodeErr cd cfg m = none ∧ Successful cd cfg r
  | .err _ :: _ => False

private theorem okPrefix_of_successful (cd : Codec α) (cfg : EncCfg) (evs : List (SrcEv α))
    (h : Successful cd cfg evs) : okPrefix cd cfg evs = itemsOf evs ∧ finalSt cd cfg evs = none := by
  induction evs with
  | nil => simp [okPrefix, itemsOf, finalSt]
  | cons ev r ih =>
    cases ev with
    | pending => simpa [okPrefix, itemsOf, finalSt] using ih h
    | err st => exact absurd h (by simp [Successful])
    | item m =>
      obtain ⟨he, hr⟩ := h
      simp [okPrefix, itemsOf, finalSt, he, ih hr]

/-- **Encoder bytes are independent of readiness and batching.**  For every schedule of the
message source (any placement of `Pending`), every yield threshold, encoding, override and
role, polling the body to exhaustion emits chunks whose concatenation is exactly the
specification's framing of the messages — flag, 4-byte big-endian length, payload — in order;
no chunk is empty and every chunk consists of whole frames (never split mid-frame). -/
theorem C01_bytes_independent_of_schedule (cd : Codec α) (cfg : EncCfg) (evs : List (SrcEv α))
    (h : Successful cd cfg evs) (n : Nat) (hn : evs.length + 1 < n) :
    ∃ pre post, Enc.run cd cfg n Enc.init evs = pre ++ post ∧
      (∀ o ∈ post, ∀ d, o ≠ .data d) ∧
      (∀ o ∈ pre, GoodChunk cd cfg o) ∧
      dataConcat pre = Spec.Framing.frames ((itemsOf evs).map (fun m => (flagByte cfg, payload cd cfg m))) := by
  obtain ⟨hok, hfin⟩ := okPrefix_of_successful cd cfg evs h
  cases hs : cfg.server with
  | true =>
    obtain ⟨pre, hrun, hgood, hdata, _⟩ := run_server cd cfg hs n none evs (by simp; omega)
    refine ⟨pre, _, by rw [Enc.init, hrun, List.append_assoc], ?_, hgood, ?_⟩
    · intro o ho d hd
      subst hd
      simp at ho
    · rw [hdata, owedData, hok, framesOf_eq_spec]
  | false =>
    obtain ⟨pre, hgood, hdata, _, hrun⟩ := run_client cd cfg hs n none evs (by simp; omega)
    simp only [owedSt, hfin] at hrun
    refine ⟨pre, _, by rw [Enc.init, hrun], ?_, hgood, ?_⟩
    · intro o ho d hd
      subst hd
      simp at ho
    · rw [hdata, owedData, hok, framesOf_eq_spec]

/-- what `EncodeBody::new_server` puts in front of a message's bytes: flag 1 and the compressed
serialization iff an encoding is configured and the response did not opt out -/
def serverWire (cd : Codec α) (comp : Option Enc) (ovr : Override) (m : α) : UInt8 × Bytes :=
  match ovr, comp with
  | .inherit, some e => (1, cd.cz e (cd.ser m))
  | _, _ => (0, cd.ser m)

/-- **…with or without the per-response opt-out.**  `C01_bytes_independent_of_schedule` for a
server body built by `EncodeBody::new_server` from the *configured* encoding and the response's
`SingleMessageCompressionOverride`: with `Disable` every frame is flag 0 + the plain
serialization whatever encoding is configured, with `Inherit` flag 1 + the compressed
serialization iff an encoding is configured — for every schedule, threshold and buffer size. -/
theorem C01_bytes_independent_of_schedule_and_override (cd : Codec α) (comp : Option Enc) (ovr : Override)
    (y b : Nat) (mx : Option Nat) (evs : List (SrcEv α))
    (h : Successful cd (Enc.newServer comp ovr y b mx) evs) (n : Nat) (hn : evs.length + 1 < n) :
    ∃ pre post, Enc.run cd (Enc.newServer comp ovr y b mx) n Enc.init evs = pre ++ post ∧
      (∀ o ∈ post, ∀ d, o ≠ .data d) ∧
      (∀ o ∈ pre, GoodChunk cd (Enc.newServer comp ovr y b mx) o) ∧
      dataConcat pre = Spec.Framing.frames ((itemsOf evs).map (serverWire cd comp ovr)) := by
  obtain ⟨pre, post, h1, h2, h3, h4⟩ :=
    C01_bytes_independent_of_schedule cd (Enc.newServer comp ovr y b mx) evs h n hn
  refine ⟨pre, post, h1, h2, h3, ?_⟩
  rw [h4]
  congr 1
  apply List.map_congr_left
  intro m _
  cases ovr <;> cases comp <;> simp [serverWire, Enc.newServer, flagByte, Framing.payload]

/-- A request body has no opt-out: `EncodeBody::new_client` uses the configured encoding. (Transcription lemma: it holds by unfolding the model's definition, so it pins the model's shape for the correspondence run — its assurance about tonic is the tie, not this proof.) -/
theorem C01_client_has_no_override (comp : Option Enc) (y b : Nat) (mx : Option Nat) :
    (Enc.newClient comp y b mx).comp = comp ∧ (Enc.newClient comp y b mx).server = false := ⟨rfl, rfl⟩

/-- **Any buffer settings.**  For every `buffer_size` — zero included — (1) no poll of the
encoder panics, (2) every poll result, hence every emitted byte, is what it is for any other
buffer size, and (3) the `compress` / `decompress` calls, whose reserve computation is the only
place the buffer size enters (`Framing.reserveCap`, division explicit, panic an outcome), return
without panicking exactly what the compressor / decompressor returns — which is what the
decoder model's `Dec.readBody` works with, so the decoded messages do not depend on it either. -/
theorem C01_buffer_size_irrelevant (cd : Codec α) (cfg : EncCfg) (k : Nat) (n : Nat) (b : BodySt)
    (evs : List (SrcEv α)) :
    (∀ o ∈ Enc.run cd { cfg with bufSize := k } n b evs, o ≠ .panic) ∧
    Enc.run cd { cfg with bufSize := k } n b evs = Enc.run cd cfg n b evs ∧
    (∀ e raw, compressCall cd k e raw = some (cd.cz e raw)) ∧
    (∀ e pl, decompressCall cd k e pl = some (cd.dz e pl)) :=
  ⟨run_ne_panic cd _ n b evs, run_bufSize cd cfg k n b evs, compressCall_eq cd k, decompressCall_eq cd k⟩

/-- **The code as found violated it**: with `buffer_size = 0` the reserve computation of
`compress` / `decompress` divided by zero for every input length (rev1 §1; repaired by the fix
commit "a zero buffer_size no longer divides by zero when (de)compressing"; witnesses
`enc … gzip … 0 … EV i010203` / `dec req gzip none 0 …` stay in the C01 and C07 corpus). -/
theorem C01_buffer_size_irrelevant_fails :
    ¬ (∀ (cd : Codec Bytes) (k : Nat) (e : Enc) (raw : Bytes),
        Found.compressCall cd k e raw = some (cd.cz e raw) ∧
        Found.decompressCall cd k e raw = some (cd.dz e raw)) := by
  intro h
  have := (h { ser := id, de := some, deErr := 13, cz := fun _ b => b, dz := fun _ b => some b } 0 .gzip [1, 2, 3]).1
  simp [Found.compressCall, Found.reserveCap, udiv] at this

/-- **Any chunking, any readiness pattern decodes to the original messages.**  Let a sender
frame messages `xs` (each identity or compressed with the negotiated encoding, each within the
receive limit), and let the body deliver those bytes cut at *arbitrary* positions — `evs` is
any list of data chunks and `Pending`s whose data concatenates to the wire bytes, optionally
ended by OK trailers.  Then the decoder yields exactly the messages, in order, then the end of
the stream (and `None` on every later poll).  `hgrpc`: the body is a gRPC message stream — a
request, or a response with HTTP status 200; the body of a response with any other HTTP status is
not parsed at all (it is classified by that status: `C04_http_table_any_body`). -/
theorem C01_decode_any_chunking (cd : Codec α) (cfg : DecCfg) (hgrpc : cfg.skipsBody = false) (laws : CodecLaws cd)
    (xs : List (Sent α)) (hxs : ∀ x ∈ xs, SentOk cd cfg x)
    (evs : List BodyEv) (hclean : CleanEvs evs = true)
    (hcut : dataOf evs = Spec.Framing.frames (xs.map (wireOf cd cfg.enc)))
    (hend : EndOk cfg Dec.init evs)
    (n : Nat) (hn : evs.length + xs.length < n) :
    ∃ k, 1 ≤ k ∧ nonPending (Dec.run cd cfg n Dec.init evs)
      = (xs.map (fun x => Item.msg x.msg)) ++ List.replicate k .none := by
  have hx : specFrom cd cfg Dec.init (accepted cfg evs) = (xs.map (·.msg), .clean) := by
    simp only [specFrom, Dec.init, List.nil_append, accepted_keep hgrpc, hcut]
    exact batch_wire cd cfg laws xs hxs
  obtain ⟨k, hk, hrun⟩ := run_clean cd cfg n Dec.init evs (xs.map (·.msg)) (by simp [PhaseOk, Dec.init])
    hclean hend hx (by simpa using hn)
  exact ⟨k, hk, by simpa [List.map_map, Function.comp_def] using hrun⟩


/-- `C01_decode_any_chunking` with the codec law required only of the messages actually sent. -/
theorem C01_decode_any_chunking_on (cd : Codec α) (cfg : DecCfg) (hgrpc : cfg.skipsBody = false)
    (xs : List (Sent α)) (laws : CodecLawsOn cd xs) (hxs : ∀ x ∈ xs, SentOk cd cfg x)
    (evs : List BodyEv) (hclean : CleanEvs evs = true)
    (hcut : dataOf evs = Spec.Framing.frames (xs.map (wireOf cd cfg.enc)))
    (hend : EndOk cfg Dec.init evs)
    (n : Nat) (hn : evs.length + xs.length < n) :
    ∃ k, 1 ≤ k ∧ nonPending (Dec.run cd cfg n Dec.init evs)
      = (xs.map (fun x => Item.msg x.msg)) ++ List.replicate k .none := by
  have hx : specFrom cd cfg Dec.init (accepted cfg evs) = (xs.map (·.msg), .clean) := by
    simp only [specFrom, Dec.init, List.nil_append, accepted_keep hgrpc, hcut]
    exact batch_wire_on cd cfg xs laws hxs
  obtain ⟨k, hk, hrun⟩ := run_clean cd cfg n Dec.init evs (xs.map (·.msg)) (by simp [PhaseOk, Dec.init])
    hclean hend hx (by simpa using hn)
  exact ⟨k, hk, by simpa [List.map_map, Function.comp_def] using hrun⟩

/-! ### The codec parameter discharged for a real prost message

`RichError.prost` is the concrete protobuf wire model of prost 0.13 (tied to the real prost by
C20's correspondence, bytes compared exactly).  Instantiating the framing model's codec with
`google.rpc.Status` messages removes the "message codec round-trips" hypothesis: what remains
assumed is only the compressors' law. -/

/-- the framing codec whose messages are `google.rpc.Status` values, encoded by the prost model -/
def statusCodec (cz : Enc → Bytes → Bytes) (dz : Enc → Bytes → Option Bytes) : Codec RichError.PbStatus where
  ser := RichError.prost.encStatus
  de := RichError.prost.decStatus
  deErr := 13
  cz := cz
  dz := dz

/-- **Protobuf messages survive framing under any chunking — no codec hypothesis.**  Any list of
well-formed `google.rpc.Status` messages (int32 code, UTF-8 message and type URLs, arbitrary
`Any` payloads), serialized by the prost wire model, framed (identity or compressed), cut at
arbitrary byte positions with arbitrary `Pending`s, decodes to exactly those messages. -/
theorem C01_decode_protobuf_any_chunking (cz : Enc → Bytes → Bytes) (dz : Enc → Bytes → Option Bytes)
    (hz : ∀ e b, dz e (cz e b) = some b) (cfg : DecCfg) (hgrpc : cfg.skipsBody = false)
    (xs : List (Sent RichError.PbStatus)) (hwf : ∀ x ∈ xs, RichError.WFs x.msg)
    (hxs : ∀ x ∈ xs, SentOk (statusCodec cz dz) cfg x)
    (evs : List BodyEv) (hclean : CleanEvs evs = true)
    (hcut : dataOf evs = Spec.Framing.frames (xs.map (wireOf (statusCodec cz dz) cfg.enc)))
    (hend : EndOk cfg Dec.init evs)
    (n : Nat) (hn : evs.length + xs.length < n) :
    ∃ k, 1 ≤ k ∧ nonPending (Dec.run (statusCodec cz dz) cfg n Dec.init evs)
      = (xs.map (fun x => Item.msg x.msg)) ++ List.replicate k .none :=
  C01_decode_any_chunking_on (statusCodec cz dz) cfg hgrpc xs
    ⟨fun x hx => RichError.prost_status_law x.msg (hwf x hx), hz⟩ hxs evs hclean hcut hend n hn

/-- **Round trip.**  Whatever the encoder emitted for a successful schedule, re-cut arbitrarily
by the transport and delivered with arbitrary readiness, decodes to the schedule's messages. -/
theorem C01_roundtrip (cd : Codec α) (laws : CodecLaws cd) (ecfg : EncCfg) (dcfg : DecCfg)
    (hgrpc : dcfg.skipsBody = false)
    (src : List (SrcEv α)) (hsrc : Successful cd ecfg src)
    (hneg : ecfg.comp = none ∨ ecfg.comp = dcfg.enc)
    (hfit : ∀ m ∈ itemsOf src, (payload cd ecfg m).length ≤ dcfg.limit ∧ (payload cd ecfg m).length < 4294967296)
    (ne : Nat) (hne : src.length + 1 < ne)
    (evs : List BodyEv) (hclean : CleanEvs evs = true)
    (hcut : ∃ pre post, Enc.run cd ecfg ne Enc.init src = pre ++ post ∧ (∀ o ∈ post, ∀ d, o ≠ .data d) ∧
        dataOf evs = dataConcat pre)
    (hend : EndOk dcfg Dec.init evs)
    (n : Nat) (hn : evs.length + (itemsOf src).length < n) :
    ∃ k, 1 ≤ k ∧ nonPending (Dec.run cd dcfg n Dec.init evs)
      = (itemsOf src).map Item.msg ++ List.replicate k .none := by
  obtain ⟨pre, post, hrun, hpost, hdata⟩ := hcut
  obtain ⟨pre', post', hrun', hpost', _, hdata'⟩ := C01_bytes_independent_of_schedule cd ecfg src hsrc ne hne
  -- the data-carrying outputs of a run are determined by the run
  have hsame : dataConcat pre = dataConcat pre' := by
    have h1 : dataConcat (Enc.run cd ecfg ne Enc.init src) = dataConcat pre := by
      rw [hrun, dataConcat_append]
      have : dataConcat post = [] := by
        clear hrun
        induction post with
        | nil => rfl
        | cons o os ih =>
          have ho := hpost o (by simp)
          have : o.bytes = [] := by cases o <;> simp_all [FrameOut.bytes]
          simp [this, ih (fun o' ho' => hpost o' (by simp [ho']))]
      simp [this]
    have h2 : dataConcat (Enc.run cd ecfg ne Enc.init src) = dataConcat pre' := by
      rw [hrun', dataConcat_append]
      have : dataConcat post' = [] := by
        clear hrun'
        induction post' with
        | nil => rfl
        | cons o os ih =>
          have ho := hpost' o (by simp)
          have : o.bytes = [] := by cases o <;> simp_all [FrameOut.bytes]
          simp [this, ih (fun o' ho' => hpost' o' (by simp [ho']))]
      simp [this]
    rw [← h1, h2]
  let xs : List (Sent α) := (itemsOf src).map (fun m => ⟨m, ecfg.comp.isSome⟩)
  have hwire : ∀ m, wireOf cd dcfg.enc ⟨m, ecfg.comp.isSome⟩ = (flagByte ecfg, payload cd ecfg m) := by
    intro m
    rcases hneg with h | h
    · simp [wireOf, flagByte, Framing.payload, h]
    · cases hc : ecfg.comp with
      | none => simp [wireOf, flagByte, Framing.payload, hc]
      | some e => rw [hc] at h; simp [wireOf, flagByte, Framing.payload, hc, ← h]
  have := C01_decode_any_chunking cd dcfg hgrpc laws xs
    (by
      intro x hx
      simp only [xs, List.mem_map] at hx
      obtain ⟨m, hm, rfl⟩ := hx
      simp only [SentOk, hwire]
      exact hfit m hm)
    evs hclean
    (by rw [hdata, hsame, hdata']; simp [xs, List.map_map, Function.comp_def, hwire])
    hend n (by simpa [xs] using hn)
  simpa [xs, List.map_map, Function.comp_def] using this

/- Non-vacuity: a 3-message stream cut inside the second length prefix satisfies the hypotheses
of `C01_decode_any_chunking` (identity codec on bytes, no compression). -/
def idCodec : Codec Bytes := { ser := id, de := some, deErr := 13, cz := fun _ b => b, dz := fun _ b => some b }

example : CodecLaws idCodec := ⟨fun _ => rfl, fun _ _ => rfl⟩

example :
    let cfg : DecCfg := { enc := none, maxSize := none, dir := .request }
    let xs : List (Sent Bytes) := [⟨[1, 2, 3], false⟩, ⟨[], false⟩, ⟨[9], false⟩]
    let evs : List BodyEv := [.data [0, 0, 0], .data [0, 3, 1, 2], .pending, .data [3, 0, 0, 0], .data [0, 0, 0, 0, 0, 0, 1, 9]]
    CleanEvs evs = true ∧ dataOf evs = Spec.Framing.frames (xs.map (wireOf idCodec cfg.enc)) ∧
      cfg.skipsBody = false ∧ (∀ x ∈ xs, SentOk idCodec cfg x) := by
  refine ⟨by decide, by decide, by decide, ?_⟩
  intro x hx
  simp only [List.mem_cons, List.not_mem_nil, or_false] at hx
  rcases hx with rfl | rfl | rfl <;> simp [SentOk, wireOf, idCodec, DecCfg.limit, defaultMaxRecv]

/-! ### Audit aC01: the other consumer entry points, and the codec's buffer views (codec/buffer.rs) -/

/-- Transcription lemma: this is the pair of `runOps_polls` (= `C07_message_is_poll_next`: `Op.next` and `Op.message`
are one and the same match arm of `Dec.stepOp`, so the first conjunct is true by construction of the model) and
`C01_decode_any_chunking` VERBATIM (second conjunct) — it adds no proof obligation of its own.  It records how
the two combine: in the model a consumer that mixes `Stream::poll_next` and `Streaming::message()` in any order
(a fresh `message()` future per call, dropped after a `Pending`) sees call by call what `poll_next` alone sees,
hence exactly the messages and then the end of the stream.  That the real `message()` is one `poll_next` is
carried by the correspondence run (`xdec` cases on valid streams with `message()` consumers), not by this proof. -/
theorem C01_decode_any_chunking_any_consumer (cd : Codec α) (cfg : DecCfg) (hgrpc : cfg.skipsBody = false)
    (laws : CodecLaws cd) (xs : List (Sent α)) (hxs : ∀ x ∈ xs, SentOk cd cfg x)
    (evs : List BodyEv) (hclean : CleanEvs evs = true)
    (hcut : dataOf evs = Spec.Framing.frames (xs.map (wireOf cd cfg.enc)))
    (hend : EndOk cfg Dec.init evs)
    (fuel : Nat) (ops : List Op) (hops : ∀ op ∈ ops, op.isPoll = true) (hn : evs.length + xs.length < ops.length) :
    Dec.runOps cd cfg fuel ops Dec.init evs = (Dec.run cd cfg ops.length Dec.init evs).map .item ∧
    ∃ k, 1 ≤ k ∧ nonPending (Dec.run cd cfg ops.length Dec.init evs)
      = (xs.map (fun x => Item.msg x.msg)) ++ List.replicate k .none :=
  ⟨runOps_polls cd cfg fuel ops Dec.init evs hops,
   C01_decode_any_chunking cd cfg hgrpc laws xs hxs evs hclean hcut hend ops.length hn⟩

private theorem dbuf_step_spec (d : DBuf) (op : RdOp) (b : Bytes) (d' : DBuf)
    (h : d.step op = some (b, d')) :
    ∃ k, k ≤ d.len ∧ k ≤ d.buf.length ∧ b = d.buf.take k ∧ d' = ⟨d.buf.drop k, d.len - k⟩ := by
  cases op with
  | chunkAdvance k =>
    simp only [DBuf.step, DBuf.advance] at h
    split at h
    · rename_i hk
      split at h
      · rename_i hk2
        simp only [Option.map_some, Option.some.injEq, Prod.mk.injEq] at h
        refine ⟨k, hk2.1, hk2.2, ?_, h.2.symm⟩
        rw [← h.1]
        unfold DBuf.chunk
        split
        · rw [List.take_take, Nat.min_eq_left hk2.1]
        · rfl
      · simp at h
    · simp at h
  | copyToBytes k =>
    simp only [DBuf.step, DBuf.copyToBytes] at h
    split at h
    · rename_i hk
      simp only [Option.some.injEq, Prod.mk.injEq] at h
      exact ⟨k, hk.1, hk.2, h.1.symm, h.2.symm⟩
    · simp at h

private theorem dbuf_read_spec : ∀ (ops : List RdOp) (d : DBuf) (out : Bytes) (d' : DBuf),
    DBuf.read ops d = some (out, d') →
    ∃ k, k ≤ d.len ∧ k ≤ d.buf.length ∧ out = d.buf.take k ∧ d'.buf = d.buf.drop k ∧ d'.len = d.len - k
  | [], d, out, d', h => by
    simp only [DBuf.read, Option.some.injEq, Prod.mk.injEq] at h
    exact ⟨0, Nat.zero_le _, Nat.zero_le _, by simp [← h.1], by simp [← h.2], by simp [← h.2]⟩
  | op :: ops, d, out, d', h => by
    simp only [DBuf.read] at h
    cases hs : d.step op with
    | none => simp [hs] at h
    | some r =>
      obtain ⟨b, d1⟩ := r
      simp only [hs] at h
      cases hr : DBuf.read ops d1 with
      | none => simp [hr] at h
      | some r2 =>
        obtain ⟨o2, d2⟩ := r2
        simp only [hr, Option.map_some, Option.some.injEq, Prod.mk.injEq] at h
        obtain ⟨k1, hk1, hk1b, hb, hd1⟩ := dbuf_step_spec d op b d1 hs
        obtain ⟨k2, hk2, hk2b, ho2, hbuf2, hlen2⟩ := dbuf_read_spec ops d1 o2 d2 hr
        subst hd1
        dsimp only at hk2 hk2b ho2 hbuf2 hlen2
        simp only [List.length_drop] at hk2b
        refine ⟨k1 + k2, by omega, by omega, ?_, ?_, ?_⟩
        · rw [← h.1, hb, ho2, List.take_add]
        · rw [← h.2, hbuf2, List.drop_drop]
        · rw [← h.2, hlen2]; omega

/-- **`DecodeBuf` is exactly the payload window** — a fact about the free-standing buffer model
`Model/FramingBuf.lean` (`DBuf`), in which `Dec.readBody` does not occur; the link to the framing model is the
separate theorem `C01_decode_buf_feeds_readBody` below.  `decode_chunk` hands the message decoder a
`DecodeBuf` over the stream buffer `buf` with `len` = the frame's declared length.  Whatever the decoder does
with the `Buf` API — any read program of `chunk`/`advance` steps (which is what `get_u8`, `copy_to_slice`,
`take`, … are) and `copy_to_bytes` calls — if it does not panic, the bytes it has read are a prefix of the
payload `buf.take len` (never a byte of the frames behind it), the stream buffer has lost exactly those
bytes, and a decoder that reads to `remaining() = 0` has read exactly `buf.take len` and leaves
`buf.drop len`.  (No hypothesis `len ≤ buf.length` — the `ReadBody` guard — is needed for this.) -/
theorem C01_decode_buf_is_the_payload_window (ops : List RdOp) (buf : Bytes) (len : Nat)
    (out : Bytes) (d' : DBuf) (h : DBuf.read ops ⟨buf, len⟩ = some (out, d')) :
    d'.len ≤ len ∧ out = buf.take (len - d'.len) ∧ d'.buf = buf.drop (len - d'.len) ∧
    (d'.remaining = 0 → out = buf.take len ∧ d'.buf = buf.drop len) := by
  obtain ⟨k, hk, _, hout, hbuf, hlen⟩ := dbuf_read_spec ops ⟨buf, len⟩ out d' h
  simp only at hk hout hbuf hlen
  have hk' : len - d'.len = k := by omega
  refine ⟨by omega, by rw [hk']; exact hout, by rw [hk']; exact hbuf, ?_⟩
  intro h0
  have : k = len := by simp only [DBuf.remaining] at h0; omega
  subst this
  exact ⟨hout, hbuf⟩

/-- …and a decoder that stays inside the window never trips one of `DecodeBuf`'s `assert!`s: a
read program whose sizes add up to at most `len` (with `len ≤ buf.length`) runs to its end. -/
theorem C01_decode_buf_no_panic_inside_the_window : ∀ (ops : List RdOp) (buf : Bytes) (len : Nat),
    len ≤ buf.length → (ops.map RdOp.size).sum ≤ len → (DBuf.read ops ⟨buf, len⟩).isSome = true
  | [], _, _, _, _ => rfl
  | op :: ops, buf, len, hlen, hsum => by
    simp only [List.map_cons, List.sum_cons] at hsum
    have hk : op.size ≤ len := by omega
    have hstep : DBuf.step ⟨buf, len⟩ op = some (buf.take op.size, ⟨buf.drop op.size, len - op.size⟩) := by
      cases op with
      | chunkAdvance k =>
        simp only [RdOp.size] at hk
        have hc : k ≤ (DBuf.chunk ⟨buf, len⟩).length := by
          unfold DBuf.chunk; split <;> simp <;> omega
        have hck : (DBuf.chunk ⟨buf, len⟩).take k = buf.take k := by
          unfold DBuf.chunk; split
          · rw [List.take_take, Nat.min_eq_left hk]
          · rfl
        simp [DBuf.step, DBuf.advance, hc, hk, hck, RdOp.size]
        omega
      | copyToBytes k =>
        simp only [RdOp.size] at hk
        simp [DBuf.step, DBuf.copyToBytes, hk, RdOp.size]
        omega
    have ih := C01_decode_buf_no_panic_inside_the_window ops (buf.drop op.size) (len - op.size)
      (by simp; omega) (by omega)
    simp only [DBuf.read, hstep]
    cases hr : DBuf.read ops ⟨buf.drop op.size, len - op.size⟩ with
    | none => simp [hr] at ih
    | some r => simp

private theorem bmPutBuf_eq : ∀ (segs : List Bytes) (buf : Bytes), bmPutBuf buf segs = buf ++ segs.flatten
  | [], buf => by simp [bmPutBuf]
  | s :: segs, buf => by simp [bmPutBuf, bmPutSlice, bmPutBuf_eq segs]

/-- Transcription lemma: every `WrOp.apply` is DEFINED as `buf ++ <its own bytes>` and `WrOp.bytes` is that same right
operand, so this is "a left fold of appends is the append of the flattening" — it holds for any op type and
says nothing about `encodeItem` or `cd.ser` (neither occurs in it).  What it records: in the buffer model
(`Model/FramingBuf.lean`) a write program of `put_slice`, `put` of any (non-contiguous) `Buf`, `put_bytes`,
`chunk_mut` + `advance_mut`, `reserve`, in any order, leaves the buffer before it untouched and followed by
the concatenation of what was written.  That the real `EncodeBuf` / `BytesMut` only append is carried by the
correspondence run (`xenc` cases: 8 write styles, predicted as the wrapped `enc` case).  The link to the framing
model — what `encodeItem` appends is what ANY write program producing `cd.ser m` leaves — is
`C01_encode_buf_feeds_encodeItem` below, which uses this lemma. -/
theorem C01_encode_buf_appends : ∀ (ops : List WrOp) (buf : Bytes),
    writeAll buf ops = buf ++ (ops.map WrOp.bytes).flatten
  | [], buf => by simp [writeAll]
  | op :: ops, buf => by
    rw [writeAll, C01_encode_buf_appends ops]
    cases op <;> simp [WrOp.apply, WrOp.bytes, bmPutSlice, bmPutBuf_eq]

/-! ### The two worlds joined: the buffer views and the framing model's `Dec.readBody` / `encodeItem`

`Model/Framing.lean` abstracts the codec to `de : Bytes → Option α` / `ser : α → Bytes`.  The next three theorems
mention both models: a decoder that is a read program on its `DecodeBuf` followed by a parse of what it read,
and an encoder that is a write program on its `EncodeBuf`, give exactly the `Dec.readBody` / `encodeItem` of the
framing model.  (The correspondence cases `rdec` / `xenc` are still predicted as the wrapped `dec` / `enc` case:
these theorems are about the two MODELS.) -/

/-- **What `Dec.readBody` passes to `cd.de` and keeps is what a decoder reading its `DecodeBuf` to the end gets
and leaves** (identity-encoded frame).  State `s` with the whole payload buffered (`len ≤ s.buf.length`, the
`ReadBody` guard): for EVERY read program on `DecodeBuf { buf: s.buf, len }` that does not panic and consumes
its window (`remaining() = 0`, as `ProstDecoder` does — a decoder that stopped early would leave payload bytes
in the stream buffer, which the framing model does not describe), `Dec.readBody` is: `cd.de` applied to the
bytes that program read, and the stream buffer that program left. -/
theorem C01_decode_buf_feeds_readBody (cd : Codec α) (s : DecSt) (len : Nat) (hlen : len ≤ s.buf.length)
    (ops : List RdOp) (out : Bytes) (d' : DBuf)
    (h : DBuf.read ops ⟨s.buf, len⟩ = some (out, d')) (h0 : d'.remaining = 0) :
    Dec.readBody cd s len none =
      (match cd.de out with
       | none => ({ s with buf := d'.buf, ph := .body len none }, .fail ⟨cd.deErr, .codec⟩)
       | some m => ({ s with buf := d'.buf, ph := .hdr }, .item m)) := by
  obtain ⟨_, _, _, hfull⟩ := C01_decode_buf_is_the_payload_window ops s.buf len out d' h
  obtain ⟨hout, hbuf⟩ := hfull h0
  have hn : ¬ s.buf.length < len := by omega
  simp only [Dec.readBody, hn, ↓reduceIte, hout, hbuf]
  cases cd.de (List.take len s.buf) <;> rfl

/-- …and for a compressed frame: `decode_chunk` decompresses the payload `s.buf.take len` into its scratch
buffer, advances the stream buffer by `len`, and hands the decoder a `DecodeBuf` over the WHOLE scratch buffer
(`DecodeBuf::new(&mut self.decompress_buf, decompressed_len)`).  For every read program on that view that
consumes it, `Dec.readBody` is `cd.de` applied to what the program read; the stream buffer is `s.buf.drop len`
whatever the decoder does. -/
theorem C01_decode_buf_feeds_readBody_compressed (cd : Codec α) (s : DecSt) (len : Nat) (hlen : len ≤ s.buf.length)
    (e : Enc) (raw : Bytes) (hz : cd.dz e (s.buf.take len) = some raw)
    (ops : List RdOp) (out : Bytes) (d' : DBuf)
    (h : DBuf.read ops ⟨raw, raw.length⟩ = some (out, d')) (h0 : d'.remaining = 0) :
    d'.buf = [] ∧
    Dec.readBody cd s len (some e) =
      (match cd.de out with
       | none => ({ s with buf := s.buf.drop len, ph := .body len (some e) }, .fail ⟨cd.deErr, .codec⟩)
       | some m => ({ s with buf := s.buf.drop len, ph := .hdr }, .item m)) := by
  obtain ⟨_, _, _, hfull⟩ := C01_decode_buf_is_the_payload_window ops raw raw.length out d' h
  obtain ⟨hout, hbuf⟩ := hfull h0
  have hn : ¬ s.buf.length < len := by omega
  refine ⟨by simpa using hbuf, ?_⟩
  simp only [Dec.readBody, hn, ↓reduceIte, hz, hout, List.take_length]
  cases cd.de raw <;> rfl

/-- `encode_item` written at the level of the buffer (codec/encode.rs): remember `offset = buf.len()`, reserve and
skip the 5 header bytes (`advance_mut(HEADER_SIZE)`; their content is whatever — zeros here), let the encoder
run its write program `ops` on an `EncodeBuf` over `buf` itself (identity) or over the cleared scratch buffer
whose content `compress` then appends to `buf` (compressed), and let `finish_encoding` write flag and
big-endian length of everything behind the header INTO the reserved bytes `buf[offset .. offset + 5]`. -/
def encodeItemViaBuf (cd : Codec α) (cfg : EncCfg) (buf : Bytes) (ops : List WrOp) : Bytes :=
  let offset := buf.length
  let b1 := buf ++ List.replicate headerSize 0
  let b2 := match cfg.comp with
    | some e => b1 ++ cd.cz e (writeAll [] ops)
    | none => writeAll b1 ops
  let len := b2.length - offset - headerSize
  b2.take offset ++ (flagByte cfg :: u32be len) ++ b2.drop (offset + headerSize)

/-- **What `encodeItem` appends is what every write program producing the serialization leaves.**  For every
write program `ops` on the `EncodeBuf` whose written bytes are `cd.ser m` — in whatever calls, segments and
order — the buffer-level `encode_item` (`encodeItemViaBuf`: header reserved, program run, header patched in
place) yields exactly the framing model's `encodeItem cd cfg buf m`: the batch buffer before it untouched, then
flag, length, payload.  (Hypothesis `he`: the message is not refused — `Encoder::encode` succeeded and the size
checks of `finish_encoding` passed; the refusals are `C06_encode_limit`.) -/
theorem C01_encode_buf_feeds_encodeItem (cd : Codec α) (cfg : EncCfg) (buf : Bytes) (m : α) (ops : List WrOp)
    (hops : (ops.map WrOp.bytes).flatten = cd.ser m) (he : encodeErr cd cfg m = none) :
    encodeItem cd cfg buf m = .ok (encodeItemViaBuf cd cfg buf ops) := by
  simp only [encodeItem, he, encodeItemViaBuf, frameOf, headerSize]
  congr 1
  cases hc : cfg.comp with
  | none =>
    simp only [Framing.payload, hc, C01_encode_buf_appends, hops]
    have h1 : (buf ++ List.replicate 5 (0 : UInt8) ++ cd.ser m).take buf.length = buf := by
      rw [List.append_assoc, List.take_left']; rfl
    have h2 : (buf ++ List.replicate 5 (0 : UInt8) ++ cd.ser m).drop (buf.length + 5) = cd.ser m := by
      rw [List.drop_left']; simp
    have h3 : (buf ++ List.replicate 5 (0 : UInt8) ++ cd.ser m).length - buf.length - 5 = (cd.ser m).length := by
      simp
    rw [h1, h2, h3]; simp
  | some e =>
    simp only [Framing.payload, hc, C01_encode_buf_appends, hops, List.nil_append]
    have h1 : (buf ++ List.replicate 5 (0 : UInt8) ++ cd.cz e (cd.ser m)).take buf.length = buf := by
      rw [List.append_assoc, List.take_left']; rfl
    have h2 : (buf ++ List.replicate 5 (0 : UInt8) ++ cd.cz e (cd.ser m)).drop (buf.length + 5) = cd.cz e (cd.ser m) := by
      rw [List.drop_left']; simp
    have h3 : (buf ++ List.replicate 5 (0 : UInt8) ++ cd.cz e (cd.ser m)).length - buf.length - 5
        = (cd.cz e (cd.ser m)).length := by
      simp
    rw [h1, h2, h3]; simp

/- Non-vacuity: two frames in one buffer; a decoder reading the first payload by `chunk`/`advance`
and `copy_to_bytes` gets bytes 1 2 3 and leaves the second frame; a read past the window panics. -/
example : DBuf.read [.chunkAdvance 2, .copyToBytes 1] ⟨[1, 2, 3, 0, 0, 0, 0, 1, 9], 3⟩ = some ([1, 2, 3], ⟨[0, 0, 0, 0, 1, 9], 0⟩) := by decide
example : DBuf.read [.chunkAdvance 4] ⟨[1, 2, 3, 0, 0, 0, 0, 1, 9], 3⟩ = none := by decide
example : writeAll [0, 0, 0, 0, 0] [.reserve 9, .putBuf [[1], [2, 3]], .putBytes 7 2, .chunkMutAdvance [4]] = [0, 0, 0, 0, 0, 1, 2, 3, 7, 7, 4] := by decide

/- Non-vacuity of the bridge theorems: the read program above feeds `Dec.readBody` the payload [1, 2, 3] and
leaves the second frame; three write styles producing [1, 2, 3] give the frame `encodeItem` appends. -/
example : Dec.readBody idCodec ⟨[1, 2, 3, 0, 0, 0, 0, 1, 9], .hdr, none⟩ 3 none
    = (⟨[0, 0, 0, 0, 1, 9], .hdr, none⟩, .item [1, 2, 3]) := rfl
example : encodeItemViaBuf idCodec { comp := none, yieldThr := 0, maxSize := none, server := true } [7]
      [.reserve 9, .putBuf [[1], [2]], .chunkMutAdvance [3]] = [7, 0, 0, 0, 0, 3, 1, 2, 3] := by decide

end C01
