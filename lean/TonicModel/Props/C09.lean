import TonicModel.Model.Timeout
import TonicModel.Spec.Timeout
import TonicModel.Lemmas.Decimal
import TonicModel.Lemmas.TimeoutDigits
/-
C09 — Deadlines: faithful grpc-timeout encoding and shortest-deadline enforcement.
Property theorems only; helper lemmas live in `Lemmas/`.
-/
namespace C09
open Timeout

private theorem unit_spec (un : U) : Spec.Timeout.unitNanos un.byte = some un.nanos := by
  cases un <;> decide

private theorem value_le {d : Nat} {vu : Nat × U} (h : encodeVU d = some vu) : vu.1 ≤ maxValue := by
  unfold encodeVU at h
  repeat' split at h
  all_goals first | (cases h; assumption) | (cases h)

/-- Every duration up to 99 999 999 hours is encodable (the `expect` cannot fire). -/
theorem C09_encode_defined (d : Nat) (h : d ≤ Spec.Timeout.maxDuration) :
    ∃ vu, encodeVU d = some vu := by
  unfold encodeVU maxValue
  simp only [Spec.Timeout.maxDuration] at h
  repeat' split
  all_goals first | exact ⟨_, rfl⟩ | omega

/-- The value written is spec-conformant (1–8 ASCII digits and a unit) and denotes
`value × unit`. -/
theorem C09_encode_conformant (d : Nat) (vu : Nat × U) (h : encodeVU d = some vu) :
    Spec.Timeout.denote (render vu) = some (vu.1 * vu.2.nanos) := by
  have hv := value_le h
  have hl := decimal_length vu.1 8 (by decide) (by unfold maxValue at hv; omega)
  simp only [Spec.Timeout.denote, render, List.getLast?_append, List.getLast?_singleton,
    List.dropLast_concat, Option.some_or]
  simp [hl.1, hl.2, decimal_digits, digitsVal_decimal, unit_spec]

/-- The encoded timeout never denotes a longer time than requested … -/
theorem C09_never_longer (d : Nat) (vu : Nat × U) (h : encodeVU d = some vu) :
    vu.1 * vu.2.nanos ≤ d := by
  unfold encodeVU maxValue at h
  repeat' split at h
  all_goals first | (cases h; simp only [U.nanos]; omega) | (cases h)

/-- … and loses less than one unit of the chosen precision. -/
theorem C09_loss_lt_unit (d : Nat) (vu : Nat × U) (h : encodeVU d = some vu) :
    d < vu.1 * vu.2.nanos + vu.2.nanos := by
  unfold encodeVU maxValue at h
  repeat' split at h
  all_goals first | (cases h; simp only [U.nanos]; omega) | (cases h)

/-- The most precise unit is chosen: no finer unit could hold the value in 8 digits. -/
theorem C09_most_precise (d : Nat) (vu : Nat × U) (h : encodeVU d = some vu) (u' : U)
    (hfiner : u'.nanos < vu.2.nanos) : maxValue < d / u'.nanos := by
  unfold encodeVU maxValue at h
  unfold maxValue
  repeat' split at h
  all_goals first
    | (cases h; cases u' <;> simp only [U.nanos] at hfiner ⊢ <;> omega)
    | (cases h)

private theorem visible_of_digit (b : UInt8) (h : Ascii.isDigit b = true) : Ascii.isVisible b = true := by
  simp [Ascii.isDigit, Ascii.isVisible] at *; omega

private theorem ofByte_spec (b : UInt8) :
    (U.ofByte b).map U.nanos = Spec.Timeout.unitNanos b := by
  unfold U.ofByte Spec.Timeout.unitNanos
  repeat' split
  all_goals first | rfl | simp_all

private theorem visible_of_unit (b : UInt8) (un : U) (h : U.ofByte b = some un) : Ascii.isVisible b = true := by
  unfold U.ofByte at h
  repeat' split at h
  all_goals first | (subst_vars; decide) | cases h

/-- The parser computes exactly the spec's denotation: every spec-conformant value is parsed
to the duration it denotes and every other byte string is ignored (`none`), for all byte
strings.  CAVEAT: the oracle `Spec.Timeout.denote` reads the value part with `digitsVal` and
`Ascii.isDigit` (Basic/Bytes.lean), and so does the model's `parseValue` — in THIS theorem the number
reader is compared with itself (a wrong `digitsVal` would cancel out); independent here are the unit
table, the 1–8 digit bound and the visibility check.  The number reader is pinned separately:
`C09_digit_reader_is_positional`, and `C09_parse_is_spec_positional` is this statement against an
oracle that shares no reader with the model. -/
theorem C09_parse_is_spec (v : Bytes) : tryParse v = Spec.Timeout.denote v := by
  rcases List.eq_nil_or_concat v with rfl | ⟨ds, ub, rfl⟩
  · simp [tryParse, Spec.Timeout.denote]
  · simp only [List.concat_eq_append] 
    unfold tryParse Spec.Timeout.denote
    simp only [List.reverse_append, List.reverse_singleton, List.singleton_append,
      List.reverse_reverse, List.getLast?_append, List.getLast?_singleton, List.dropLast_concat,
      Option.some_or, parseValue]
    by_cases hlen : ds.length > 8
    · have : ¬ ds.length ≤ 8 := by omega
      simp [hlen, this]
    · have hle : ds.length ≤ 8 := by omega
      by_cases hemp : ds = []
      · subst hemp; simp
      · have h1 : 1 ≤ ds.length := by
          cases ds with
          | nil => exact absurd rfl hemp
          | cons _ _ => simp
        by_cases hdig : ds.all Ascii.isDigit = true
        · have hvis : ds.all Ascii.isVisible = true := by
            simp only [List.all_eq_true] at hdig ⊢
            exact fun x hx => visible_of_digit x (hdig x hx)
          simp only [hlen, hle, h1, hdig, hemp, List.isEmpty_iff, List.all_append, hvis, Bool.true_and]
          rw [← ofByte_spec]
          cases hu : U.ofByte ub with
          | none => simp
          | some un => simp [visible_of_unit ub un hu, Nat.mul_comm]
        · simp [hdig, hemp]

/-- The number reader shared by oracle and model, pinned against a reading that mentions neither
`digitsVal` nor `Ascii.isDigit`: `Spec.Timeout.positional` takes each digit's value from a ten-row
table and weighs it by its power of ten (most significant first), `none` if a byte is not in the
table.  For every byte string: the bytes `Ascii.isDigit` accepts are exactly the table's, and on
them `digitsVal` is the positional value. -/
theorem C09_digit_reader_is_positional (ds : Bytes) :
    (if ds.all Ascii.isDigit then some (digitsVal ds) else none) = Spec.Timeout.positional ds :=
  (Spec.Timeout.positional_eq ds).symm

/-- `C09_parse_is_spec` against an oracle that shares no number reader with the model: for all byte
strings the parser's result is the duration the value denotes when its digits are read positionally
(`Spec.Timeout.denotePositional`: last byte a unit of the table, before it 1–8 table digits), `none`
otherwise. -/
theorem C09_parse_is_spec_positional (v : Bytes) : tryParse v = Spec.Timeout.denotePositional v := by
  rw [C09_parse_is_spec, Spec.Timeout.denote_eq_positional]

/-- Parsing what tonic itself wrote gives back exactly the denoted duration. -/
theorem C09_parse_enc (d : Nat) (vu : Nat × U) (h : encodeVU d = some vu) :
    tryParse (render vu) = some (vu.1 * vu.2.nanos) := by
  rw [C09_parse_is_spec]; exact C09_encode_conformant d vu h

/-- The effective timeout is the shorter of those present. -/
theorem C09_min_rule (c s : Option Nat) :
    (effective c s = none ↔ c = none ∧ s = none) ∧
    (∀ t, effective c s = some t →
      (c = some t ∨ s = some t) ∧ (∀ x, c = some x → t ≤ x) ∧ (∀ x, s = some x → t ≤ x)) := by
  cases c <;> cases s <;> simp [effective] <;> omega

/-- Cut-off: the call yields the inner result iff it finishes no later than the effective
timeout, and `Timeout expired` otherwise; it is never left pending. (Transcription lemma: it holds by unfolding the model's definition, so it pins the model's shape for the correspondence run — its assurance about tonic is the tie, not this proof.) -/
theorem C09_cutoff (latency : Nat) (T : Option Nat) :
    run latency T = (match T with
      | some t => if t < latency then Outcome.timeout else Outcome.inner
      | none => Outcome.inner) := by
  cases T with
  | none => simp [run, pollAt]
  | some t =>
    simp only [run, pollAt]
    by_cases h : t < latency
    · have h1 : ¬ latency ≤ min latency t := by omega
      have h2 : t ≤ min latency t := by omega
      simp [h, h1, h2]
    · have h1 : latency ≤ min latency t := by omega
      simp [h, h1]

/-! ### Which side enforces: the two stacks against the spec's independent statement -/

/-- The model's result read as the spec's vocabulary. -/
def asExpect : Done → Spec.Timeout.Expect
  | .inner t => .finishes t
  | .timeout t => .cancelled t
  | .pending => .pending

/-- The status of a cut-off call is the one the property names: CANCELLED, "Timeout expired". -/
theorem C09_status_is_cancelled_timeout_expired :
    expiredStatus = (Spec.Timeout.cancelledCode, Spec.Timeout.expiredText) := by decide +kernel

private theorem shortest_pair (h c : Option Nat) :
    Spec.Timeout.shortest [h, c] = effective h c := by
  cases h <;> cases c <;> simp [Spec.Timeout.shortest, effective, Nat.min_def]

private theorem shortest_triple (c s e : Option Nat) :
    Spec.Timeout.shortest [c, s, e] = effective (effective c e) (effective c s) := by
  cases c <;> cases s <;> cases e <;> simp [Spec.Timeout.shortest, effective, Nat.min_def] <;>
    (repeat' split) <;> omega

private theorem cut_spec (m l : Option Nat) :
    asExpect (cutAt m (answer l)) = Spec.Timeout.expected' m l := by
  cases m with
  | none => cases l <;> rfl
  | some m =>
    cases l with
    | none => rfl
    | some l => by_cases h : m < l <;> simp [cutAt, answer, asExpect, Spec.Timeout.expected', h]

/-- Two timers around the same future act as one timer at the shorter deadline (this is why the
client stack and the server stack compose into "the shortest of all deadlines present"). -/
theorem C09_timers_compose (a b : Option Nat) (d : Done) :
    cutAt a (cutAt b d) = cutAt (effective a b) d := by
  cases a with
  | none => cases b <;> simp [cutAt, effective]
  | some x =>
    cases b with
    | none => simp [cutAt, effective]
    | some y =>
      cases d with
      | pending =>
        by_cases h : x ≤ y <;> by_cases h' : x < y <;>
          simp [cutAt, effective, Nat.min_def, h, h'] <;> omega
      | inner t =>
        by_cases h : x ≤ y <;> by_cases h' : x < y <;> by_cases h1 : y < t <;> by_cases h2 : x < t <;>
          simp [cutAt, effective, Nat.min_def, h, h', h1, h2] <;> omega
      | timeout t =>
        by_cases h : x ≤ y <;> by_cases h' : x < y <;> by_cases h1 : y < t <;> by_cases h2 : x < t <;>
          simp [cutAt, effective, Nat.min_def, h, h', h1, h2] <;> omega

/-- One `GrpcTimeout` (either side) around anything that answers after `l` or never: the call is
cut with the timeout status at the shorter of the header's and the configured deadline iff it
has not finished by then (never answering included), otherwise it finishes when the wrapped
service does; with no deadline it is pending exactly when the wrapped service never answers. -/
theorem C09_stage_meets_spec (h c l : Option Nat) :
    asExpect (stage h c (answer l)) = Spec.Timeout.expected [h, c] l := by
  rw [stage, cut_spec, Spec.Timeout.expected, shortest_pair]

/-- The future of the middleware (`run`, polled at its wake-up) against the spec: the same
decision, stated on the spec side by the naive fold over the deadlines present. -/
theorem C09_run_meets_spec (c s : Option Nat) (l : Nat) :
    run l (effective c s) =
      (match Spec.Timeout.expected [c, s] (some l) with
       | .cancelled _ => Outcome.timeout
       | .finishes _ => Outcome.inner
       | .pending => Outcome.pending) := by
  rw [C09_cutoff, Spec.Timeout.expected, shortest_pair]
  cases effective c s with
  | none => rfl
  | some t => by_cases h : t < l <;> simp [Spec.Timeout.expected', h]

/-- Server side: `transport::Server` with or without `Server::timeout`, whatever the client
does about its own deadline: the handler is cut at the shorter of the grpc-timeout header and
`Server::timeout`. -/
theorem C09_server_cutoff (header configured handler : Option Nat) :
    asExpect (serverStack header configured handler) =
      Spec.Timeout.expected [header, configured] handler :=
  C09_stage_meets_spec header configured handler

/-- Client side against a peer that does NOT enforce deadlines and sends its whole response at
once after `l`, or never: the client stack alone cuts the call at the shorter of the caller's
timeout and `Endpoint::timeout`. -/
theorem C09_client_cutoff_plain_peer (caller endpoint l : Option Nat) :
    asExpect (clientCall caller endpoint (plainPeer l)) =
      Spec.Timeout.expected [caller, endpoint] l := by
  rw [Spec.Timeout.expected, shortest_pair]
  cases he : effective caller endpoint with
  | none => cases l <;> simp [clientCall, plainPeer, Reply.headDone, stage, cutAt, he, asExpect,
      Spec.Timeout.expected']
  | some m =>
    cases l with
    | none => simp [clientCall, plainPeer, Reply.headDone, stage, cutAt, he, asExpect,
        Spec.Timeout.expected']
    | some l =>
      by_cases h : m < l <;>
        simp [clientCall, plainPeer, Reply.headDone, stage, cutAt, he, asExpect,
          Spec.Timeout.expected', h]

/-- For every caller timeout `T` and `Endpoint::timeout` `C` (either may be absent, not both)
and a peer that never answers, the client-side outcome is CANCELLED "Timeout expired" at
`min(T, C)` — the client does not rely on the peer honouring grpc-timeout. -/
theorem C09_client_enforces_without_peer (T C : Option Nat) (h : T ≠ none ∨ C ≠ none) :
    ∃ m, clientCall T C (plainPeer none) = Done.timeout m ∧
      (T = some m ∨ C = some m) ∧ (∀ x, T = some x → m ≤ x) ∧ (∀ x, C = some x → m ≤ x) := by
  cases T <;> cases C <;>
    simp [clientCall, plainPeer, Reply.headDone, stage, cutAt, effective] at h ⊢ <;> omega

/-- The symmetric statement for the server stack and a handler that never answers. -/
theorem C09_server_enforces_without_client (H S : Option Nat) (h : H ≠ none ∨ S ≠ none) :
    ∃ m, serverStack H S none = Done.timeout m ∧
      (H = some m ∨ S = some m) ∧ (∀ x, H = some x → m ≤ x) ∧ (∀ x, S = some x → m ≤ x) := by
  cases H <;> cases S <;> simp [serverStack, answer, stage, cutAt, effective] at h ⊢ <;> omega

private theorem clientCall_tonicPeer (c s e l : Option Nat) :
    clientCall c e (tonicPeer c s l) = stage c e (serverStack c s l) := by
  unfold clientCall tonicPeer
  cases serverStack c s l with
  | pending => cases he : effective c e <;> simp [Reply.headDone, stage, cutAt, he]
  | inner t =>
    cases he : effective c e with
    | none => simp [Reply.headDone, stage, cutAt, he]
    | some x => by_cases h : x < t <;> simp [Reply.headDone, stage, cutAt, he, h]
  | timeout t =>
    cases he : effective c e with
    | none => simp [Reply.headDone, stage, cutAt, he]
    | some x => by_cases h : x < t <;> simp [Reply.headDone, stage, cutAt, he, h]

/-- Client stack then server stack (tonic on both ends): the caller sees the cut at the
shortest of the three deadlines present, or the handler's answer when it comes. -/
theorem C09_end_to_end (caller server endpoint handler : Option Nat) :
    asExpect (endToEnd caller server endpoint handler) =
      Spec.Timeout.expected [caller, server, endpoint] handler := by
  rw [endToEnd, clientCall_tonicPeer, stage, serverStack, stage, C09_timers_compose, cut_spec,
    Spec.Timeout.expected, shortest_triple]

/-- TARGET (false of the code as it is, see `_fails`): whatever the peer's reply looks like, the
client cuts the call at the shorter deadline unless the reply is complete by then. -/
def ClientCutoffAnyReply : Prop :=
  ∀ (caller endpoint : Option Nat) (r : Reply), r.cancelled = false →
    asExpect (clientCall caller endpoint r) = Spec.Timeout.expected [caller, endpoint] r.done

/-- What holds: replies whose head arrives together with their end (unary replies of a tonic
server, trailers-only replies, a peer that never answers). -/
theorem C09_client_cutoff_any_reply_partial (caller endpoint : Option Nat) (r : Reply)
    (hc : r.cancelled = false) (hd : r.head = r.done) :
    asExpect (clientCall caller endpoint r) = Spec.Timeout.expected [caller, endpoint] r.done := by
  obtain ⟨c, hh, dd⟩ := r
  simp only at hc hd
  subst hc hd
  exact C09_client_cutoff_plain_peer caller endpoint hh

/-- FINDING (C09-F1): the client's timer stops when the response head arrives; a peer that sends
the head and then stalls keeps the call open past the deadline (forever, if it never finishes).
Witness: caller timeout 300 ms, no `Endpoint::timeout`, head at once, body never finished. -/
theorem C09_client_cutoff_any_reply_fails : ¬ ClientCutoffAnyReply := by
  intro h
  have := h (some 300000000) none (stallPeer none) rfl
  revert this
  decide

/-! ### A caller that polls late: the deadline counts from dispatch -/

private theorem later_eq (a b : Nat) : Spec.Timeout.later a b = max a b := by
  unfold Spec.Timeout.later; split <;> omega

private theorem lateCut_answer_spec (m l : Option Nat) (b : Nat) :
    asExpect (lateCut m (answer l) b) ∈ Spec.Timeout.lateExpected' m l b := by
  unfold Spec.Timeout.lateExpected' Spec.Timeout.later
  cases m with
  | none =>
    cases l with
    | none => simp [lateCut, answer, Done.readyBy, asExpect]
    | some l =>
      by_cases h : l ≤ b <;>
        simp [lateCut, answer, Done.readyBy, Done.pickedUpAt, asExpect, h]
  | some m =>
    cases l with
    | none =>
      by_cases h : m ≤ b <;> simp [lateCut, answer, Done.readyBy, cutAt, asExpect, h]
    | some l =>
      by_cases h1 : l ≤ b <;> by_cases h2 : m ≤ b <;> by_cases h3 : l ≤ m <;>
        by_cases h4 : m < l <;> by_cases h5 : b < l <;>
        simp [lateCut, answer, Done.readyBy, Done.pickedUpAt, cutAt, asExpect, h1, h2, h3, h4, h5] <;>
        omega

/-- The `GrpcTimeout` future, created at dispatch and first polled at ANY later time `b`, around
anything that answers after `latency` or never, for every timeout (or none): what the caller
observes is one of the observations the spec accepts — the call's own result at `max latency b`
if it finished by the deadline; CANCELLED "Timeout expired" at `max T b` if it is still running
then; either of the two, at `b`, if it finished after the deadline while nobody was polling
(`T < latency ≤ b`: the caller cannot tell, the property does not say). -/
theorem C09_late_poll_meets_spec (T latency : Option Nat) (b : Nat) :
    asExpect (latePoll T latency b) ∈ Spec.Timeout.lateExpected' T latency b :=
  lateCut_answer_spec T latency b

/-- The same with the min rule in front (header and configured timeout, either possibly absent),
against the spec's own fold over the deadlines present. -/
theorem C09_late_stage_meets_spec (h c l : Option Nat) (b : Nat) :
    asExpect (lateStage h c (answer l) b) ∈ Spec.Timeout.lateExpected [h, c] l b := by
  rw [lateStage, Spec.Timeout.lateExpected, shortest_pair]
  exact lateCut_answer_spec _ l b

/-- A caller that polls at once (`b = 0`) is the case the earlier theorems are about: the model
is the plain race and the spec accepts exactly the one observation `expected'` names. -/
theorem C09_late_poll_prompt (T latency : Option Nat) :
    latePoll T latency 0 = cutAt T (answer latency) ∧
    Spec.Timeout.lateExpected' T latency 0 = [Spec.Timeout.expected' T latency] := by
  unfold Spec.Timeout.lateExpected' Spec.Timeout.later Spec.Timeout.expected'
  cases T with
  | none =>
    cases latency with
    | none => simp [latePoll, lateCut, answer, Done.readyBy, cutAt]
    | some l =>
      by_cases h1 : l = 0 <;>
        simp [latePoll, lateCut, answer, Done.readyBy, Done.pickedUpAt, cutAt, h1]
  | some t =>
    cases latency with
    | none => by_cases h1 : t = 0 <;> simp [latePoll, lateCut, answer, Done.readyBy, cutAt, h1]
    | some l =>
      by_cases h : t < l <;> by_cases h0 : l = 0 <;> by_cases h1 : t = 0 <;> by_cases h3 : l ≤ t <;>
        simp [latePoll, lateCut, answer, Done.readyBy, Done.pickedUpAt, cutAt, h, h0, h1, h3] <;>
        first | omega | (have : 0 < l := by omega
                         simp [this])

/-- The deadline counts from DISPATCH: a call that is still running when the deadline has passed
and the caller is looking (`latency > max T b`, or it never answers) is cut at `max T b` — at `T`
for a caller already waiting, at its first poll `b` for one that comes later — and that is
strictly earlier than `b + T` (where a timer started at the first poll would fire) whenever both
are positive; it is also the only observation the spec accepts there. -/
theorem C09_deadline_counts_from_dispatch (T b : Nat) (latency : Option Nat)
    (h : ∀ l, latency = some l → max T b < l) :
    latePoll (some T) latency b = Done.timeout (max T b) ∧
    Spec.Timeout.lateExpected' (some T) latency b = [Spec.Timeout.Expect.cancelled (max T b)] ∧
    (0 < T → 0 < b → max T b < b + T) := by
  refine ⟨?_, ?_, by omega⟩
  · cases latency with
    | none =>
      by_cases h2 : T ≤ b <;> simp [latePoll, lateCut, answer, Done.readyBy, cutAt, h2] <;> omega
    | some l =>
      have hl := h l rfl
      have h1 : ¬ l ≤ b := by omega
      have h4 : T < l := by omega
      by_cases h2 : T ≤ b <;>
        simp [latePoll, lateCut, answer, Done.readyBy, cutAt, h1, h2, h4] <;> omega
  · cases latency with
    | none => simp [Spec.Timeout.lateExpected', later_eq]
    | some l =>
      have hl := h l rfl
      have h3 : ¬ l ≤ T := by omega
      simp [Spec.Timeout.lateExpected', later_eq, h3, hl]

/-- Nothing is observed before the caller looks: every completion time is at least `b`. -/
theorem C09_late_poll_not_before_first_poll (T latency : Option Nat) (b t : Nat)
    (h : latePoll T latency b = Done.inner t ∨ latePoll T latency b = Done.timeout t) : b ≤ t := by
  cases T with
  | none =>
    cases latency with
    | none => simp [latePoll, lateCut, answer, Done.readyBy] at h
    | some l =>
      by_cases h1 : l ≤ b <;>
        simp [latePoll, lateCut, answer, Done.readyBy, Done.pickedUpAt, h1] at h <;> omega
  | some m =>
    cases latency with
    | none =>
      by_cases h2 : m ≤ b <;> simp [latePoll, lateCut, answer, Done.readyBy, cutAt, h2] at h <;> omega
    | some l =>
      by_cases h1 : l ≤ b <;> by_cases h2 : m ≤ b <;> by_cases h4 : m < l <;>
        simp [latePoll, lateCut, answer, Done.readyBy, Done.pickedUpAt, cutAt, h1, h2, h4] at h <;>
        omega

/-- Client stack (a `Channel` used through `poll_ready` / `call`, the response future first
polled at `b`) against a peer that enforces nothing and answers at once after `l`, or never. -/
theorem C09_late_client_cutoff_plain_peer (caller endpoint l : Option Nat) (b : Nat) :
    asExpect (clientCallLate caller endpoint (plainPeer l) b) ∈
      Spec.Timeout.lateExpected [caller, endpoint] l b := by
  have key := C09_late_stage_meets_spec caller endpoint l b
  have hd : (plainPeer l).headDone = answer l := by cases l <;> rfl
  unfold clientCallLate
  rw [hd]
  cases l with
  | none =>
    -- never answers: the stage's result is never `.inner`
    cases hs : lateStage caller endpoint (answer none) b with
    | inner t =>
      exfalso
      cases he : effective caller endpoint with
      | none => simp [lateStage, lateCut, answer, Done.readyBy, he] at hs
      | some m =>
        by_cases h2 : m ≤ b <;> simp [lateStage, lateCut, answer, Done.readyBy, cutAt, he, h2] at hs
    | timeout t => rw [hs] at key; exact key
    | pending => rw [hs] at key; exact key
  | some l =>
    cases hs : lateStage caller endpoint (answer (some l)) b with
    | inner t =>
      have ht : max t l = t := by
        cases he : effective caller endpoint with
        | none =>
          by_cases h1 : l ≤ b <;>
            simp [lateStage, lateCut, answer, Done.readyBy, Done.pickedUpAt, he, h1] at hs <;> omega
        | some m =>
          by_cases h1 : l ≤ b <;> by_cases h2 : m ≤ b <;> by_cases h4 : m < l <;>
            simp [lateStage, lateCut, answer, Done.readyBy, Done.pickedUpAt, cutAt, he, h1, h2, h4]
              at hs <;> omega
      rw [hs] at key
      simpa [plainPeer, ht] using key
    | timeout t => rw [hs] at key; exact key
    | pending => rw [hs] at key; exact key

private theorem clientLate_tonic (c s e l : Option Nat) (b : Nat) :
    clientCallLate c e (tonicPeer c s l) b = lateCut (effective c e) (serverStack c s l) b := by
  unfold clientCallLate tonicPeer lateStage
  cases serverStack c s l with
  | pending =>
    cases he : effective c e with
    | none => simp [Reply.headDone, lateCut, Done.readyBy]
    | some x => by_cases h : x ≤ b <;> simp [Reply.headDone, lateCut, Done.readyBy, cutAt, h]
  | inner t =>
    cases he : effective c e with
    | none => by_cases h1 : t ≤ b <;> simp [Reply.headDone, lateCut, Done.readyBy, Done.pickedUpAt, h1] <;> omega
    | some x =>
      by_cases h1 : t ≤ b <;> by_cases h : x ≤ b <;> by_cases h2 : x < t <;>
        simp [Reply.headDone, lateCut, Done.readyBy, Done.pickedUpAt, cutAt, h, h1, h2] <;> omega
  | timeout t =>
    cases he : effective c e with
    | none => by_cases h1 : t ≤ b <;> simp [Reply.headDone, lateCut, Done.readyBy, Done.pickedUpAt, h1]
    | some x =>
      by_cases h1 : t ≤ b <;> by_cases h : x ≤ b <;> by_cases h2 : x < t <;>
        simp [Reply.headDone, lateCut, Done.readyBy, Done.pickedUpAt, cutAt, h, h1, h2]

private theorem lateCut_cut_spec (S E l : Option Nat) (b : Nat) :
    asExpect (lateCut E (cutAt S (answer l)) b) ∈ Spec.Timeout.lateExpected' (effective E S) l b := by
  cases S with
  | none =>
    have : effective E none = E := by cases E <;> rfl
    rw [this]
    cases E <;> exact C09_late_poll_meets_spec _ l b
  | some s =>
    unfold Spec.Timeout.lateExpected' Spec.Timeout.later
    cases E with
    | none =>
      cases l with
      | none => by_cases h2 : s ≤ b <;> simp [lateCut, answer, Done.readyBy, Done.pickedUpAt, cutAt, asExpect, effective, h2]
      | some l =>
        by_cases h1 : l ≤ b <;> by_cases h2 : s ≤ b <;> by_cases h4 : s < l <;>
        by_cases h8 : b < l <;> by_cases h10 : l ≤ s <;>
        first
        | (exfalso; omega)
        | (simp [lateCut, answer, Done.readyBy, Done.pickedUpAt, cutAt, asExpect, effective, h1, h2, h4, h8, h10] <;> omega)
    | some e =>
      cases l with
      | none =>
        by_cases h2 : s ≤ b <;> by_cases h3 : e ≤ b <;> by_cases h6 : e < s <;> by_cases h7 : e ≤ s <;>
        first
        | (exfalso; omega)
        | (simp [lateCut, answer, Done.readyBy, Done.pickedUpAt, cutAt, asExpect, effective, Nat.min_def, h2, h3, h6, h7] <;> omega)
      | some l =>
        by_cases h1 : l ≤ b <;> by_cases h2 : s ≤ b <;> by_cases h3 : e ≤ b <;>
        by_cases h4 : s < l <;> by_cases h5 : e < l <;> by_cases h6 : e < s <;> by_cases h7 : e ≤ s <;>
        by_cases h8 : b < l <;> by_cases h9 : l ≤ e <;> by_cases h10 : l ≤ s <;>
        first
        | (exfalso; omega)
        | (simp [lateCut, answer, Done.readyBy, Done.pickedUpAt, cutAt, asExpect, effective, Nat.min_def, h1, h2, h3, h4, h5, h6, h7, h8, h9, h10] <;> omega)

/-- tonic on both ends, the caller first polling at `b`: the server's timer (shorter of header and
`Server::timeout`, running from the request's arrival) and the client's (shorter of header and
`Endpoint::timeout`, running from dispatch) together give one of the observations the spec
accepts for the shortest of the three deadlines. -/
theorem C09_late_end_to_end (caller server endpoint handler : Option Nat) (b : Nat) :
    asExpect (endToEndLate caller server endpoint handler b) ∈
      Spec.Timeout.lateExpected [caller, server, endpoint] handler b := by
  rw [endToEndLate, clientLate_tonic, serverStack, stage, Spec.Timeout.lateExpected, shortest_triple]
  exact lateCut_cut_spec _ _ handler b

/-- NOT the code (what seed C09d turns it into): were the timer created at the caller's first
poll, the spec would be violated. -/
def TimerFromFirstPollMeetsSpec : Prop :=
  ∀ (T latency : Option Nat) (b : Nat),
    asExpect (lateCutLazy T (answer latency) b) ∈ Spec.Timeout.lateExpected' T latency b

/-- Witness: timeout 100, the peer answers after 350, the caller first polls at 300 — a timer
armed at 300 fires at 400, the answer at 350 wins and the call completes although its deadline
passed 250 earlier; the spec demands CANCELLED at 300. -/
theorem C09_timer_from_first_poll_fails : ¬ TimerFromFirstPollMeetsSpec := by
  intro h
  have := h (some 100) (some 350) 300
  revert this
  decide

/-! ### Several calls through one middleware: calls are independent -/

/-- Transcription lemma (definitional, `⟨rfl, rfl⟩`): it pins the model's shape for the `mw` / `chan` /
`conn` correspondence runs, which carry the assurance.
`GrpcTimeout::call` leaves the middleware as it found it, and the sleep it picks is a function
of the configured timeout and THIS request's header only. -/
theorem C09_middleware_is_stateless (m : Mw) (header : Option Nat) :
    (m.call header).1 = m ∧ (m.call header).2 = effective header m.configured := ⟨rfl, rfl⟩

private theorem clientCall_eq (c e : Option Nat) (r : Reply) :
    clientCall c e r = clientCallWith (effective c e) r := rfl

/-- Transcription lemma (definitional): `Mw.call` is written to return the middleware unchanged
(`(m.call h).1 = m` by `rfl`, `C09_middleware_is_stateless`), and that alone gives this equation — so
it unfolds the model's shape and carries no assurance of its own about tonic; its use is as the step
to `C09_channel_calls_each_meet_spec` and as the statement the counter-model fails
(`C09_sticky_first_header_fails`); that the real `GrpcTimeout::call` keeps nothing between calls is
established by the `mw` / `chan` / `chano` / `conn` / `conno` correspondence cases (several calls on ONE value).
For EVERY sequence of calls on one `Channel` (any length, any caller deadlines, any peer
replies, with or without `Endpoint::timeout`) each call's outcome and completion time is the
single-call model's — what a fresh channel would give — whatever calls came before it. -/
theorem C09_calls_are_independent (endpoint : Option Nat) (calls : List (Option Nat × Reply)) :
    channelCalls ⟨endpoint⟩ calls = calls.map fun c => clientCall c.1 endpoint c.2 := by
  induction calls with
  | nil => rfl
  | cons c cs ih =>
    obtain ⟨h, r⟩ := c
    simp only [channelCalls, channelCallsBy, Mw.call, List.map_cons, clientCall_eq] at ih ⊢
    rw [ih]

/-- Transcription lemma (definitional): `C09_calls_are_independent` (which holds because `Mw.call`
returns the middleware unchanged) read for the last call of a history; assurance: the `chan` cases.
The same said for one call after an arbitrary history: the calls before it change nothing
about it, and it changes nothing about them. -/
theorem C09_call_after_any_history (endpoint : Option Nat) (before : List (Option Nat × Reply))
    (caller : Option Nat) (r : Reply) :
    channelCalls ⟨endpoint⟩ (before ++ [(caller, r)]) =
      channelCalls ⟨endpoint⟩ before ++ [clientCall caller endpoint r] := by
  simp [C09_calls_are_independent]

/-- Transcription lemma (definitional): by `C09_calls_are_independent` the outcomes are a `map` over
the calls, and a `map` commutes with every permutation (`List.Perm.map`) — true of any per-call
function; the assurance that the real `Buffer` + `GrpcTimeout` behave so is the `chano` cases
(overlapping calls from `Channel` clones in separate tasks).
Overlapping calls reach `GrpcTimeout::call` in SOME order (the `Buffer` worker's queue): the
outcomes do not depend on it — reordering the dispatches reorders the outcomes and nothing else. -/
theorem C09_dispatch_order_is_irrelevant (endpoint : Option Nat)
    (calls calls' : List (Option Nat × Reply)) (h : calls.Perm calls') :
    (channelCalls ⟨endpoint⟩ calls).Perm (channelCalls ⟨endpoint⟩ calls') := by
  rw [C09_calls_are_independent, C09_calls_are_independent]
  exact h.map _

/-- Against the independent oracle: calls on one `Channel` to a peer that enforces nothing and
answers call `i` after `lᵢ` (or never) are each cut, or not, exactly as `Spec.Timeout.expectedEach`
demands: by the call's OWN deadline and `Endpoint::timeout`, nothing else. -/
theorem C09_channel_calls_each_meet_spec (endpoint : Option Nat)
    (calls : List (Option Nat × Option Nat)) :
    (channelCalls ⟨endpoint⟩ (calls.map fun c => (c.1, plainPeer c.2))).map asExpect =
      Spec.Timeout.expectedEach endpoint calls := by
  rw [C09_calls_are_independent]
  simp [Spec.Timeout.expectedEach, C09_client_cutoff_plain_peer]

/-- The middleware alone (one `GrpcTimeout` value called again and again) around something that
answers call `i` after `lᵢ`, or never. -/
theorem C09_middleware_calls_each_meet_spec (configured : Option Nat)
    (calls : List (Option Nat × Option Nat)) :
    (mwCalls ⟨configured⟩ (calls.map fun c => (c.1, answer c.2))).map asExpect =
      Spec.Timeout.expectedEach configured calls := by
  induction calls with
  | nil => rfl
  | cons c cs ih =>
    obtain ⟨h, l⟩ := c
    simp only [mwCalls, mwCallsBy, Mw.call, List.map_cons, Spec.Timeout.expectedEach] at ih ⊢
    rw [ih]
    congr 1
    exact C09_stage_meets_spec h configured l

/-- Server side, any number of requests with any grpc-timeout headers on ONE long-lived connection
of `transport::Server` (with or without `Server::timeout`): each handler is cut by its own
request's header and `Server::timeout`, nothing else. -/
theorem C09_connection_requests_each_meet_spec (configured : Option Nat)
    (reqs : List (Option Nat × Option Nat)) :
    (connCalls ⟨configured⟩ reqs).map asExpect = Spec.Timeout.expectedEach configured reqs := by
  simp only [connCalls, connCallsBy, Mw.call, Spec.Timeout.expectedEach, List.map_map]
  apply List.map_congr_left
  intro q _
  exact C09_stage_meets_spec q.1 configured q.2

/-- NOT the code (what seed C09e turns it into): a middleware that keeps the first header it saw
as its configured timeout.  TARGET statement for it: -/
def StickyCallsMeetSpec : Prop :=
  ∀ (endpoint : Option Nat) (calls : List (Option Nat × Option Nat)),
    (channelCallsBy Mw.callSticky ⟨endpoint⟩ (calls.map fun c => (c.1, plainPeer c.2))).map asExpect =
      Spec.Timeout.expectedEach endpoint calls

/-- Witness (ms; the harness corpus has it in ns): no `Endpoint::timeout`; a first call with a
100 ms deadline that is answered after 50 ms; then a call with NO deadline answered after 350 ms —
the sticky middleware cuts it at 100 although nothing says so. -/
theorem C09_sticky_first_header_fails : ¬ StickyCallsMeetSpec := by
  intro h
  have := h none [(some 100, some 50), (none, some 350)]
  revert this
  decide

/-- Why no single-call case can see the difference: for ONE call the sticky middleware picks the
same sleep as the code, for every header and configuration. -/
theorem C09_sticky_single_call_agrees (m : Mw) (header : Option Nat) :
    (m.callSticky header).2 = (m.call header).2 := by
  obtain ⟨c⟩ := m
  cases header <;> cases c <;> simp [Mw.callSticky, Mw.call, effective]

/-- Why it cannot be seen on the server either: every request runs on a throw-away clone of the
connection's stack, so what `call` wrote is never read. -/
theorem C09_sticky_invisible_per_request_clone (m : Mw) (reqs : List (Option Nat × Option Nat)) :
    connCallsBy Mw.callSticky m reqs = connCalls m reqs := by
  simp [connCalls, connCallsBy, C09_sticky_single_call_agrees]

/-! ### What travels -/

private theorem chosen_spec (d : Nat) (vu : Nat × U) (h : encodeVU d = some vu) :
    Spec.Timeout.chosenUnit d = some vu.2.nanos ∧ vu.1 = d / vu.2.nanos := by
  have e1 : d / 1000000000 / 60 = d / 60000000000 := by omega
  have e2 : d / 60000000000 / 60 = d / 3600000000000 := by omega
  unfold encodeVU maxValue at h
  simp only [e1, e2] at h
  simp only [Spec.Timeout.chosenUnit, Spec.Timeout.unitSizes, List.find?]
  repeat' split at h
  all_goals first
    | (cases h; refine ⟨?_, ?_⟩ <;> simp [U.nanos, *] <;> omega)
    | (cases h)

/-- encode → parse → min, composed: for every caller timeout `c` up to 99 999 999 h and every
configured timeout, the header `Request::set_timeout c` writes is read back by the receiving
`GrpcTimeout` as `w` = `c` rounded down to the most precise unit that fits 8 digits (the spec's
`onWire`), with `w ≤ c < w + unit`, and the deadline enforced is `min(w, configured)`. -/
theorem C09_wire_deadline (c : Nat) (hc : c ≤ Spec.Timeout.maxDuration) (s : Option Nat) :
    ∃ w unit, wire c = some w ∧ Spec.Timeout.onWire c = some w ∧
      Spec.Timeout.chosenUnit c = some unit ∧ w ≤ c ∧ c < w + unit ∧
      effective (wire c) s = some (match s with | none => w | some x => min w x) := by
  obtain ⟨vu, hvu⟩ := C09_encode_defined c hc
  have hp := C09_parse_enc c vu hvu
  have ⟨hu, hv⟩ := chosen_spec c vu hvu
  have hw : wire c = some (vu.1 * vu.2.nanos) := by
    simp [wire, setTimeouts, setTimeout, encode, hvu, headerTimeout, hp]
  refine ⟨vu.1 * vu.2.nanos, vu.2.nanos, hw, ?_, hu, C09_never_longer c vu hvu,
    C09_loss_lt_unit c vu hvu, ?_⟩
  · simp [Spec.Timeout.onWire, hu, hv]
  · rw [hw]; cases s <;> simp [effective]

/-- "Malformed values are ignored", at the level of the call: a request whose (first)
grpc-timeout value is not spec-conformant is treated exactly like a request without the
header, whatever else the header carries — only the configured timeout applies, and with none
configured the wrapped service's result passes through untouched. -/
theorem C09_malformed_header_ignored (v : Bytes) (rest : List Bytes)
    (hbad : Spec.Timeout.denote v = none) (configured : Option Nat) (below : Done) :
    headerTimeout (v :: rest) = none ∧
    stage (headerTimeout (v :: rest)) configured below = stage none configured below ∧
    stage (headerTimeout (v :: rest)) none below = below := by
  have h : headerTimeout (v :: rest) = none := by
    simp [headerTimeout, C09_parse_is_spec, hbad]
  refine ⟨h, by rw [h], ?_⟩
  rw [h]; cases below <;> rfl

/-- A conformant (first) value is what is enforced, whatever follows it in the header. -/
theorem C09_conformant_header_enforced (v : Bytes) (rest : List Bytes) (d : Nat)
    (hv : Spec.Timeout.denote v = some d) : headerTimeout (v :: rest) = some d := by
  simp [headerTimeout, C09_parse_is_spec, hv]

private theorem setTimeouts_none (ds : List Nat) : ds.foldl setTimeout none = none := by
  induction ds with
  | nil => rfl
  | cons d ds ih => simpa [List.foldl, setTimeout] using ih

private theorem setTimeouts_snoc (ds : List Nat) (d : Nat) (hdr : Option (List Bytes)) :
    (ds ++ [d]).foldl setTimeout hdr = setTimeout (ds.foldl setTimeout hdr) d := by
  simp [List.foldl_append]

/-- `set_timeout` called any number of times: if no call panicked, the header carries exactly
one value, the one of the LAST call (earlier values are replaced, never accumulated). -/
theorem C09_last_set_timeout_wins (ds : List Nat) (d : Nat)
    (hall : ∀ x ∈ ds, x ≤ Spec.Timeout.maxDuration) (hd : d ≤ Spec.Timeout.maxDuration) :
    ∃ v, encode d = some v ∧ setTimeouts (ds ++ [d]) = some [v] ∧
      headerTimeout [v] = wire d := by
  obtain ⟨vu, hvu⟩ := C09_encode_defined d hd
  have hsome : ∀ (ds : List Nat) (hdr : List Bytes), (∀ x ∈ ds, x ≤ Spec.Timeout.maxDuration) →
      ∃ vals, ds.foldl setTimeout (some hdr) = some vals := by
    intro ds
    induction ds with
    | nil => intro hdr _; exact ⟨hdr, rfl⟩
    | cons x xs ih =>
      intro hdr hx
      obtain ⟨vx, hvx⟩ := C09_encode_defined x (hx x (by simp))
      simp only [List.foldl, setTimeout, encode, hvx, Option.map_some]
      exact ih _ (fun y hy => hx y (by simp [hy]))
  obtain ⟨vals, hvals⟩ := hsome ds [] hall
  refine ⟨render vu, by simp [encode, hvu], ?_, ?_⟩
  · simp [setTimeouts, hvals, setTimeout, encode, hvu]
  · simp [wire, setTimeouts, setTimeout, encode, hvu]

private theorem builder_fold (ops : List BOp) (b : Builder) :
    (ops.foldl Builder.apply b).timeout =
      (match Spec.Timeout.lastSet (ops.map fun | .timeout t => some t | _ => none) with
       | some t => some t
       | none => b.timeout) := by
  induction ops generalizing b with
  | nil => rfl
  | cons op ops ih =>
    simp only [List.foldl, List.map, Spec.Timeout.lastSet]
    rw [ih]
    cases hl : Spec.Timeout.lastSet (ops.map fun | .timeout t => some t | _ => none) with
    | some t => rfl
    | none => cases op <;> simp [Builder.apply] <;> cases b.timeout <;> rfl

/-- Builder call sequences (`transport::Server`, `Endpoint`), of any length and in any order:
the timeout the stack is built with is the one of the most recent `.timeout(..)` call; `.layer`,
`connect_timeout` and every other builder method neither drop nor change it. -/
theorem C09_builder_last_timeout_wins (ops : List BOp) :
    configured ops = Spec.Timeout.lastSet (ops.map fun | .timeout t => some t | _ => none) := by
  rw [configured, builder_fold]
  cases Spec.Timeout.lastSet (ops.map fun | .timeout t => some t | _ => none) <;> rfl

/- Non-vacuity: a concrete duration meets the hypotheses and exercises unit selection. -/
example : encodeVU 100000000000 = some (100000, .m) ∧ (100000000000 : Nat) ≤ Spec.Timeout.maxDuration := by decide
example : Spec.Timeout.denote [49, 50, 83] = some 12000000000 := by decide
example : tryParse [43, 53, 83] = none := by decide   -- "+5S" is not spec-conformant
example : clientCall (some 300000000) none (plainPeer none) = Done.timeout 300000000 := by decide
example : clientCall (some 300000000) none (stallPeer none) = Done.pending := by decide
example : endToEnd (some 50) (some 20) (some 30) (some 25) = Done.timeout 20 := by decide
example : wire 1000000500 = some 1000000000 := by decide
example : Spec.Timeout.denote [43, 53, 83] = none ∧
    stage (headerTimeout [[43, 53, 83]]) (some 7) (answer (some 5)) = Done.inner 5 := by decide
example : configured [.timeout 5, .layer, .other, .connectTimeout 1] = some 5 := by decide
example : setTimeouts [10000000000, 5] = some [[53, 110]] := by decide
example : latePoll (some 100) (some 350) 300 = Done.timeout 300 :=
  (C09_deadline_counts_from_dispatch 100 300 (some 350) (by intro l h; cases h; decide)).1
example : latePoll (some 100) (some 250) 300 = Done.inner 300 := by decide   -- the window: either is acceptable
example : lateCutLazy (some 100) (answer (some 350)) 300 = Done.inner 350 := by decide
example : endToEndLate none (some 100) none (some 350) 300 = Done.timeout 300 := by decide
example : channelCalls ⟨none⟩ [(some 100, plainPeer (some 50)), (none, plainPeer (some 350))] =
    [Done.inner 50, Done.inner 350] := by decide
example : channelCallsBy Mw.callSticky ⟨none⟩ [(some 100, plainPeer (some 50)), (none, plainPeer (some 350))] =
    [Done.inner 50, Done.timeout 100] := by decide
example : [(some 100, plainPeer (some 50)), (none, plainPeer none)].Perm
    [(none, plainPeer none), (some 100, plainPeer (some 50))] := List.Perm.swap _ _ _

/-! ### Audit aC09: dimensions that must be invisible -/

/-- "Unaffected if it finishes before that": one `GrpcTimeout` (either side) around something that
ends with its own status `own` (OK or an error status) after `l`, or never — the caller has in hand
exactly what the oracle's `report` says: `own` at `l` if the call finished by the shorter deadline,
CANCELLED "Timeout expired" at that deadline otherwise.
What the quantifier over `own` is worth: NOTHING beyond `C09_stage_meets_spec` +
`C09_status_is_cancelled_timeout_expired`.  The call's own status never enters the model
(`Done.inner t` carries no status; `seen own` pastes `own` back onto it, as `Spec.Timeout.report`
does on the oracle's side), so the statement is parametric in `own` by construction — transcription
of "the middleware hands the wrapped future's output on as it is".  That a real handler's error status
(and OK) comes through unchanged when the call finishes in time is established by the correspondence
run (`cx` / `sx` cases, token `own` = ok / e1 / e4 / e5 / e14: peers and handlers that end the call
with a status of their own, before and after the deadline), not here. -/
theorem C09_own_status_unaffected (own : Nat × Bytes) (h c l : Option Nat) :
    seen own (stage h c (answer l)) =
      Spec.Timeout.report own (Spec.Timeout.expected [h, c] l) := by
  rw [← C09_stage_meets_spec]
  cases stage h c (answer l) <;>
    simp [seen, asExpect, Spec.Timeout.report, C09_status_is_cancelled_timeout_expired]

/-- The same through the client stack against a peer that enforces nothing (same caveat: parametric
in `own` by construction of `seen`; this is `C09_client_cutoff_plain_peer` +
`C09_status_is_cancelled_timeout_expired`). -/
theorem C09_own_status_unaffected_client (own : Nat × Bytes) (caller endpoint l : Option Nat) :
    seen own (clientCall caller endpoint (plainPeer l)) =
      Spec.Timeout.report own (Spec.Timeout.expected [caller, endpoint] l) := by
  rw [← C09_client_cutoff_plain_peer]
  cases clientCall caller endpoint (plainPeer l) <;>
    simp [seen, asExpect, Spec.Timeout.report, C09_status_is_cancelled_timeout_expired]

/-- Transcription lemma (definitional, `⟨rfl, rfl⟩`): `Srv.accept` is written to return the `MakeSvc`
unchanged and to copy its timeout; it pins the model's shape for the `sx` correspondence cases
(one real server, 1-3 connections), which carry the assurance.  Twin of `C09_middleware_is_stateless`.
`MakeSvc::call` leaves the `MakeSvc` as it was: accepting a connection changes nothing for the
connections accepted later. -/
theorem C09_accept_is_stateless (s : Srv) : (s.accept).1 = s ∧ (s.accept).2 = ⟨s.timeout⟩ :=
  ⟨rfl, rfl⟩

/-- One `transport::Server` (with or without `Server::timeout`), ANY number of connections in any
accept order, any requests on each: every request is cut by its own header and `Server::timeout`,
on the first connection and on every later one alike. -/
theorem C09_server_connections_each_meet_spec (configured : Option Nat)
    (conns : List (List (Option Nat × Option Nat))) :
    (serverConns ⟨configured⟩ conns).map (·.map asExpect) =
      Spec.Timeout.expectedConns configured conns := by
  induction conns with
  | nil => rfl
  | cons reqs rest ih =>
    simp only [serverConns, serverConnsBy, Srv.accept, List.map_cons,
      Spec.Timeout.expectedConns] at ih ⊢
    rw [ih]
    congr 1
    exact C09_connection_requests_each_meet_spec configured reqs

/-- NOT the code: a `MakeSvc::call` that moves the timeout out (`self.timeout.take()`).  TARGET: -/
def TakeConnsMeetSpec : Prop :=
  ∀ (configured : Option Nat) (conns : List (List (Option Nat × Option Nat))),
    (serverConnsBy Srv.acceptTake ⟨configured⟩ conns).map (·.map asExpect) =
      Spec.Timeout.expectedConns configured conns

/-- Witness: `Server::timeout(100)`, two connections, on each a request without grpc-timeout — the
first answered after 50, the second after 350: the second connection has no timeout at all. -/
theorem C09_take_on_accept_fails : ¬ TakeConnsMeetSpec := by
  intro h
  have := h (some 100) [[(none, some 50)], [(none, some 350)]]
  revert this
  decide

/-- Why no single-connection case can see it. -/
theorem C09_take_single_connection_agrees (s : Srv) (reqs : List (Option Nat × Option Nat)) :
    serverConnsBy Srv.acceptTake s [reqs] = serverConns s [reqs] := rfl

/-- Transcription lemma (definitional): `handoverBy true` is `lateCut` written out a second time
(`cases T <;> simp [handoverBy, latePoll, lateCut]`), so this compares two copies of one definition;
what it is FOR is `C09_handover_meets_spec` (against the independent oracle) and the contrast with
the counter-model `handoverBy false` (`C09_stale_timer_waker_fails`); that a real `ResponseFuture`
re-registers its timer's waker on every poll is established by the `runw` / `cliw` correspondence cases.
A response future that changes hands (polled while pending by one task, then first polled by
its new owner at `p`): for the new owner it is a future first polled at `p` — the hand-over is
invisible. -/
theorem C09_handover_is_late_poll (T l : Option Nat) (p : Nat) :
    handoverBy true T l p = latePoll T l p := by
  cases T <;> simp [handoverBy, latePoll, lateCut]

/-- … and so meets the late-poll oracle: cut at `max T p` if still running then, its own result if
it finished by the deadline. -/
theorem C09_handover_meets_spec (h c l : Option Nat) (p : Nat) :
    asExpect (handoverBy true (effective h c) l p) ∈ Spec.Timeout.lateExpected [h, c] l p := by
  rw [C09_handover_is_late_poll]
  exact C09_late_stage_meets_spec h c l p

/-- NOT the code: a timer whose waker is registered by the first poll only.  Witness: deadline 100,
the wrapped service never answers, the new owner polls at once — it is never woken. -/
theorem C09_stale_timer_waker_fails :
    ¬ ∀ (T l : Option Nat) (p : Nat),
      asExpect (handoverBy false T l p) ∈ Spec.Timeout.lateExpected' T l p := by
  intro h
  have := h (some 100) none 0
  revert this
  decide

example : seen (5, [110, 111]) (stage (some 100) none (answer (some 50))) = some (5, [110, 111], 50) := by decide
example : serverConns ⟨some 100⟩ [[(none, some 50)], [(none, some 350)]] =
    [[Done.inner 50], [Done.timeout 100]] := by decide
example : serverConnsBy Srv.acceptTake ⟨some 100⟩ [[(none, some 50)], [(none, some 350)]] =
    [[Done.inner 50], [Done.inner 350]] := by decide
example : handoverBy true (some 100) none 0 = Done.timeout 100 ∧
    handoverBy false (some 100) none 0 = Done.pending := by decide

end C09
