import TonicModel.Model.Timeout
import TonicModel.Spec.Timeout
import TonicModel.Lemmas.Decimal
/-
C09 — Deadlines: faithful grpc-timeout encoding and shortest-deadline enforcement.
Property theorems only; helper lemmas live in `Lemmas/`.
-/
namespace C09
open Timeout

private theorem unit_spec (un : U) : Spec.Timeout.unitNanos un.byte = some un.nanos := by
  cases un <;> decide

private theorem value_le {d : Nat} {vu : Nat × U} (h : encodeVU d = some vu) : vu.1 ≤ maxValue := by
  unfold encodeVU at h
  repeat' split at h
  all_goals first | (cases h; assumption) | (cases h)

/-- Every duration up to 99 999 999 hours is encodable (the `expect` cannot fire). -/
theorem C09_encode_defined (d : Nat) (h : d ≤ Spec.Timeout.maxDuration) :
    ∃ vu, encodeVU d = some vu := by
  unfold encodeVU maxValue
  simp only [Spec.Timeout.maxDuration] at h
  repeat' split
  all_goals first | exact ⟨_, rfl⟩ | omega

/-- The value written is spec-conformant (1–8 ASCII digits and a unit) and denotes
`value × unit`. -/
theorem C09_encode_conformant (d : Nat) (vu : Nat × U) (h : encodeVU d = some vu) :
    Spec.Timeout.denote (render vu) = some (vu.1 * vu.2.nanos) := by
  have hv := value_le h
  have hl := decimal_length vu.1 8 (by decide) (by unfold maxValue at hv; omega)
  simp only [Spec.Timeout.denote, render, List.getLast?_append, List.getLast?_singleton,
    List.dropLast_concat, Option.some_or]
  simp [hl.1, hl.2, decimal_digits, digitsVal_decimal, unit_spec]

/-- The encoded timeout never denotes a longer time than requested … -/
theorem C09_never_longer (d : Nat) (vu : Nat × U) (h : encodeVU d = some vu) :
    vu.1 * vu.2.nanos ≤ d := by
  unfold encodeVU maxValue at h
  repeat' split at h
  all_goals first | (cases h; simp only [U.nanos]; omega) | (cases h)

/-- … and loses less than one unit of the chosen precision. -/
theorem C09_loss_lt_unit (d : Nat) (vu : Nat × U) (h : encodeVU d = some vu) :
    d < vu.1 * vu.2.nanos + vu.2.nanos := by
  unfold encodeVU maxValue at h
  repeat' split at h
  all_goals first | (cases h; simp only [U.nanos]; omega) | (cases h)

/-- The most precise unit is chosen: no finer unit could hold the value in 8 digits. -/
theorem C09_most_precise (d : Nat) (vu : Nat × U) (h : encodeVU d = some vu) (u' : U)
    (hfiner : u'.nanos < vu.2.nanos) : maxValue < d / u'.nanos := by
  unfold encodeVU maxValue at h
  unfold maxValue
  repeat' split at h
  all_goals first
    | (cases h; cases u' <;> simp only [U.nanos] at hfiner ⊢ <;> omega)
    | (cases h)

private theorem visible_of_digit (b : UInt8) (h : Ascii.isDigit b = true) : Ascii.isVisible b = true := by
  simp [Ascii.isDigit, Ascii.isVisible] at *; omega

private theorem ofByte_spec (b : UInt8) :
    (U.ofByte b).map U.nanos = Spec.Timeout.unitNanos b := by
  unfold U.ofByte Spec.Timeout.unitNanos
  repeat' split
  all_goals first | rfl | simp_all

private theorem visible_of_unit (b : UInt8) (un : U) (h : U.ofByte b = some un) : Ascii.isVisible b = true := by
  unfold U.ofByte at h
  repeat' split at h
  all_goals first | (subst_vars; decide) | cases h

/-- The parser computes exactly the spec's denotation: every spec-conformant value is parsed
to the duration it denotes and every other byte string is ignored (`none`), for all byte
strings. -/
theorem C09_parse_is_spec (v : Bytes) : tryParse v = Spec.Timeout.denote v := by
  rcases List.eq_nil_or_concat v with rfl | ⟨ds, ub, rfl⟩
  · simp [tryParse, Spec.Timeout.denote]
  · simp only [List.concat_eq_append] 
    unfold tryParse Spec.Timeout.denote
    simp only [List.reverse_append, List.reverse_singleton, List.singleton_append,
      List.reverse_reverse, List.getLast?_append, List.getLast?_singleton, List.dropLast_concat,
      Option.some_or, parseValue]
    by_cases hlen : ds.length > 8
    · have : ¬ ds.length ≤ 8 := by omega
      simp [hlen, this]
    · have hle : ds.length ≤ 8 := by omega
      by_cases hemp : ds = []
      · subst hemp; simp
      · have h1 : 1 ≤ ds.length := by
          cases ds with
          | nil => exact absurd rfl hemp
          | cons _ _ => simp
        by_cases hdig : ds.all Ascii.isDigit = true
        · have hvis : ds.all Ascii.isVisible = true := by
            simp only [List.all_eq_true] at hdig ⊢
            exact fun x hx => visible_of_digit x (hdig x hx)
          simp only [hlen, hle, h1, hdig, hemp, List.isEmpty_iff, List.all_append, hvis, Bool.true_and]
          rw [← ofByte_spec]
          cases hu : U.ofByte ub with
          | none => simp
          | some un => simp [visible_of_unit ub un hu, Nat.mul_comm]
        · simp [hdig, hemp]

/-- Parsing what tonic itself wrote gives back exactly the denoted duration. -/
theorem C09_parse_enc (d : Nat) (vu : Nat × U) (h : encodeVU d = some vu) :
    tryParse (render vu) = some (vu.1 * vu.2.nanos) := by
  rw [C09_parse_is_spec]; exact C09_encode_conformant d vu h

/-- The effective timeout is the shorter of those present. -/
theorem C09_min_rule (c s : Option Nat) :
    (effective c s = none ↔ c = none ∧ s = none) ∧
    (∀ t, effective c s = some t →
      (c = some t ∨ s = some t) ∧ (∀ x, c = some x → t ≤ x) ∧ (∀ x, s = some x → t ≤ x)) := by
  cases c <;> cases s <;> simp [effective] <;> omega

/-- Cut-off: the call yields the inner result iff it finishes no later than the effective
timeout, and `Timeout expired` otherwise; it is never left pending. -/
theorem C09_cutoff (latency : Nat) (T : Option Nat) :
    run latency T = (match T with
      | some t => if t < latency then Outcome.timeout else Outcome.inner
      | none => Outcome.inner) := by
  cases T with
  | none => simp [run, pollAt]
  | some t =>
    simp only [run, pollAt]
    by_cases h : t < latency
    · have h1 : ¬ latency ≤ min latency t := by omega
      have h2 : t ≤ min latency t := by omega
      simp [h, h1, h2]
    · have h1 : latency ≤ min latency t := by omega
      simp [h, h1]

/- Non-vacuity: a concrete duration meets the hypotheses and exercises unit selection. -/
example : encodeVU 100000000000 = some (100000, .m) ∧ (100000000000 : Nat) ≤ Spec.Timeout.maxDuration := by decide
example : Spec.Timeout.denote [49, 50, 83] = some 12000000000 := by decide
example : tryParse [43, 53, 83] = none := by decide   -- "+5S" is not spec-conformant

end C09
