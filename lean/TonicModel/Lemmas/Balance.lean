import TonicModel.Model.Balance
import TonicModel.Lemmas.Reconnect
/-
Helper lemmas for the load-balanced channel (C14, `Model/Balance.lean`).
Part 1: one endpoint (`advance`, `serveEP`, `tryOne`); part 2: lifting to the endpoint list.
-/
namespace Balance
open ConnScript BalScript Reconnect

/-! ### predicates -/

/-- the endpoint's `Connection` is what `discover.rs` builds (lazy) and still usable -/
def Lz (e : EP) : Prop := e.member = true → e.r.isLazy = true ∧ e.r.st ≠ .spent

/-- one more poll makes it ready: it is ready, or an attempt is in flight -/
def Near (e : EP) : Prop :=
  e.member = true → e.ready = true ∨ (e.r.st = .connecting ∧ e.r.error = none)

/-- a result a caller can take: a response or an error of its own -/
def BRes.definite : BRes → Bool
  | .resp _ _ => true
  | .err _ _ => true
  | .lost _ => true
  | .hang => false
  | .panic => false

/-- a result that is not a response -/
def BRes.failed : BRes → Bool
  | .resp _ _ => false
  | _ => true

/-! ### one endpoint -/

theorem advance_key (e : EP) : (advance e).key = e.key := by
  unfold advance; rfl

theorem serveEP_key (e : EP) : (serveEP e).1.key = e.key := by
  unfold serveEP; split <;> rfl

theorem serveEP_member (e : EP) : (serveEP e).1.member = e.member := by
  unfold serveEP; split <;> rfl

theorem serveEP_w (e : EP) : (serveEP e).1.w = e.w := by
  unfold serveEP; split <;> rfl

theorem serveEP_ready (e : EP) : (serveEP e).1.ready = false := by
  unfold serveEP; split <;> rfl

/-- `advance`, spelled out state by state. -/
def adv (e : EP) : EP :=
  match e.r.error with
  | some _ => { e with ready := true }
  | none =>
    match e.r.st with
    | .idle =>
      { e with r := { e.r with st := .connecting, made := e.r.made + 1 }, ready := false, flight := e.w.up,
               w := if e.w.up = true then { e.w with alive := some (e.r.made + 1) } else e.w }
    | .connecting =>
      if e.flight = true then
        { e with r := { e.r with st := .connected e.r.made, hasBeen := true }, ready := true, fresh := true }
      else if e.r.hasBeen = true ∨ e.r.isLazy = true then
        { e with r := { e.r with st := .idle, error := some e.r.made }, ready := true }
      else { e with r := { e.r with st := .spent }, ready := false, member := false }
    | .connected c =>
      if e.w.alive = some c ∨ e.fresh = true then { e with r := { e.r with hasBeen := true }, ready := true }
      else
        { e with r := { e.r with hasBeen := true, st := .connecting, made := e.r.made + 1 }, ready := false,
                 flight := e.w.up,
                 w := if e.w.up = true then { e.w with alive := some (e.r.made + 1) } else e.w }
    | .spent => { e with ready := false, member := false }

theorem advance_eq (e : EP) : advance e = adv e := by
  obtain ⟨key, member, ⟨st, error, hasBeen, isLazy, made⟩, ready, flight, fresh, ⟨up, gen, alive⟩⟩ := e
  cases error with
  | some x => simp [advance, adv, pollReady, fatal]
  | none =>
    cases st with
    | idle => cases up <;> simp [advance, adv, answers, pollReady, Reconnect.loop, Reconnect.step, fatal]
    | connecting =>
      cases flight
      · by_cases h : hasBeen = true ∨ isLazy = true
        · simp [advance, adv, answers, pollReady, Reconnect.loop, Reconnect.step, fatal, h]
        · simp [advance, adv, answers, pollReady, Reconnect.loop, Reconnect.step, fatal, h]
      · simp [advance, adv, answers, pollReady, Reconnect.loop, Reconnect.step, fatal]
    | connected c =>
      by_cases h : alive = some c ∨ fresh = true
      · simp [advance, adv, answers, pollReady, Reconnect.loop, Reconnect.step, fatal, h]
      · cases up <;> simp [advance, adv, answers, pollReady, Reconnect.loop, Reconnect.step, fatal, h]
    | spent => simp [advance, adv, answers, pollReady, Reconnect.loop, fatal]

/-- case analysis of one `advance` -/
macro "adv_cases" : tactic =>
  `(tactic| (rw [advance_eq]; unfold adv; (repeat' split) <;> simp_all))

theorem advance_member_le (e : EP) : (advance e).member = true → e.member = true := by
  intro h; revert h; adv_cases

theorem advance_lz (e : EP) (h : Lz e) : Lz (advance e) ∧ (advance e).member = e.member := by
  unfold Lz at *
  by_cases hm : e.member = true
  · obtain ⟨hl, hs⟩ := h hm
    revert hl hs hm
    adv_cases
  · have : (advance e).member = false := by
      cases h' : (advance e).member
      · rfl
      · exact absurd (advance_member_le e h') hm
    simp_all

theorem advance_near (e : EP) (h : Lz e) : Near (advance e) := by
  unfold Near
  intro hm
  have hm' := advance_member_le e hm
  obtain ⟨hl, hs⟩ := h hm'
  revert hm hl hs
  adv_cases

theorem advance_connecting_ready (e : EP) (h : Lz e) (hm : e.member = true)
    (hc : e.r.st = .connecting) (he : e.r.error = none) :
    (advance e).ready = true ∧ (advance (advance e)).ready = true ∧ (advance (advance e)).member = true := by
  obtain ⟨hl, hs⟩ := h hm
  obtain ⟨key, member, ⟨st, error, hasBeen, isLazy, made⟩, ready, flight, fresh, ⟨up, gen, alive⟩⟩ := e
  simp only at hl hs hm hc he
  subst hl hm hc he
  cases flight <;> simp [advance_eq, adv]

/-- A service is only called right after its `poll_ready` said ready: the call never hits
`Reconnect::call`'s panic branch and always yields a result of its own. -/
theorem serve_after_advance_definite (e : EP) (h : (advance e).ready = true) :
    (serveEP (advance e)).2.definite = true := by
  revert h
  rw [advance_eq]; unfold adv serveEP Reconnect.call
  (repeat' split) <;> simp_all [BRes.definite]

theorem tryOne_definite (e : EP) (r : BRes) (h : (tryOne e).2 = some r) : r.definite = true := by
  unfold tryOne at h
  split at h
  · rename_i hc
    simp only [Bool.and_eq_true] at hc
    simp only [Option.some.injEq] at h
    rw [← h]; exact serve_after_advance_definite e hc.2
  · simp at h

theorem tryOne_key (e : EP) : (tryOne e).1.key = e.key := by
  unfold tryOne; split <;> simp [serveEP_key, advance_key]

theorem tryOne_member_le (e : EP) : (tryOne e).1.member = true → e.member = true := by
  unfold tryOne; split
  · simp only [serveEP_member]; exact advance_member_le e
  · exact advance_member_le e

theorem serveEP_r (e : EP) : (serveEP e).1.r = (Reconnect.call e.r).1 := by
  unfold serveEP; split <;> (rename_i h; simp [h])

theorem call_isLazy (r : R) : (Reconnect.call r).1.isLazy = r.isLazy := by
  unfold Reconnect.call; (repeat' split) <;> rfl

theorem serveEP_lz (e : EP) (h : Lz e) : Lz (serveEP e).1 := by
  unfold Lz at *
  rw [serveEP_member, serveEP_r, call_isLazy, call_st]
  exact h

theorem tryOne_lz (e : EP) (h : Lz e) : Lz (tryOne e).1 ∧ (tryOne e).1.member = e.member := by
  unfold tryOne; split
  · exact ⟨serveEP_lz _ (advance_lz e h).1, by rw [serveEP_member]; exact (advance_lz e h).2⟩
  · exact advance_lz e h

/-- the picked service was not ready any more: it is back in the pending set with an attempt in flight -/
theorem tryOne_none (e : EP) (h : Lz e) (hn : (tryOne e).2 = none) :
    Near (tryOne e).1 ∧ ((tryOne e).1.member = true → (tryOne e).1.ready = false) := by
  unfold tryOne at hn ⊢
  split
  · rename_i hc; simp [hc] at hn
  · rename_i hc
    refine ⟨advance_near e h, ?_⟩
    intro hm
    simp only [Bool.and_eq_true, not_and, Bool.not_eq_true] at hc
    exact hc hm

/-! ### the endpoint list -/

/-- what can happen to one endpoint during a call -/
inductive Ev : EP → EP → Prop
  | refl (e : EP) : Ev e e
  | adv {a b : EP} : Ev a b → Ev a (advance b)
  | tried {a b : EP} : Ev a b → Ev a (tryOne b).1
  | settled {a b : EP} : Ev a b → Ev a { b with fresh := false }

theorem Ev.trans {a b c : EP} (h1 : Ev a b) (h2 : Ev b c) : Ev a c := by
  induction h2 with
  | refl => exact h1
  | adv _ ih => exact .adv ih
  | tried _ ih => exact .tried ih
  | settled _ ih => exact .settled ih

/-- a property kept by every single step is kept by the whole evolution -/
theorem Ev.keeps {P : EP → Prop} (hadv : ∀ e, P e → P (advance e)) (htry : ∀ e, P e → P (tryOne e).1)
    (hset : ∀ e, P e → P { e with fresh := false }) {a b : EP} (h : Ev a b) (ha : P a) : P b := by
  induction h with
  | refl => exact ha
  | adv _ ih => exact hadv _ ih
  | tried _ ih => exact htry _ ih
  | settled _ ih => exact hset _ ih

/-- pointwise evolution of the endpoint list -/
inductive PW : List EP → List EP → Prop
  | nil : PW [] []
  | cons {a b : EP} {as bs : List EP} : Ev a b → PW as bs → PW (a :: as) (b :: bs)

theorem PW.refl : ∀ l : List EP, PW l l
  | [] => .nil
  | a :: as => .cons (.refl a) (PW.refl as)

theorem PW.trans {a b c : List EP} (h1 : PW a b) (h2 : PW b c) : PW a c := by
  induction h1 generalizing c with
  | nil => cases h2; exact .nil
  | cons e _ ih => cases h2 with | cons e2 t2 => exact .cons (e.trans e2) (ih t2)

theorem PW.forall {P Q : EP → Prop} {as bs : List EP} (h : PW as bs)
    (hq : ∀ a b, Ev a b → P a → Q b) (hp : ∀ a ∈ as, P a) : ∀ b ∈ bs, Q b := by
  induction h with
  | nil => intro b hb; cases hb
  | cons e _ ih =>
    intro b hb
    rcases List.mem_cons.1 hb with rfl | hb
    · exact hq _ _ e (hp _ (List.mem_cons_self))
    · exact ih (fun a ha => hp a (List.mem_cons_of_mem _ ha)) b hb

theorem PW.map_eq {α} {P : EP → Prop} {f : EP → α} {as bs : List EP} (h : PW as bs)
    (hf : ∀ a b, Ev a b → P a → f b = f a) (hp : ∀ a ∈ as, P a) : bs.map f = as.map f := by
  induction h with
  | nil => rfl
  | cons e _ ih =>
    simp only [List.map_cons]
    rw [hf _ _ e (hp _ (List.mem_cons_self)), ih (fun a ha => hp a (List.mem_cons_of_mem _ ha))]

theorem pass_pw (eps : List EP) : PW eps (pass eps) := by
  induction eps with
  | nil => exact .nil
  | cons e es ih =>
    simp only [pass, List.map_cons] at ih ⊢
    refine .cons ?_ ih
    split
    · exact .adv (.refl e)
    · exact .refl e

theorem settle_pw (eps : List EP) : PW eps (settle eps) := by
  induction eps with
  | nil => exact .nil
  | cons e es ih =>
    simp only [settle, List.map_cons] at ih ⊢
    exact .cons (.settled (.refl e)) ih

theorem tryKey_pw (k : Nat) (eps : List EP) : PW eps (tryKey k eps).1 := by
  induction eps with
  | nil => exact .nil
  | cons e es ih =>
    unfold tryKey
    split
    · exact .cons (.tried (.refl e)) (PW.refl es)
    · exact .cons (.refl e) ih

theorem tryKeys_pw (ks : List Nat) : ∀ eps : List EP, PW eps (tryKeys eps ks).1 := by
  induction ks with
  | nil => intro eps; exact PW.refl eps
  | cons k ks ih =>
    intro eps
    unfold tryKeys
    split
    · exact tryKey_pw k eps
    · exact (tryKey_pw k eps).trans (ih _)

theorem sweep_pw (eps : List EP) : PW eps (sweep eps).1 := by
  induction eps with
  | nil => exact .nil
  | cons e es ih =>
    unfold sweep
    split
    · split
      · exact .cons (.tried (.refl e)) (PW.refl es)
      · exact .cons (.tried (.refl e)) ih
    · exact .cons (.refl e) ih

theorem phase_pw (eps : List EP) (ks : List Nat) : PW eps (phase eps ks).1 := by
  unfold phase
  split
  · exact tryKeys_pw ks eps
  · exact (tryKeys_pw ks eps).trans (sweep_pw _)

theorem call_pw (s : B) (ch : Choice) : PW s.eps (call s ch).1.eps := by
  unfold call
  split
  · exact ((pass_pw _).trans (phase_pw _ _)).trans (settle_pw _)
  · split <;>
    exact ((((pass_pw _).trans (phase_pw _ _)).trans (pass_pw _)).trans (phase_pw _ _)).trans (settle_pw _)

/-! ### results are definite -/

theorem tryKey_definite (k : Nat) (eps : List EP) (r : BRes) (h : (tryKey k eps).2 = some r) :
    r.definite = true := by
  induction eps with
  | nil => simp [tryKey] at h
  | cons e es ih =>
    unfold tryKey at h
    split at h
    · exact tryOne_definite e r h
    · exact ih h

theorem tryKeys_definite (ks : List Nat) : ∀ (eps : List EP) (r : BRes), (tryKeys eps ks).2 = some r →
    r.definite = true := by
  induction ks with
  | nil => intro eps r h; simp [tryKeys] at h
  | cons k ks ih =>
    intro eps r h
    unfold tryKeys at h
    split at h
    · rename_i r' hr
      simp only [Option.some.injEq] at h
      exact tryKey_definite k eps r (h ▸ hr)
    · exact ih _ r h

theorem sweep_definite (eps : List EP) (r : BRes) (h : (sweep eps).2 = some r) : r.definite = true := by
  induction eps with
  | nil => simp [sweep] at h
  | cons e es ih =>
    unfold sweep at h
    split at h
    · split at h
      · rename_i r' hr
        simp only [Option.some.injEq] at h
        exact tryOne_definite e r (h ▸ hr)
      · exact ih h
    · exact ih h

theorem phase_definite (eps : List EP) (ks : List Nat) (r : BRes) (h : (phase eps ks).2 = some r) :
    r.definite = true := by
  unfold phase at h
  split at h
  · rename_i r' hr
    simp only [Option.some.injEq] at h
    exact tryKeys_definite ks eps r (h ▸ hr)
  · exact sweep_definite _ r h

/-! ### when nothing could be served, every endpoint has an attempt in flight -/

def LN (e : EP) : Prop := Lz e ∧ Near e

theorem tryKey_none_keeps (k : Nat) (eps : List EP) (h : ∀ e ∈ eps, LN e) (hn : (tryKey k eps).2 = none) :
    ∀ e ∈ (tryKey k eps).1, LN e := by
  induction eps with
  | nil => intro e he; simp [tryKey] at he
  | cons a as ih =>
    unfold tryKey at hn ⊢
    split
    · rename_i hc
      simp only [hc, if_true] at hn
      intro e he
      rcases List.mem_cons.1 he with rfl | he
      · exact ⟨(tryOne_lz a (h a List.mem_cons_self).1).1, (tryOne_none a (h a List.mem_cons_self).1 hn).1⟩
      · exact h e (List.mem_cons_of_mem _ he)
    · rename_i hc
      simp only [hc] at hn
      intro e he
      rcases List.mem_cons.1 he with rfl | he
      · exact h _ List.mem_cons_self
      · exact ih (fun x hx => h x (List.mem_cons_of_mem _ hx)) hn e he

theorem tryKeys_none_keeps (ks : List Nat) : ∀ (eps : List EP), (∀ e ∈ eps, LN e) → (tryKeys eps ks).2 = none →
    ∀ e ∈ (tryKeys eps ks).1, LN e := by
  induction ks with
  | nil => intro eps h _; simpa [tryKeys] using h
  | cons k ks ih =>
    intro eps h hn
    unfold tryKeys at hn ⊢
    split
    · rename_i r hr; simp [hr] at hn
    · rename_i hr
      simp only [hr] at hn
      exact ih _ (tryKey_none_keeps k eps h hr) hn

theorem sweep_none_keeps (eps : List EP) (h : ∀ e ∈ eps, LN e) (hn : (sweep eps).2 = none) :
    ∀ e ∈ (sweep eps).1, LN e ∧ (e.member = true → e.ready = false) := by
  induction eps with
  | nil => intro e he; simp [sweep] at he
  | cons a as ih =>
    have hat := h a List.mem_cons_self
    have hrest : ∀ x ∈ as, LN x := fun x hx => h x (List.mem_cons_of_mem _ hx)
    unfold sweep at hn ⊢
    split
    · rename_i hc
      simp only [hc, if_true] at hn
      split
      · rename_i r hr; simp [hr] at hn
      · rename_i hr
        simp only [hr] at hn
        intro e he
        rcases List.mem_cons.1 he with rfl | he
        · exact ⟨⟨(tryOne_lz a hat.1).1, (tryOne_none a hat.1 hr).1⟩, (tryOne_none a hat.1 hr).2⟩
        · exact ih hrest hn e he
    · rename_i hc
      simp only [hc] at hn
      intro e he
      rcases List.mem_cons.1 he with rfl | he
      · refine ⟨hat, ?_⟩
        intro hm
        simp only [Bool.and_eq_true, not_and, Bool.not_eq_true] at hc
        exact hc hm
      · exact ih hrest hn e he

theorem phase_none_keeps (eps : List EP) (ks : List Nat) (h : ∀ e ∈ eps, LN e) (hn : (phase eps ks).2 = none) :
    ∀ e ∈ (phase eps ks).1, LN e ∧ (e.member = true → e.ready = false) := by
  unfold phase at hn ⊢
  split
  · rename_i r hr; simp [hr] at hn
  · rename_i hr
    simp only [hr] at hn
    exact sweep_none_keeps _ (tryKeys_none_keeps ks eps h hr) hn

/-- every pending endpoint polled once: each is ready or has an attempt in flight -/
theorem pass_ln (eps : List EP) (h : ∀ e ∈ eps, Lz e) (hr : ∀ e ∈ eps, e.member = true → e.ready = true → Near e) :
    ∀ e ∈ pass eps, LN e := by
  intro e he
  simp only [pass, List.mem_map] at he
  obtain ⟨a, ha, rfl⟩ := he
  split
  · exact ⟨(advance_lz a (h a ha)).1, advance_near a (h a ha)⟩
  · rename_i hc
    refine ⟨h a ha, ?_⟩
    intro hm
    simp only [Bool.and_eq_true, Bool.not_eq_true', not_and, Bool.not_eq_false] at hc
    exact Or.inl (hc hm)

/-- ready and servable: picked now, it would be served -/
def RS (e : EP) : Prop := e.member = true → e.ready = true ∧ (tryOne e).2 ≠ none

/-- the second poll of endpoints that all have an attempt in flight: all of them are servable -/
theorem pass_rs (eps : List EP) (h : ∀ e ∈ eps, LN e ∧ (e.member = true → e.ready = false)) :
    ∀ e ∈ pass eps, Lz e ∧ RS e := by
  intro e he
  simp only [pass, List.mem_map] at he
  obtain ⟨a, ha, rfl⟩ := he
  obtain ⟨⟨hl, hnr⟩, hnot⟩ := h a ha
  split
  · rename_i hc
    simp only [Bool.and_eq_true, Bool.not_eq_true'] at hc
    refine ⟨(advance_lz a hl).1, ?_⟩
    intro _
    rcases hnr hc.1 with hr | ⟨hcg, herr⟩
    · rw [hc.2] at hr; cases hr
    · obtain ⟨h1, h2, h3⟩ := advance_connecting_ready a hl hc.1 hcg herr
      refine ⟨h1, ?_⟩
      unfold tryOne
      simp [h2, h3]
  · rename_i hc
    refine ⟨hl, ?_⟩
    intro hm
    have := hnot hm
    simp [hm, this] at hc

theorem tryKey_none_unchanged (k : Nat) (eps : List EP) (h : ∀ e ∈ eps, RS e) (hn : (tryKey k eps).2 = none) :
    (tryKey k eps).1 = eps := by
  induction eps with
  | nil => simp [tryKey]
  | cons a as ih =>
    unfold tryKey at hn ⊢
    split
    · rename_i hc
      simp only [hc, if_true] at hn
      simp only [Bool.and_eq_true, decide_eq_true_eq] at hc
      exact absurd hn (h a List.mem_cons_self hc.1.2).2
    · rename_i hc
      simp only [hc] at hn
      rw [ih (fun x hx => h x (List.mem_cons_of_mem _ hx)) hn]

theorem tryKeys_none_unchanged (ks : List Nat) : ∀ (eps : List EP), (∀ e ∈ eps, RS e) → (tryKeys eps ks).2 = none →
    (tryKeys eps ks).1 = eps := by
  induction ks with
  | nil => intro eps _ _; simp [tryKeys]
  | cons k ks ih =>
    intro eps h hn
    unfold tryKeys at hn ⊢
    split
    · rename_i r hr; simp [hr] at hn
    · rename_i hr
      simp only [hr] at hn
      have hu := tryKey_none_unchanged k eps h hr
      rw [hu] at hn ⊢
      exact ih eps h hn

theorem sweep_some (eps : List EP) (h : ∀ e ∈ eps, RS e) (hm : ∃ e ∈ eps, e.member = true) :
    (sweep eps).2 ≠ none := by
  induction eps with
  | nil => obtain ⟨e, he, _⟩ := hm; cases he
  | cons a as ih =>
    unfold sweep
    split
    · rename_i hc
      simp only [Bool.and_eq_true] at hc
      split
      · simp
      · rename_i hr; exact absurd hr (h a List.mem_cons_self hc.1).2
    · rename_i hc
      obtain ⟨e, he, hme⟩ := hm
      rcases List.mem_cons.1 he with rfl | he
      · have := (h e List.mem_cons_self hme).1
        simp [hme, this] at hc
      · exact ih (fun x hx => h x (List.mem_cons_of_mem _ hx)) ⟨e, he, hme⟩

theorem phase_some (eps : List EP) (ks : List Nat) (h : ∀ e ∈ eps, RS e) (hm : ∃ e ∈ eps, e.member = true) :
    (phase eps ks).2 ≠ none := by
  unfold phase
  split
  · simp
  · rename_i hr
    rw [tryKeys_none_unchanged ks eps h hr]
    exact sweep_some eps h hm

end Balance
