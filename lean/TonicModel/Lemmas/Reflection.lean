import TonicModel.Model.Reflection
import TonicModel.Spec.Reflection
/-
Lemmas for C19.
  A. the decision procedures of `Spec/Reflection` decide the inductive relations;
  B. what `process_*` insert is exactly what the file declares (mutual structural induction);
  C. `process_*` succeed exactly on well-named descriptors;
  D. the invariant of the registration loop (`addFiles`).
-/
namespace Reflection
open Refl Spec.Reflection

/-! ### A. decision procedures -/

theorem isName_iff {n : Name} {o : Option Name} : isName n o = true ↔ o = some n := by
  cases o <;> simp [isName, eq_comm]

theorem any_isName_iff {n : Name} {g : Name → Name} {l : List (Option Name)} :
    l.any (fun v => isName n (v.map g)) = true ↔ ∃ v, some v ∈ l ∧ n = g v := by
  simp only [List.any_eq_true, isName_iff]
  constructor
  · rintro ⟨x, hx, h⟩
    cases x with
    | none => simp at h
    | some v => simp at h; exact ⟨v, hx, h.symm⟩
  · rintro ⟨v, hv, rfl⟩
    exact ⟨some v, hv, rfl⟩

theorem declE_iff {scope : Name} {e : EnumD} {n : Name} :
    declE scope e n = true ↔ DeclE scope e n := by
  unfold declE
  constructor
  · intro h
    cases hn : e.name with
    | none => simp [hn] at h
    | some en =>
      simp only [hn, Bool.or_eq_true, decide_eq_true_eq] at h
      rcases h with rfl | h
      · exact .self hn
      · obtain ⟨v, hv, rfl⟩ := any_isName_iff.mp h
        exact .value hn hv
  · intro h
    cases h with
    | self hn => simp [hn]
    | value hn hv =>
      simp only [hn, Bool.or_eq_true, decide_eq_true_eq]
      exact Or.inr (any_isName_iff.mpr ⟨_, hv, rfl⟩)

mutual
theorem declM_sound : ∀ (scope : Name) (m : Msg) (n : Name), declM scope m n = true → DeclM scope m n
  | scope, .mk none _ _ _ _, n, h => by simp [declM] at h
  | scope, .mk (some mn) nested enums fields oneofs, n, h => by
    simp only [declM, Bool.or_eq_true, decide_eq_true_eq, List.any_eq_true] at h
    rcases h with (((rfl | h) | ⟨e, he, h⟩) | h) | h
    · exact .self
    · exact .nested (declL_sound _ nested n h)
    · exact .enum he (declE_iff.mp h)
    · obtain ⟨f, hf, rfl⟩ := any_isName_iff.mp (List.any_eq_true.mpr h)
      exact .field hf
    · obtain ⟨o, ho, rfl⟩ := any_isName_iff.mp (List.any_eq_true.mpr h)
      exact .oneof ho
theorem declL_sound : ∀ (scope : Name) (ms : MsgList) (n : Name), declL scope ms n = true → DeclL scope ms n
  | _, .nil, _, h => by simp [declL] at h
  | scope, .cons m ms, n, h => by
    simp only [declL, Bool.or_eq_true] at h
    rcases h with h | h
    · exact .head (declM_sound scope m n h)
    · exact .tail (declL_sound scope ms n h)
end

mutual
theorem declM_complete : ∀ {scope : Name} {m : Msg} {n : Name}, DeclM scope m n → declM scope m n = true
  | _, _, _, .self => by simp [declM]
  | _, _, _, .nested h => by simp [declM, declL_complete h]
  | _, _, _, .enum he h => by
    simp only [declM, Bool.or_eq_true, decide_eq_true_eq, List.any_eq_true]
    exact Or.inl (Or.inl (Or.inr ⟨_, he, declE_iff.mpr h⟩))
  | _, _, _, .field hf => by
    simp only [declM, Bool.or_eq_true]
    exact Or.inl (Or.inr (any_isName_iff.mpr ⟨_, hf, rfl⟩))
  | _, _, _, .oneof ho => by
    simp only [declM, Bool.or_eq_true]
    exact Or.inr (any_isName_iff.mpr ⟨_, ho, rfl⟩)
theorem declL_complete : ∀ {scope : Name} {ms : MsgList} {n : Name}, DeclL scope ms n → declL scope ms n = true
  | _, _, _, .head h => by simp [declL, declM_complete h]
  | _, _, _, .tail h => by simp [declL, declL_complete h]
end

theorem declM_iff {scope : Name} {m : Msg} {n : Name} : declM scope m n = true ↔ DeclM scope m n :=
  ⟨declM_sound scope m n, declM_complete⟩

theorem declL_iff {scope : Name} {ms : MsgList} {n : Name} : declL scope ms n = true ↔ DeclL scope ms n :=
  ⟨declL_sound scope ms n, declL_complete⟩

theorem declSvc_iff {scope : Name} {s : Service} {n : Name} :
    declSvc scope s n = true ↔
      ∃ sn, s.name = some sn ∧ (n = qual scope sn ∨ ∃ m, some m ∈ s.methods ∧ n = qual (qual scope sn) m) := by
  unfold declSvc
  cases hn : s.name with
  | none => simp
  | some sn =>
    simp only [Bool.or_eq_true, decide_eq_true_eq, any_isName_iff, Option.some.injEq, exists_eq_left']

/-- The decision procedure the driver evaluates decides the spec relation. -/
theorem declares_iff {f : File} {n : Name} : declares f n = true ↔ Declares f n := by
  unfold declares
  simp only [Bool.or_eq_true, List.any_eq_true, declL_iff, declE_iff, declSvc_iff]
  constructor
  · rintro ((h | ⟨e, he, h⟩) | ⟨s, hs, sn, hsn, (rfl | ⟨m, hm, rfl⟩)⟩)
    · exact .message h
    · exact .enum he h
    · exact .service hs hsn
    · exact .method hs hsn hm
  · intro h
    cases h with
    | message h => exact Or.inl (Or.inl h)
    | enum he h => exact Or.inl (Or.inr ⟨_, he, h⟩)
    | service hs hsn => exact Or.inr ⟨_, hs, _, hsn, Or.inl rfl⟩
    | method hs hsn hm => exact Or.inr ⟨_, hs, _, hsn, Or.inr ⟨_, hm, rfl⟩⟩

theorem declaresService_iff {f : File} {n : Name} : declaresService f n = true ↔ DeclaresService f n := by
  unfold declaresService
  simp only [List.any_eq_true, isName_iff]
  constructor
  · rintro ⟨s, hs, h⟩
    cases hn : s.name with
    | none => simp [hn] at h
    | some sn =>
      simp [hn] at h
      subst h
      exact .mk hs hn
  · intro h
    cases h with
    | mk hs hsn => exact ⟨_, hs, by simp [hsn]⟩

theorem mem_serviceNames_iff {f : File} {n : Name} : n ∈ serviceNames f ↔ DeclaresService f n := by
  unfold serviceNames
  simp only [List.mem_filterMap]
  constructor
  · rintro ⟨s, hs, h⟩
    cases hn : s.name with
    | none => simp [hn] at h
    | some sn =>
      simp [hn] at h
      subst h
      exact .mk hs hn
  · intro h
    cases h with
    | mk hs hsn => exact ⟨_, hs, by simp [hsn]⟩

/-! ### B. what `process_*` insert is what is declared -/

theorem extractName_some (pre : Name) (k : Kind) (n : Name) :
    extractName pre k (some n) = .ok (qual pre n) := by
  simp [extractName, qual, List.isEmpty_iff]

theorem processNames_mem {pre : Name} {k : Kind} {n : Name} :
    ∀ {l : List (Option Name)} {ns : List Name}, processNames pre k l = .ok ns →
      (n ∈ ns ↔ l.any (fun x => isName n (x.map (qual pre))) = true)
  | [], ns, h => by simp [processNames] at h; subst h; simp
  | none :: xs, ns, h => by simp [processNames, extractName] at h
  | some x :: xs, ns, h => by
    simp only [processNames, extractName_some] at h
    cases hr : processNames pre k xs with
    | error e => simp [hr] at h
    | ok r =>
      simp [hr] at h
      subst h
      simp [processNames_mem hr, isName, Bool.or_eq_true]

theorem processEnum_mem {pre : Name} {e : EnumD} {n : Name} {ns : List Name}
    (h : processEnum pre e = .ok ns) : n ∈ ns ↔ declE pre e n = true := by
  unfold processEnum at h
  unfold declE
  cases hn : e.name with
  | none => simp [hn, extractName] at h
  | some en =>
    simp only [hn, extractName_some] at h
    cases hr : processNames (qual pre en) .enumValue e.values with
    | error err => simp [hr] at h
    | ok vs =>
      simp [hr] at h
      subst h
      simp [processNames_mem hr, Bool.or_eq_true]

theorem processEnums_mem {pre : Name} {n : Name} :
    ∀ {es : List EnumD} {ns : List Name}, processEnums pre es = .ok ns →
      (n ∈ ns ↔ es.any (fun e => declE pre e n) = true)
  | [], ns, h => by simp [processEnums] at h; subst h; simp
  | e :: es, ns, h => by
    simp only [processEnums] at h
    cases ha : processEnum pre e with
    | error err => simp [ha] at h
    | ok a =>
      cases hb : processEnums pre es with
      | error err => simp [ha, hb] at h
      | ok b =>
        simp [ha, hb] at h
        subst h
        simp [processEnum_mem ha, processEnums_mem hb, Bool.or_eq_true]

mutual
theorem processMsg_mem : ∀ (pre : Name) (m : Msg) (n : Name) (ns : List Name),
    processMsg pre m = .ok ns → (n ∈ ns ↔ declM pre m n = true)
  | pre, .mk none nested enums fields oneofs, n, ns, h => by simp [processMsg, extractName] at h
  | pre, .mk (some mn) nested enums fields oneofs, n, ns, h => by
    simp only [processMsg, extractName_some] at h
    cases ha : processMsgs (qual pre mn) nested with
    | error e => simp [ha] at h
    | ok a =>
      cases hb : processEnums (qual pre mn) enums with
      | error e => simp [ha, hb] at h
      | ok b =>
        cases hc : processNames (qual pre mn) .field fields with
        | error e => simp [ha, hb, hc] at h
        | ok c =>
          cases hd : processNames (qual pre mn) .oneof oneofs with
          | error e => simp [ha, hb, hc, hd] at h
          | ok d =>
            simp [ha, hb, hc, hd] at h
            subst h
            simp only [declM, List.mem_cons, List.mem_append, Bool.or_eq_true, decide_eq_true_eq,
              processMsgs_mem _ nested n a ha, processEnums_mem hb, processNames_mem hc,
              processNames_mem hd, or_assoc]
theorem processMsgs_mem : ∀ (pre : Name) (ms : MsgList) (n : Name) (ns : List Name),
    processMsgs pre ms = .ok ns → (n ∈ ns ↔ declL pre ms n = true)
  | pre, .nil, n, ns, h => by simp [processMsgs] at h; subst h; simp [declL]
  | pre, .cons m ms, n, ns, h => by
    simp only [processMsgs] at h
    cases ha : processMsg pre m with
    | error e => simp [ha] at h
    | ok a =>
      cases hb : processMsgs pre ms with
      | error e => simp [ha, hb] at h
      | ok b =>
        simp [ha, hb] at h
        subst h
        simp only [declL, List.mem_append, Bool.or_eq_true, processMsg_mem pre m n a ha,
          processMsgs_mem pre ms n b hb]
end

theorem processServices_mem {pre : Name} {n : Name} :
    ∀ {ss : List Service} {syms svcs : List Name}, processServices pre ss = .ok (syms, svcs) →
      (n ∈ syms ↔ ss.any (fun s => declSvc pre s n) = true) ∧
      svcs = ss.filterMap (fun s => s.name.map (qual pre))
  | [], syms, svcs, h => by
    simp [processServices] at h
    obtain ⟨rfl, rfl⟩ := h
    simp
  | s :: ss, syms, svcs, h => by
    simp only [processServices] at h
    cases hn : s.name with
    | none => simp [hn, extractName] at h
    | some sn =>
      simp only [hn, extractName_some] at h
      cases hm : processNames (qual pre sn) .method s.methods with
      | error e => simp [hm] at h
      | ok ms =>
        cases hr : processServices pre ss with
        | error e => simp [hm, hr] at h
        | ok r =>
          obtain ⟨syms', svcs'⟩ := r
          simp [hm, hr] at h
          obtain ⟨rfl, rfl⟩ := h
          obtain ⟨h1, h2⟩ := processServices_mem (n := n) hr
          constructor
          · simp only [List.any_cons, Bool.or_eq_true, ← h1, List.mem_cons, List.mem_append]
            simp [declSvc, hn, processNames_mem hm, Bool.or_eq_true, or_assoc]
          · simp [hn, h2]

/-- `process_file` inserts exactly the names the file declares, and reports exactly its services. -/
theorem processFile_spec {f : File} {syms svcs : List Name} (h : processFile f = .ok (syms, svcs)) :
    (∀ n, n ∈ syms ↔ Declares f n) ∧ svcs = serviceNames f := by
  unfold processFile at h
  simp only at h
  cases ha : processMsgs (f.package.getD []) f.messages with
  | error e => simp [ha] at h
  | ok a =>
    cases hb : processEnums (f.package.getD []) f.enums with
    | error e => simp [ha, hb] at h
    | ok b =>
      cases hc : processServices (f.package.getD []) f.services with
      | error e => simp [ha, hb, hc] at h
      | ok c =>
        obtain ⟨c, sv⟩ := c
        simp [ha, hb, hc] at h
        obtain ⟨rfl, rfl⟩ := h
        obtain ⟨h1, h2⟩ := processServices_mem (n := []) hc
        refine ⟨fun n => ?_, ?_⟩
        · rw [← declares_iff]
          have h1 := (processServices_mem (n := n) hc).1
          simp only [declares, pkg, List.mem_append, Bool.or_eq_true,
            processMsgs_mem _ _ n a ha, processEnums_mem hb, h1, or_assoc]
        · simpa [serviceNames, pkg] using h2

/-! ### C. `process_*` succeed exactly on well-named descriptors -/

def isOk {ε α : Type} : Except ε α → Bool
  | .ok _ => true
  | .error _ => false

theorem isOk_iff {ε α : Type} {x : Except ε α} : isOk x = true ↔ ∃ a, x = .ok a := by
  cases x <;> simp [isOk]

theorem processNames_isOk (pre : Name) (k : Kind) :
    ∀ l : List (Option Name), isOk (processNames pre k l) = namesPresent l
  | [] => by simp [processNames, isOk, namesPresent]
  | none :: xs => by simp [processNames, extractName, isOk, namesPresent]
  | some x :: xs => by
    have ih := processNames_isOk pre k xs
    simp only [processNames, extractName_some]
    cases hr : processNames pre k xs with
    | error e => simp [hr, isOk, namesPresent] at ih ⊢; exact ih
    | ok r => simp [hr, isOk, namesPresent] at ih ⊢; exact ih

theorem processEnum_isOk (pre : Name) (e : EnumD) : isOk (processEnum pre e) = EnumD.wellNamed e := by
  unfold processEnum EnumD.wellNamed
  cases hn : e.name with
  | none => simp [extractName, isOk]
  | some en =>
    have := processNames_isOk (qual pre en) .enumValue e.values
    simp only [extractName_some]
    cases hr : processNames (qual pre en) .enumValue e.values with
    | error err => simp [hr, isOk] at this ⊢; exact this
    | ok vs => simp [hr, isOk] at this ⊢; exact this

theorem processEnums_isOk (pre : Name) :
    ∀ es : List EnumD, isOk (processEnums pre es) = es.all EnumD.wellNamed
  | [] => by simp [processEnums, isOk]
  | e :: es => by
    have h1 := processEnum_isOk pre e
    have h2 := processEnums_isOk pre es
    simp only [processEnums, List.all_cons, ← h1, ← h2]
    cases processEnum pre e <;> cases processEnums pre es <;> simp [isOk]

mutual
theorem processMsg_isOk : ∀ (pre : Name) (m : Msg), isOk (processMsg pre m) = Msg.wellNamed m
  | pre, .mk none nested enums fields oneofs => by simp [processMsg, extractName, isOk, Msg.wellNamed]
  | pre, .mk (some mn) nested enums fields oneofs => by
    have ha := processMsgs_isOk (qual pre mn) nested
    have hb := processEnums_isOk (qual pre mn) enums
    have hc := processNames_isOk (qual pre mn) .field fields
    have hd := processNames_isOk (qual pre mn) .oneof oneofs
    simp only [processMsg, extractName_some, Msg.wellNamed, Option.isSome_some, Bool.true_and,
      ← ha, ← hb, ← hc, ← hd]
    cases processMsgs (qual pre mn) nested <;> cases processEnums (qual pre mn) enums <;>
      cases processNames (qual pre mn) .field fields <;>
      cases processNames (qual pre mn) .oneof oneofs <;> simp [isOk]
theorem processMsgs_isOk : ∀ (pre : Name) (ms : MsgList), isOk (processMsgs pre ms) = MsgList.wellNamed ms
  | pre, .nil => by simp [processMsgs, isOk, MsgList.wellNamed]
  | pre, .cons m ms => by
    have ha := processMsg_isOk pre m
    have hb := processMsgs_isOk pre ms
    simp only [processMsgs, MsgList.wellNamed, ← ha, ← hb]
    cases processMsg pre m <;> cases processMsgs pre ms <;> simp [isOk]
end

theorem processServices_isOk (pre : Name) :
    ∀ ss : List Service, isOk (processServices pre ss) = ss.all Service.wellNamed
  | [] => by simp [processServices, isOk]
  | s :: ss => by
    have h2 := processServices_isOk pre ss
    simp only [processServices, List.all_cons, Service.wellNamed, ← h2]
    cases hn : s.name with
    | none => simp [extractName, isOk]
    | some sn =>
      have h1 := processNames_isOk (qual pre sn) .method s.methods
      simp only [extractName_some, Option.isSome_some, Bool.true_and, ← h1]
      cases processNames (qual pre sn) .method s.methods <;> cases processServices pre ss <;>
        simp [isOk]

theorem processFile_isOk (f : File) : isOk (processFile f) = File.wellNamedBody f := by
  have ha := processMsgs_isOk (f.package.getD []) f.messages
  have hb := processEnums_isOk (f.package.getD []) f.enums
  have hc := processServices_isOk (f.package.getD []) f.services
  simp only [processFile, File.wellNamedBody, ← ha, ← hb, ← hc]
  cases processMsgs (f.package.getD []) f.messages <;> cases processEnums (f.package.getD []) f.enums <;>
    cases processServices (f.package.getD []) f.services <;> simp [isOk]

/-! ### D. the registration loop -/

theorem assoc_append (k : Name) (a m : List (Name × File)) :
    assoc k (a ++ m) = (assoc k a).or (assoc k m) := by
  induction a with
  | nil => simp [assoc]
  | cons p a ih =>
    obtain ⟨k', v⟩ := p
    by_cases h : k = k' <;> simp [assoc, h, ih]

theorem assoc_const (k : Name) (f : File) (ns : List Name) :
    assoc k (ns.map (fun n => (n, f))) = if k ∈ ns then some f else none := by
  induction ns with
  | nil => simp [assoc]
  | cons n ns ih =>
    by_cases h : k = n
    · simp [assoc, h]
    · simp [assoc, h, ih]

theorem assoc_insertAll (k : Name) (f : File) (ns : List Name) (m : List (Name × File)) :
    assoc k (insertAll f ns m) = if k ∈ ns then some f else assoc k m := by
  unfold insertAll
  rw [assoc_append, ← List.map_reverse, assoc_const]
  by_cases h : k ∈ ns <;> simp [h]

/-- The invariant of `ReflectionServiceState::new`'s loop after the files `done` were examined. -/
structure Good (done : List File) (st : State) : Prop where
  /-- the file map holds, for every name, the first examined file of that name -/
  files_eq : ∀ nm, assoc nm st.files = done.find? (fun g => decide (g.name = some nm))
  /-- every symbol maps to a served file that declares it -/
  sym_sound : ∀ n f, assoc n st.symbols = some f →
    Declares f n ∧ ∃ nm, f.name = some nm ∧ assoc nm st.files = some f
  /-- every name declared by a served file is a key of the symbol map -/
  sym_complete : ∀ nm f, assoc nm st.files = some f → ∀ n, Declares f n →
    ∃ g, assoc n st.symbols = some g

theorem good_init (sn : List Name) : Good [] { serviceNames := sn, files := [], symbols := [] } :=
  ⟨by simp [assoc], by simp [assoc], by simp [assoc]⟩

theorem good_skip {done : List File} {st : State} {f : File} {nm : Name} (hg : Good done st)
    (hn : f.name = some nm) (hc : (assoc nm st.files).isSome = true) : Good (done ++ [f]) st := by
  refine ⟨fun nm' => ?_, hg.sym_sound, hg.sym_complete⟩
  rw [List.find?_append, ← hg.files_eq]
  by_cases h : nm' = nm
  · subst h
    obtain ⟨g, hg'⟩ := Option.isSome_iff_exists.mp hc
    simp [hg']
  · have : ¬ nm = nm' := fun e => h e.symm
    simp [hn, this]

theorem good_add {done : List File} {st : State} {f : File} {nm : Name} {syms svcs sn : List Name}
    (hg : Good done st) (hn : f.name = some nm) (hc : assoc nm st.files = none)
    (hp : processFile f = .ok (syms, svcs)) :
    Good (done ++ [f])
      { serviceNames := sn, files := (nm, f) :: st.files, symbols := insertAll f syms st.symbols } := by
  have hdecl := (processFile_spec hp).1
  have hfiles : ∀ nm', assoc nm' ((nm, f) :: st.files) = if nm' = nm then some f else assoc nm' st.files := by
    intro nm'; simp [assoc]
  refine ⟨fun nm' => ?_, fun n g h => ?_, fun nm' g h n hd => ?_⟩
  · simp only [hfiles]
    rw [List.find?_append, ← hg.files_eq]
    by_cases h : nm' = nm
    · subst h; simp [hc, hn]
    · have : ¬ nm = nm' := fun e => h e.symm
      simp [h, hn, this]
  · simp only [assoc_insertAll] at h
    simp only [hfiles]
    by_cases hm : n ∈ syms
    · simp [hm] at h
      subst h
      exact ⟨(hdecl n).mp hm, nm, hn, by simp⟩
    · simp [hm] at h
      obtain ⟨hd, nm', hn', ha⟩ := hg.sym_sound n g h
      refine ⟨hd, nm', hn', ?_⟩
      by_cases h' : nm' = nm
      · subst h'; simp [hc] at ha
      · simp [h', ha]
  · simp only [assoc_insertAll]
    simp only [hfiles] at h
    by_cases hm : n ∈ syms
    · exact ⟨f, by simp [hm]⟩
    · by_cases h' : nm' = nm
      · simp [h'] at h
        subst h
        exact absurd ((hdecl n).mpr hd) hm
      · simp [h'] at h
        obtain ⟨g', hg'⟩ := hg.sym_complete nm' g h n hd
        exact ⟨g', by simp [hm, hg']⟩

theorem addFiles_good {useAll : Bool} : ∀ {fs done : List File} {st st' : State},
    Good done st → addFiles useAll fs st = .ok st' → Good (done ++ fs) st'
  | [], done, st, st', hg, h => by
    simp [addFiles] at h; subst h; simpa using hg
  | f :: fs, done, st, st', hg, h => by
    simp only [addFiles] at h
    cases hn : f.name with
    | none => simp [hn] at h
    | some nm =>
      simp only [hn] at h
      by_cases hc : (assoc nm st.files).isSome = true
      · simp only [hc, if_true] at h
        have := addFiles_good (good_skip hg hn hc) h
        simpa [List.append_assoc] using this
      · simp only [hc] at h
        cases hp : processFile f with
        | error e => simp [hp] at h
        | ok r =>
          obtain ⟨syms, svcs⟩ := r
          simp only [hp] at h
          have hc' : assoc nm st.files = none := by simpa using hc
          have := addFiles_good (good_add hg hn hc' hp) h
          simpa [List.append_assoc] using this

theorem addFiles_named {useAll : Bool} : ∀ {fs : List File} {st st' : State},
    addFiles useAll fs st = .ok st' → ∀ f ∈ fs, ∃ nm, f.name = some nm
  | [], _, _, _, f, hf => by simp at hf
  | g :: fs, st, st', h, f, hf => by
    simp only [addFiles] at h
    cases hn : g.name with
    | none => simp [hn] at h
    | some nm =>
      simp only [hn] at h
      rcases List.mem_cons.mp hf with rfl | hf
      · exact ⟨nm, hn⟩
      · by_cases hc : (assoc nm st.files).isSome = true
        · simp only [hc, if_true] at h
          exact addFiles_named h f hf
        · simp only [hc] at h
          cases hp : processFile g with
          | error e => simp [hp] at h
          | ok r =>
            simp only [hp] at h
            exact addFiles_named h f hf

/-- Service names grow by the services of the files that were actually processed. -/
theorem addFiles_services {useAll : Bool} : ∀ {fs done : List File} {st st' : State},
    Good done st → addFiles useAll fs st = .ok st' →
    st'.serviceNames = st.serviceNames ++
      (if useAll then (servedFrom done fs).flatMap serviceNames else [])
  | [], done, st, st', hg, h => by
    simp [addFiles] at h; subst h; simp [servedFrom]
  | f :: fs, done, st, st', hg, h => by
    simp only [addFiles] at h
    cases hn : f.name with
    | none => simp [hn] at h
    | some nm =>
      simp only [hn] at h
      have hany : (done.any fun g => decide (g.name = f.name)) = (assoc nm st.files).isSome := by
        rw [hg.files_eq, hn]
        cases hf : done.find? (fun g => decide (g.name = some nm)) with
        | none =>
          simp only [Option.isSome_none]
          rw [List.find?_eq_none] at hf
          simpa [List.any_eq_false] using hf
        | some g =>
          simp only [Option.isSome_some, List.any_eq_true]
          exact ⟨g, List.mem_of_find?_eq_some hf, by simpa using List.find?_some hf⟩
      by_cases hc : (assoc nm st.files).isSome = true
      · simp only [hc, if_true] at h
        have := addFiles_services (good_skip hg hn hc) h
        simp only [servedFrom, hany, hc, if_true]
        exact this
      · simp only [hc] at h
        cases hp : processFile f with
        | error e => simp [hp] at h
        | ok r =>
          obtain ⟨syms, svcs⟩ := r
          simp only [hp] at h
          have hc' : assoc nm st.files = none := by simpa using hc
          have := addFiles_services (good_add hg hn hc' hp) h
          have hsv := (processFile_spec hp).2
          simp only [servedFrom, hany, hc]
          rw [this]
          cases useAll <;> simp [hsv]

theorem mem_servedFrom {g : File} : ∀ {fs done : List File},
    g ∈ servedFrom done fs ↔
      (∀ d ∈ done, d.name ≠ g.name) ∧ fs.find? (fun x => decide (x.name = g.name)) = some g
  | [], done => by simp [servedFrom]
  | f :: fs, done => by
    simp only [servedFrom]
    by_cases hany : (done.any fun d => decide (d.name = f.name)) = true
    · rw [if_pos hany, mem_servedFrom]
      simp only [List.any_eq_true, decide_eq_true_eq] at hany
      obtain ⟨d0, hd0, hdn⟩ := hany
      by_cases hfg : f.name = g.name
      · simp only [List.find?_cons, hfg, decide_true]
        constructor
        · rintro ⟨h, -⟩
          exact absurd hfg (h f (by simp))
        · rintro ⟨h, -⟩
          exact absurd (hdn.trans hfg) (h d0 hd0)
      · simp only [List.find?_cons, hfg, decide_false, List.mem_append, List.mem_singleton]
        constructor
        · rintro ⟨h, h2⟩
          exact ⟨fun d hd => h d (Or.inl hd), h2⟩
        · rintro ⟨h, h2⟩
          exact ⟨fun d hd => hd.elim (h d) (fun e => e ▸ hfg), h2⟩
    · rw [if_neg hany, List.mem_cons, mem_servedFrom]
      simp only [Bool.not_eq_true, List.any_eq_false, decide_eq_true_eq] at hany
      by_cases hfg : f.name = g.name
      · simp only [List.find?_cons, hfg, decide_true]
        constructor
        · rintro (rfl | ⟨h, -⟩)
          · exact ⟨fun d hd => hany d hd, rfl⟩
          · exact absurd hfg (h f (by simp))
        · rintro ⟨-, h⟩
          exact Or.inl (Option.some.inj h).symm
      · have hne : g ≠ f := fun h => hfg (by rw [h])
        simp only [List.find?_cons, hfg, decide_false, hne, false_or, List.mem_append,
          List.mem_singleton]
        constructor
        · rintro ⟨h, h2⟩
          exact ⟨fun d hd => h d (Or.inl hd), h2⟩
        · rintro ⟨h, h2⟩
          exact ⟨fun d hd => hd.elim (h d) (fun e => e ▸ hfg), h2⟩

theorem addFiles_append {useAll : Bool} : ∀ (fs gs : List File) (st : State),
    addFiles useAll (fs ++ gs) st =
      (match addFiles useAll fs st with
       | .error e => .error e
       | .ok st1 => addFiles useAll gs st1)
  | [], gs, st => by simp [addFiles]
  | f :: fs, gs, st => by
    simp only [List.cons_append, addFiles]
    cases f.name with
    | none => simp
    | some nm =>
      simp only
      split
      · exact addFiles_append fs gs st
      · cases processFile f with
        | error e => simp
        | ok r => exact addFiles_append fs gs _

/-- Examining more files does not change the answer for a name none of them declares … -/
theorem addFiles_symbols_outside {useAll : Bool} {n : Name} : ∀ {gs : List File} {st st' : State},
    addFiles useAll gs st = .ok st' → (∀ g ∈ gs, ¬ Declares g n) →
    assoc n st'.symbols = assoc n st.symbols
  | [], st, st', h, _ => by simp [addFiles] at h; subst h; rfl
  | g :: gs, st, st', h, hno => by
    simp only [addFiles] at h
    cases hn : g.name with
    | none => simp [hn] at h
    | some nm =>
      simp only [hn] at h
      have hno' : ∀ g' ∈ gs, ¬ Declares g' n := fun g' hg' => hno g' (List.mem_cons_of_mem _ hg')
      by_cases hc : (assoc nm st.files).isSome = true
      · simp only [hc, if_true] at h
        exact addFiles_symbols_outside h hno'
      · simp only [hc] at h
        cases hp : processFile g with
        | error e => simp [hp] at h
        | ok r =>
          obtain ⟨syms, svcs⟩ := r
          simp only [hp] at h
          rw [addFiles_symbols_outside h hno']
          have : n ∉ syms := fun hm => hno g (by simp) (((processFile_spec hp).1 n).mp hm)
          simp [assoc_insertAll, this]

/-- … nor for a file name none of them has. -/
theorem addFiles_files_outside {useAll : Bool} {nm : Name} : ∀ {gs : List File} {st st' : State},
    addFiles useAll gs st = .ok st' → (∀ g ∈ gs, g.name ≠ some nm) →
    assoc nm st'.files = assoc nm st.files
  | [], st, st', h, _ => by simp [addFiles] at h; subst h; rfl
  | g :: gs, st, st', h, hno => by
    simp only [addFiles] at h
    cases hn : g.name with
    | none => simp [hn] at h
    | some nm' =>
      simp only [hn] at h
      have hno' : ∀ g' ∈ gs, g'.name ≠ some nm := fun g' hg' => hno g' (List.mem_cons_of_mem _ hg')
      have hne : nm ≠ nm' := fun e => hno g (by simp) (by rw [hn, e])
      by_cases hc : (assoc nm' st.files).isSome = true
      · simp only [hc, if_true] at h
        exact addFiles_files_outside h hno'
      · simp only [hc] at h
        cases hp : processFile g with
        | error e => simp [hp] at h
        | ok r =>
          obtain ⟨syms, svcs⟩ := r
          simp only [hp] at h
          rw [addFiles_files_outside h hno']
          simp [assoc, hne]

/-- The loop fails only on a missing name. -/
theorem addFiles_ok {useAll : Bool} : ∀ (fs : List File) (st : State),
    (∀ f ∈ fs, File.wellNamed f = true) → ∃ st', addFiles useAll fs st = .ok st'
  | [], st, _ => ⟨st, rfl⟩
  | f :: fs, st, hw => by
    have hf := hw f (by simp)
    have hw' : ∀ g ∈ fs, File.wellNamed g = true := fun g hg => hw g (List.mem_cons_of_mem _ hg)
    simp only [File.wellNamed, Bool.and_eq_true] at hf
    obtain ⟨nm, hn⟩ := Option.isSome_iff_exists.mp hf.1
    have hb : isOk (processFile f) = true := by rw [processFile_isOk]; exact hf.2
    obtain ⟨r, hr⟩ := isOk_iff.mp hb
    simp only [addFiles, hn, hr]
    split
    · exact addFiles_ok fs st hw'
    · exact addFiles_ok fs _ hw'

mutual
theorem processMsg_not_decode
    (hnames : ∀ (pre : Name) (k : Kind) (l : List (Option Name)), processNames pre k l ≠ .error .decode)
    (henums : ∀ (pre : Name) (es : List EnumD), processEnums pre es ≠ .error .decode) :
    ∀ (m : Msg) (pre : Name), processMsg pre m ≠ .error .decode
  | .mk none nested enums fields oneofs, pre => by simp [processMsg, extractName]
  | .mk (some mn) nested enums fields oneofs, pre => by
    simp only [processMsg, extractName_some]
    cases ha : processMsgs (qual pre mn) nested with
    | error e =>
      intro h'; simp at h'
      exact processMsgs_not_decode hnames henums nested _ (by rw [ha, h'])
    | ok a =>
      cases hb : processEnums (qual pre mn) enums with
      | error e => intro h'; simp at h'; exact henums _ _ (by rw [hb, h'])
      | ok b =>
        cases hc : processNames (qual pre mn) .field fields with
        | error e => intro h'; simp at h'; exact hnames _ _ _ (by rw [hc, h'])
        | ok c =>
          cases hd : processNames (qual pre mn) .oneof oneofs with
          | error e => intro h'; simp at h'; exact hnames _ _ _ (by rw [hd, h'])
          | ok d => simp
theorem processMsgs_not_decode
    (hnames : ∀ (pre : Name) (k : Kind) (l : List (Option Name)), processNames pre k l ≠ .error .decode)
    (henums : ∀ (pre : Name) (es : List EnumD), processEnums pre es ≠ .error .decode) :
    ∀ (ms : MsgList) (pre : Name), processMsgs pre ms ≠ .error .decode
  | .nil, pre => by simp [processMsgs]
  | .cons m ms, pre => by
    simp only [processMsgs]
    cases ha : processMsg pre m with
    | error e =>
      intro h'; simp at h'
      exact processMsg_not_decode hnames henums m pre (by rw [ha, h'])
    | ok a =>
      cases hb : processMsgs pre ms with
      | error e =>
        intro h'; simp at h'
        exact processMsgs_not_decode hnames henums ms pre (by rw [hb, h'])
      | ok b => simp
end

/-- The loop never reports a decode error (decoding happens before it). -/
theorem processFile_not_decode (f : File) : processFile f ≠ .error .decode := by
  intro h
  have hne : ∀ (pre : Name) (k : Kind) (o : Option Name), extractName pre k o ≠ .error .decode := by
    intro pre k o; cases o <;> simp [extractName]
  have hnames : ∀ (pre : Name) (k : Kind) (l : List (Option Name)), processNames pre k l ≠ .error .decode := by
    intro pre k l
    induction l with
    | nil => simp [processNames]
    | cons x xs ih =>
      cases x with
      | none => simp [processNames, extractName]
      | some n =>
        simp only [processNames, extractName_some]
        cases hr : processNames pre k xs with
        | error e => intro h'; simp at h'; exact ih (by rw [hr, h'])
        | ok r => simp
  have henum : ∀ (pre : Name) (e : EnumD), processEnum pre e ≠ .error .decode := by
    intro pre e
    unfold processEnum
    cases hn : e.name with
    | none => simp [extractName]
    | some en =>
      simp only [extractName_some]
      cases hr : processNames (qual pre en) .enumValue e.values with
      | error err => intro h'; simp at h'; exact hnames _ _ _ (by rw [hr, h'])
      | ok r => simp
  have henums : ∀ (pre : Name) (es : List EnumD), processEnums pre es ≠ .error .decode := by
    intro pre es
    induction es with
    | nil => simp [processEnums]
    | cons e es ih =>
      simp only [processEnums]
      cases ha : processEnum pre e with
      | error err => intro h'; simp at h'; exact henum pre e (by rw [ha, h'])
      | ok a =>
        cases hb : processEnums pre es with
        | error err => intro h'; simp at h'; exact ih (by rw [hb, h'])
        | ok b => simp
  have hsvcs : ∀ (pre : Name) (ss : List Service), processServices pre ss ≠ .error .decode := by
    intro pre ss
    induction ss with
    | nil => simp [processServices]
    | cons sv ss ih =>
      simp only [processServices]
      cases hn : sv.name with
      | none => simp [extractName]
      | some sn =>
        simp only [extractName_some]
        cases hm : processNames (qual pre sn) .method sv.methods with
        | error err => intro h'; simp at h'; exact hnames _ _ _ (by rw [hm, h'])
        | ok ms =>
          cases hr : processServices pre ss with
          | error err => intro h'; simp at h'; exact ih (by rw [hr, h'])
          | ok r => simp
  have hmsgs : ∀ (ms : MsgList) (pre : Name), processMsgs pre ms ≠ .error .decode :=
    processMsgs_not_decode hnames henums
  unfold processFile at h
  simp only at h
  cases ha : processMsgs (f.package.getD []) f.messages with
  | error e => simp [ha] at h; exact hmsgs _ _ (by rw [ha, h])
  | ok a =>
    cases hb : processEnums (f.package.getD []) f.enums with
    | error e => simp [ha, hb] at h; exact henums _ _ (by rw [hb, h])
    | ok b =>
      cases hc : processServices (f.package.getD []) f.services with
      | error e => simp [ha, hb, hc] at h; exact hsvcs _ _ (by rw [hc, h])
      | ok c => simp [ha, hb, hc] at h

theorem addFiles_not_decode {useAll : Bool} : ∀ (fs : List File) (st : State),
    addFiles useAll fs st ≠ .error .decode
  | [], st => by simp [addFiles]
  | f :: fs, st => by
    simp only [addFiles]
    cases f.name with
    | none => simp
    | some nm =>
      simp only
      split
      · exact addFiles_not_decode fs st
      · cases hp : processFile f with
        | error e =>
          intro h'; simp at h'
          exact processFile_not_decode f (by rw [hp, h'])
        | ok r => exact addFiles_not_decode fs _

/-! ### E. the builder -/

theorem decodedSets_flatten (regs : List Reg) :
    (decodedSets regs).flatten = ((regs.filter Reg.isDecoded).map Reg.files).flatten := by
  induction regs with
  | nil => simp [decodedSets]
  | cons r rs ih =>
    cases r with
    | decoded fs =>
      rw [List.filter_cons_of_pos (by rfl)]
      simp only [decodedSets, List.flatten_cons, ih, List.map_cons, Reg.files]
    | encoded o =>
      rw [List.filter_cons_of_neg (by simp [Reg.isDecoded])]
      simp only [decodedSets, ih]

theorem decodeAll_spec (regs : List Reg) :
    (regs.all Reg.decodable = true →
      ∃ enc, decodeAll regs = .ok enc ∧
        enc.flatten = ((regs.filter (fun r => !r.isDecoded)).map Reg.files).flatten) ∧
    (regs.all Reg.decodable = false → decodeAll regs = .error .decode) := by
  induction regs with
  | nil => simp [decodeAll]
  | cons r rs ih =>
    cases r with
    | decoded fs =>
      rw [List.filter_cons_of_neg (by simp [Reg.isDecoded])]
      simpa [decodeAll, Reg.decodable] using ih
    | encoded o =>
      cases o with
      | none => simp [decodeAll, Reg.decodable]
      | some fs =>
        rw [List.filter_cons_of_pos (by simp [Reg.isDecoded])]
        simp only [List.all_cons, Reg.decodable, Bool.true_and, decodeAll]
        constructor
        · intro h
          obtain ⟨enc, he, hf⟩ := ih.1 h
          exact ⟨fs :: enc, by simp [he], by simp [Reg.files, hf]⟩
        · intro h
          simp [ih.2 h]

/-- The state `ReflectionServiceState::new` starts from. -/
def initState (c : Config) : State := { serviceNames := c.chosen.getD [], files := [], symbols := [] }

/-- `build` = decode everything, then run the loop over the files in processing order. -/
theorem build_eq (c : Config) :
    build c = if c.decodable = true then addFiles c.chosen.isNone c.procFiles (initState c)
              else .error .decode := by
  unfold build Config.decodable
  by_cases hd : c.allRegs.all Reg.decodable = true
  · obtain ⟨enc, he, hf⟩ := (decodeAll_spec c.allRegs).1 hd
    rw [if_pos hd]
    simp only [he, List.flatten_append, decodedSets_flatten, hf, Config.procFiles, initState]
  · have hd' := (Bool.not_eq_true _).mp hd
    rw [if_neg hd]
    simp only [(decodeAll_spec c.allRegs).2 hd']

theorem build_ok {c : Config} {st : State} (h : build c = .ok st) :
    c.decodable = true ∧ addFiles c.chosen.isNone c.procFiles (initState c) = .ok st := by
  rw [build_eq] at h
  by_cases hd : c.decodable = true
  · simpa [hd] using h
  · simp [hd] at h

theorem mem_procFiles {c : Config} {f : File} : f ∈ c.procFiles ↔ f ∈ c.files := by
  simp only [Config.procFiles, Config.files, List.mem_append, List.mem_flatten, List.mem_map,
    List.mem_filter]
  constructor
  · rintro (⟨l, ⟨r, ⟨hr, -⟩, rfl⟩, hf⟩ | ⟨l, ⟨r, ⟨hr, -⟩, rfl⟩, hf⟩)
    · exact ⟨_, ⟨r, hr, rfl⟩, hf⟩
    · exact ⟨_, ⟨r, hr, rfl⟩, hf⟩
  · rintro ⟨l, ⟨r, hr, rfl⟩, hf⟩
    by_cases hd : r.isDecoded = true
    · exact Or.inl ⟨_, ⟨r, ⟨hr, hd⟩, rfl⟩, hf⟩
    · exact Or.inr ⟨_, ⟨r, ⟨hr, by simpa using hd⟩, rfl⟩, hf⟩

/-- What holds of every successfully built state. -/
theorem build_good {c : Config} {st : State} (h : build c = .ok st) : Good c.procFiles st := by
  have := addFiles_good (good_init (c.chosen.getD [])) (build_ok h).2
  simpa [initState] using this

theorem procFiles_with_own (c : Config) (o : List File) :
    ({ c with own := some o } : Config).procFiles = ({ c with own := none } : Config).procFiles ++ o := by
  simp [Config.procFiles, Config.allRegs, List.filter_append, Reg.isDecoded, Reg.files]

theorem decodable_with_own (c : Config) (o : List File) :
    ({ c with own := some o } : Config).decodable = ({ c with own := none } : Config).decodable := by
  simp [Config.decodable, Config.allRegs, Reg.decodable]

/-! ### F. the served files, independently of the examination order -/

theorem servedFrom_names_distinct : ∀ (fs done : List File),
    List.Pairwise (fun a b : File => a.name ≠ b.name) (servedFrom done fs)
  | [], _ => by simp [servedFrom]
  | f :: fs, done => by
    simp only [servedFrom]
    split
    · exact servedFrom_names_distinct fs _
    · refine List.pairwise_cons.mpr ⟨fun g hg => ?_, servedFrom_names_distinct fs _⟩
      exact (mem_servedFrom.mp hg).1 f (by simp)

theorem served_nodup (l : List File) : (served l).Nodup :=
  (servedFrom_names_distinct l []).imp (fun h e => h (by rw [e]))

theorem mem_served_of_unconflicted {l : List File} (hu : ∀ f ∈ l, Unconflicted l f) {a : File} :
    a ∈ served l ↔ a ∈ l := by
  simp only [served, mem_servedFrom, List.not_mem_nil, false_imp_iff, implies_true, true_and]
  constructor
  · exact List.mem_of_find?_eq_some
  · intro ha
    have hsome : (l.find? (fun x => decide (x.name = a.name))).isSome = true := by
      rw [List.find?_isSome]; exact ⟨a, ha, by simp⟩
    obtain ⟨g, hg⟩ := Option.isSome_iff_exists.mp hsome
    have hgn : g.name = a.name := by simpa using List.find?_some hg
    rw [hg, hu a ha g (List.mem_of_find?_eq_some hg) hgn]

/-- Without contested file names, which files are served does not depend on the order in which
the registrations are examined. -/
theorem served_perm {l₁ l₂ : List File} (hp : l₁.Perm l₂) (hu : ∀ f ∈ l₂, Unconflicted l₂ f) :
    (served l₁).Perm (served l₂) := by
  have hu1 : ∀ f ∈ l₁, Unconflicted l₁ f := fun f hf g hg hn =>
    hu f (hp.mem_iff.mp hf) g (hp.mem_iff.mp hg) hn
  rw [List.perm_ext_iff_of_nodup (served_nodup l₁) (served_nodup l₂)]
  intro a
  rw [mem_served_of_unconflicted hu1, mem_served_of_unconflicted hu, hp.mem_iff]

theorem procFiles_perm (c : Config) : c.procFiles.Perm c.files := by
  unfold Config.procFiles Config.files
  rw [← List.flatten_append, ← List.map_append]
  exact ((List.filter_append_perm Reg.isDecoded c.allRegs).map Reg.files).flatten

end Reflection
