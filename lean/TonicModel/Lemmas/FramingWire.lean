import TonicModel.Lemmas.FramingRun
import TonicModel.Lemmas.FramingEnc
/-
Wire-format facts: the model's frames are the specification's frames; the naive splitter
inverts `frames`; the reference decoder reads a valid stream back.
-/
namespace Framing
open Spec.Framing
variable {α : Type}

theorem frameOf_eq_spec (cd : Codec α) (cfg : EncCfg) (m : α) :
    frameOf cd cfg m = Spec.Framing.frame (flagByte cfg) (payload cd cfg m) := rfl

theorem framesOf_eq_spec (cd : Codec α) (cfg : EncCfg) (ms : List α) :
    framesOf cd cfg ms = Spec.Framing.frames (ms.map (fun m => (flagByte cfg, payload cd cfg m))) := by
  induction ms with
  | nil => rfl
  | cons m ms ih => simp [framesOf_cons, Spec.Framing.frames, ih, frameOf_eq_spec]

theorem be32_u32 (n : Nat) (h : n < 4294967296) :
    be32 (UInt8.ofNat (n / 16777216 % 256)) (UInt8.ofNat (n / 65536 % 256))
      (UInt8.ofNat (n / 256 % 256)) (UInt8.ofNat (n % 256)) = n := by
  rw [be32_eq_readU32]; exact readU32_u32be n h

/-- The independent splitter recovers exactly the frames that were concatenated. -/
theorem split_frames (l : List (UInt8 × Bytes)) (h : ∀ fp ∈ l, fp.2.length < 4294967296) :
    Spec.Framing.split (Spec.Framing.frames l) = (l, []) := by
  induction l with
  | nil => rw [Spec.Framing.frames, Spec.Framing.split] <;> simp
  | cons fp l ih =>
    obtain ⟨f, p⟩ := fp
    have hp : p.length < 4294967296 := h (f, p) (by simp)
    have ih' := ih (fun x hx => h x (by simp [hx]))
    simp only [Spec.Framing.frames, Spec.Framing.frame, List.cons_append, List.nil_append]
    rw [Spec.Framing.split]
    simp only [be32_u32 p.length hp, List.length_append]
    have : p.length ≤ p.length + (Spec.Framing.frames l).length := by omega
    simp only [this, ↓reduceIte, List.take_left', List.drop_left', ih']

/-- One received message as the sender may have framed it: identity, or compressed with the
negotiated encoding. -/
structure Sent (α : Type) where
  msg : α
  compressed : Bool

def wireOf (cd : Codec α) (enc : Option Enc) (x : Sent α) : UInt8 × Bytes :=
  match x.compressed, enc with
  | true, some e => (1, cd.cz e (cd.ser x.msg))
  | _, _ => (0, cd.ser x.msg)

/-- Well-formedness of a sent stream with respect to a receiver configuration. -/
def SentOk (cd : Codec α) (cfg : DecCfg) (x : Sent α) : Prop :=
  (wireOf cd cfg.enc x).2.length ≤ cfg.limit ∧ (wireOf cd cfg.enc x).2.length < 4294967296

structure CodecLaws (cd : Codec α) : Prop where
  de_ser : ∀ m, cd.de (cd.ser m) = some m
  dz_cz : ∀ e b, cd.dz e (cd.cz e b) = some b

@[simp] theorem recvOf_limit (cd : Codec α) (cfg : DecCfg) : (recvOf cd cfg).limit = cfg.limit := rfl
@[simp] theorem recvOf_hasEnc (cd : Codec α) (cfg : DecCfg) : (recvOf cd cfg).hasEnc = cfg.enc.isSome := rfl
@[simp] theorem recvOf_de (cd : Codec α) (cfg : DecCfg) : (recvOf cd cfg).de = cd.de := rfl
theorem recvOf_dz (cd : Codec α) (cfg : DecCfg) (e : Enc) (h : cfg.enc = some e) (b : Bytes) :
    (recvOf cd cfg).dz b = cd.dz e b := by simp [recvOf, h]

/-- the codec laws restricted to the messages actually sent -/
structure CodecLawsOn (cd : Codec α) (xs : List (Sent α)) : Prop where
  de_ser : ∀ x ∈ xs, cd.de (cd.ser x.msg) = some x.msg
  dz_cz : ∀ e b, cd.dz e (cd.cz e b) = some b

theorem CodecLaws.on {cd : Codec α} (laws : CodecLaws cd) (xs : List (Sent α)) : CodecLawsOn cd xs :=
  ⟨fun x _ => laws.de_ser x.msg, laws.dz_cz⟩

theorem batch_wire_on (cd : Codec α) (cfg : DecCfg) (xs : List (Sent α)) (laws : CodecLawsOn cd xs)
    (h : ∀ x ∈ xs, SentOk cd cfg x) :
    batch (recvOf cd cfg) (Spec.Framing.frames (xs.map (wireOf cd cfg.enc))) = (xs.map (·.msg), .clean) := by
  induction xs with
  | nil => simp [Spec.Framing.frames, batch_nil]
  | cons x xs ih =>
    have hx := h x (by simp)
    have hdx : cd.de (cd.ser x.msg) = some x.msg := laws.de_ser x (by simp)
    have ih' := ih ⟨fun y hy => laws.de_ser y (by simp [hy]), laws.dz_cz⟩ (fun y hy => h y (by simp [hy]))
    obtain ⟨hlim, h32⟩ := hx
    simp only [List.map_cons, Spec.Framing.frames, Spec.Framing.frame, List.cons_append, List.nil_append]
    rw [batch_cons5, be32_u32 _ h32]
    have hnl : ¬ (wireOf cd cfg.enc x).2.length > cfg.limit := by omega
    obtain ⟨m, c⟩ := x
    cases c with
    | false =>
      have hw : wireOf cd cfg.enc ⟨m, false⟩ = (0, cd.ser m) := by simp [wireOf]
      rw [hw] at hnl ⊢
      simp only [header, recvOf_limit, recvOf_hasEnc, recvOf_de, hnl, ↓reduceIte, batchBody, Spec.Framing.payload, List.length_append]
      have : ¬ (cd.ser m).length + (Spec.Framing.frames (xs.map (wireOf cd cfg.enc))).length < (cd.ser m).length := by omega
      simp [this, hdx, ih']
    | true =>
      cases he : cfg.enc with
      | none =>
        have hw : wireOf cd none ⟨m, true⟩ = (0, cd.ser m) := by simp [wireOf]
        rw [he] at hnl ih'
        rw [hw] at hnl ⊢
        simp only [header, recvOf_limit, recvOf_hasEnc, recvOf_de, hnl, ↓reduceIte, batchBody, Spec.Framing.payload, List.length_append]
        have : ¬ (cd.ser m).length + (Spec.Framing.frames (xs.map (wireOf cd none))).length < (cd.ser m).length := by omega
        simp [this, hdx, ih']
      | some e =>
        have hw : wireOf cd (some e) ⟨m, true⟩ = (1, cd.cz e (cd.ser m)) := by simp [wireOf]
        rw [he] at hnl ih'
        rw [hw] at hnl ⊢
        simp only [header, recvOf_limit, recvOf_hasEnc, recvOf_de, recvOf_dz cd cfg e he, he, hnl, ↓reduceIte, batchBody, Spec.Framing.payload, List.length_append]
        have : ¬ (cd.cz e (cd.ser m)).length + (Spec.Framing.frames (xs.map (wireOf cd (some e)))).length
            < (cd.cz e (cd.ser m)).length := by omega
        simp [this, laws.dz_cz, hdx, ih']

theorem batch_wire (cd : Codec α) (cfg : DecCfg) (laws : CodecLaws cd) (xs : List (Sent α))
    (h : ∀ x ∈ xs, SentOk cd cfg x) :
    batch (recvOf cd cfg) (Spec.Framing.frames (xs.map (wireOf cd cfg.enc))) = (xs.map (·.msg), .clean) :=
  batch_wire_on cd cfg xs (laws.on xs) h

end Framing
